"""Fail-closed Python-ast -> Gallina translator for the small pure kernels of summer2
(DESIGN.md section 1, tie (T)).  It regenerates coq/Gen/*.v from /repo's current working tree on
every run; the kernel theorems (coq/Proofs/*Bridge.v, coq/Props/C07.v, C16.v, ...) are stated about
the generated definitions, so an edit to a kernel changes what they are about.

Supported subset (anything else raises Unsupported and the proof stage reports it):
  statements : `x = e`, `a, b = state`, `return e` / `return (e1, e2)`
  expressions: names, int/float literals (read as exact rationals), + - * /, unary -, < <= > >=,
               e[i] (clamped gather), jnp.where(c, a, b), whitelisted calls per kernel
  types      : S scalar (F O), V vector (list (F O)), Z integer, B bool -- inferred bottom-up; the
               operator is chosen from the operand types (S*V = vscale, V+V = vadd, V/S = vdivs, ...)
"""
import ast
import os
import sys
from fractions import Fraction

HERE = os.path.dirname(os.path.abspath(__file__))
VERIF = os.path.dirname(HERE)
GEN = os.path.join(VERIF, "coq", "Gen")
REPO = os.environ.get("VERIF_REPO", "/repo")


class Unsupported(Exception):
    pass


def qlit(fr):
    fr = Fraction(fr)
    n, d = fr.numerator, fr.denominator
    return "(%s # %d)" % (("(%d)" % n) if n < 0 else str(n), d)


def const_fraction(node):
    """exact rational value of a constant arithmetic expression (tableau entries)"""
    if isinstance(node, ast.Constant) and isinstance(node.value, (int, float)) and not isinstance(node.value, bool):
        return Fraction(str(node.value)) if isinstance(node.value, float) else Fraction(node.value)
    if isinstance(node, ast.UnaryOp) and isinstance(node.op, ast.USub):
        return -const_fraction(node.operand)
    if isinstance(node, ast.BinOp):
        a, b = const_fraction(node.left), const_fraction(node.right)
        if isinstance(node.op, ast.Add):
            return a + b
        if isinstance(node.op, ast.Sub):
            return a - b
        if isinstance(node.op, ast.Mult):
            return a * b
        if isinstance(node.op, ast.Div):
            return a / b
    raise Unsupported("not a constant arithmetic expression: " + ast.dump(node)[:200])


def find_func(tree, dotted):
    """locate a (nested) function definition by dotted path"""
    cur = tree
    for name in dotted.split("."):
        found = None
        for node in ast.walk(cur) if cur is tree else ast.iter_child_nodes(cur):
            if isinstance(node, ast.FunctionDef) and node.name == name:
                found = node
                break
        if found is None:
            # nested defs may sit deeper than direct children
            for node in ast.walk(cur):
                if isinstance(node, ast.FunctionDef) and node.name == name and node is not cur:
                    found = node
                    break
        if found is None:
            raise Unsupported("function %s not found (looking for %s)" % (name, dotted))
        cur = found
    return cur


class Tr:
    """typed expression translator"""

    def __init__(self, env, calls=None):
        self.env = dict(env)          # python name -> (coq term, type)
        self.calls = calls or {}

    def expr(self, node):
        if isinstance(node, ast.Name):
            if node.id not in self.env:
                raise Unsupported("unknown name " + node.id)
            return self.env[node.id]
        if isinstance(node, ast.Attribute):
            key = ast.unparse(node)
            if key in self.env:
                return self.env[key]
            raise Unsupported("unknown attribute " + key)
        if isinstance(node, ast.Constant):
            if isinstance(node.value, bool) or not isinstance(node.value, (int, float)):
                raise Unsupported("literal %r" % (node.value,))
            if isinstance(node.value, int):
                return (str(node.value), "N")          # untyped numeral: becomes Z or S by context
            return ("(of_Q O %s)" % qlit(Fraction(str(node.value))), "S")
        if isinstance(node, ast.UnaryOp) and isinstance(node.op, ast.USub):
            t, ty = self.expr(node.operand)
            if ty == "N":
                return ("(-%s)" % t, "N")
            if ty == "S":
                return ("(fopp O %s)" % t, "S")
            if ty == "Z":
                return ("(Z.opp %s)" % t, "Z")
            raise Unsupported("unary minus on " + ty)
        if isinstance(node, ast.BinOp):
            return self.binop(node)
        if isinstance(node, ast.Compare) and len(node.ops) == 1:
            a, ta = self.expr(node.left)
            b, tb = self.expr(node.comparators[0])
            a, b, ty = self.unify(a, ta, b, tb)
            op = node.ops[0]
            if ty == "S":
                m = {ast.Lt: "(fltb O %s %s)" % (a, b), ast.Gt: "(fltb O %s %s)" % (b, a),
                     ast.LtE: "(fleb O %s %s)" % (a, b), ast.GtE: "(fleb O %s %s)" % (b, a)}
            elif ty == "Z":
                m = {ast.Lt: "(Z.ltb %s %s)" % (a, b), ast.Gt: "(Z.ltb %s %s)" % (b, a),
                     ast.LtE: "(Z.leb %s %s)" % (a, b), ast.GtE: "(Z.leb %s %s)" % (b, a)}
            else:
                raise Unsupported("comparison of " + ty)
            if type(op) not in m:
                raise Unsupported("comparison operator " + ast.dump(op))
            return (m[type(op)], "B")
        if isinstance(node, ast.Subscript):
            a, ta = self.expr(node.value)
            i, ti = self.expr(node.slice)
            if ta == "V" and ti in ("Z", "N"):
                return ("(zget O %s %s)" % (a, self.as_z(i, ti)), "S")
            raise Unsupported("subscript %s[%s]" % (ta, ti))
        if isinstance(node, ast.Call):
            return self.call(node)
        raise Unsupported("expression " + ast.dump(node)[:200])

    def as_z(self, t, ty):
        if ty == "N":
            return "(%s)%%Z" % t
        if ty == "Z":
            return t
        raise Unsupported("expected integer, got " + ty)

    def as_s(self, t, ty):
        if ty == "N":
            return "(of_Q O %s)" % qlit(Fraction(t.replace("(", "").replace(")", "")))
        if ty == "S":
            return t
        raise Unsupported("expected scalar, got " + ty)

    def unify(self, a, ta, b, tb):
        if ta == "N" and tb == "N":
            return a, b, "N"
        if "Z" in (ta, tb) and {ta, tb} <= {"Z", "N"}:
            return self.as_z(a, ta), self.as_z(b, tb), "Z"
        if "S" in (ta, tb) and {ta, tb} <= {"S", "N"}:
            return self.as_s(a, ta), self.as_s(b, tb), "S"
        return a, b, (ta if ta == tb else ta + tb)

    def binop(self, node):
        a, ta = self.expr(node.left)
        b, tb = self.expr(node.right)
        op = type(node.op)
        if ta == "N" and tb == "N":
            fr = const_fraction(node)
            if fr.denominator == 1:
                return (str(fr.numerator), "N")
            return ("(of_Q O %s)" % qlit(fr), "S")
        names = {ast.Add: "add", ast.Sub: "sub", ast.Mult: "mul", ast.Div: "div"}
        if op not in names:
            raise Unsupported("operator " + ast.dump(node.op))
        o = names[op]
        if {ta, tb} <= {"Z", "N"}:
            a, b = self.as_z(a, ta), self.as_z(b, tb)
            if o == "div":
                raise Unsupported("integer division")
            return ("(Z.%s %s %s)" % (o, a, b), "Z")
        if {ta, tb} <= {"S", "N"}:
            a, b = self.as_s(a, ta), self.as_s(b, tb)
            return ("(f%s O %s %s)" % (o, a, b), "S")
        if ta == "V" and tb == "V":
            return ("(v%s O %s %s)" % (o, a, b), "V")
        if ta == "V" and tb in ("S", "N"):
            b = self.as_s(b, tb)
            if o == "mul":
                return ("(vscale O %s %s)" % (b, a), "V")
            if o == "div":
                return ("(vdivs O %s %s)" % (a, b), "V")
        if tb == "V" and ta in ("S", "N") and o == "mul":
            return ("(vscale O %s %s)" % (self.as_s(a, ta), b), "V")
        raise Unsupported("operator %s on %s, %s" % (o, ta, tb))

    def call(self, node):
        f = node.func
        # (0.5 * (a + b)).astype(int): truncating integer midpoint
        if isinstance(f, ast.Attribute) and f.attr == "astype" and len(node.args) == 1 \
                and isinstance(node.args[0], ast.Name) and node.args[0].id == "int":
            inner = f.value
            if isinstance(inner, ast.BinOp) and isinstance(inner.op, ast.Mult) and isinstance(inner.left, ast.Constant) \
                    and inner.left.value == 0.5:
                z, tz = self.expr(inner.right)
                return ("(Z.quot %s 2%%Z)" % self.as_z(z, tz), "Z")
            raise Unsupported("astype(int) of " + ast.dump(inner)[:120])
        name = ast.unparse(f)
        if name == "jnp.where" and len(node.args) == 3:
            c, tc = self.expr(node.args[0])
            a, ta = self.expr(node.args[1])
            b, tb = self.expr(node.args[2])
            a, b, ty = self.unify(a, ta, b, tb)
            if tc != "B":
                raise Unsupported("where condition of type " + tc)
            if ty == "SV" or ty == "NV":
                # jnp.where(v < 0, 0.0, v): element-wise, handled by the clean kernel
                raise Unsupported("vector where")
            return ("(if %s then %s else %s)" % (c, a, b), ty)
        if name in self.calls:
            return self.calls[name](self, node)
        raise Unsupported("call to " + name)


def let_chain(tr, stmts, result_names):
    """translate a straight-line block; returns Gallina text ending in the tuple of result_names"""
    lines = []
    for st in stmts:
        if isinstance(st, ast.Assign) and len(st.targets) == 1 and isinstance(st.targets[0], ast.Name):
            t, ty = tr.expr(st.value)
            nm = st.targets[0].id
            if ty == "N":
                raise Unsupported("untyped numeral bound to " + nm)
            lines.append("let %s := %s in" % (nm, t))
            tr.env[nm] = (nm, ty)
        else:
            raise Unsupported("statement " + ast.dump(st)[:160])
    res = [tr.env[n][0] for n in result_names]
    return "\n  ".join(lines + [res[0] if len(res) == 1 else "(" + ", ".join(res) + ")"])


def expect(cond, what):
    if not cond:
        raise Unsupported("kernel skeleton changed: " + what)


def src_equal(node, text):
    return ast.dump(node) == ast.dump(ast.parse(text).body[0])


HEADER = """(* GENERATED by harness/py2coq.py from %s -- do not edit; regenerated on every run. *)
From Coq Require Import QArith ZArith List Bool.
Import ListNotations.
From S2 Require Import Base.Num Base.Arr Base.ZArr.
"""


# ------------------------------------------------------------------------------------- solvers.py
def gen_solvers(repo):
    path = os.path.join(repo, "summer2/runner/jax/solvers.py")
    tree = ast.parse(open(path).read())

    def rates_call(tr, node):
        expect(len(node.args) == 4, "get_comp_rates arity")
        y, ty = tr.expr(node.args[0])
        t, tt = tr.expr(node.args[1])
        expect(ty == "V" and tt == "S", "get_comp_rates(comp_vals, t, ...) argument types")
        return ("(f %s %s)" % (t, y), "V")

    out = [HEADER % "summer2/runner/jax/solvers.py"]
    # --- rk4
    rk4 = find_func(tree, "rk4")
    body = find_func(rk4, "body")
    cond = find_func(rk4, "cond")
    st = body.body
    expect(any(src_equal(s, "timestep = times[1] - times[0]") for s in rk4.body), "rk4: timestep = times[1] - times[0]")
    expect(any(src_equal(s, "max_i = len(times) - 1") for s in rk4.body), "rk4: max_i = len(times) - 1")
    expect(any(src_equal(s, "out_vals = out_vals.at[0].set(initial_population)") for s in rk4.body), "rk4: row 0 = initial population")
    expect(src_equal(st[0], "i, out_vals = state"), "rk4.body: i, out_vals = state")
    expect(src_equal(st[1], "t = times[i]"), "rk4.body: t = times[i]")
    expect(src_equal(st[2], "comp_vals = out_vals[i]"), "rk4.body: comp_vals = out_vals[i]")
    expect(src_equal(st[-2], "out_vals = out_vals.at[i + 1].set(comp_vals)"), "rk4.body: row i+1 := comp_vals")
    expect(src_equal(st[-1], "return i + 1, out_vals"), "rk4.body: return i + 1, out_vals")
    expect(src_equal(cond.body[-1], "return i < max_i"), "rk4.cond: i < max_i")
    tr = Tr({"timestep": ("timestep", "S"), "t": ("t", "S"), "comp_vals": ("comp_vals", "V")},
            {"get_comp_rates": rates_call})
    txt = let_chain(tr, st[3:-2], ["comp_vals"])
    out.append("Definition gen_rk4_step (O : NumOps) (f : F O -> list (F O) -> list (F O)) (timestep t : F O)\n"
               "  (comp_vals : list (F O)) : list (F O) :=\n  %s.\n" % txt)
    # --- euler
    eu = find_func(tree, "euler")
    body = find_func(eu, "body")
    st = body.body
    expect(any(src_equal(s, "timestep = times[1] - times[0]") for s in eu.body), "euler: timestep = times[1] - times[0]")
    expect(any(src_equal(s, "times = jnp.linspace(times[0], times[-1], len(times))") for s in eu.body), "euler: times grid")
    expect(any(src_equal(s, "out_vals = out_vals.at[0].set(initial_population)") for s in eu.body), "euler: row 0 = initial population")
    expect(any(src_equal(s, "irange = jnp.arange(0, max_i)") for s in eu.body), "euler: irange")
    expect(src_equal(st[0], "out_vals, comp_vals = carry"), "euler.body: carry")
    expect(src_equal(st[1], "t = times[i]"), "euler.body: t = times[i]")
    expect(src_equal(st[-2], "out_vals = out_vals.at[i + 1].set(comp_vals)"), "euler.body: row i+1 := comp_vals")
    expect(src_equal(st[-1], "return (out_vals, comp_vals), i + 1"), "euler.body: return")
    tr = Tr({"timestep": ("timestep", "S"), "t": ("t", "S"), "comp_vals": ("comp_vals", "V")},
            {"get_comp_rates": rates_call})
    txt = let_chain(tr, st[2:-2], ["comp_vals"])
    out.append("Definition gen_euler_step (O : NumOps) (f : F O -> list (F O) -> list (F O)) (timestep t : F O)\n"
               "  (comp_vals : list (F O)) : list (F O) :=\n  %s.\n" % txt)
    return "SolversGen.v", "\n".join(out)


# ------------------------------------------------------------------------------------- ode.py
def list_of(node):
    # jnp.array([...], dtype=...)
    if isinstance(node, ast.Call) and ast.unparse(node.func) == "jnp.array":
        node = node.args[0]
    if not isinstance(node, ast.List):
        raise Unsupported("expected a list literal: " + ast.dump(node)[:100])
    return node.elts


def gen_ode(repo):
    path = os.path.join(repo, "summer2/runner/jax/ode.py")
    tree = ast.parse(open(path).read())
    rk = find_func(tree, "runge_kutta_step")
    tabs = {}
    for s in rk.body:
        if isinstance(s, ast.Assign) and isinstance(s.targets[0], ast.Name) and s.targets[0].id in ("alpha", "beta", "c_sol", "c_error"):
            tabs[s.targets[0].id] = s.value
    expect(set(tabs) == {"alpha", "beta", "c_sol", "c_error"}, "runge_kutta_step tables")
    interp = find_func(tree, "interp_fit_dopri")
    mid = [s for s in interp.body if isinstance(s, ast.Assign) and s.targets[0].id == "dps_c_mid"]
    expect(len(mid) == 1, "interp_fit_dopri: dps_c_mid")
    expect(any(src_equal(s, "y_mid = y0 + dt.astype(y0.dtype) * jnp.dot(dps_c_mid, k)") for s in interp.body), "interp_fit_dopri: y_mid")
    expect(src_equal(interp.body[-1], "return jnp.asarray(fit_4th_order_polynomial(y0, y1, y_mid, k[0], k[-1], dt))"),
           "interp_fit_dopri: return")
    # structure of the step
    body_fun = find_func(rk, "body_fun")
    expect(src_equal(body_fun.body[0], "ti = t0 + dt * alpha[i - 1]"), "body_fun: ti")
    expect(src_equal(body_fun.body[1], "yi = y0 + dt.astype(f0.dtype) * jnp.dot(beta[i - 1, :], k)"), "body_fun: yi")
    expect(src_equal(body_fun.body[2], "ft = func(yi, ti)"), "body_fun: ft")
    expect(src_equal(body_fun.body[3], "return k.at[i, :].set(ft)"), "body_fun: k row")
    expect(any(src_equal(s, "k = lax.fori_loop(1, 7, body_fun, k)") for s in rk.body), "runge_kutta_step: fori_loop(1, 7)")
    expect(any(src_equal(s, "y1 = dt.astype(f0.dtype) * jnp.dot(c_sol, k) + y0") for s in rk.body), "runge_kutta_step: y1")
    expect(any(src_equal(s, "y1_error = dt.astype(f0.dtype) * jnp.dot(c_error, k)") for s in rk.body), "runge_kutta_step: y1_error")

    def qlist(elts):
        return "[" + "; ".join(qlit(const_fraction(e)) for e in elts) + "]"

    out = [HEADER % "summer2/runner/jax/ode.py", "Local Open Scope Q_scope.\n"]
    out.append("Definition dp_alpha : list Q := %s.\n" % qlist(list_of(tabs["alpha"])))
    rows = list_of(tabs["beta"])
    out.append("Definition dp_beta : list (list Q) :=\n  [" + ";\n   ".join(qlist(list_of(r)) for r in rows) + "].\n")
    out.append("Definition dp_c_sol : list Q := %s.\n" % qlist(list_of(tabs["c_sol"])))
    out.append("Definition dp_c_error : list Q := %s.\n" % qlist(list_of(tabs["c_error"])))
    out.append("Definition dp_c_mid : list Q := %s.\n" % qlist(list_of(mid[0].value)))
    # fit_4th_order_polynomial over scalars
    fit = find_func(tree, "fit_4th_order_polynomial")
    expect([a.arg for a in fit.args.args] == ["y0", "y1", "y_mid", "dy0", "dy1", "dt"], "fit_4th_order_polynomial arguments")
    expect(src_equal(fit.body[0], "dt = dt.astype(y0.dtype)"), "fit_4th_order_polynomial: dt cast")
    expect(src_equal(fit.body[-1], "return a, b, c, d, e"), "fit_4th_order_polynomial: return a, b, c, d, e")
    tr = Tr({n: (n, "S") for n in ["y0", "y1", "y_mid", "dy0", "dy1", "dt"]})
    txt = let_chain(tr, fit.body[1:-1], ["a", "b", "c", "d", "e"])
    out.append("Local Close Scope Q_scope.\n"
               "Definition gen_fit_4th_order_polynomial (O : NumOps) (y0 y1 y_mid dy0 dy1 dt : F O)\n"
               "  : F O * F O * F O * F O * F O :=\n  %s.\n" % txt)
    # error ratio and acceptance
    odeint = find_func(tree, "_odeint")
    bf = find_func(odeint, "body_fun")
    expect(src_equal(bf.body[-1], "return map(partial(jnp.where, error_ratio <= 1.0), new, old)"), "_odeint.body_fun: accept iff error_ratio <= 1")
    expect(any(src_equal(s, "new = [i + 1, next_y, next_f, next_t, dt, t, new_interp_coeff]") for s in bf.body), "_odeint.body_fun: new state")
    expect(any(src_equal(s, "old = [i + 1, y, f, t, dt, last_t, interp_coeff]") for s in bf.body), "_odeint.body_fun: old state")
    sf = find_func(odeint, "scan_fun")
    expect(any(src_equal(s, "relative_output_time = (target_t - last_t) / (t - last_t)") for s in sf.body), "scan_fun: relative output time")
    expect(any(src_equal(s, "y_target = jnp.polyval(interp_coeff, relative_output_time.astype(interp_coeff.dtype))") for s in sf.body), "scan_fun: polyval")
    cf = find_func(sf, "cond_fun")
    expect(src_equal(cf.body[-1], "return (t < target_t) & (i < mxstep) & (dt > 0)"), "scan_fun.cond_fun")
    expect(src_equal(odeint.body[-1], "return jnp.concatenate((y0[None], ys))"), "_odeint: row 0 = y0")
    return "OdeGen.v", "\n".join(out)


# ------------------------------------------------------------------------------------- functions/util.py
def gen_util(repo):
    path = os.path.join(repo, "summer2/functions/util.py")
    tree = ast.parse(open(path).read())
    bs = find_func(tree, "binary_search_sum_ge")
    cond = find_func(bs, "cond")
    body = find_func(bs, "body")
    expect(src_equal(cond.body[0], "low, high = state") and src_equal(body.body[0], "low, high = state"), "binary search: state unpack")
    expect(src_equal(body.body[-1], "return (low, high)"), "binary search body: return (low, high)")
    expect(any(src_equal(s, "low, high = lax.while_loop(cond, body, (-1, len(points) - 1))") for s in bs.body),
           "binary search: while_loop from (-1, len(points) - 1)")
    expect(src_equal(bs.body[-1], "return lax.cond(x < points[high], lambda: low, lambda: high) + 1"), "binary search: final cond + 1")
    env = {"low": ("low", "Z"), "high": ("high", "Z"), "x": ("x", "S"), "points": ("points", "V")}
    tr = Tr(env)
    ret = cond.body[-1]
    expect(isinstance(ret, ast.Return), "binary search cond: return")
    c, tc = tr.expr(ret.value)
    expect(tc == "B", "binary search cond type")
    out = [HEADER % "summer2/functions/util.py"]
    out.append("Definition gen_bs_cond (low high : Z) : bool :=\n  %s.\n" % c)
    tr = Tr(env)
    txt = let_chain(tr, body.body[1:-1], ["low", "high"])
    out.append("Definition gen_bs_body (O : NumOps) (x : F O) (points : list (F O)) (low high : Z) : Z * Z :=\n  %s.\n" % txt)
    out.append("Definition gen_bs_final (O : NumOps) (x : F O) (points : list (F O)) (low high : Z) : Z :=\n"
               "  Z.add (if fltb O x (zget O points high) then low else high) 1%Z.\n")
    out.append("Definition gen_binary_search_sum_ge (O : NumOps) (x : F O) (points : list (F O)) : Z :=\n"
               "  let '(low, high) := zwhile (List.length points) (fun st => gen_bs_cond (fst st) (snd st))\n"
               "                              (fun st => gen_bs_body O x points (fst st) (snd st))\n"
               "                              ((-1)%Z, (Z.of_nat (List.length points) - 1)%Z) in\n"
               "  gen_bs_final O x points low high.\n")
    pc = find_func(tree, "piecewise_constant")
    expect(src_equal(pc.body[0], "index = binary_search_sum_ge(x, breakpoints)") and src_equal(pc.body[1], "return values[index]"),
           "piecewise_constant: values[binary_search_sum_ge(x, breakpoints)]")
    out.append("Definition gen_piecewise_constant (O : NumOps) (x : F O) (breakpoints values : list (F O)) : F O :=\n"
               "  zget O values (gen_binary_search_sum_ge O x breakpoints).\n")
    return "UtilGen.v", "\n".join(out)


# ------------------------------------------------------------------------------------- functions/interpolate.py
def gen_interpolate(repo):
    path = os.path.join(repo, "summer2/functions/interpolate.py")
    tree = ast.parse(open(path).read())
    out = [HEADER % "summer2/functions/interpolate.py", "From S2 Require Import Gen.UtilGen.\n"]
    lin = find_func(tree, "_get_linear_curve_at_x")
    b = [s for s in lin.body if not (isinstance(s, ast.Expr) and isinstance(s.value, ast.Constant))]
    expect(src_equal(b[0], "idx = binary_search_sum_ge(x, xdata.points) - 1"), "linear curve: idx")
    expect(src_equal(b[1], "offset = x - xdata.points[idx]"), "linear curve: offset")
    expect(src_equal(b[2], "relx = offset / xdata.ranges[idx]"), "linear curve: relx")
    expect(src_equal(b[3], "return ydata.points[idx] + (relx * ydata.ranges[idx])"), "linear curve: return")
    sd = find_func(tree, "get_scale_data")
    sb = [s for s in sd.body if not (isinstance(s, ast.Expr) and isinstance(s.value, ast.Constant))]
    expect(src_equal(sb[0], "ranges = jnp.diff(points)"), "get_scale_data: ranges = diff(points)")
    expect(src_equal(sb[1], "lpoint = points[0]") and src_equal(sb[2], "rpoint = points[-1]"), "get_scale_data: bounds")
    expect(src_equal(sb[3], "return InterpolatorScaleData(points, ranges, jnp.array([lpoint, rpoint]))"), "get_scale_data: return")
    il = find_func(tree, "interpolate_linear")
    ib = [s for s in il.body if not (isinstance(s, ast.Expr) and isinstance(s.value, ast.Constant))]
    expect(src_equal(ib[0], "bounds_state = sum(t > xdata.bounds)"), "interpolate_linear: bounds_state")
    expect(ast.unparse(ib[1]).replace("\n", " ").replace("  ", " ").startswith("branches = [lambda _, __, ___: ydata.bounds[0], _get_linear_curve_at_x, lambda _, __, ___: ydata.bounds[1]]")
           or ast.dump(ib[1]) == ast.dump(ast.parse("branches = [lambda _, __, ___: ydata.bounds[0], _get_linear_curve_at_x, lambda _, __, ___: ydata.bounds[1]]").body[0]),
           "interpolate_linear: branches")
    expect(src_equal(ib[2], "return lax.switch(bounds_state, branches, t, xdata, ydata)"), "interpolate_linear: switch")
    def bs_call(tr, node):
        expect(len(node.args) == 2, "binary_search_sum_ge arity")
        x, tx = tr.expr(node.args[0])
        pts, tp = tr.expr(node.args[1])
        expect(tx == "S" and tp == "V", "binary_search_sum_ge(x, points) types")
        return ("(gen_binary_search_sum_ge O %s %s)" % (x, pts), "Z")

    def sig_call(tr, node):
        a, ta = tr.expr(node.args[0])
        return ("(sig %s)" % tr.as_s(a, ta), "S")

    def curve(fn_body, name, with_sig):
        env = {"x": ("x", "S"), "xdata.points": ("xs", "V"), "xdata.ranges": ("(zdiff O xs)", "V"),
               "ydata.points": ("ys", "V"), "ydata.ranges": ("(zdiff O ys)", "V")}
        tr = Tr(env, {"binary_search_sum_ge": bs_call, "sig": sig_call})
        ret = fn_body[-1]
        expect(isinstance(ret, ast.Return), name + ": return")
        body = fn_body[:-1] + [ast.Assign(targets=[ast.Name(id="result__", ctx=ast.Store())], value=ret.value)]
        txt = let_chain(tr, body, ["result__"])
        sigarg = "(sig : F O -> F O) " if with_sig else ""
        return "Definition %s (O : NumOps) %s(x : F O) (xs ys : list (F O)) : F O :=\n  %s.\n" % (name, sigarg, txt)

    out.append(curve(b, "gen_linear_curve_at_x", False))
    out.append(curve(list(find_func(find_func(tree, "build_sigmoidal_multicurve"), "_get_sigmoidal_curve_at_x").body),
                     "gen_sigmoidal_curve_at_x", True))
    out.append("""(* interpolate_linear / interpolate_sigmoidal: branch on sum(t > bounds) with lax.switch *)
Definition gen_bounds_state (O : NumOps) (t : F O) (xs : list (F O)) : nat :=
  Nat.add (if fltb O (zget O xs 0%Z) t then 1%nat else 0%nat) (if fltb O (zget O xs (-1)%Z) t then 1%nat else 0%nat).

Definition gen_interpolate_linear (O : NumOps) (t : F O) (xs ys : list (F O)) : F O :=
  match gen_bounds_state O t xs with
  | 0%nat => zget O ys 0%Z
  | 1%nat => gen_linear_curve_at_x O t xs ys
  | _ => zget O ys (-1)%Z
  end.

Definition gen_interpolate_sigmoidal (O : NumOps) (sig : F O -> F O) (t : F O) (xs ys : list (F O)) : F O :=
  match gen_bounds_state O t xs with
  | 0%nat => zget O ys 0%Z
  | 1%nat => gen_sigmoidal_curve_at_x O sig t xs ys
  | _ => zget O ys (-1)%Z
  end.
""")

    # sigmoid: same skeleton with rely = sig(relx)
    sg = find_func(tree, "build_sigmoidal_multicurve")
    cur = find_func(sg, "_get_sigmoidal_curve_at_x")
    cb = cur.body
    expect(src_equal(cb[0], "idx = binary_search_sum_ge(x, xdata.points) - 1"), "sigmoidal curve: idx")
    expect(src_equal(cb[1], "offset = x - xdata.points[idx]"), "sigmoidal curve: offset")
    expect(src_equal(cb[2], "relx = offset / xdata.ranges[idx]"), "sigmoidal curve: relx")
    expect(src_equal(cb[3], "rely = sig(relx)"), "sigmoidal curve: rely")
    expect(src_equal(cb[4], "return ydata.points[idx] + (rely * ydata.ranges[idx])"), "sigmoidal curve: return")
    isg = find_func(sg, "interpolate_sigmoidal")
    expect(src_equal(isg.body[0], "bounds_state = sum(t > xdata.bounds)"), "interpolate_sigmoidal: bounds_state")
    expect(src_equal(isg.body[-1], "return lax.switch(bounds_state, branches, t, xdata, ydata)"), "interpolate_sigmoidal: switch")
    us = find_func(tree, "_uncorrected_sigmoid")
    ub = [s for s in us.body if not (isinstance(s, ast.Expr) and isinstance(s.value, ast.Constant))]
    expect(src_equal(ub[0], "arg = curvature * (0.5 - x)") and src_equal(ub[1], "return 1.0 / (1.0 + jnp.exp(arg))"), "_uncorrected_sigmoid")
    ns = find_func(tree, "make_norm_sigmoid")
    nb = [s for s in ns.body if not (isinstance(s, ast.Expr) and isinstance(s.value, ast.Constant))]
    expect(src_equal(nb[0], "offset = _uncorrected_sigmoid(0.0, curvature)"), "make_norm_sigmoid: offset")
    expect(src_equal(nb[1], "scale = 1.0 / (1.0 - (offset * 2.0))"), "make_norm_sigmoid: scale")
    sig = find_func(ns, "sig")
    expect(src_equal(sig.body[0], "return (_uncorrected_sigmoid(x, curvature) - offset) * scale"), "make_norm_sigmoid.sig")
    out.append("""(* make_norm_sigmoid, generic in the exponential *)
Definition gen_uncorrected_sigmoid (O : NumOps) (fexp : F O -> F O) (x curvature : F O) : F O :=
  fdiv O (f1 O) (fadd O (f1 O) (fexp (fmul O curvature (fsub O (of_Q O (1 # 2)) x)))).
Definition gen_norm_sigmoid (O : NumOps) (fexp : F O -> F O) (curvature : F O) (x : F O) : F O :=
  let offset := gen_uncorrected_sigmoid O fexp (f0 O) curvature in
  let scale := fdiv O (f1 O) (fsub O (f1 O) (fmul O offset (of_Q O 2))) in
  fmul O (fsub O (gen_uncorrected_sigmoid O fexp x curvature) offset) scale.
""")
    return "InterpolateGen.v", "\n".join(out)


# ------------------------------------------------------------------------------------- model_impl / derived outputs
def gen_misc(repo):
    out = [HEADER % "summer2/runner/jax/model_impl.py"]
    tree = ast.parse(open(os.path.join(repo, "summer2/runner/jax/model_impl.py")).read())
    cc = find_func(tree, "clean_compartments")
    expect(src_equal(cc.body[0], "return jnp.where(compartment_values < 0.0, 0.0, compartment_values)"), "clean_compartments")
    out.append("Definition gen_clean_compartments (O : NumOps) (compartment_values : list (F O)) : list (F O) :=\n"
               "  map (fun v => if fltb O v (of_Q O 0) then of_Q O 0 else v) compartment_values.\n")
    foi = find_func(tree, "get_force_of_infection")
    fb = [s for s in foi.body if not (isinstance(s, ast.Expr) and isinstance(s.value, ast.Constant))]
    expect(src_equal(fb[0], "infected_values = strain_infectious_values * strain_compartment_infectiousness"), "foi: infected_values")
    expect(src_equal(fb[1], "infectious_populations = jnp.sum(infected_values[strain_category_indexer], axis=-1)"), "foi: infectious_populations")
    expect(src_equal(fb[2], "infection_density = mixing_matrix @ infectious_populations"), "foi: density")
    expect(src_equal(fb[3], "category_prevalence = infectious_populations / category_populations"), "foi: prevalence")
    expect(src_equal(fb[4], "infection_frequency = mixing_matrix @ category_prevalence"), "foi: frequency")
    expect(src_equal(fb[5], "return {'infection_density': infection_density, 'infection_frequency': infection_frequency}"), "foi: return")
    out.append("Definition gen_force_of_infection (O : NumOps) (freq : bool) (strain_infectious_values strain_compartment_infectiousness : list (F O))\n"
               "  (strain_category_indexer : list (list nat)) (mixing_matrix : list (list (F O))) (category_populations : list (F O)) : list (F O) :=\n"
               "  let infected_values := vmul O strain_infectious_values strain_compartment_infectiousness in\n"
               "  let infectious_populations := map (fun row => fsum O (gather (f0 O) infected_values row)) strain_category_indexer in\n"
               "  let infection_density := matvec O mixing_matrix infectious_populations in\n"
               "  let category_prevalence := vdiv O infectious_populations category_populations in\n"
               "  let infection_frequency := matvec O mixing_matrix category_prevalence in\n"
               "  if freq then infection_frequency else infection_density.\n")
    return "MiscGen.v", "\n".join(out)


def gen_derived(repo):
    out = [HEADER % "summer2/runner/jax/derived_outputs.py"]
    tree = ast.parse(open(os.path.join(repo, "summer2/runner/jax/derived_outputs.py")).read())
    bfo = find_func(tree, "build_flow_output")
    gfo = [n for n in ast.walk(bfo) if isinstance(n, ast.FunctionDef) and n.name == "get_flow_output"]
    expect(len(gfo) == 2, "build_flow_output: raw and midpoint variants")
    raw, midp = gfo[0], gfo[1]
    expect(src_equal(raw.body[0], "return flows[:, flow_indices].sum(axis=1)"), "raw flow output")
    expect(src_equal(midp.body[0], "flow_vals = flows[:, flow_indices].sum(axis=1)"), "midpoint: flow_vals")
    expect(src_equal(midp.body[1], "midpoint_output = jnp.zeros(times.shape)"), "midpoint: zeros")
    expect(src_equal(midp.body[2], "midpoint_output = midpoint_output.at[0].set(flow_vals[0])"), "midpoint: first value kept")
    expect(src_equal(midp.body[3], "interp_vals = (flow_vals[1:] + flow_vals[:-1]) * 0.5"), "midpoint: means of neighbours")
    expect(src_equal(midp.body[4], "midpoint_output = midpoint_output.at[1:].set(interp_vals)"), "midpoint: rows 1..")
    expect(src_equal(midp.body[5], "return midpoint_output"), "midpoint: return")
    out.append("Definition gen_midpoint_output (O : NumOps) (flow_vals : list (F O)) : list (F O) :=\n"
               "  match flow_vals with\n  | [] => []\n"
               "  | v0 :: _ => v0 :: vscale O (of_Q O (1 # 2)) (vadd O (tl flow_vals) (removelast flow_vals))\n  end.\n")
    bco = find_func(tree, "build_cumulative_output")
    ic = find_func(bco, "get_indexed_cumsum")
    expect(src_equal(ic.body[0], "output = jnp.zeros(len(times), dtype=jnp.float64)"), "indexed cumsum: zeros")
    expect(src_equal(ic.body[1], "output = output.at[start_idx:].set(jnp.cumsum(in_arr[start_idx:]))"), "indexed cumsum: from start index")
    expect(src_equal(ic.body[2], "return output"), "indexed cumsum: return")
    return "DerivedGen.v", "\n".join(out)


def gen_rolling(repo):
    out = [HEADER % "summer2/functions/derived.py"]
    # functions/derived.py: rolling helpers (templates over Model/Rolling.v, emitted only when the source matches)
    tree = ast.parse(open(os.path.join(repo, "summer2/functions/derived.py")).read())
    # (the model and the theorem C16_rolling_diff are for periods >= 1: the code sends every other value, negated, to
    # _get_rolling_diff_backward before this definition - C16_rolling_diff_backward)
    outer = [s_ for s_ in find_func(tree, "get_rolling_diff").body if not (isinstance(s_, ast.Expr) and isinstance(s_.value, ast.Constant))]
    expect(len(outer) == 3 and isinstance(outer[0], ast.If) and ast.dump(outer[0].test) == ast.dump(ast.parse("periods <= 0").body[0].value) and not outer[0].orelse
           and len(outer[0].body) == 1 and isinstance(outer[0].body[0], ast.Return),
           "get_rolling_diff: non-positive periods leave before the definition of rolling_diff")
    expect(isinstance(outer[1], ast.FunctionDef) and outer[1].name == "rolling_diff" and src_equal(outer[2], "return rolling_diff"),
           "get_rolling_diff: returns rolling_diff")
    rd = outer[1]
    expect(src_equal(outer[0].body[0], "return _get_rolling_diff_backward(-periods)"), "get_rolling_diff: non-positive periods go, negated, to the backward helper")
    bw = [s_ for s_ in find_func(tree, "_get_rolling_diff_backward").body if not (isinstance(s_, ast.Expr) and isinstance(s_.value, ast.Constant))]
    expect(len(bw) == 2 and isinstance(bw[0], ast.FunctionDef) and src_equal(bw[1], "return rolling_diff"), "_get_rolling_diff_backward: returns its rolling_diff")
    bb = [s_ for s_ in bw[0].body if not (isinstance(s_, ast.Expr) and isinstance(s_.value, ast.Constant))]
    expect(len(bb) == 5 and isinstance(bb[0], ast.If) and ast.dump(bb[0].test) == ast.dump(ast.parse("periods == 0").body[0].value)
           and not bb[0].orelse and len(bb[0].body) == 1 and src_equal(bb[0].body[0], "return x - x"), "backward rolling_diff: period 0 is x - x")
    expect(src_equal(bb[1], "out_arr = jnp.empty_like(x)"), "backward rolling_diff: empty_like")
    expect(src_equal(bb[2], "out_arr = out_arr.at[:-periods].set(x[:-periods] - x[periods:])"), "backward rolling_diff: differences up to len - periods")
    expect(src_equal(bb[3], "out_arr = out_arr.at[-periods:].set(jnp.nan)"), "backward rolling_diff: nan tail")
    expect(src_equal(bb[4], "return out_arr"), "backward rolling_diff: return")
    rb = [s_ for s_ in rd.body if not (isinstance(s_, ast.Expr) and isinstance(s_.value, ast.Constant))]
    expect(src_equal(rb[0], "out_arr = jnp.empty_like(x)"), "rolling_diff: empty_like")
    expect(src_equal(rb[1], "out_arr = out_arr.at[periods:].set(x[periods:] - x[:-periods])"), "rolling_diff: differences from index periods")
    expect(src_equal(rb[2], "out_arr = out_arr.at[:periods].set(jnp.nan)"), "rolling_diff: nan head")
    expect(src_equal(rb[3], "return out_arr"), "rolling_diff: return")
    ri = find_func(tree, "_rolling_index")
    expect(src_equal(ri.body[0], "idx = jnp.arange(len(a) - window + 1)[:, None] + jnp.arange(window)[None, :]"), "_rolling_index: index matrix")
    expect(src_equal(ri.body[1], "return a[idx]"), "_rolling_index: gather")
    rf = find_func(find_func(tree, "get_rolling_reduction"), "rolling_func")
    fb = [s_ for s_ in rf.body if not (isinstance(s_, ast.Expr) and isinstance(s_.value, ast.Constant))]
    expect(src_equal(fb[0], "out_arr = jnp.empty_like(x)"), "rolling_func: empty_like")
    expect(src_equal(fb[1], "windowed = _rolling_index(x, window)"), "rolling_func: windows")
    expect(src_equal(fb[2], "agg = func(windowed, axis=1)"), "rolling_func: reduction over each window")
    expect(src_equal(fb[3], "out_arr = out_arr.at[:window].set(jnp.nan)"), "rolling_func: nan head")
    expect(src_equal(fb[4], "out_arr = out_arr.at[window - 1:].set(agg)"), "rolling_func: values from index window - 1")
    expect(src_equal(fb[5], "return out_arr"), "rolling_func: return")
    out.append("From S2 Require Import Model.Rolling.\n"
               "Definition gen_rolling_diff (O : NumOps) (periods : nat) (x : list (F O)) : list (option (F O)) :=\n"
               "  rolling_diff O periods x.\n"
               "Definition gen_rolling_diff_backward (O : NumOps) (periods : nat) (x : list (F O)) : list (option (F O)) :=\n"
               "  rolling_diff_backward O periods x.\n"
               "Definition gen_rolling_reduction (O : NumOps) (func : list (F O) -> F O) (window : nat) (x : list (F O))\n"
               "  : list (option (F O)) := rolling_reduction O func window x.\n")
    return "RollingGen.v", "\n".join(out)


def gen_trace(repo):
    import py2trace
    return py2trace.gen_trace(repo)


GENERATORS = [gen_solvers, gen_ode, gen_util, gen_interpolate, gen_misc, gen_derived, gen_rolling, gen_trace]


GEN_FILE = {"gen_solvers": "SolversGen", "gen_ode": "OdeGen", "gen_util": "UtilGen", "gen_interpolate": "InterpolateGen",
            "gen_misc": "MiscGen", "gen_derived": "DerivedGen", "gen_rolling": "RollingGen", "gen_trace": "TraceGen"}
FAILED = []     # modules (Gen.X) whose kernel the translators could not read on the last regenerate_all


def regenerate_all(repo=None):
    repo = repo or REPO
    os.makedirs(GEN, exist_ok=True)
    log = []
    ok = True
    del FAILED[:]
    for g in GENERATORS:
        try:
            name, text = g(repo)
        except Unsupported as e:
            ok = False
            FAILED.append("Gen." + GEN_FILE[g.__name__])
            log.append("%s: UNSUPPORTED %s" % (g.__name__, e))
            continue
        except Exception as e:  # a kernel that disappeared or no longer parses: fail closed, for that file
            ok = False
            FAILED.append("Gen." + GEN_FILE[g.__name__])
            log.append("%s: ERROR %r" % (g.__name__, e))
            continue
        path = os.path.join(GEN, name)
        old = open(path).read() if os.path.exists(path) else None
        if old != text:
            with open(path, "w") as f:
                f.write(text)
            log.append("%s: regenerated" % name)
        else:
            log.append("%s: unchanged" % name)
    return ok, "; ".join(log)


if __name__ == "__main__":
    ok, log = regenerate_all()
    print(log)
    sys.exit(0 if ok else 1)
