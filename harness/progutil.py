"""Pure helpers on build programs (no summer2 import)."""


def subst_prog(x, vals):
    """replace every named parameter of a program by its literal value"""
    if isinstance(x, dict):
        if set(x) == {"p"} and x["p"] in vals:
            return vals[x["p"]]
        return {k: subst_prog(v, vals) for k, v in x.items()}
    if isinstance(x, list):
        return [subst_prog(v, vals) for v in x]
    return x


def params_in(x, acc):
    if isinstance(x, dict):
        if set(x) == {"p"}:
            acc.add(x["p"])
        else:
            for v in x.values():
                params_in(v, acc)
    elif isinstance(x, list):
        for v in x:
            params_in(v, acc)
    return acc


