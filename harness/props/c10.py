"""C10 - time- and state-dependent inputs are evaluated at the current time and state."""
from .common import *  # noqa

KEYS = {"flow_rates", "comp_rates", "derived", "outputs", "y1", "f1", "err"}
# observations whose model value is the property's specified value (a disagreement there is a failing input);
# on the others the correspondence supports the tie and the oracle searches for the failing input
SPEC_KEYS = {"flow_rates", "comp_rates", "y1", "f1", "err"}


def run(tier, seed):
    n = tier_n(tier, 150, 2500)
    g = gen.Gen(seed * 7919 + 10)
    progs = []
    for i in range(n):
        p = g.program({"state_rates": i % 2 == 0, "requests": False, "nsteps": g.rng.choice([2, 3]),
                       "nonlinear": g.rng.random() < 0.4})
        # flows that share a name / an otherwise equal weight but differ in class
        comps = p["comps"]
        shared = {"op": "flow", "kind": "transition", "name": "f0", "src": comps[0], "dst": comps[1],
                  "param": g.rng.choice(["1/4", {"+": ["1/4", {"*": ["1/8", "t"]}]}, {"*": ["1/4", {"+": ["1", {"*": ["1/64", {"c": 0}]}]}]}])}
        twin = dict(shared, name="twin", param="1/4")
        at = max(i for i, o in enumerate(p["ops"]) if o["op"] in ("flow", "udeath")) + 1
        first_strat = min([i for i, o in enumerate(p["ops"]) if o["op"] == "strat"] + [len(p["ops"])])
        at = min(at, first_strat)
        p["ops"] = p["ops"][:at] + [shared, twin] + p["ops"][at:]
        p["ops"] += [{"op": "cv", "name": "cvT", "e": {"+": [{"c": 0}, {"*": ["1/2", "t"]}]}},
                     {"op": "req", "name": "cvT", "save": True, "req": {"type": "cv", "name": "cvT"}},
                     {"op": "req", "name": "rawf0", "save": True, "req": {"type": "flow", "flow_name": "f0", "raw": True}}]
        if isinstance(shared["param"], dict):
            # the varying rate of f0 is also tracked as a computed value, under two names; in half of the programs all
            # three sites hold the very same Python object, as when a user defines the rate once and reuses it
            p["ops"] += [{"op": "cv", "name": "cvR", "e": shared["param"]},
                         {"op": "req", "name": "cvR", "save": True, "req": {"type": "cv", "name": "cvR"}},
                         {"op": "cv", "name": "cvR2", "e": shared["param"]},
                         {"op": "req", "name": "cvR2", "save": True, "req": {"type": "cv", "name": "cvR2"}}]
            p["share_exprs"] = i % 4 < 2
        progs.append(p)
    for i in range(max(4, n // 12)):
        r = g.rng
        kind_inf = r.choice(["infection_frequency", "infection_density"])
        ops = [{"op": "pop", "dist": {"S": gen.dy(r, 100, 900, 0), "I": gen.dy(r, 10, 90, 0)}},
               {"op": "flow", "kind": kind_inf, "name": "f0", "param": gen.frac(r), "src": "S", "dst": "I"},
               {"op": "flow", "kind": "transition", "name": "rec", "param": gen.frac(r), "src": "I", "dst": "R"}]
        names = r.sample(["loc", "risk", "vac"], r.choice([2, 3]))
        for j, nm in enumerate(names):
            strata = gen.STRATA_POOL[nm][:2]
            mix = [[gen.frac(r) for _ in range(2)] for _ in range(2)]
            if j == 0 or r.random() < 0.3:
                mix[0][1] = {"+": [gen.frac(r), {"*": ["1/16", "t"]}]}        # the first matrix depends on time
            elif r.random() < 0.5:
                mix[1][0] = {"p": r.choice(gen.PARAMS)}
            ops.append({"op": "strat", "kind": "plain", "name": nm, "strata": strata, "comps": ["S", "I", "R"], "fadj": [], "iadj": {}, "mix": mix})
        ops += [{"op": "cv", "name": "cvT", "e": {"+": [{"c": 0}, {"*": ["1/2", "t"]}]}},
                {"op": "req", "name": "cvT", "save": True, "req": {"type": "cv", "name": "cvT"}},
                {"op": "req", "name": "rawf0", "save": True, "req": {"type": "flow", "flow_name": "f0", "raw": True}}]
        progs.append({"times": ["0", "2", "1"], "comps": ["S", "I", "R"], "inf": ["I"], "ops": ops, "nonlinear": True,
                      "meta": {"flows": [kind_inf, "transition"], "strats": ["plain"] * len(names), "mix": len(names)}})
    out = []
    for p, st in with_struct(progs):
        if st is None:
            p["obs"] = [{"obs": "struct"}]
            out.append(p)
            continue
        nc = len(st["comps"])
        pv = g.params_values(small=True)
        pts = []
        obs = []
        for k in range(3 if tier == "quick" else 6):
            t = gen.dy(g.rng, 0, 40, 3)          # also between output times
            x = fix_domain(p, st["comps"], g.state(nc, "pos" if k % 2 == 0 else "boundary"))
            pts.append([t, x])
            obs.append({"obs": "onestep", "params": pv, "t": t, "x": x})
        if (not p["nonlinear"]) or nsteps(p) <= 2:
            obs.append({"obs": "run", "solver": "euler", "params": pv})
        # one Dormand-Prince step of the default solver: every stage evaluates the rates at its own time and state
        if len(out) % 3 == 0:
            obs.append({"obs": "rkstep", "params": pv, "t": p["times"][0], "dt": g.rng.choice(["1/2", "1/4", "3/4"]), "x": None})
        obs.append({"obs": "oracle", "name": "c10", "params": pv, "points": pts, "program": checklib.strip_meta(dict(p, obs=[])),
                    "raw_flows": [{"name": "rawf0", "flow_name": "f0"}],
                    "cvs": {o_["name"]: o_["e"] for o_ in p["ops"] if o_["op"] == "cv" and o_["name"] in ("cvT", "cvR", "cvR2")},
                    "solver": g.rng.choice(["euler", "rk4"])})
        obs.append({"obs": "oracle", "name": "c01", "params": pv, "t": pts[0][0], "x": pts[0][1]})
        p["obs"] = obs
        out.append(p)
    out.append(carrier([{"obs": "oracle", "name": "c10_axis", "seed": seed, "n": 12 if tier == "quick" else 120}]))
    ex = checklib.explore(out, keys=KEYS, per_prog_timeout=30.0)
    nontrivial = set()
    for p, a in zip(out, ex["mres"]):
        if a.get("build_error") is None:
            rs = [o["flow_rates"] for o in (a.get("obs") or []) if "flow_rates" in o]
            if len(rs) >= 2 and rs[0] != rs[1]:
                nontrivial.add(checklib.signature(p))
    return {"programs": out, "explore": ex, "distinct_nontrivial": len(nontrivial),
            "rule": "models mixing constant, parameter-only, time-dependent (affine, piecewise, interpolated) and state-dependent "
                    "rates and adjustments, time-varying mixing matrices, plus two flows sharing a name and a twin flow with an "
                    "otherwise equal constant weight, one Dormand-Prince step (stage times and states) compared with Model/Adaptive.v, the varying rate of a flow also tracked as a computed value under two names (half of them sharing one Python object with the flow); one_step at 3 (quick) / 6 (thorough) points (t, x) including times between "
                    "output times and boundary states, compared with the model; on the implementation: evaluation at a sequence of "
                    "points vs a freshly built runner at each point (bit-exact), raw flow outputs and computed values along a "
                    "trajectory vs one_step at (times[i], outputs[i]); sigmoidal / linear / piecewise functions over another x axis "
                    "(compartment value, shifted or scaled time, parameter) vs the same function of plain time at the axis value; non-trivial = the rates differ between two points",
            "dist": dist(out)}
