"""C18 - no flow draws people out of an empty compartment."""
import copy
import itertools
from .common import *  # noqa

KEYS = {"comp_rates", "flow_rates"}
# observations whose model value is the property's specified value (a disagreement there is a failing input);
# on the others the correspondence supports the tie and the oracle searches for the failing input
SPEC_KEYS = set()
POOL = ["transition", "transition", "death", "importation", "crude_birth", "replacement_birth"]


def run(tier, seed):
    n = tier_n(tier, 160, 2500)
    g = gen.Gen(seed * 7919 + 18)
    progs = [g.program({"kind_pool": POOL, "requests": False, "state_rates": False, "nsteps": 4,
                        "t0": g.rng.choice(["0", "0", "1", "5/2"]),   # time-dependent rates stay non-negative for t >= 0
                        "h": g.rng.choice(["1/8", "1/16"])}) for _ in range(n)]
    # a transition whose destination alone is stratified last, with user adjustments that leave one stratum to the default
    # (None) while the others are multiplied by factors adding up to more than one: every weight stays non-negative
    for p in progs:
        tr = [o for i, o in enumerate(p["ops"]) if o["op"] == "flow" and o["kind"] == "transition" and o["src"] != o["dst"]
              and not any(x["op"] == "strat" for x in p["ops"][:i])]
        if tr and g.rng.random() < 0.3 and not any(o["op"] == "strat" and o["name"] == "dsp" for o in p["ops"]):
            f_ = g.rng.choice(tr)
            if not any(o["op"] == "strat" and o["kind"] == "age" for o in p["ops"]) or True:
                p["ops"].append({"op": "strat", "kind": "plain", "name": "dsp", "strata": ["a", "b", "c"], "comps": [f_["dst"]],
                                 "fadj": [[f_["name"], {"a": {"mul": g.rng.choice(["3/4", "7/8", "1/2"])}, "b": {"mul": g.rng.choice(["3/4", "5/8"])}, "c": None}, {}, {}]],
                                 "iadj": {}})
    # a differently wired twin right after a model (same compartment names, same flow names and classes, one
    # transition re-routed), executed in the same interpreter: nothing of the first may leak into the second
    twins = []
    for p in progs:
        twins.append(p)
        tr = [i for i, o in enumerate(p["ops"]) if o["op"] == "flow" and o["kind"] == "transition"
              and not any(x["op"] == "strat" for x in p["ops"][:i])]
        if tr and g.rng.random() < 0.4 and len(p["comps"]) >= 3:
            q = copy.deepcopy(p)
            o = q["ops"][g.rng.choice(tr)]
            others = [c for c in q["comps"] if c not in (o["src"], o["dst"])]
            o["src"] = g.rng.choice(others)
            twins.append(q)
    progs = twins
    out = []
    for p, st in with_struct(progs):
        if st is None:
            p["obs"] = [{"obs": "struct"}]
            out.append(p)
            continue
        nc = len(st["comps"])
        pv = g.params_values(small=True)
        obs = []
        # faces of the orthant: subsets of compartments empty or marginally negative
        subsets = []
        if nc <= 5 and tier == "thorough":
            subsets = [set(c) for r in range(1, nc) for c in itertools.combinations(range(nc), r)]
        else:
            subsets = [set(g.rng.sample(range(nc), g.rng.randint(1, max(1, nc - 1)))) for _ in range(4 if tier == "quick" else 12)]
        for sub in subsets:
            x = [("0" if g.rng.random() < 0.6 else "-1/1048576") if i in sub else gen.dy(g.rng, 1, 300, 2) for i in range(nc)]
            x = fix_domain(p, st["comps"], x)
            t = gen.dy(g.rng, 0, 24, 2)
            obs.append({"obs": "onestep", "params": pv, "t": t, "x": x})
            obs.append({"obs": "oracle", "name": "c18", "params": pv, "t": t, "x": x})
        if not any(o["op"] == "flow" and o["kind"] in ("crude_birth",) for o in p["ops"]):
            obs.append({"obs": "oracle", "name": "c18_traj", "params": pv})
        p["obs"] = obs
        out.append(p)
    cases = []
    for _ in range(4 if tier == "quick" else 40):
        cases.append((g.rng.choice([1e6, 1e7, 3e5]), g.rng.choice([100, 1000, 50]), g.rng.choice([8, 12, 5]), 6, g.rng.choice([0, 0.4])))
    out.append(carrier([{"obs": "oracle", "name": "c18_disparity", "cases": cases}]))
    out.append(carrier([{"obs": "oracle", "name": "c18_timefuncs", "seed": seed, "n": 8 if tier == "quick" else 80}]))
    ex = checklib.explore(out, keys=KEYS, per_prog_timeout=30.0)
    nontrivial = set()
    for p, a in zip(out, ex["mres"]):
        if a.get("build_error") is None and any("comp_rates" in o and any(v != "0/1" for v in o["comp_rates"]) for o in (a.get("obs") or [])):
            nontrivial.add(checklib.signature(p))
    return {"programs": out, "explore": ex, "distinct_nontrivial": len(nontrivial),
            "rule": "(40% of the models are followed, in the same interpreter, by a twin with one transition re-routed) models without absolute flows, non-negative rates / adjustments / mixing / infectiousness (zero adjustments "
                    "included); states on the boundary of the orthant: random subsets (quick) or every proper subset (thorough, "
                    "<= 5 compartments) of compartments set to 0 or -2^-20, every mixing category kept positive; compared with the "
                    "model and, on the implementation, sign of comp_rates of every empty compartment, and min(outputs) of the "
                    "error-controlled solver's trajectory (start times >= 0 so that the time-dependent rates stay non-negative); non-trivial = some rate is non-zero",
            "dist": dist(out)}
