"""C01 - rates of change follow the documented per-flow laws."""
from .common import *  # noqa

TITLE = "Compartment rates of change follow the documented per-flow rate laws"
KEYS = {"flow_rates", "comp_rates"}
# observations whose model value is the property's specified value (a disagreement there is a failing input);
# on the others the correspondence supports the tie and the oracle searches for the failing input
SPEC_KEYS = {"flow_rates", "comp_rates"}


def run(tier, seed):
    n = tier_n(tier, 260, 4000)
    g = gen.Gen(seed * 7919 + 1)
    progs = [g.program({"signed": 0.2, "self_flow": 0.1, "post_birth": 0.3, "post_import": 0.3, "bare_adjs": 0.3, "cross_strain": 0.5}) for _ in range(n)]
    out = []
    for p, st in with_struct(progs):
        if st is None:
            p["obs"] = [{"obs": "struct"}]
            out.append(p)
            continue
        nc = len(st["comps"])
        obs = [{"obs": "struct"}]
        nstates = 2 if tier == "quick" else 4
        for k in range(nstates):
            pv = g.params_values()
            x = fix_domain(p, st["comps"], g.state(nc, "pos" if k % 2 == 0 else "boundary"))
            t = gen.dy(g.rng, 0, 24, 2)
            obs.append({"obs": "onestep", "params": pv, "t": t, "x": x})
            obs.append({"obs": "oracle", "name": "c01", "params": pv, "t": t, "x": x})
        p["obs"] = obs
        out.append(p)
    ex = checklib.explore(out, keys=KEYS | {"comps", "flows"})
    nontrivial = set()
    for p, a in zip(out, ex["mres"]):
        if a.get("build_error") is None and a.get("obs"):
            rates = [o for o in a["obs"] if "flow_rates" in o]
            if any(any(v not in ("0/1",) for v in o["flow_rates"]) for o in rates):
                nontrivial.add(checklib.signature(p))
    return {"programs": out, "explore": ex, "distinct_nontrivial": len(nontrivial),
            "rule": "structured random build programs (20%% of the flows with negative / sign-changing rates; flow kinds x stratification kinds x adjustments x filters x "
                    "mixing x order, DESIGN 4.2), each observed with one_step at %d (params, t, x) points incl. zero and "
                    "slightly negative entries; non-trivial = builds on the model side and has a non-zero flow rate; "
                    "distinct by SHA-256 of the program" % (2 if tier == "quick" else 4),
            "dist": dist(out)}
