"""C09 - named parameters are interchangeable with the literal values they stand for."""
from .common import *  # noqa
import progutil as _o

KEYS = {"outputs", "derived", "flow_rates", "initial_population"}
# observations whose model value is the property's specified value (a disagreement there is a failing input);
# on the others the correspondence supports the tie and the oracle searches for the failing input
SPEC_KEYS = set()


def directed_mixing(g, k):
    """S-I-R with two or three full stratifications that all carry a mixing matrix: parameterised and literal matrices
    alternate, the parameterised one first for even k (the Kronecker product follows the order of application)"""
    r = g.rng
    ops = [{"op": "pop", "dist": {"S": gen.dy(r, 100, 900, 0), "I": gen.dy(r, 10, 90, 0)}},
           {"op": "flow", "kind": r.choice(["infection_frequency", "infection_density"]), "name": "inf", "param": gen.frac(r), "src": "S", "dst": "I"},
           {"op": "flow", "kind": "transition", "name": "rec", "param": gen.frac(r), "src": "I", "dst": "R"}]
    names = r.sample(["loc", "risk", "vac"], 2 + (k % 3 == 2))
    for j, nm in enumerate(names):
        strata = gen.STRATA_POOL[nm][: r.choice([2, 2, 3])]
        mix = [[gen.frac(r) for _ in strata] for _ in strata]
        if (j + k) % 2 == 0:
            mix[0][0] = {"p": "kappa"}
            mix[-1][0] = {"*": [{"p": "beta"}, "1/2"]}
        ops.append({"op": "strat", "kind": "plain", "name": nm, "strata": strata, "comps": ["S", "I", "R"], "fadj": [], "iadj": {}, "mix": mix})
    return {"times": ["0", "2", "1"], "comps": ["S", "I", "R"], "inf": ["I"], "ops": ops, "nonlinear": True,
            "meta": {"flows": ["infection", "transition"], "strats": ["plain"] * len(names), "mix": len(names)}}


def run(tier, seed):
    n = tier_n(tier, 60, 700)
    g = gen.Gen(seed * 7919 + 9)
    progs = []
    ndirected = 0
    while len(progs) < n:
        if ndirected < (4 if tier == "quick" else 40) and len(progs) % 14 == 0:
            p = directed_mixing(g, ndirected)
            ndirected += 1
        elif len(progs) < 8 or g.rng.random() < 0.25:
            # several mixing matrices, some given through parameters and some as literals, in either order
            p = g.program({"requests": False, "nsteps": g.rng.choice([1, 2]), "nstrat": g.rng.choice([2, 3]), "p_mix": 1.0,
                           "nonlinear": True, "p_full": 0.9, "min_strata": 2})
            mixed = [o for o in p["ops"] if o["op"] == "strat" and o.get("mix") is not None]
            for j, o in enumerate(mixed):
                lit = [[(e if g.rng.random() < 0.5 else gen.frac(g.rng)) if isinstance(e, str) else "3/8" for e in row] for row in o["mix"]]
                if (j + len(progs) // 2) % 2 == 0:
                    lit[0][0] = {"p": "kappa"}
                    if len(lit) > 1:
                        lit[1][0] = {"*": [{"p": "beta"}, "1/2"]}
                o["mix"] = lit
        else:
            p = g.program({"requests": g.rng.random() < 0.6, "nsteps": g.rng.choice([1, 2]), "nstrat": g.rng.choice([0, 1, 2]),
                           "rounded_splits": 0.3})
        if g.rng.random() < 0.35:
            # list-valued function arguments that mix whole-number literals with parameters
            pname = g.rng.choice(["beta", "gamma", "kappa", "mu"])
            fn = g.rng.choice([{"pw": ["t", ["1", "3"], ["0", {"p": pname}, "0"]]},
                               {"lin": ["t", ["0", "2", "4"], ["1", {"p": pname}, "2"]]},
                               {"pw": ["t", ["2"], [{"*": [{"p": pname}, "2"]}, "1"]]}])
            at = max(i for i, o in enumerate(p["ops"]) if o["op"] in ("flow", "udeath", "pop")) + 1
            first_strat = min([i for i, o in enumerate(p["ops"]) if o["op"] == "strat"] + [len(p["ops"])])
            p["ops"].insert(min(at, first_strat), {"op": "flow", "kind": "importation", "name": "pulse", "param": fn,
                                                   "dst": p["comps"][0], "split": False})
        # a split that is only nearly normalised, given through a parameter: the literal twin carries the same numbers
        kappa_val = None
        for o in p["ops"]:
            if o["op"] == "strat" and o.get("split") and all(isinstance(v_, str) and v_ in ("333/1000", "499/1000", "1/2") for v_ in o["split"].values()) and g.rng.random() < 0.7:
                o["split"] = {s_: ({"p": "kappa"} if v in ("333/1000", "499/1000") else v) for s_, v in o["split"].items()}
                kappa_val = "333/1000" if len(o["split"]) == 3 else "499/1000"
                break
        same_val = None
        for o in p["ops"]:
            if o["op"] == "strat" and len(o["strata"]) >= 2 and g.rng.random() < 0.5:
                cands = [c_ for c_ in p["inf"] if c_ in o["comps"]]
                if cands:
                    # different parameters, equal values: the literal twin carries the same number twice
                    o["iadj"] = dict(o.get("iadj") or {})
                    o["iadj"][cands[0]] = {s_: ({"mul": {"p": "beta"}} if k_ == 0 else ({"mul": {"p": "gamma"}} if k_ == 1 else None))
                                           for k_, s_ in enumerate(o["strata"])}
                    same_val = g.rng.choice(["1/2", "3/4", "1/4"])
                    break
        zeta = False
        rnames = [o["name"] for o in p["ops"] if o["op"] == "req"]
        if rnames and not any(o["op"] == "whitelist" for o in p["ops"]) and g.rng.random() < 0.5:
            # a parameter that reaches the results only through an unsaved function output, which a saved
            # cumulative / aggregate output consumes: an input parameter like any other
            src = g.rng.choice(rnames)
            p["ops"] += [{"op": "req", "name": "fz", "save": False,
                          "req": {"type": "func", "fn": g.rng.choice([0, 1]), "sources": [src, src], "params": [{"p": "zeta"}]}},
                         {"op": "req", "name": "cfz", "save": True,
                          "req": g.rng.choice([{"type": "cum", "source": "fz", "start": None}, {"type": "agg", "sources": ["fz", src]}])}]
            zeta = True
        used = sorted(_o.params_in(p["ops"], set()))
        if not used or len(used) > 4:
            continue
        pv = {k: v for k, v in g.params_values(small=True).items()}
        if zeta:
            pv["zeta"] = g.rng.choice(["3/4", "1/4", "5/2"])
        if kappa_val is not None:
            pv["kappa"] = kappa_val
        if same_val is not None:
            pv["beta"] = pv["gamma"] = same_val
        adj_params = sorted({a_[k_]["p"] for o in p["ops"] if o["op"] == "strat" for e_ in o.get("fadj", []) for a_ in e_[1].values()
                             if a_ is not None for k_ in a_ if isinstance(a_[k_], dict) and "p" in a_[k_]} - ({"kappa"} if kappa_val else set()))
        if adj_params and g.rng.random() < 0.5:
            pv[g.rng.choice(adj_params)] = "0"       # an adjustment that switches its stratum off, given through a parameter
        base = dict(p)
        obs = [{"obs": "onestep", "params": pv}]
        if (not p["nonlinear"]) or nsteps(p) <= 2:
            obs.append({"obs": "run", "solver": "euler", "params": pv})
        obs.append({"obs": "oracle", "name": "c09", "program": checklib.strip_meta(dict(p, obs=[])), "params": pv,
                    "exhaustive": tier == "thorough"})
        base["obs"] = obs
        progs.append(base)
        # the literal twin is compared with the model as well
        lit = _o.subst_prog(checklib.strip_meta(dict(p, obs=[])), pv)
        lit["meta"] = p.get("meta", {})
        lit["nonlinear"] = p["nonlinear"]
        lit["obs"] = [{"obs": "onestep", "params": {}}] + ([{"obs": "run", "solver": "euler", "params": {}}] if len(obs) == 3 else [])
        progs.append(lit)
    # probe of a known finding (known_findings.json: superseded-infectiousness-parameter), carried by a minimal pair
    progs.append(carrier([{"obs": "oracle", "name": "c09_superseded"}]))
    progs.append(carrier([]))
    ex = checklib.explore(progs, keys=KEYS, per_prog_timeout=40.0)
    # model-side consistency: parameterised and literal twins give the same model observations
    extra = []
    for i in range(0, len(progs), 2):
        a, b = ex["mres"][i], ex["mres"][i + 1]
        if a.get("build_error") is None and b.get("build_error") is None:
            for oa, ob in zip(a["obs"], b["obs"]):
                for k in ("flow_rates", "outputs"):
                    if k in oa and k in ob and oa[k] != ob[k] and "error" not in oa and "error" not in ob:
                        extra.append(("model: literal twin differs in %s" % k, {"program": checklib.strip_meta(progs[i])}, True))
    nontrivial = {checklib.signature(p) for p, a in zip(progs, ex["mres"]) if a.get("build_error") is None}
    return {"programs": progs, "explore": ex, "distinct_nontrivial": len(nontrivial), "extra_violations": extra,
            "rule": "models using 1-4 named parameters at flow rates, adjustments, initial distribution, population splits, "
                    "infectiousness adjustments, mixing matrices (30% with 2-3 matrices alternating parameterised / literal), function outputs; each is paired with its literal twin (both "
                    "compared with the model, and the two model results with each other); on the implementation: literal vs "
                    "parameter runs, every partition dyn/frozen of the parameters (8 quick / all thorough), defaults, and "
                    "get_input_parameters() vs the parameters occurring in the definition; non-trivial = builds",
            "dist": dist(progs)}
