"""C04 - stratified flows are exactly the prescribed copies with the prescribed weights."""
from .common import *  # noqa

KEYS = {"comps", "flows", "flow_rates"}
# observations whose model value is the property's specified value (a disagreement there is a failing input);
# on the others the correspondence supports the tie and the oracle searches for the failing input
SPEC_KEYS = {"comps", "flows", "flow_rates", "build"}


def run(tier, seed):
    n = tier_n(tier, 260, 4000)
    g = gen.Gen(seed * 7919 + 4)
    progs = []
    for i in range(n):
        p = g.program({"nstrat": g.rng.choice([1, 2, 2, 3]), "requests": False, "p_post": 0.1, "state_rates": False,
                       "post_import": 0.3, "post_birth": 0.3, "bare_adjs": 0.3, "post_exit": 0.3})
        if not any(o["op"] == "strat" for o in p["ops"]):
            continue
        progs.append(p)
    out = []
    for p, st in with_struct(progs):
        if st is None:
            p["obs"] = [{"obs": "struct"}]
            out.append(p)
            continue
        nc = len(st["comps"])
        pv = g.params_values()
        x = fix_domain(p, st["comps"], g.state(nc, "pos"))
        t = gen.dy(g.rng, 0, 24, 2)
        p["obs"] = [{"obs": "struct"}, {"obs": "onestep", "params": pv, "t": t, "x": x},
                    {"obs": "oracle", "name": "c04", "params": pv, "t": t, "program": checklib.strip_meta(dict(p, obs=[]))}]
        out.append(p)
    ex = checklib.explore(out, keys=KEYS, per_prog_timeout=20.0)
    nontrivial = set()
    for p, a in zip(out, ex["mres"]):
        if a.get("build_error") is None and a.get("obs") and len(a["obs"][0].get("flows", [])) > len([o for o in p["ops"] if o["op"] == "flow"]):
            nontrivial.add(checklib.signature(p))
    return {"programs": out, "explore": ex, "distinct_nontrivial": len(nontrivial),
            "rule": "1-3 stratifications (plain full/partial, age, strain) over all nine flow kinds with adjustments (number, "
                    "Multiply, Overwrite, None, parameter, time function), source/destination filters on earlier stratifications, "
                    "repeated declarations; flow list and realised rates compared with the model; on the implementation the copies "
                    "and weights of the last stratification are recomputed from the rule table starting from the model built "
                    "without it (ageing flows included); non-trivial = stratification created flow copies",
            "dist": dist(out)}
