"""C03 - stratifying without adjustments does not change aggregate dynamics."""
import copy
import json
from .common import *  # noqa
import transforms as TR

KEYS = {"comp_rates", "flow_rates", "outputs", "comps", "flows"}
# observations whose model value is the property's specified value (a disagreement there is a failing input);
# on the others the correspondence supports the tie and the oracle searches for the failing input
SPEC_KEYS = set()


def unadjusted_strat(g, p, used, kind):
    r = g.rng
    comps = p["comps"]
    if kind == "age":
        name, strata, scomps = "age", gen.STRATA_POOL["age"][: r.randint(2, 4)], list(comps)
    elif kind == "strain":
        inf_dests = {o["dst"] for o in p["ops"] if o["op"] == "flow" and o["kind"].startswith("infection")}
        name, strata = "strain", ["a", "b", "c"][: r.randint(2, 3)]
        scomps = sorted(set(p["inf"]) | inf_dests, key=comps.index)
    else:
        name = r.choice([n for n in ["loc", "risk", "vac", "grp"] if n not in used])
        pool = gen.STRATA_POOL.get(name, ["g1", "g2", "g3"])
        strata = pool[: r.randint(2, 3)]
        scomps = list(comps) if (kind == "full") else sorted(r.sample(comps, r.randint(1, len(comps) - 1)), key=comps.index)
        if len(scomps) > 1 and r.random() < 0.5:
            scomps = r.sample(scomps, len(scomps))        # listed in another order than the model's
    n = len(strata)
    w = [r.choice([1, 1, 2, 3]) for _ in strata]
    tot = sum(w)
    if tot & (tot - 1) == 0:
        split = {s: str(gen.Fraction(x, tot)) for s, x in zip(strata, w)}
    else:
        split = {s: str(gen.Fraction(1, 8)) for s in strata}
        split[strata[0]] = str(1 - gen.Fraction(n - 1, 8))
    if r.random() < 0.3:
        split = None
    return {"op": "strat", "kind": "age" if kind == "age" else ("strain" if kind == "strain" else "plain"),
            "name": name, "strata": strata, "comps": scomps, "split": split, "fadj": [], "iadj": {}}


def run(tier, seed):
    n = tier_n(tier, 120, 2000)
    g = gen.Gen(seed * 7919 + 3)
    progs = []
    while len(progs) < n:
        r = g.rng
        base = g.program({"nstrat": r.choice([0, 0, 1]), "requests": False, "state_rates": False, "nsteps": r.choice([2, 3]),
                          "h": r.choice(["1/4", "1/8", "1/2"]), "p_post": 0.0, "unadjusted": False})
        if any(o["op"] == "rebalance" for o in base["ops"]):
            continue
        base["ops"] += [{"op": "req", "name": "allcomp", "save": True, "req": {"type": "comp", "names": list(base["comps"]), "filt": {}}}]
        fnames = sorted({o["name"] for o in base["ops"] if o["op"] in ("flow", "udeath")})
        if fnames:
            base["ops"] += [{"op": "req", "name": "fl", "save": True, "req": {"type": "flow", "flow_name": fnames[0], "raw": r.random() < 0.5}}]
        used = [o["name"] for o in base["ops"] if o["op"] == "strat"]
        has_age = any(o["op"] == "strat" and o["kind"] == "age" for o in base["ops"])
        has_strain = any(o["op"] == "strat" and o["kind"] == "strain" for o in base["ops"])
        has_inf = any(o["op"] == "flow" and o["kind"].startswith("infection") for o in base["ops"])
        strat = copy.deepcopy(base)
        reqs = [o for o in strat["ops"] if o["op"] == "req"]
        strat["ops"] = [o for o in strat["ops"] if o["op"] != "req"]
        new = []
        inf_srcs = {o["src"] for o in base["ops"] if o["op"] == "flow" and o["kind"].startswith("infection")}
        inf_dsts = {o["dst"] for o in base["ops"] if o["op"] == "flow" and o["kind"].startswith("infection")}
        # the strain claim is for a strain stratification of the infected compartments (the sources of the
        # infection flows stay unstratified)
        strain_ok = has_inf and not has_strain and not (inf_srcs & (set(base["inf"]) | inf_dsts))
        strain_only = strain_ok and r.random() < 0.35
        for k in range(1 if strain_only else r.choice([1, 1, 2])):
            kinds = ["full", "full", "partial"] + ([] if has_age else ["age"])
            kind = "strain" if strain_only else r.choice(kinds)
            if kind == "partial" and len(base["comps"]) < 2:
                kind = "full"
            so = unadjusted_strat(g, strat, used + new, kind)
            if so["name"] in used + new:
                continue
            has_age = has_age or kind == "age"
            has_strain = has_strain or kind == "strain"
            strat["ops"].append(so)
            new.append(so["name"])
        if not new:
            continue
        # one compartment, stratum by stratum of the stratification applied last, added up again: the unstratified
        # model's output for that compartment
        last = next(o for o in strat["ops"] if o["op"] == "strat" and o["name"] == new[-1])
        if last["kind"] != "strain" and last["comps"]:
            x_ = r.choice(last["comps"])
            base["ops"] += [{"op": "req", "name": "onecomp", "save": True, "req": {"type": "comp", "names": [x_], "filt": {}}}]
            parts = []
            for st_ in last["strata"]:
                parts.append({"op": "req", "name": "onecomp_%s" % st_, "save": r.random() < 0.5,
                              "req": {"type": "comp", "names": [x_], "filt": {last["name"]: st_}}})
            strat["ops"] += parts + [{"op": "req", "name": "onecomp", "save": True, "req": {"type": "agg", "sources": [q_["name"] for q_ in parts]}}]
        if len(progs) % 2 == 1:
            # outputs requested before the (unadjusted) stratifications are applied: requests name flows and
            # compartments, so a later stratification must not change what they add up
            at = next(i for i, o in enumerate(strat["ops"]) if o["op"] == "strat" and o["name"] in new)
            strat["ops"] = strat["ops"][:at] + reqs + strat["ops"][at:]
        else:
            strat["ops"] += reqs
        strat["meta"] = dict(base.get("meta", {}), strats=base.get("meta", {}).get("strats", []) + ["unadjusted"] * len(new))
        pv = g.params_values(small=True)
        obs = [{"obs": "struct"}]
        if (not strat["nonlinear"]) or nsteps(strat) <= 2:
            obs.append({"obs": "run", "solver": "euler", "params": pv})
        obs.append({"obs": "oracle", "name": "c03", "params": pv, "seed": seed + len(progs), "new_strats": new, "states": 3 if tier == "quick" else 6, "strain_only": strain_only,
                    "discontinuous": '"pw"' in json.dumps(base["ops"]),
                    "base_program": checklib.strip_meta(dict(base, obs=[])), "strat_program": checklib.strip_meta(dict(strat, obs=[]))})
        strat["obs"] = obs
        progs.append(strat)
    # proportionate mixing: a full stratification whose mixing matrix has every row equal to the population split;
    # along the trajectory started from the split population the aggregate is the unstratified trajectory
    # (models without entry flows: births are shared evenly, not by the split)
    for i in range(max(6, n // 6)):
        r = g.rng
        base = g.program({"nstrat": 0, "requests": False, "state_rates": False, "nsteps": r.choice([2, 3]), "nonlinear": True,
                          "h": r.choice(["1/4", "1/8", "1/2"]), "kind_pool": ["transition", "transition", "death"], "p_udeath": 0.3})
        if not any(o["op"] == "flow" and o["kind"] == "infection_frequency" for o in base["ops"]):
            continue
        if i % 2 == 1 and TR.scalable(base) and not any(o["op"] == "flow" and o["kind"] == "infection_density" for o in base["ops"]):
            # populations given as proportions (the whole population adds up to about one, every mixing category holds
            # less than one): frequency-dependent transmission does not depend on the unit of the counts
            tot_ = sum((gen.Fraction(v) for o in base["ops"] if o["op"] == "pop" for v in o["dist"].values()), gen.Fraction(0))
            k_ = gen.Fraction(1, 1 << max(1, int(tot_).bit_length()))
            base = dict(TR.scale_population(base, str(k_), False), meta=base.get("meta", {}), nonlinear=base.get("nonlinear"))
        base["ops"] += [{"op": "req", "name": "allcomp", "save": True, "req": {"type": "comp", "names": list(base["comps"]), "filt": {}}}]
        strata = r.choice([["lo", "hi"], ["a1", "a2", "a3"]])
        split = r.choice([["1/4", "3/4"], ["1/8", "7/8"], ["5/8", "3/8"]]) if len(strata) == 2 else r.choice([["1/8", "1/8", "3/4"], ["1/2", "1/4", "1/4"]])
        so = {"op": "strat", "kind": "plain", "name": "grp", "strata": strata, "comps": list(base["comps"]), "fadj": [], "iadj": {},
              "split": dict(zip(strata, split)), "mix": [list(split) for _ in strata]}
        strat = copy.deepcopy(base)
        reqs = [o for o in strat["ops"] if o["op"] == "req"]
        strat["ops"] = [o for o in strat["ops"] if o["op"] != "req"] + [so] + reqs
        strat["meta"] = dict(base.get("meta", {}), strats=["proportionate"], mix=1)
        pv = g.params_values(small=True)
        strat["obs"] = [{"obs": "struct"}, {"obs": "oracle", "name": "c03", "params": pv, "seed": seed + i, "new_strats": ["grp"], "states": 0,
                         "strain_only": False, "proportionate": True, "discontinuous": '"pw"' in json.dumps(base["ops"]),
                         "base_program": checklib.strip_meta(dict(base, obs=[])),
                         "strat_program": checklib.strip_meta(dict(strat, obs=[]))}]
        progs.append(strat)
    # a model that already carries a strain stratification (of its infected compartments), extended by an unadjusted
    # ordinary stratification - full, or partial on compartments listed before the strain-stratified ones
    for i in range(max(6, n // 8)):
        r = g.rng
        base = g.program({"nstrat": 0, "requests": False, "state_rates": False, "nsteps": r.choice([2, 3]), "nonlinear": True,
                          "h": r.choice(["1/4", "1/8", "1/2"]), "kind_pool": ["transition", "transition", "death"], "p_udeath": 0.3})
        infl = [o for o in base["ops"] if o["op"] == "flow" and o["kind"].startswith("infection")]
        if not infl:
            continue
        infected = sorted(set(base["inf"]) | {o["dst"] for o in infl}, key=base["comps"].index)
        if any(o["src"] in infected for o in infl):
            continue
        sstr = {"op": "strat", "kind": "strain", "name": "strain", "strata": ["a", "b"], "comps": infected, "fadj": [], "iadj": {},
                "split": {"a": r.choice(["1/4", "5/8"]), "b": None}}
        sstr["split"]["b"] = str(1 - gen.Fraction(sstr["split"]["a"]))
        base["ops"] += [sstr, {"op": "req", "name": "allcomp", "save": True, "req": {"type": "comp", "names": list(base["comps"]), "filt": {}}}]
        strat = copy.deepcopy(base)
        reqs = [o for o in strat["ops"] if o["op"] == "req"]
        strat["ops"] = [o for o in strat["ops"] if o["op"] != "req"]
        so = unadjusted_strat(g, strat, ["strain"], r.choice(["full", "partial"]))
        if so["name"] == "strain":
            continue
        strat["ops"] += [so] + reqs
        strat["meta"] = dict(base.get("meta", {}), strats=["strain", "unadjusted"])
        pv = g.params_values(small=True)
        obs = [{"obs": "struct"}]
        if nsteps(strat) <= 2:
            obs.append({"obs": "run", "solver": "euler", "params": pv})
        obs.append({"obs": "oracle", "name": "c03", "params": pv, "seed": seed + 1000 + i, "new_strats": [so["name"]],
                    "states": 3 if tier == "quick" else 6, "strain_only": False, "discontinuous": '"pw"' in json.dumps(base["ops"]),
                    "base_program": checklib.strip_meta(dict(base, obs=[])), "strat_program": checklib.strip_meta(dict(strat, obs=[]))})
        strat["obs"] = obs
        progs.append(strat)
    out = []
    for p, st in with_struct(progs):
        if st is not None and not any(o.get("proportionate") for o in p["obs"]):
            nc = len(st["comps"])
            p["obs"].insert(1, {"obs": "onestep", "params": p["obs"][-1]["params"], "t": gen.dy(g.rng, 0, 16, 2),
                                "x": fix_domain(p, st["comps"], g.state(nc, "pos"))})
        out.append(p)
    ex = checklib.explore(out, keys=KEYS, per_prog_timeout=40.0)
    nontrivial = {checklib.signature(p) for p, a in zip(out, ex["mres"]) if a.get("build_error") is None}
    return {"programs": out, "explore": ex, "distinct_nontrivial": len(nontrivial),
            "rule": "(plus models that already carry a strain stratification extended by an unadjusted ordinary one; plus full stratifications with a proportionate mixing matrix - rows equal to the split - compared along the trajectory from the split population) base models over all flow kinds (absolute, import and birth flows included), optionally already stratified "
                    "with adjustments, extended by 1-2 unadjusted stratifications (full, partial on a random subset, age, strain "
                    "on the infected compartments) with splits summing to one; the stratified program is compared with the model; "
                    "on the implementation stratified vs unstratified: comp_rates and per-name flow rates at 3 (quick) / 6 "
                    "(thorough) states summed over the new strata, outputs and flow / compartment derived outputs for euler, rk4 "
                    "and the adaptive solver (while the stratified states stay non-negative); non-trivial = builds",
            "dist": dist(out)}
