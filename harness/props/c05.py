"""C05 - force of infection follows the mixing, strain and infectiousness definition."""
from .common import *  # noqa

KEYS = {"infectious_multipliers", "flow_rates"}
# observations whose model value is the property's specified value (a disagreement there is a failing input);
# on the others the correspondence supports the tie and the oracle searches for the failing input
SPEC_KEYS = {"infectious_multipliers", "flow_rates"}


def run(tier, seed):
    n = tier_n(tier, 220, 3000)
    g = gen.Gen(seed * 7919 + 5)
    progs = []
    while len(progs) < n:
        p = g.program({"nonlinear": True, "nstrat": g.rng.choice([1, 2, 2, 3]), "requests": False, "p_mix": 0.7,
                       "state_rates": False, "kind_pool": ["transition", "death"], "cross_strain": 0.6,
                       "bare_adjs": 0.4, "partial_strain": 0.4})
        if any(o["op"] == "flow" and o["kind"].startswith("infection") for o in p["ops"]):
            progs.append(p)
    # several mixing stratifications in sequence, constant and parameterised / time-varying matrices in
    # every order (the Kronecker product must follow the order of application)
    for i in range(max(6, n // 8)):
        r = g.rng
        kind_inf = r.choice(["infection_frequency", "infection_density"])
        ops = [{"op": "pop", "dist": {"S": gen.dy(r, 100, 900, 0), "I": gen.dy(r, 10, 90, 0)}},
               {"op": "flow", "kind": kind_inf, "name": "inf", "param": gen.frac(r), "src": "S", "dst": "I"},
               {"op": "flow", "kind": "transition", "name": "rec", "param": gen.frac(r), "src": "I", "dst": "R"}]
        names = r.sample(["loc", "risk", "vac"], r.choice([2, 3]))
        for nm in names:
            strata = gen.STRATA_POOL[nm][: r.choice([2, 2, 3])]
            k = len(strata)
            dynamic = r.random() < 0.5
            mix = [[(g.rate(allow_time=True) if (dynamic and r.random() < 0.5) else gen.frac(r)) for _ in range(k)] for _ in range(k)]
            if dynamic:
                mix[0][0] = {"p": r.choice(gen.PARAMS)} if r.random() < 0.5 else {"+": [gen.frac(r), {"*": ["1/16", "t"]}]}
            iadj = {"I": {s_: (None if r.random() < 0.4 else {"mul": gen.frac(r)}) for s_ in strata}} if r.random() < 0.5 else {}
            ops.append({"op": "strat", "kind": "plain", "name": nm, "strata": strata, "comps": ["S", "I", "R"],
                        "fadj": [], "iadj": iadj, "mix": mix})
        if i % 2 == 0:
            # people move between mixing categories (closed population: nothing enters or leaves the model)
            cross_nm = names[0]
            st0 = gen.STRATA_POOL[cross_nm][:2]
            ops.append({"op": "flow", "kind": "transition", "name": "move", "param": gen.frac(r), "src": "S", "dst": "S",
                        "sf": {cross_nm: st0[0]}, "df": {cross_nm: st0[1]}})
            ops.append({"op": "flow", "kind": "transition", "name": "moveI", "param": gen.frac(r), "src": "I", "dst": "I",
                        "sf": {cross_nm: st0[1]}, "df": {cross_nm: st0[0]}})
        progs.append({"times": ["0", r.choice(["2", "3", "4"]), "1"], "comps": ["S", "I", "R"], "inf": ["I"], "ops": ops,
                      "meta": {"flows": [kind_inf, "transition"], "strats": ["plain"] * len(names), "mix": len(names)},
                      "nonlinear": True})
    out = []
    for p, st in with_struct(progs):
        if st is None:
            p["obs"] = [{"obs": "struct"}]
            out.append(p)
            continue
        nc = len(st["comps"])
        obs = []
        for k in range(2 if tier == "quick" else 5):
            pv = g.params_values(small=True)
            x = fix_domain(p, st["comps"], g.state(nc, "pos"))
            t = gen.dy(g.rng, 0, 24, 2)
            obs.append({"obs": "onestep", "params": pv, "t": t, "x": x})
            obs.append({"obs": "oracle", "name": "c05", "params": pv, "t": t, "x": x, "traj": k == 0,
                        "program": checklib.strip_meta(dict(p, obs=[]))})
        p["obs"] = obs
        out.append(p)
    ex = checklib.explore(out, keys=KEYS, per_prog_timeout=20.0)
    nontrivial = set()
    for p, a in zip(out, ex["mres"]):
        if a.get("build_error") is None and any(o.get("infectious_multipliers") for o in (a.get("obs") or [])):
            nontrivial.add(checklib.signature(p))
    return {"programs": out, "explore": ex, "distinct_nontrivial": len(nontrivial),
            "rule": "models with 1-2 infectious compartments, frequency or density transmission, 1-3 stratifications drawn from "
                    "full (with static / parameterised / time-varying mixing matrices, p=0.7), partial, age and strain "
                    "stratifications (strain stratification under any name), infectiousness adjustments (Multiply, Overwrite, "
                    "None, parameters); one_step at 2 (quick) / 5 (thorough) states with positive category populations; compared "
                    "with the model; on the implementation a brute-force force of infection from the strata, np.kron of the "
                    "matrices and the adjustment chain; non-trivial = has infection flows and builds",
            "dist": dist(out)}
