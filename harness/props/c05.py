"""C05 - force of infection follows the mixing, strain and infectiousness definition."""
from .common import *  # noqa

KEYS = {"infectious_multipliers", "flow_rates"}


def run(tier, seed):
    n = tier_n(tier, 220, 3000)
    g = gen.Gen(seed * 7919 + 5)
    progs = []
    while len(progs) < n:
        p = g.program({"nonlinear": True, "nstrat": g.rng.choice([1, 2, 2, 3]), "requests": False, "p_mix": 0.7,
                       "state_rates": False, "kind_pool": ["transition", "death"]})
        if any(o["op"] == "flow" and o["kind"].startswith("infection") for o in p["ops"]):
            progs.append(p)
    out = []
    for p, st in with_struct(progs):
        if st is None:
            p["obs"] = [{"obs": "struct"}]
            out.append(p)
            continue
        nc = len(st["comps"])
        obs = []
        for k in range(2 if tier == "quick" else 5):
            pv = g.params_values(small=True)
            x = fix_domain(p, st["comps"], g.state(nc, "pos"))
            t = gen.dy(g.rng, 0, 24, 2)
            obs.append({"obs": "onestep", "params": pv, "t": t, "x": x})
            obs.append({"obs": "oracle", "name": "c05", "params": pv, "t": t, "x": x, "program": checklib.strip_meta(dict(p, obs=[]))})
        p["obs"] = obs
        out.append(p)
    ex = checklib.explore(out, keys=KEYS, per_prog_timeout=20.0)
    nontrivial = set()
    for p, a in zip(out, ex["mres"]):
        if a.get("build_error") is None and any(o.get("infectious_multipliers") for o in (a.get("obs") or [])):
            nontrivial.add(checklib.signature(p))
    return {"programs": out, "explore": ex, "distinct_nontrivial": len(nontrivial),
            "rule": "models with 1-2 infectious compartments, frequency or density transmission, 1-3 stratifications drawn from "
                    "full (with static / parameterised / time-varying mixing matrices, p=0.7), partial, age and strain "
                    "stratifications (strain stratification under any name), infectiousness adjustments (Multiply, Overwrite, "
                    "None, parameters); one_step at 2 (quick) / 5 (thorough) states with positive category populations; compared "
                    "with the model; on the implementation a brute-force force of infection from the strata, np.kron of the "
                    "matrices and the adjustment chain; non-trivial = has infection flows and builds",
            "dist": dist(out)}
