"""C19 - a runner is a traceable array program of its parameters."""
import copy
import json
from .common import *  # noqa
import runner as R

KEYS = {"outputs", "derived", "flow_rates", "comp_rates"}
# observations whose model value is the property's specified value (a disagreement there is a failing input);
# on the others the correspondence supports the tie and the oracle searches for the failing input
SPEC_KEYS = set()


def parameterise_sites(p, rng, prob=0.6, directed_split=False):
    """every numeric literal of the definition (rates, adjustments, splits, infectiousness, mixing, distribution,
    interpolation points and values, function-output constants) may become a named parameter with the same value,
    so that it is dynamic in the runner"""
    q = copy.deepcopy(p)
    extra = {}
    groups = []     # names of the parameters standing for the population split of one stratification

    def sub(e, allow=True):
        nonlocal prob
        if isinstance(e, str):
            if e == "t" or not allow or rng.random() > prob:
                return e
            name = "q%d" % len(extra)
            extra[name] = e
            return {"p": name}
        if isinstance(e, dict):
            (k, v), = e.items()
            if k in ("p", "c"):
                return e
            if k in ("pw", "lin"):
                # breakpoints stay literal (they must stay ordered); the values may be parameters
                return {k: [sub(v[0]), v[1], [sub(b) for b in v[2]]]}
            return {k: [sub(a) for a in v]}
        return e

    def subadj(a):
        if a is None:
            return None
        (k, v), = a.items()
        return {k: sub(v)}

    for o in q["ops"]:
        k = o["op"]
        if k == "pop":
            # (directed_split: a distribution of plain numbers under population splits that are all parameters)
            o["dist"] = {c: sub(v, allow=not directed_split) for c, v in o["dist"].items()}
        elif k in ("flow", "udeath"):
            o["param"] = sub(o["param"])
        elif k == "strat":
            if o.get("split"):
                if directed_split:
                    keep_, prob = prob, 1.0
                o["split"] = {s: sub(v) for s, v in o["split"].items()}
                if directed_split:
                    prob = keep_
                groups.append([v["p"] for v in o["split"].values() if isinstance(v, dict) and "p" in v and v["p"] in extra])
            o["fadj"] = [[fn, {s: subadj(a) for s, a in adjs.items()}, sf, df] for fn, adjs, sf, df in o.get("fadj", [])]
            o["iadj"] = {c: {s: subadj(a) for s, a in adjs.items()} for c, adjs in (o.get("iadj") or {}).items()}
            if o.get("mix") is not None:
                o["mix"] = [[sub(e) for e in row] for row in o["mix"]]
        # (adjust_population_split validates its proportions numerically: they stay literal)
        elif k == "req" and o["req"]["type"] == "func":
            o["req"]["params"] = [sub(e) for e in o["req"]["params"]]
        elif k == "cv":
            o["e"] = sub(o["e"])
    return q, extra, groups


def kernel_cases(rng, n):
    """concrete inputs for the translated kernels (sorted points, evaluation points below / at / between / above)"""
    F = gen.Fraction
    cases = []
    for i in range(n):
        k = rng.randint(1, 7)
        pts = sorted(rng.sample(range(-8, 40), k))
        x = rng.choice([F(p) for p in pts] + [F(p) + F(1, 2) for p in pts] + [F(pts[0] - 3), F(pts[-1] + 5)])
        name = ["binary_search_sum_ge", "piecewise_constant", "linear_curve_at_x", "interpolate_linear", "clean_compartments"][i % 5]
        if name == "binary_search_sum_ge":
            cases.append({"name": name, "args": {"x": str(x), "points": [str(p) for p in pts]}})
        elif name == "piecewise_constant":
            cases.append({"name": name, "args": {"x": str(x), "breakpoints": [str(p) for p in pts],
                                                 "values": [str(F(rng.randint(0, 64), 8)) for _ in range(k + 1)]}})
        elif name in ("linear_curve_at_x", "interpolate_linear"):
            if k < 2:
                pts = [pts[0], pts[0] + 4]
                k = 2
            ys = [F(rng.randint(0, 64), 8) for _ in range(k)]
            if name == "linear_curve_at_x":
                x = min(max(x, F(pts[0])), F(pts[-1]) - F(1, 4))     # the inner function is used inside the points only
            cases.append({"name": name, "args": {"x": str(x), "xs": [str(p) for p in pts], "ys": [str(y) for y in ys]}})
        else:
            cases.append({"name": name, "args": {"compartment_values": [str(F(rng.randint(-16, 64), 8)) for _ in range(rng.randint(1, 6))]}})
    return cases


def kernel_lines(cases):
    F = gen.Fraction

    def arr(v):
        return "(" + " ".join(v) + ")"

    out = []
    for c in cases:
        a = c["args"]
        if c["name"] in ("linear_curve_at_x", "interpolate_linear"):
            xs, ys = [F(v) for v in a["xs"]], [F(v) for v in a["ys"]]
            def rec(nm, pts):
                return "(%s.points A %s) (%s.ranges A %s) (%s.bounds A %s)" % (
                    nm, arr([str(p) for p in pts]), nm, arr([str(b - a_) for a_, b in zip(pts, pts[1:])]),
                    nm, arr([str(pts[0]), str(pts[-1])]))
            var = "x" if c["name"] == "linear_curve_at_x" else "t"
            out.append("(kernel %s ((%s S %s) %s %s))" % (c["name"], var, a["x"], rec("xdata", xs), rec("ydata", ys)))
        else:
            binds = " ".join("(%s %s %s)" % (k, "A" if isinstance(v, list) else "S", arr(v) if isinstance(v, list) else v)
                             for k, v in a.items())
            out.append("(kernel %s (%s))" % (c["name"], binds))
    return out


# the adaptive solver with options of its own (a step budget, tolerances, a largest step)
SOLVER_OPTS = ['solve_ivp|{"mxstep": 40}', 'solve_ivp|{"rtol": 0.001, "atol": 0.001, "mxstep": 100}', 'solve_ivp|{"rtol": 0.001, "atol": 1e-05}']


def run(tier, seed):
    n = tier_n(tier, 60, 600)
    g = gen.Gen(seed * 7919 + 19)
    progs = []
    for i in range(n):
        base = g.program({"requests": True, "nsteps": 2, "nstrat": g.rng.choice([0, 1, 2, 2]), "p_post": 0.3,
                          "nonlinear": g.rng.random() < 0.5, "state_rates": g.rng.random() < 0.3})
        # cumulative outputs that start at a later model time (a different code path from the plain cumulative sum)
        t0_, h_ = gen.Fraction(base["times"][0]), gen.Fraction(base["times"][2])
        for o in base["ops"]:
            if o["op"] == "req" and o["req"]["type"] == "cum" and g.rng.random() < 0.6:
                o["req"]["start"] = str(t0_ + g.rng.randint(0, int(nsteps(base))) * h_)
        if i % 4 == 0 and not any(o["op"] == "req" and o["req"]["type"] == "cum" for o in base["ops"]):
            srcs = [o["name"] for o in base["ops"] if o["op"] == "req"]
            if srcs:
                wl = [o for o in base["ops"] if o["op"] == "whitelist"]
                base["ops"] = [o for o in base["ops"] if o["op"] != "whitelist"] + \
                    [{"op": "req", "name": "cst", "save": True, "req": {"type": "cum", "source": srcs[0], "start": str(t0_ + h_)}}] + wl
        p, extra, groups = parameterise_sites(base, g.rng, directed_split=(i % 3 == 1))
        pv = dict(g.params_values(small=True), **extra)
        pv2 = dict(g.params_values(small=True), **extra)      # same structure-relevant values, other rates
        for grp in groups:
            # ... and the parameterised shares of a population split handed round (they still add up to what they did)
            if len(grp) >= 2:
                for a_, b_ in zip(grp, grp[1:] + grp[:1]):
                    pv2[a_] = extra[b_]
        p["obs"] = [{"obs": "struct"}]
        progs.append((p, pv, pv2))
    out = []
    for (p, pv, pv2), st in zip(progs, [s for _, s in with_struct([q for q, _, _ in progs])]):
        if st is not None:
            nc = len(st["comps"])
            x = fix_domain(p, st["comps"], g.state(nc, "pos"))
            t = gen.dy(g.rng, 0, 16, 2)
            if (not p["nonlinear"]) or nsteps(p) <= 2:
                p["obs"].append({"obs": "run", "solver": "euler", "params": pv})
            p["obs"].append({"obs": "onestep", "params": pv, "t": t, "x": x})
            dyn = None if g.rng.random() < 0.6 else sorted(g.rng.sample(sorted(pv), g.rng.randint(0, len(pv))))
            p["obs"].append({"obs": "traced_run", "solvers": ["euler", "rk4", "solve_ivp"] + ([SOLVER_OPTS[len(out) % len(SOLVER_OPTS)]] if len(out) % 4 == 0 else []), "param_sets": [pv, pv2], "dyn": dyn,
                             "t": t, "x": x})
        out.append(p)
    cases = kernel_cases(g.rng, 100 if tier == "quick" else 2000)
    out.append(carrier([{"obs": "kernels", "cases": cases}]))
    # the library's own time functions (windowed / piecewise / interpolated, over time and over state, with parameterised
    # points and values) and series helpers (rolling difference / reduction) inside jit=True runners
    out.append(carrier([{"obs": "traced_library", "solvers": ["euler", "rk4", "solve_ivp"]}]))
    ex = checklib.explore(out, keys=KEYS, per_prog_timeout=120.0)
    # the same programs with the value-tainting array stand-in
    tainted = R.run_impl(out, extra_env={"SUMMER2_VERIF_TAINT": "1"}, per_prog_timeout=240.0)
    extra, traced_runs, traced_ok = [], 0, 0
    for i, (p, ref, tr) in enumerate(zip(out, ex["ires"], tainted)):
        if ref.get("build_error") is not None or "harness_error" in ref:
            continue
        if "harness_error" in tr or tr.get("build_error") is not None:
            extra.append(("traced execution: harness failure or build error under the tainting stand-in: %s" % json.dumps(tr)[:300],
                          {"program": checklib.strip_meta(p)}, False))
            continue
        for j, (a, b) in enumerate(zip(ref["obs"], tr["obs"])):
            if "traced" not in a and "traced" not in b:
                continue
            if "error" in b and "traced" not in b and str(b["error"]).startswith("domain: time limit"):
                continue        # (the observation ran into the harness's time limit: not compared, see checklib.explore)
            if "error" in b and "traced" not in b:
                extra.append(("traced execution fails: %s" % b["error"][:300], {"program": checklib.strip_meta(p), "obs": j}, True))
                continue
            for solver, rb in b["traced"].items():
                ra = a.get("traced", {}).get(solver, {})
                traced_runs += 1
                if "error" in rb:
                    if "error" in ra:
                        continue        # fails without tracing too (e.g. a missing frozen parameter): not a tracing matter
                    e = rb["error"]
                    what = ("needs the concrete value of a run-time dependent array" if e["concretization"] else "raises %s" % e["type"])
                    extra.append(("oracle: %s runner %s under tracing: %s at %s" % (solver, what, e["message"][:160], " <- ".join(e["where"][::-1])),
                                  {"program": checklib.strip_meta(p), "obs": j, "solver": solver, "error": e,
                                   "kind": "value-dependent Python control flow / concretisation in the traced run function"}, True))
                    continue
                if "error" in ra:
                    continue
                if ra.get("reuse_vs_fresh"):
                    extra.append(("oracle: %s runner compiled with one parameter set and run with another differs from a runner compiled with "
                                  "that other set by %.3g (relative); first rows %s" % (solver, ra["reuse_vs_fresh"], json.dumps(ra.get("reuse_row0"))[:300]),
                                  {"program": checklib.strip_meta(p), "obs": j, "solver": solver,
                                   "kind": "a run-time quantity folded into the compiled runner"}, True))
                    continue
                if json.dumps(ra, sort_keys=True) != json.dumps(rb, sort_keys=True):
                    extra.append(("oracle: %s runner gives different numbers when traced (both parameter sets on one compiled runner)" % solver,
                                  {"program": checklib.strip_meta(p), "obs": j, "solver": solver}, True))
                else:
                    traced_ok += 1
    # the translated kernels (Gen/TraceGen.v), evaluated eagerly by the extracted model, against the Python functions
    import subprocess
    import os
    exe = os.path.join(checklib.BUILD, "summer_model")
    pr = subprocess.run([exe], input="\n".join(kernel_lines(cases)) + "\n", capture_output=True, text=True, timeout=300)
    mk = [json.loads(l) for l in pr.stdout.split("\n") if l.strip()]
    ik = ex["ires"][-2]["obs"][0].get("kernels") if ex["ires"][-2].get("obs") else None
    kernel_checks = 0
    if ik is None or len(mk) != len(cases):
        extra.append(("kernel correspondence could not be evaluated: %s" % (json.dumps(ex["ires"][-2])[:200] + pr.stderr[-200:]),
                      {"kind": "harness"}, False))
    else:
        for c, a, b in zip(cases, mk, ik):
            kernel_checks += 1
            av = a.get("kernel")
            if isinstance(b, dict) or av is None:
                extra.append(("kernel %s: model %s / implementation %s on %s" % (c["name"], av, b, c["args"]), {"kernel_case": c}, True))
                continue
            av = [float(gen.Fraction(v)) for v in (av if isinstance(av, list) else [av])]
            if len(av) != len(b) or any(abs(x - y) > 1e-9 * (1 + abs(x)) for x, y in zip(av, b)):
                extra.append(("kernel %s: the translated term gives %s, the implementation %s on %s" % (c["name"], av, b, c["args"]),
                              {"kernel_case": c, "kind": "translated kernel differs from the code"}, True))
    nontrivial = {checklib.signature(p) for p, a in zip(out, ex["mres"]) if a.get("build_error") is None}
    return {"programs": out, "explore": ex, "distinct_nontrivial": len(nontrivial), "extra_violations": extra[:12],
            "extra_coverage": {"traced_runner_executions": traced_runs, "traced_and_identical": traced_ok,
                               "translated_kernel_evaluations_compared": kernel_checks},
            "rule": "random models in which ~60% of all numeric sites (rates, adjustments, splits, infectiousness adjustments, "
                    "mixing matrices, distribution, interpolation values, function-output constants, computed values) are "
                    "named parameters; euler run and one_step compared with the model; the implementation's jit=True runner "
                    "(euler, rk4, adaptive; all / some / no dynamic parameters; two parameter sets on one runner; jitted "
                    "one_step at a traced time and state) is executed under the value-tainting jax stand-in - jit arguments, "
                    "loop carries and indices, cond / switch operands are tracers, bool() / int() / float() / index / boolean "
                    "mask / shape use / numpy-function use of a tracer raises, all branches of cond / switch are executed - and "
                    "must finish with numbers bit-identical to the untraced execution; the library's time functions and series helpers inside jit=True runners likewise; the kernels translated into the tracing "
                    "model's language are evaluated on concrete inputs and compared with the Python functions; non-trivial = builds",
            "dist": dist(out)}
