"""C16 - the time-function library computes the interpolants it documents."""
from fractions import Fraction
from .common import *  # noqa

KEYS = {"flow_rates"}
# observations whose model value is the property's specified value (a disagreement there is a failing input);
# on the others the correspondence supports the tie and the oracle searches for the failing input
SPEC_KEYS = {"flow_rates"}


def lattice(xs):
    ts = [xs[0] - 2, xs[-1] + 3]
    for a in xs:
        ts += [a, a - Fraction(1, 8), a + Fraction(1, 8)]
    for a, b in zip(xs, xs[1:]):
        ts.append((a + b) / 2)
    return sorted(set(ts))


def run(tier, seed):
    g = gen.Gen(seed * 7919 + 16)
    r = g.rng
    maxlen = 6 if tier == "quick" else 9
    progs = []
    for n in range(1, maxlen + 1):
        for rep in range(2 if tier == "quick" else 6):
            xs = sorted(r.sample([Fraction(i, 2) for i in range(-6, 30)], n))
            ys = [Fraction(r.randint(-20, 60), 4) for _ in xs]
            vals = [Fraction(r.randint(0, 60), 4) for _ in range(n + 1)]
            axis = r.choice(["t", "t", {"p": "beta"}, {"+": [{"c": 0}, "0"]}])
            ops = [{"op": "pop", "dist": {"A": "7", "B": "3"}},
                   {"op": "flow", "kind": "absolute", "name": "pw", "src": "A", "dst": "B",
                    "param": {"pw": [axis, [str(x) for x in xs], [str(v) for v in vals]]}}]
            if n >= 2:
                ops.append({"op": "flow", "kind": "absolute", "name": "lin", "src": "A", "dst": "B",
                            "param": {"lin": [axis, [str(x) for x in xs], [str(y) for y in ys]]}})
            obs = []
            for t in lattice(xs):
                if axis == "t":
                    obs.append({"obs": "onestep", "params": {"beta": "1"}, "t": str(t), "x": ["7", "3"]})
                elif isinstance(axis, dict) and "p" in axis:
                    obs.append({"obs": "onestep", "params": {"beta": str(t)}, "t": "0", "x": ["7", "3"]})
                else:
                    obs.append({"obs": "onestep", "params": {"beta": "1"}, "t": "0", "x": [str(t), "3"]})
            progs.append({"times": ["0", "2", "1"], "comps": ["A", "B"], "inf": ["B"], "ops": ops, "obs": obs,
                          "meta": {"flows": ["absolute"]}, "nonlinear": False})
    progs[0]["obs"].append({"obs": "oracle", "name": "c16", "seed": seed, "n": 16 if tier == "quick" else 200,
                            "maxlen": 7 if tier == "quick" else 10})
    # any x-axis argument: the same functions over a compartment value, a shifted / scaled time, a parameter
    progs.append(carrier([{"obs": "oracle", "name": "c10_axis", "seed": seed, "n": 12 if tier == "quick" else 120}]))
    ex = checklib.explore(progs, keys=KEYS, per_prog_timeout=60.0)
    nontrivial = {checklib.signature(p) for p in progs}
    return {"programs": progs, "explore": ex, "distinct_nontrivial": len(nontrivial),
            "rule": "exhaustive lattice: point sets of every length 1..%d, evaluation points below, at, just beside, between "
                    "and above every point; the function is used as the rate of a flow inside a model (one_step) with the "
                    "x-axis being time, a parameter or a compartment value; compared with the model whose kernels are translated "
                    "from functions/util.py and interpolate.py; on the implementation get_time_callable (scalar and vectorised; "
                    "arrays, lists with parameters, Data objects) vs np.interp / values[#{b<=x}], sigmoid properties at "
                    "curvatures 16, 4, 1e-3, rolling helpers vs pandas.Series; every program is non-trivial" % maxlen,
            "dist": {"programs_per_length": 2 if tier == "quick" else 6}}
