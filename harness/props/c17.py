"""C17 - ill-formed model definitions are rejected instead of silently simulated."""
import copy
from .common import *  # noqa

KEYS = {"comps"}
# observations whose model value is the property's specified value (a disagreement there is a failing input);
# on the others the correspondence supports the tie and the oracle searches for the failing input
SPEC_KEYS = {"build"}


def strat_ops(p):
    return [i for i, o in enumerate(p["ops"]) if o["op"] == "strat"]


def inject(p, cls, r):
    """returns (program, expected failing position) or None when the class does not apply.
    Positions: 0 = constructor, k = k-th op (1-based)."""
    q = copy.deepcopy(p)
    if cls == "unknown_infectious":
        q.pop("inf_bare", None)
    ops = q["ops"]
    comps = q["comps"]
    sidx = strat_ops(q)
    flows = [i for i, o in enumerate(ops) if o["op"] == "flow"]
    names = [o["name"] for o in ops if o["op"] == "flow"]
    if cls == "end_before_start":
        q["times"] = [q["times"][1], q["times"][0], q["times"][2]]
        return q, 0
    if cls == "timestep_not_dividing":
        t0, t1, h = (gen.Fraction(x) for x in q["times"])
        q["times"] = [str(t0), str(t1), str((t1 - t0) * gen.Fraction(2, 3))] if (t1 - t0) > 0 else None
        return (q, 0) if q["times"] else None
    if cls == "timestep_not_dividing_long":
        # many steps: a relative tolerance on span / timestep would let these through
        t0, t1, h = (gen.Fraction(x) for x in q["times"])
        nlong = r.choice([20000, 36525, 100000, 250000])
        q["times"] = [str(t0), str(t0 + nlong * h + h * r.choice([gen.Fraction(1, 10), gen.Fraction(1, 4), gen.Fraction(1, 2), gen.Fraction(1, 100)])), str(h)]
        return q, 0
    if cls == "unknown_infectious":
        q["inf"] = q["inf"] + ["Zz"]
        return q, 0
    if cls == "unknown_infectious_bare_string":
        # one string that is not a compartment name although each of its characters is one 
        if not all(len(c_) == 1 for c_ in comps):
            return None
        k_ = r.choice([2, 2, 3, len(comps)])
        q["inf"] = ["".join(r.sample(comps, min(k_, len(comps))))]
        q["inf_bare"] = True
        return q, 0
    if cls == "unknown_population_compartment":
        i = next(i for i, o in enumerate(ops) if o["op"] == "pop")
        ops[i]["dist"]["Zz"] = "5"
        return q, i + 1
    if cls == "unknown_stratified_compartment" and sidx:
        i = r.choice(sidx)
        if ops[i]["kind"] == "strain" or ops[i].get("mix") is not None or ops[i]["kind"] == "age":
            return None
        ops[i]["comps"] = ops[i]["comps"] + ["Zz"]
        return q, i + 1
    if cls == "unknown_flow_compartment":
        i = len(ops)
        for j, o in enumerate(ops):
            if o["op"] in ("strat", "req", "rebalance", "whitelist", "cv"):
                i = j
                break
        kind = r.choice(["transition", "infection_frequency", "absolute"])
        c_ = r.random()
        a, b = ("Zz", comps[0]) if c_ < 0.35 else ((comps[0], "Zz") if c_ < 0.7 else ("Zz", "Yy"))     # one end or both ends unknown
        ops.insert(i, {"op": "flow", "kind": kind, "name": "bad", "param": "1/2", "src": a, "dst": b})
        return q, i + 1
    if cls == "unknown_flow_compartments_both":
        # neither end exists (both selections are empty), or an unknown end against a selection that a strata filter empties
        i = len(ops)
        for j, o in enumerate(ops):
            if o["op"] in ("req", "rebalance", "whitelist", "cv"):
                i = j
                break
        kind = r.choice(["transition", "infection_frequency", "infection_density", "absolute"])
        prior = [ops[j] for j in sidx if j < i and ops[j]["kind"] == "plain" and set(ops[j]["comps"]) != set(comps)]
        if prior and r.random() < 0.4:
            # the valid end names a compartment the stratification does not cover, filtered by one of its strata: nothing matches
            so = prior[-1]
            outside = [c for c in comps if c not in so["comps"]]
            o2 = {"op": "flow", "kind": kind, "name": "bad", "param": "1/2", "src": outside[0], "dst": "Zz",
                  "sf": {so["name"]: so["strata"][0]}}
        else:
            o2 = {"op": "flow", "kind": kind, "name": "bad", "param": "1/2", "src": "Zz", "dst": "Yy"}
        ops.insert(i, o2)
        return q, i + 1
    if cls == "output_for_unknown_compartment":
        ops.append({"op": "req", "name": "badreq", "save": True, "req": {"type": "comp", "names": ["Zz"], "filt": {}}})
        return q, len(ops)
    if cls == "output_for_unmatched_compartment":
        # the name exists and the stratum exists, but no compartment has both (a partial stratification)
        part = [i for i in sidx if ops[i]["kind"] == "plain" and set(ops[i]["comps"]) != set(comps)]
        if not part:
            return None
        i = r.choice(part)
        outside = [c for c in comps if c not in ops[i]["comps"]]
        if not outside:
            return None
        ops.append({"op": "req", "name": "badreq", "save": True,
                    "req": {"type": "comp", "names": [r.choice(outside)], "filt": {ops[i]["name"]: r.choice(ops[i]["strata"])}}})
        return q, len(ops)
    if cls == "output_for_unmatched_flow":
        # the flow exists and the stratum exists, but no flow of that name has an end in it
        part = [i for i in sidx if ops[i]["kind"] == "plain" and set(ops[i]["comps"]) != set(comps)]
        if not part:
            return None
        i = r.choice(part)
        cands = [o for j, o in enumerate(ops) if o["op"] == "flow" and j < i and o["kind"] in ("transition", "death")
                 and o.get("src") not in ops[i]["comps"] and names.count(o["name"]) == 1]
        if not cands:
            return None
        ops.append({"op": "req", "name": "badreq", "save": True,
                    "req": {"type": "flow", "flow_name": r.choice(cands)["name"], "sf": {ops[i]["name"]: r.choice(ops[i]["strata"])}}})
        return q, len(ops)
    if cls == "output_for_unknown_flow":
        ops.append({"op": "req", "name": "badreq", "save": True, "req": {"type": "flow", "flow_name": "nosuchflow"}})
        return q, len(ops)
    if cls == "adjusting_unknown_flow" and sidx:
        i = r.choice(sidx)
        ops[i].setdefault("fadj", []).append(["nosuchflow", {s: {"mul": "2"} for s in ops[i]["strata"]}, {}, {}])
        return q, i + 1
    if cls == "unknown_filter_strata" and sidx and names:
        i = r.choice(sidx)
        earlier = [ops[j] for j in sidx if j < i]
        fn = r.choice([n for j, n in zip(flows, names) if j < i] or [None])
        if fn is None:
            return None
        _FILTER_VARIANT[0] += 1
        variant = _FILTER_VARIANT[0] % 4 if earlier else 0            # every variant in turn
        filt = {"nosuchstrat": "x"} if variant == 0 else {earlier[0]["name"]: "nosuchstratum"}
        dfilt = {}
        if variant >= 2:
            dfilt = {earlier[0]["name"]: earlier[0]["strata"][0]}      # the same key on the other end, with a valid stratum
            if variant == 3:
                filt, dfilt = dfilt, filt                               # ... or the unknown stratum on the destination side
        ops[i].setdefault("fadj", []).append([fn, {s: {"mul": "2"} for s in ops[i]["strata"]}, filt, dfilt])
        return q, i + 1
    if cls == "unknown_output_source":
        kind = r.choice(["agg", "cum", "func"])
        rq = {"agg": {"type": "agg", "sources": ["nosuchoutput"]}, "cum": {"type": "cum", "source": "nosuchoutput", "start": None},
              "func": {"type": "func", "fn": 0, "sources": ["nosuchoutput", "nosuchoutput"], "params": ["1/2"]}}[kind]
        if kind in ("agg", "cum") and r.random() < 0.5:
            rq["objs"] = True        # the missing source handed over as a DerivedOutput object (a mistyped name, a stale handle)
        ops.append({"op": "req", "name": "badreq", "save": True, "req": rq})
        return q, len(ops)
    if cls == "adjustment_omits_stratum" and sidx and names:
        i = r.choice(sidx)
        fn = r.choice([n for j, n in zip(flows, names) if j < i] or [None])
        if fn is None or len(ops[i]["strata"]) < 2:
            return None
        ops[i].setdefault("fadj", []).append([fn, {s: {"mul": "2"} for s in ops[i]["strata"][1:]}, {}, {}])
        return q, i + 1
    if cls == "infectiousness_omits_stratum" and sidx:
        i = r.choice(sidx)
        cands = [c for c in q["inf"] if c in ops[i]["comps"]]
        if not cands or len(ops[i]["strata"]) < 2:
            return None
        ops[i]["iadj"] = {cands[0]: {s: {"mul": "2"} for s in ops[i]["strata"][1:]}}
        return q, i + 1
    if cls in ("split_omits_stratum", "split_negative", "split_not_one") and sidx:
        i = r.choice(sidx)
        st = ops[i]["strata"]
        if len(st) < 2:
            return None
        n = len(st)
        if cls == "split_omits_stratum":
            ops[i]["split"] = {s: str(gen.Fraction(1, n - 1)) for s in st[1:]}
        elif cls == "split_negative":
            ops[i]["split"] = {s: ("-1/4" if k == 0 else str(gen.Fraction(5, 4 * (n - 1)))) for k, s in enumerate(st)}
        else:
            ops[i]["split"] = {s: "3/4" for s in st}
        return q, i + 1
    if cls == "second_birth_flow":
        births = [i for i in flows if ops[i]["kind"] in ("crude_birth", "replacement_birth")]
        if not births:
            return None
        i = births[0] + 1
        ops.insert(i, {"op": "flow", "kind": r.choice(["crude_birth", "replacement_birth"]), "name": "b2", "param": "1/8", "dst": comps[0]})
        return q, i + 1
    if cls in ("second_age", "second_strain"):
        kind = "age" if cls == "second_age" else "strain"
        have = [i for i in sidx if ops[i]["kind"] == kind]
        if not have or any(o["op"] in ("req", "rebalance") for o in ops):
            return None
        scomps = list(comps) if kind == "age" else ops[have[0]]["comps"]
        ops.append({"op": "strat", "kind": kind, "name": kind + "2", "strata": ["0", "7"] if kind == "age" else ["u", "w"],
                    "comps": scomps, "fadj": [], "iadj": {}})
        if kind == "age" and r.random() < 0.5:
            ops[-1]["mix"] = [["1/2", "1/4"], ["1/4", "1"]]      # (a full stratification may carry a matrix: still a second age stratification)
        return q, len(ops)
    if cls == "duplicate_stratification" and sidx:
        if any(o["op"] in ("req", "rebalance") for o in ops):
            return None
        i = r.choice(sidx)
        ops.append({"op": "strat", "kind": "plain", "name": ops[i]["name"], "strata": ["d1", "d2"], "comps": list(comps), "fadj": [], "iadj": {}})
        return q, len(ops)
    if cls == "duplicate_universal_death":
        us = [i for i, o in enumerate(ops) if o["op"] == "udeath"]
        if not us:
            return None
        ops.insert(us[0] + 1, dict(ops[us[0]]))
        return q, us[0] + 2
    if cls == "duplicate_output_name":
        rs = [i for i, o in enumerate(ops) if o["op"] == "req"]
        if not rs:
            return None
        ops.insert(rs[0] + 1, copy.deepcopy(ops[rs[0]]))
        return q, rs[0] + 2
    if cls in ("mixing_on_partial", "age_on_partial", "mixing_on_strain"):
        if any(o["op"] in ("req", "rebalance") for o in ops) or len(comps) < 2:
            return None
        if cls == "mixing_on_partial":
            o = {"op": "strat", "kind": "plain", "name": "mp", "strata": ["p1", "p2"], "comps": comps[:1], "fadj": [], "iadj": {},
                 "mix": [["1/2", "1/2"], ["1/2", "1/2"]]}
        elif cls == "age_on_partial":
            if any(ops[i]["kind"] == "age" for i in sidx):
                return None
            o = {"op": "strat", "kind": "age", "name": "age", "strata": ["0", "9"], "comps": comps[:1], "fadj": [], "iadj": {}}
        else:
            if any(ops[i]["kind"] == "strain" for i in sidx):
                return None
            o = {"op": "strat", "kind": "strain", "name": "strain", "strata": ["a", "b"], "comps": list(q["inf"]), "fadj": [], "iadj": {},
                 "mix": [["1/2", "1/2"], ["1/2", "1/2"]]}
        ops.append(o)
        return q, len(ops)
    if cls == "unequal_source_dest":
        part = [i for i in sidx if ops[i]["comps"] != list(comps) and len(ops[i]["strata"]) > 1 and ops[i]["kind"] == "plain"]
        if not part or any(o["op"] in ("req", "rebalance") for o in ops):
            return None
        i = part[0]
        inside = ops[i]["comps"][0]
        outside = [c for c in comps if c not in ops[i]["comps"]]
        # the destination must not be stratified at all: 1 destination compartment against >= 2 sources
        outside = [c for c in outside if not any(c in ops[j]["comps"] for j in sidx)]
        if not outside:
            return None
        ops.append({"op": "flow", "kind": "transition", "name": "uneq", "param": "1/2", "src": inside, "dst": outside[0]})
        return q, len(ops)
    if cls == "flow_end_matches_nothing":
        # a strata filter that no compartment of one end satisfies (a stratum of a stratification that end does not carry),
        # while the other end matches: some sources against no destination, or the other way round
        part = [i for i in sidx if ops[i]["comps"] != list(comps) and ops[i]["kind"] == "plain"]
        if not part or any(o["op"] in ("req", "rebalance") for o in ops):
            return None
        i = part[0]
        inside = ops[i]["comps"][0]
        outside = [c for c in comps if c not in ops[i]["comps"]]
        if not outside:
            return None
        filt = {ops[i]["name"]: ops[i]["strata"][0]}
        o = {"op": "flow", "kind": r.choice(["transition", "transition", "infection_frequency"]), "name": "nomatch", "param": "1/2"}
        if r.random() < 0.5:
            o.update({"src": inside, "dst": outside[0], "df": filt})
        else:
            o.update({"src": outside[0], "dst": inside, "sf": filt})
        if o["kind"] == "infection_frequency" and any(x["op"] == "flow" and x["kind"] == "infection_density" for x in ops):
            o["kind"] = "transition"
        ops.append(o)
        return q, len(ops)
    if cls == "flow_count_expectation":
        if any(o["op"] in ("req", "rebalance") for o in ops):
            return None
        ops.append({"op": "flow", "kind": "importation", "name": "cnt", "param": "1", "dst": comps[0], "expected": 97})
        return q, len(ops)
    if cls == "flow_count_zero":
        # "this call adds no flow" (expected_flow_count=0) stated of a call that adds at least one, for every kind of flow
        if any(o["op"] in ("req", "rebalance") for o in ops):
            return None
        kind = r.choice(["importation", "death", "transition", "crude_birth", "absolute"])
        o = {"op": "flow", "kind": kind, "name": "cnt0", "param": "1/2", "expected": 0}
        if kind in ("death", "transition", "absolute"):
            o["src"] = comps[0]
        if kind != "death":
            o["dst"] = comps[-1] if kind in ("transition", "absolute") else comps[0]
        if o.get("src") is not None and o.get("src") == o.get("dst"):
            return None
        ops.append(o)
        return q, len(ops)
    if cls == "rate_not_a_number":
        # a flow rate that is neither a number nor a graph object, at any point where a flow may be added
        i = len(ops)
        for j, o in enumerate(ops):
            if o["op"] in ("req", "rebalance", "whitelist", "cv"):
                i = j
                break
        i = r.randint(next((j for j, o in enumerate(ops) if o["op"] == "pop"), 0) + 1, i)
        strat_before = [ops[j] for j in sidx if j < i]
        bad = r.choice([{"str": r.choice(["0.3", "beta", "high"])}, {"none": 1}, {"list": ["1/2"]}, {"list": ["1/4", "1/2"]}, {"list": []}])
        kind = r.choice(["transition", "infection_frequency", "infection_density", "death", "importation", "crude_birth", "absolute", "udeath"])
        if kind == "udeath":
            ops.insert(i, {"op": "udeath", "name": "badrate", "param": "0", "pyrate": bad})
        else:
            a, b = (comps[0], comps[1]) if len(comps) > 1 else (comps[0], comps[0])
            ops.insert(i, {"op": "flow", "kind": kind, "name": "badrate", "param": "0", "src": a, "dst": b, "pyrate": bad})
        return q, i + 1
    if cls == "after_finalize":
        _AFTER_FINALIZE[0] += 1
        change = (lambda l_: l_[_AFTER_FINALIZE[0] % len(l_)])([
            {"op": "flow", "kind": "transition", "name": "late", "param": "1/2", "src": comps[0], "dst": comps[1]},
            {"op": "flow", "kind": "importation", "name": "late", "param": "1", "dst": comps[0]},
            {"op": "flow", "kind": "death", "name": "late", "param": "1/8", "src": comps[0]},
            {"op": "udeath", "name": "lateud", "param": "1/8"},
            {"op": "strat", "kind": "plain", "name": "late", "strata": ["l1", "l2"], "comps": list(comps), "fadj": [], "iadj": {}},
            {"op": "pop", "dist": {comps[0]: "5"}},
            {"op": "arraypop", "arr": ["1"] * 64},
            {"op": "req", "name": "latereq", "save": True, "req": {"type": "comp", "names": [comps[0]], "filt": {}}},
        ])
        if any(ops[i]["name"] == "late" for i in sidx):
            return None
        ops.append({"op": "finalize"})
        # calls that a finalised model accepts must not re-open it
        for _ in range(r.choice([0, 0, 1, 2])):
            ops.append(r.choice([{"op": "setdefaults", "params": {"beta": "1/2", "gamma": "1/4", "kappa": "1", "mu": "1/8"}},
                                 {"op": "finalize"}, {"op": "setdefaults", "params": {}}]))
        ops.append(change)
        return q, len(ops)
    return None


_AFTER_FINALIZE = [0]
_FILTER_VARIANT = [0]
CLASSES = ["end_before_start", "timestep_not_dividing", "timestep_not_dividing_long", "unknown_infectious", "unknown_infectious_bare_string", "unknown_population_compartment",
           "unknown_stratified_compartment", "unknown_flow_compartment", "output_for_unknown_compartment",
           "output_for_unknown_flow", "adjusting_unknown_flow", "unknown_filter_strata", "unknown_output_source",
           "adjustment_omits_stratum", "infectiousness_omits_stratum", "split_omits_stratum", "split_negative", "split_not_one",
           "second_birth_flow", "second_age", "second_strain", "duplicate_stratification", "duplicate_universal_death",
           "duplicate_output_name", "mixing_on_partial", "age_on_partial", "mixing_on_strain", "unequal_source_dest", "flow_end_matches_nothing",
           "flow_count_expectation", "flow_count_zero", "after_finalize", "rate_not_a_number", "output_for_unmatched_compartment",
           "output_for_unmatched_flow", "unknown_flow_compartments_both"]


def run(tier, seed):
    n = tier_n(tier, 90, 800)
    g = gen.Gen(seed * 7919 + 17)
    valid = []
    while len(valid) < n:
        cand = [g.program({"nstrat": g.rng.choice([1, 2, 2, 3]), "requests": g.rng.random() < 0.4, "p_udeath": 0.5})
                for _ in range(40)]
        for p, st in with_struct(cand):
            if st is not None:
                valid.append(p)
    valid = valid[:n]
    progs, expect = [], []
    hits = {}
    for n_, p in enumerate(valid):
        if n_ % 3 == 0:
            # the same valid definitions with the rates handed over as plain Python values (numbers, graph objects)
            for o in p["ops"]:
                if o["op"] in ("flow", "udeath") and o.get("kind") != "replacement_birth" and "param" in o:
                    e = o["param"]
                    o["pyrate"] = {"num": e} if (isinstance(e, str) and e != "t") else {"graph": e}
        if n_ % 4 == 1 and len(p["inf"]) == 1:
            p["inf_bare"] = True        # a single infectious compartment may be given by its name
        p["obs"] = [{"obs": "struct"}]
        progs.append(p)
        expect.append(None)
        classes = CLASSES if tier == "thorough" else g.rng.sample(CLASSES, 7)
        # classes that need a particular context (a partial stratification) are tried on every program
        classes = list(classes) + [c_ for c_ in ("output_for_unmatched_compartment", "output_for_unmatched_flow", "unequal_source_dest",
                                                 "unknown_flow_compartments_both", "rate_not_a_number",
                                                 "age_on_partial", "second_age", "second_strain", "flow_end_matches_nothing",
                                                 "unknown_filter_strata", "after_finalize", "flow_count_zero", "unknown_infectious_bare_string") if c_ not in classes]
        for cls in classes:
            res = inject(p, cls, g.rng)
            if res is None:
                continue
            q, pos = res
            q["obs"] = [{"obs": "struct"}]
            q["defect"] = cls
            progs.append(q)
            expect.append(pos)
            hits[cls] = hits.get(cls, 0) + 1
    ex = checklib.explore(progs, keys=KEYS)
    extra = []
    for p, e, a, b in zip(progs, expect, ex["mres"], ex["ires"]):
        if "harness_error" in b:
            continue
        got = b.get("build_error")
        if e is None:
            if got is not None:
                extra.append(("valid program rejected by the implementation at op %s: %s" % (got, b.get("why")),
                              {"program": checklib.strip_meta(p)}, True))
        elif got is None:
            extra.append(("oracle: defect %s is accepted: the definition is built without an error (expected an error at call %d)" % (p["defect"], e),
                          {"program": checklib.strip_meta(p), "defect": p["defect"], "expected_position": e}, True))
        elif got != e:
            extra.append(("oracle: defect %s raised at call %d instead of the offending call %d (%s)" % (p["defect"], got, e, b.get("why")),
                          {"program": checklib.strip_meta(p), "defect": p["defect"], "expected_position": e}, True))
    nontrivial = {checklib.signature(p) for p, e in zip(progs, expect) if e is not None}
    return {"programs": progs, "explore": ex, "distinct_nontrivial": len(nontrivial), "extra_violations": extra,
            "rule": "malformed stream: %d valid programs (accepted by model and implementation), each with defects of %s "
                    "classes injected at the position the class allows; compared: raised or not and at which call (never the "
                    "exception class), between the model, the implementation and the position the injector expects; "
                    "non-trivial = a program carrying an injected defect; classes hit: %s" % (
                        len(valid), "all %d" % len(CLASSES) if tier == "thorough" else "7 random", hits),
            "dist": dist(progs), "extra_coverage": {"defect_classes_hit": hits}}
