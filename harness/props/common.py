"""Helpers shared by the per-property exploration modules."""
import os
import sys
from fractions import Fraction

HERE = os.path.dirname(os.path.abspath(__file__))
sys.path.insert(0, os.path.dirname(HERE))
import gen  # noqa: E402
import runner  # noqa: E402
import checklib  # noqa: E402


def tier_n(tier, quick, thorough):
    return thorough if tier == "thorough" else quick


_DECIMAL_GRIDS = None


def decimal_grid(rng, max_steps=9):
    """(t0, h, nsteps) with a decimal (non-dyadic) timestep whose floating-point grid the library accepts: the library
    asks that 1 + (end - start) / timestep be a whole number in floating point.  Mostly grids where (end - start) / timestep
    itself falls one ulp short of the number of steps, the cases a careless rounding of the number of points loses."""
    global _DECIMAL_GRIDS
    if _DECIMAL_GRIDS is None:
        good = []
        for t0 in ["0", "1", "2", "5", "10", "-1", "1/5", "3/10"]:
            for h in ["1/10", "3/10", "9/20", "9/10", "9/5", "7/10", "1/5", "3/5", "7/5", "11/10", "1/100", "3/20"]:
                for n in range(1, 10):
                    a, hh, b = float(Fraction(t0)), float(Fraction(h)), float(Fraction(t0) + n * Fraction(h))
                    ns = 1 + (b - a) / hh
                    if b > a and ns % 1 == 0 and int(ns) == n + 1:
                        good.append((t0, h, n, ((b - a) / hh) != n))
        _DECIMAL_GRIDS = good
    pool = [g for g in _DECIMAL_GRIDS if g[2] <= max_steps]
    short = [g for g in pool if g[3]]
    t0, h, n, _ = rng.choice(short if (short and rng.random() < 0.7) else pool)
    return t0, h, n


def with_struct(programs):
    """first pass on the model side to learn the compartment list of each program"""
    probe = [dict(p, obs=[{"obs": "struct"}]) for p in programs]
    res = runner.run_model(probe)
    out = []
    for p, r in zip(programs, res):
        if r.get("build_error") is None and r.get("obs"):
            out.append((p, r["obs"][0]))
        else:
            out.append((p, None))
    return out


def nsteps(p):
    return (Fraction(p["times"][1]) - Fraction(p["times"][0])) / Fraction(p["times"][2])


def category_groups(prog, comps):
    """groups of compartment positions that form a mixing category (strata of the stratifications
    that carry a mixing matrix); used to keep every category population positive"""
    mix = [o["name"] for o in prog["ops"] if o["op"] == "strat" and o.get("mix") is not None]
    groups = {}
    for i, c in enumerate(comps):
        parts = c.split("X")[1:]
        strata = dict(x.split("_", 1) for x in parts)
        key = tuple(strata.get(s) for s in mix)
        groups.setdefault(key, []).append(i)
    return list(groups.values())


def fix_domain(prog, comps, x):
    """make sure each mixing category keeps a positive population (domain of the properties)"""
    x = list(x)
    for g in category_groups(prog, comps):
        if all(Fraction(x[i]) <= 0 for i in g):
            x[g[0]] = "7/2"
    return x


def dist(programs):
    d = {"flow_kinds": {}, "strat_kinds": {}, "adjustments": 0, "mixing": 0, "iadj": 0, "requests": {}, "ops_per_program": 0}
    for p in programs:
        m = p.get("meta", {})
        for k in m.get("flows", []):
            d["flow_kinds"][k] = d["flow_kinds"].get(k, 0) + 1
        for k in m.get("strats", []):
            d["strat_kinds"][k] = d["strat_kinds"].get(k, 0) + 1
        for k in m.get("reqs", []):
            d["requests"][k] = d["requests"].get(k, 0) + 1
        d["adjustments"] += len(m.get("adj", []))
        d["mixing"] += m.get("mix", 0)
        d["iadj"] += m.get("iadj", 0)
        d["ops_per_program"] += len(p["ops"])
    if programs:
        d["ops_per_program"] = round(d["ops_per_program"] / len(programs), 2)
    return d


def carrier(obs):
    """a minimal valid program that carries oracles which build their own models"""
    return {"times": ["0", "2", "1"], "comps": ["A", "B"], "inf": ["B"],
            "ops": [{"op": "pop", "dist": {"A": "7", "B": "3"}},
                    {"op": "flow", "kind": "transition", "name": "ab", "param": "1/4", "src": "A", "dst": "B"}],
            "obs": obs, "meta": {"flows": ["transition"]}, "nonlinear": False}
