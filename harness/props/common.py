"""Helpers shared by the per-property exploration modules."""
import os
import sys
from fractions import Fraction

HERE = os.path.dirname(os.path.abspath(__file__))
sys.path.insert(0, os.path.dirname(HERE))
import gen  # noqa: E402
import runner  # noqa: E402
import checklib  # noqa: E402


def tier_n(tier, quick, thorough):
    return thorough if tier == "thorough" else quick


def with_struct(programs):
    """first pass on the model side to learn the compartment list of each program"""
    probe = [dict(p, obs=[{"obs": "struct"}]) for p in programs]
    res = runner.run_model(probe)
    out = []
    for p, r in zip(programs, res):
        if r.get("build_error") is None and r.get("obs"):
            out.append((p, r["obs"][0]))
        else:
            out.append((p, None))
    return out


def nsteps(p):
    return (Fraction(p["times"][1]) - Fraction(p["times"][0])) / Fraction(p["times"][2])


def category_groups(prog, comps):
    """groups of compartment positions that form a mixing category (strata of the stratifications
    that carry a mixing matrix); used to keep every category population positive"""
    mix = [o["name"] for o in prog["ops"] if o["op"] == "strat" and o.get("mix") is not None]
    groups = {}
    for i, c in enumerate(comps):
        parts = c.split("X")[1:]
        strata = dict(x.split("_", 1) for x in parts)
        key = tuple(strata.get(s) for s in mix)
        groups.setdefault(key, []).append(i)
    return list(groups.values())


def fix_domain(prog, comps, x):
    """make sure each mixing category keeps a positive population (domain of the properties)"""
    x = list(x)
    for g in category_groups(prog, comps):
        if all(Fraction(x[i]) <= 0 for i in g):
            x[g[0]] = "7/2"
    return x


def dist(programs):
    d = {"flow_kinds": {}, "strat_kinds": {}, "adjustments": 0, "mixing": 0, "iadj": 0, "requests": {}, "ops_per_program": 0}
    for p in programs:
        m = p.get("meta", {})
        for k in m.get("flows", []):
            d["flow_kinds"][k] = d["flow_kinds"].get(k, 0) + 1
        for k in m.get("strats", []):
            d["strat_kinds"][k] = d["strat_kinds"].get(k, 0) + 1
        for k in m.get("reqs", []):
            d["requests"][k] = d["requests"].get(k, 0) + 1
        d["adjustments"] += len(m.get("adj", []))
        d["mixing"] += m.get("mix", 0)
        d["iadj"] += m.get("iadj", 0)
        d["ops_per_program"] += len(p["ops"])
    if programs:
        d["ops_per_program"] = round(d["ops_per_program"] / len(programs), 2)
    return d


def carrier(obs):
    """a minimal valid program that carries oracles which build their own models"""
    return {"times": ["0", "2", "1"], "comps": ["A", "B"], "inf": ["B"],
            "ops": [{"op": "pop", "dist": {"A": "7", "B": "3"}},
                    {"op": "flow", "kind": "transition", "name": "ab", "param": "1/4", "src": "A", "dst": "B"}],
            "obs": obs, "meta": {"flows": ["transition"]}, "nonlinear": False}
