"""C15 - results are independent of ordering, labels, time origin and population scale."""
import copy
import random
from .common import *  # noqa
import transforms as TR

KEYS = {"outputs", "comps"}
# observations whose model value is the property's specified value (a disagreement there is a failing input);
# on the others the correspondence supports the tie and the oracle searches for the failing input
SPEC_KEYS = set()


def independent_strats(p):
    """indices of two consecutive stratifications that do not refer to each other (filters): two ordinary ones, or an
    ordinary one and the strain stratification"""
    idx = [i for i, o in enumerate(p["ops"]) if o["op"] == "strat"]
    for a, b in zip(idx, idx[1:]):
        if b != a + 1:
            continue
        oa, ob = p["ops"][a], p["ops"][b]
        if {oa["kind"], ob["kind"]} not in ({"plain"}, {"plain", "strain"}):
            continue
        refs = [f for e in ob.get("fadj", []) for f in (e[2], e[3])]
        if any(oa["name"] in (f or {}) for f in refs):
            continue
        # an Overwrite in the second would not commute with a Multiply in the first
        def has_ovr(o):
            return any(a_ is not None and "ovr" in a_ for e in o.get("fadj", []) for a_ in e[1].values()) or \
                any(a_ is not None and "ovr" in a_ for adjs in (o.get("iadj") or {}).values() for a_ in adjs.values())
        if has_ovr(oa) or has_ovr(ob):
            continue
        return a, b
    return None


def run(tier, seed):
    n = tier_n(tier, 90, 1200)
    g = gen.Gen(seed * 7919 + 15)
    rng = random.Random(seed * 31 + 15)
    progs = []
    n_reb = max(10, n // 9)      # (appended after the first n programs: their random stream is as before)
    while len(progs) < n + n_reb:
        directed_cum = len(progs) % 5 == 2 and len(progs) < n
        directed_reb = False
        if len(progs) >= n:
            # the population is redistributed (adjust_population_split) over a stratification that is not the last one
            # applied: independent stratifications still commute, presentation still does not matter
            p = g.program({"requests": g.rng.random() < 0.4, "state_rates": False, "nsteps": 2, "nstrat": g.rng.choice([2, 2, 3]),
                           "p_post": 0.0, "p_full": g.rng.choice([1.0, 0.6]), "min_strata": 2, "h": g.rng.choice(["1/4", "1/2"])})
            p["ops"] = [o for o in p["ops"] if o["op"] != "rebalance"]
            sts_ = [o for o in p["ops"] if o["op"] == "strat" and o["kind"] == "plain"]
            if len(sts_) < 2:
                continue
            tgt_ = sts_[g.rng.randrange(len(sts_) - 1)]
            n_ = len(tgt_["strata"])
            props_ = [gen.Fraction(1, 8)] * n_
            props_[g.rng.randrange(n_)] = 1 - gen.Fraction(n_ - 1, 8)
            filt_ = {}
            if g.rng.random() < 0.3:
                o_ = g.rng.choice([o for o in sts_ if o is not tgt_])
                filt_ = {o_["name"]: g.rng.choice(o_["strata"])}
            items_ = [(s_, str(v_)) for s_, v_ in zip(tgt_["strata"], props_)]
            g.rng.shuffle(items_)
            at_ = max(i for i, o in enumerate(p["ops"]) if o["op"] == "strat") + 1
            p["ops"].insert(at_, {"op": "rebalance", "strat": tgt_["name"], "filt": filt_, "props": dict(items_)})
            directed_reb = True
        elif directed_cum:
            # a span that starts before time 0 and a cumulative output counted from time 0; no explicit time dependence
            p = g.program({"requests": True, "state_rates": False, "nsteps": g.rng.choice([3, 4]), "no_time": True,
                           "nstrat": g.rng.choice([0, 1, 2]), "p_post": 0.0, "h": g.rng.choice(["1/2", "1"]), "t0": g.rng.choice(["-1", "-2"])})
            srcs_ = [o["name"] for o in p["ops"] if o["op"] == "req" and o["req"]["type"] in ("flow", "comp")]
            if srcs_ and not any(o["op"] == "whitelist" for o in p["ops"]):
                p["ops"].append({"op": "req", "name": "c0", "save": True, "req": {"type": "cum", "source": srcs_[0], "start": "0"}})
        elif len(progs) % 6 == 1:
            # two infectious compartments with their own infectiousness adjustments, listed in another order than the
            # compartments: reordering the compartments must still only permute the results
            p = g.program({"requests": False, "state_rates": False, "nsteps": 2, "nonlinear": True, "two_inf": True, "p_iadj": 1.0,
                           "nstrat": g.rng.choice([1, 2]), "p_post": 0.0, "p_full": 1.0, "min_strata": 2, "h": g.rng.choice(["1/4", "1/2"])})
        elif len(progs) % 4 == 3:
            # several stratifications with mixing matrices (of different sizes): category order vs Kronecker order
            p = g.program({"requests": False, "state_rates": False, "nsteps": 2, "nonlinear": True, "p_mix": 1.0,
                           "nstrat": g.rng.choice([2, 3]), "p_post": 0.0, "h": g.rng.choice(["1/4", "1/2"])})
        else:
            p = g.program({"requests": g.rng.random() < 0.5, "state_rates": False, "nsteps": g.rng.choice([2, 3]),
                           "nstrat": g.rng.choice([0, 1, 2, 2, 3]), "p_post": 0.0, "h": g.rng.choice(["1/4", "1/2", "1/8"])})
        if any(o["op"] in ("arraypop", "cv") or (o["op"] == "rebalance" and not directed_reb) for o in p["ops"]) or \
                any(o["op"] == "req" and o["req"]["type"] == "cv" for o in p["ops"]):
            continue
        # cumulative outputs that start at a model time (time 0 in particular, when the span starts before it)
        t0_, h_ = gen.Fraction(p["times"][0]), gen.Fraction(p["times"][2])
        k0_ = (-t0_) / h_
        for o in p["ops"]:
            if o["op"] == "req" and o["req"]["type"] == "cum" and o["req"].get("start") is None and g.rng.random() < 0.7:
                if t0_ < 0 and k0_.denominator == 1 and k0_ <= nsteps(p) and g.rng.random() < 0.8:
                    o["req"]["start"] = "0"
                else:
                    o["req"]["start"] = str(t0_ + g.rng.randint(0, int(nsteps(p))) * h_)
        base = checklib.strip_meta(dict(p, obs=[]))
        variants = []
        variants.append(["flow order", TR.permute_flows(base, rng)])
        perm = list(range(len(base["comps"])))
        rng.shuffle(perm)
        variants.append(["compartment order", TR.permute_comps(base, perm)])
        if not any(o["op"] == "arraypop" for o in base["ops"]):
            variants.append(["compartment order (the model's declaration only; the stratifications list theirs as before)",
                             TR.permute_model_comps_only(base, perm)])
        variants.append(["strata order", TR.permute_strata(base, rng)])
        variants.append(["rename", TR.rename(base, lambda s: s == "age")])
        if sum(1 for o in base["ops"] if o["op"] == "strat" and o["kind"] != "age") >= 2:
            variants.append(["rename (stratum labels shared between stratifications)", TR.rename_shared_labels(base, lambda s: s == "age")])
        ind = independent_strats(base)
        if ind:
            q = copy.deepcopy(base)
            a, b = ind
            q["ops"][a], q["ops"][b] = q["ops"][b], q["ops"][a]
            variants.append(["stratification order", q])
        mv = TR.move_flow_after_strat(base, rng)
        if mv is not None:
            variants.append(["flow added after the unadjusted stratification", mv])
        if not TR.has_time(base["ops"]):
            variants.append(["time shift", TR.shift_time(base, gen.Fraction(rng.choice([3, 7, -5]), rng.choice([1, 2])))])
        kinds = {o["kind"] for o in base["ops"] if o["op"] == "flow"}
        k = ["2", "1/1024", "3", "1/1099511627776", "1/2"][len(progs) % 5]      # (1/1024: mixing categories hold less than one person; 2^-40: populations given as tiny proportions)
        if not TR.scalable(base):
            pass
        elif "infection_density" in kinds and "infection_frequency" not in kinds:
            variants.append(["scale (density, contact rate / k)", TR.scale_population(base, k, True)])
        elif "infection_density" not in kinds:
            variants.append(["scale (frequency)", TR.scale_population(base, k, False)])
        pv = g.params_values(small=True)
        p["obs"] = [{"obs": "struct"}] + ([{"obs": "run", "solver": "euler", "params": pv}] if ((not p["nonlinear"]) or nsteps(p) <= 2) else []) + \
                   [{"obs": "oracle", "name": "c15", "params": pv, "program": base, "variants": variants, "scale": k,
                     "derived_homogeneous": not any(o["op"] == "req" and o["req"]["type"] == "func" and o["req"]["fn"] == 2 for o in base["ops"]),
                     "solver": g.rng.choice(["euler", "rk4"])}]
        progs.append(p)
    ex = checklib.explore(progs, keys=KEYS, per_prog_timeout=60.0)
    nontrivial = {checklib.signature(p) for p, a in zip(progs, ex["mres"]) if a.get("build_error") is None}
    return {"programs": progs, "explore": ex, "distinct_nontrivial": len(nontrivial),
            "rule": "each model is rebuilt in differently presented ways - flows declared in another order, compartments listed "
                    "in another order, strata (and mixing matrix rows/columns) permuted, injective renaming of compartments, "
                    "strata, stratifications (the strain stratification included) and flows, two independent stratifications "
                    "swapped, a transition / infection / death flow added after instead of before an unadjusted stratification covering its endpoints, time span shifted (models without explicit time dependence), populations and absolute inflows "
                    "scaled by k (contact rate / k for density dependence) - and on the implementation outputs and derived outputs "
                    "are compared after matching compartments by name + strata; the original program is compared with the model; "
                    "non-trivial = builds",
            "dist": dist(progs)}
