"""C02 - people are neither created nor lost except through entry and exit flows."""
from .common import *  # noqa

KEYS = {"flow_rates", "comp_rates", "outputs"}
# observations whose model value is the property's specified value (a disagreement there is a failing input);
# on the others the correspondence supports the tie and the oracle searches for the failing input
SPEC_KEYS = set()


def run(tier, seed):
    n = tier_n(tier, 240, 3000)
    g = gen.Gen(seed * 7919 + 2)
    progs = []
    for i in range(n):
        c = i % 3
        if c == 0:      # arbitrary models: entry - exit identity
            p = g.program()
            p["cls"] = "open"
        elif c == 1:    # closed models
            p = g.program({"kind_pool": ["transition", "transition", "absolute"], "p_udeath": 0.0, "self_flow": 0.3})
            p["cls"] = "closed"
        else:           # deaths + replacement births only
            p = g.program({"kind_pool": ["transition", "death", "death", "replacement_birth", "replacement_birth"],
                           "never_adjust": ["f0", "f1", "f2", "f3", "f4", "pbirth"], "p_udeath": 0.5,
                           "post_birth": 0.6, "post_birth_kinds": ["replacement_birth"], "nstrat": g.rng.choice([1, 2, 2])})
            p["cls"] = "replacement"
        progs.append(p)
    out = []
    for p, st in with_struct(progs):
        if st is None:
            p["obs"] = [{"obs": "struct"}]
            out.append(p)
            continue
        nc = len(st["comps"])
        pv = g.params_values(small=True)
        x = fix_domain(p, st["comps"], g.state(nc, "boundary"))
        t = gen.dy(g.rng, 0, 24, 2)
        if p["cls"] in ("closed", "replacement") and (len(out) // 3) % 2 == 0 and not any(o["op"] == "rebalance" for o in p["ops"]):
            # the population given as a whole array of integers (an integer-typed NumPy array)
            p["ops"].append({"op": "arraypop", "arr": [str(g.rng.randint(0, 400)) for _ in range(nc)], "int_array": True})
        obs = [{"obs": "struct"}, {"obs": "onestep", "params": pv, "t": t, "x": x},
               {"obs": "oracle", "name": "c02", "params": pv, "t": t, "x": x}]
        if p["cls"] in ("closed", "replacement"):
            obs.append({"obs": "oracle", "name": "c02_traj", "params": pv, "replacement": p["cls"] == "replacement"})
            if (not p["nonlinear"]) or nsteps(p) <= 2:
                obs.append({"obs": "run", "solver": "euler", "params": pv})
            if (not p["nonlinear"]) or nsteps(p) <= 1:
                obs.append({"obs": "run", "solver": "rk4", "params": pv})
        p["obs"] = obs
        out.append(p)
    ex = checklib.explore(out, keys=KEYS | {"comps", "flows"})
    nontrivial = set()
    for p, a in zip(out, ex["mres"]):
        if a.get("build_error") is None and a.get("obs") and len(a["obs"]) > 1 and "flow_rates" in a["obs"][1]:
            if any(v != "0/1" for v in a["obs"][1]["flow_rates"]):
                nontrivial.add(checklib.signature(p))
    return {"programs": out, "explore": ex, "distinct_nontrivial": len(nontrivial),
            "rule": "one third arbitrary models (entry-exit identity at a boundary state), one third closed models "
                    "(transition/infection/absolute flows only), one third death + replacement-birth models; closed and "
                    "replacement models are additionally solved with euler, rk4 and the adaptive solver on the implementation "
                    "and the drift of outputs.sum(axis=1) is measured; non-trivial = builds and has a non-zero flow rate",
            "dist": dist(out)}
