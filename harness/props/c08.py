"""C08 - each derived output equals its definition applied to the solved trajectory."""
from .common import *  # noqa

KEYS = {"derived", "outputs"}
# observations whose model value is the property's specified value (a disagreement there is a failing input);
# on the others the correspondence supports the tie and the oracle searches for the failing input
SPEC_KEYS = {"derived"}


def run(tier, seed):
    n = tier_n(tier, 150, 2500)
    g = gen.Gen(seed * 7919 + 8)
    progs = []
    while len(progs) < n:
        p = g.program({"requests": True, "nstrat": g.rng.choice([0, 1, 2, 2]), "cross": 0.5, "full_filters": 0.4, "min_strata": g.rng.choice([1, 2, 2]),
                       "nsteps": g.rng.choice([2, 3, 4]), "nonlinear": g.rng.random() < 0.35,
                       "t0": g.rng.choice(["0", "1", "-2", "-1", "5/2", "-3/2"])})
        reqs = [{"name": o["name"], "req": o["req"], "save": o.get("save", True)} for o in p["ops"] if o["op"] == "req"]
        if not reqs:
            continue
        # a cumulative output that starts at a grid time (time 0 in particular when the grid contains it)
        t0, h = gen.Fraction(p["times"][0]), gen.Fraction(p["times"][2])
        zero_k = (-t0) / h
        has_zero = zero_k.denominator == 1 and 0 <= zero_k <= nsteps(p)
        if g.rng.random() < 0.3 or (has_zero and zero_k > 0):
            src = g.rng.choice(reqs)["name"]
            k = int(zero_k) if (has_zero and g.rng.random() < 0.7) else g.rng.randint(0, int(nsteps(p)))
            nm = "cst"
            wl = [o for o in p["ops"] if o["op"] == "whitelist"]
            p["ops"] = [o for o in p["ops"] if o["op"] != "whitelist"] + \
                       [{"op": "req", "name": nm, "save": True, "req": {"type": "cum", "source": src, "start": str(t0 + k * h)}}] + wl
            reqs.append({"name": nm, "req": p["ops"][-1 - len(wl)]["req"], "save": True})
        fl_reqs = [o for o in p["ops"] if o["op"] == "req" and o["req"]["type"] == "flow" and not o["req"].get("sf")
                   and not o["req"].get("df")]
        if fl_reqs and len(progs) % 3 == 1:
            # a flow with the requested name that is added AFTER the request (and after the last stratification): the
            # output is defined by the name, so it counts this flow too
            wl_ = [o for o in p["ops"] if o["op"] == "whitelist"]
            late = {"op": "flow", "kind": "importation", "name": g.rng.choice(fl_reqs)["req"]["flow_name"],
                    "param": g.rng.choice(["3/2", "5", {"+": ["1", "t"]}]), "dst": p["comps"][0]}
            p["ops"] = [o for o in p["ops"] if o["op"] != "whitelist"] + [late] + wl_
        if any(o["op"] == "req" and o["req"]["type"] == "cv" for o in p["ops"]) and g.rng.random() < 0.7:
            # a second (and third) computed value with its own output, requested after the first one
            wl_ = [o for o in p["ops"] if o["op"] == "whitelist"]
            more = [{"op": "cv", "name": "cvB", "e": {"*": [{"c": 0}, "1/4"]}},
                    {"op": "req", "name": "cvB", "save": True, "req": {"type": "cv", "name": "cvB"}}]
            if g.rng.random() < 0.5:
                more += [{"op": "cv", "name": "cvC", "e": {"+": ["3", {"*": ["2", "t"]}]}},
                         {"op": "req", "name": "cvC", "save": g.rng.random() < 0.7, "req": {"type": "cv", "name": "cvC"}}]
            p["ops"] = [o for o in p["ops"] if o["op"] != "whitelist"] + more + wl_
            reqs += [{"name": o["name"], "req": o["req"], "save": o.get("save", True)} for o in more if o["op"] == "req"]
        wl = [o["names"] for o in p["ops"] if o["op"] == "whitelist"]
        cvs = {o["name"]: o["e"] for o in p["ops"] if o["op"] == "cv"}
        pv = g.params_values(small=True)
        obs = []
        if (not p["nonlinear"]) or nsteps(p) <= 2:
            obs.append({"obs": "run", "solver": "euler", "params": pv})
        extra = None
        if not wl and len(reqs) >= 2 and len(progs) % 3 == 0:
            extra = [{"name": "rt", "save": True, "req": {"type": "func", "fn": 3, "sources": [reqs[0]["name"], reqs[-1]["name"]], "params": []}},
                     {"name": "art", "save": g.rng.random() < 0.7, "req": {"type": "agg", "sources": ["rt", reqs[0]["name"]]}},
                     {"name": "cart", "save": True, "req": {"type": "cum", "source": "art", "start": None}}]
        obs.append({"obs": "oracle", "name": "c08", "params": pv, "reqs": reqs, "cvs": cvs, "extra": extra,
                    "program": checklib.strip_meta(dict(p, obs=[])) if extra else None,
                    "prior_params": g.params_values(small=True) if g.rng.random() < 0.5 else None,
                    "whitelist": wl[-1] if wl else None, "solver": g.rng.choice(["euler", "rk4", "solve_ivp"])})
        p["obs"] = obs
        progs.append(p)
    progs.append(carrier([{"obs": "oracle", "name": "c08_cumgrid"}]))
    ex = checklib.explore(progs, keys=KEYS, per_prog_timeout=20.0)
    nontrivial = set()
    for p, a in zip(progs, ex["mres"]):
        if a.get("build_error") is None and any("derived" in o and any(any(x != "0/1" for x in v) for v in o["derived"].values())
                                                 for o in (a.get("obs") or [])):
            nontrivial.add(checklib.signature(p))
    return {"programs": progs, "explore": ex, "distinct_nontrivial": len(nontrivial),
            "rule": "(one carrier program: cumulative outputs from every interior model time on decimal time grids) (a third of the models get another flow of a requested name after the request) stratified models with time-varying weights and 1-7 chained requests of all kinds (strata filters, raw and "
                    "midpoint flows, cumulative with and without a start time, function outputs with parameters, computed "
                    "values), euler trajectories compared with the model; on the implementation every output is recomputed from "
                    "outputs and one_step flow rates at every row, for euler, rk4 or the adaptive solver; non-trivial = some "
                    "returned series is non-zero",
            "dist": dist(progs)}
