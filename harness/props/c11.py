"""C11 - running is repeatable and independent of run history."""
import json
from .common import *  # noqa
import runner as R
import progutil

KEYS = None
# observations whose model value is the property's specified value (a disagreement there is a failing input);
# on the others the correspondence supports the tie and the oracle searches for the failing input
SPEC_KEYS = set()


def needed_params(prog):
    """parameters that certainly enter a run: rates of declared flows, requested function outputs, the distribution"""
    acc = set()
    for o in prog["ops"]:
        if o["op"] in ("flow", "udeath"):
            progutil.params_in(o["param"], acc)
        elif o["op"] == "req" and o["req"]["type"] == "func" and int(o["req"]["fn"]) in (0, 1):
            progutil.params_in(o["req"]["params"][:1], acc)      # (function 2 of the library takes no parameter)
        elif o["op"] == "pop":
            progutil.params_in(o["dist"], acc)
    return sorted(acc)


def history(g, solver, needed=(), zeta=False, switch=False):
    r = g.rng
    # non-dyadic values: sums and products are then inexact in floating point, so an order of evaluation
    # that changes with history or hash seed shows in the last bits
    pool = [{k: r.choice(["1/3", "2/7", "3/10", "1/5", "7/9", "1/2", "4/11"])
             for k in ("beta", "gamma", "kappa", "mu") + (("zeta",) if zeta else ())} for _ in range(3)]
    ints = r.random() < 0.35
    if ints:
        # whole-number values, written as Python ints by the caller (contact_rate=2): a value like any other
        for d in pool:
            for k in r.sample(sorted(d), r.randint(1, 2)):
                d[k] = r.choice(["1", "2", "3"])
    calls, nh = [], 0
    for _ in range(r.randint(3, 7)):
        c = r.random()
        if c < 0.5:
            calls.append({"call": "run", "solver": solver, "rebuild": r.random() < 0.3, "params": r.choice(pool)})
        elif c < 0.65:
            dyn = None if r.random() < 0.4 else sorted(r.sample(["beta", "gamma", "kappa", "mu"], r.randint(0, 3)))
            calls.append({"call": "get_runner", "solver": r.choice(["euler", "rk4"]), "dyn": dyn, "params": r.choice(pool)})
            nh += 1
        elif c < 0.85 and nh:
            calls.append({"call": "runner_run", "k": r.randrange(nh), "params": r.choice(pool)})
        elif c < 0.93:
            calls.append({"call": "set_defaults", "params": r.choice(pool)})
        else:
            # partial parameters on top of defaults set earlier
            if any(x["call"] == "set_defaults" for x in calls):
                full = r.choice(pool)
                part = {k: v for k, v in full.items() if r.random() < 0.5}
                calls.append({"call": "run", "solver": solver, "rebuild": False, "params": part})
    if needed and r.random() < (0.7 if zeta else 0.3) and not any(x["call"] == "set_defaults" for x in calls):
        # a call that omits a needed parameter after complete calls: must fail as on a fresh object, not reuse old values
        full = r.choice(pool)
        k = r.choice(list(needed))
        calls.append({"call": "run", "solver": solver, "rebuild": False, "params": {a: b for a, b in full.items() if a != k}})
    if needed and not zeta and r.random() < 0.35:
        # default parameters replaced by a dictionary with the same names and other values between two runs that rely on
        # them (the runner cached by model.run must see the new ones)
        d1, d2 = r.sample(pool, 2)
        k = r.choice(list(needed))
        calls += [{"call": "set_defaults", "params": d1}, {"call": "run", "solver": solver, "rebuild": False, "params": {a: b for a, b in d1.items() if a != k}},
                  {"call": "set_defaults", "params": d2}, {"call": "run", "solver": solver, "rebuild": False, "params": {a: b for a, b in d2.items() if a != k}}]
    if switch:
        # the same object asked for another solver without rebuild=True, and for the first one again
        other_ = "rk4" if solver == "euler" else "euler"
        full_ = r.choice(pool)
        calls += [{"call": "run", "solver": solver, "rebuild": False, "params": full_},
                  {"call": "run", "solver": other_, "rebuild": False, "params": full_},
                  {"call": "run", "solver": solver, "rebuild": False, "params": r.choice(pool)}]
    # make sure some call repeats an earlier one after other parameter values were used
    runs = [x for x in calls if x["call"] == "run" and len(x["params"]) == (5 if zeta else 4)]
    if runs:
        calls.append(dict(runs[0], rebuild=False))
    if ints:
        for c in calls:
            c["int_params"] = True
    return calls


def run(tier, seed):
    n = tier_n(tier, 60, 600)
    g = gen.Gen(seed * 7919 + 11)
    progs = []
    for i in range(n):
        nonlin = g.rng.random() < 0.5
        p = g.program({"requests": True, "nsteps": 2, "nonlinear": nonlin, "p_iadj": 0.7, "state_rates": nonlin and g.rng.random() < 0.5,
                       "nstrat": g.rng.choice([0, 1, 2, 2]), "h": g.rng.choice(["1/4", "1/2"])})
        solver = "euler" if p["nonlinear"] else g.rng.choice(["euler", "rk4"])
        # function outputs get a parameter of their own: it reaches the results through the derived-output graph only
        zeta = False
        for o in p["ops"]:
            if o["op"] == "req" and o["req"]["type"] == "func" and int(o["req"]["fn"]) in (0, 1):
                o["req"]["params"] = [{"p": "zeta"}] + list(o["req"]["params"][1:])
                zeta = True
        base = checklib.strip_meta(dict(p, obs=[]))
        calls = history(g, solver, (["zeta"] if zeta else []) or needed_params(base), zeta,
                        switch=(not p["nonlinear"]) and g.rng.random() < 0.5)
        p["obs"] = [{"obs": "struct"}, {"obs": "history", "calls": calls, "program": base},
                    {"obs": "oracle", "name": "c11", "calls": calls, "program": base}]
        progs.append(p)
    # a known finding that the check exhibits on every run: graph keys are stored on the objects a model is built from, so
    # finalising a second model that shares a Stratification object re-labels what the first one reads
    progs.append(carrier([{"obs": "oracle", "name": "c11_shared_keys"}]))
    progs.append(carrier([{"obs": "oracle", "name": "c11_caller_objects"}]))
    ex = checklib.explore(progs, keys=KEYS, per_prog_timeout=90.0)
    # other interpreter hash seeds: the same programs and histories in fresh processes; every number must be
    # bit-identical to the PYTHONHASHSEED=0 run (JSON floats are shortest round-trip representations)
    extra = []
    ok_progs = [i for i, a in enumerate(ex["ires"]) if a.get("build_error") is None and "harness_error" not in a
                and len(progs[i]["obs"]) > 1 and progs[i]["obs"][1].get("obs") == "history"]
    sub = ok_progs if tier == "thorough" else ok_progs[:24]
    hs_checks = 0
    for hs in (["1", "4242"] if tier == "quick" else ["1", "7", "4242", "99991"]):
        res = R.run_impl([dict(progs[i], obs=[progs[i]["obs"][1]]) for i in sub], extra_env={"PYTHONHASHSEED": hs},
                         per_prog_timeout=90.0)
        for i, r_ in zip(sub, res):
            if "harness_error" in r_ or r_.get("build_error") is not None:
                extra.append(("hash seed %s: program %d fails to build/run in a fresh process: %s" % (hs, i, json.dumps(r_)[:200]),
                              {"program": checklib.strip_meta(progs[i]), "hashseed": hs,
                               "kind": "PYTHONHASHSEED changes behaviour"}, True))
                continue
            hs_checks += 1
            a = json.dumps(ex["ires"][i]["obs"][1].get("history"), sort_keys=True)
            b = json.dumps(r_["obs"][0].get("history"), sort_keys=True)
            if a != b:
                extra.append(("PYTHONHASHSEED=%s gives results that differ from PYTHONHASHSEED=0 (program %d)" % (hs, i),
                              {"program": checklib.strip_meta(progs[i]), "hashseed": hs,
                               "kind": "results depend on the interpreter's hash seed"}, True))
    nontrivial = {checklib.signature(p) for p, a in zip(progs, ex["mres"]) if a.get("build_error") is None}
    return {"programs": progs, "explore": ex, "distinct_nontrivial": len(nontrivial), "extra_violations": extra[:10],
            "extra_coverage": {"hash_seed_comparisons": hs_checks},
            "rule": "random histories of 3-8 calls (model.run with and without rebuild, get_runner with all / some / no dynamic "
                    "parameters, runner.run, set_default_parameters, runs with partial parameters over defaults, runs that omit a needed parameter after complete runs) over 3 parameter "
                    "settings; every call's outputs and derived outputs compared with the state-machine model; on the "
                    "implementation equal calls must agree bit for bit (whatever came in between, on rebuilt runners and on an "
                    "independently built second object), the definition snapshot (compartments, flows with parameters and "
                    "adjustments, stratification objects, requests, mixing, defaults) must not change after the first "
                    "finalisation, the caller's dictionaries must not be modified; the same histories re-executed in fresh "
                    "processes with other PYTHONHASHSEED values must give identical numbers; non-trivial = builds",
            "dist": dist(progs)}
