"""C12 - outputs align with the model's times and compartments in a deterministic order."""
from .common import *  # noqa

KEYS = {"comps", "flows", "ntimes", "initial_population"}
# observations whose model value is the property's specified value (a disagreement there is a failing input);
# on the others the correspondence supports the tie and the oracle searches for the failing input
SPEC_KEYS = {"comps", "flows", "ntimes", "build"}

# a known finding that the check has to exhibit on every run: compartments are compared by their
# serialised string, so an original name containing "X" can collide with a stratified name
COLLISION = {"times": ["0", "2", "1"], "comps": ["S", "SXage_y"], "inf": ["S"],
             "ops": [{"op": "pop", "dist": {"S": "10", "SXage_y": "5"}},
                     {"op": "strat", "kind": "plain", "name": "age", "strata": ["y"], "comps": ["S"], "fadj": [], "iadj": {}}],
             "meta": {}, "nonlinear": False, "probe": "serialised-name-collision"}


def run(tier, seed):
    n = tier_n(tier, 220, 3000)
    g = gen.Gen(seed * 7919 + 12)
    progs = [g.program({"nstrat": g.rng.choice([0, 1, 2, 2, 3]), "p_post": 0.5, "shuffle_comps": 0.5,
                        "h": g.rng.choice(["1", "1/2", "1/4", "2", "3/8", "3/2"]),
                        **({"force_strain": True, "nonlinear": True, "nstrat": g.rng.choice([1, 2, 3])} if i_ % 6 == 5 else {})}) for i_ in range(n)]
    for i_, p in enumerate(progs):
        if i_ % 3 == 0 and any(o["op"] == "strat" for o in p["ops"]):
            # the Stratification objects of this model are also applied to a second model with another layout before it runs
            p["shared_strats"] = True
        if i_ % 2 == 1:
            # strata need not be declared alphabetically (the strain stratification's in particular): declaration order decides
            for o_ in p["ops"]:
                if o_["op"] == "strat" and o_["kind"] in ("strain", "plain") and len(o_["strata"]) >= 2 and o_.get("mix") is None:
                    o_["strata"] = list(reversed(o_["strata"]))
    progs.append(dict(COLLISION))
    for p in progs:
        pv = g.params_values(small=True)
        pops = [o for o in p["ops"] if o["op"] in ("pop", "arraypop")]
        first_strat = next((i for i, o in enumerate(p["ops"]) if o["op"] == "strat"), len(p["ops"]))
        dist_ = None
        literal = lambda d: all(isinstance(v, str) and v != "t" for v in (d or {}).values())
        # (splits and rebalances given as parameters are used as they are, normalised or not: totals are then not preserved)
        normalised = all(literal(o.get("split")) for o in p["ops"] if o["op"] == "strat") and \
            all(literal(dict(o["props"])) if not isinstance(o["props"], dict) else literal(o["props"]) for o in p["ops"] if o["op"] == "rebalance")
        if normalised and pops and all(o["op"] == "pop" for o in pops) and all(i < first_strat for i, o in enumerate(p["ops"]) if o["op"] == "pop"):
            dist_ = pops[-1]["dist"]
        variant = None
        strat_idx = [i for i, o in enumerate(p["ops"]) if o["op"] == "strat" and o["kind"] == "plain" and o.get("mix") is None]
        if strat_idx and not any(o["op"] in ("req", "rebalance", "cv", "whitelist") for o in p["ops"]):
            # the same names in another layout: one ordinary stratification restricted to its first compartment
            import copy as _copy
            variant = checklib.strip_meta(_copy.deepcopy(dict(p, obs=[])))
            j = strat_idx[-1]
            so = variant["ops"][j]
            if len(so["comps"]) > 1:
                so["comps"] = so["comps"][-1:]
                so["iadj"] = {c_: a_ for c_, a_ in (so.get("iadj") or {}).items() if c_ in so["comps"]}
                # later operations that name strata of this stratification may no longer apply: drop them
                variant["ops"] = variant["ops"][: j + 1]
            else:
                variant = None
        p["obs"] = [{"obs": "struct"}, {"obs": "initpop", "params": pv},
                    {"obs": "oracle", "name": "c12", "params": pv, "times": p["times"], "dist": dist_, "variant_program": variant,
                     "program": checklib.strip_meta(dict(p, obs=[])) if p.get("shared_strats") else None}]
    progs.append(carrier([{"obs": "oracle", "name": "c12_dates", "seed": seed, "n": 20 if tier == "quick" else 300}]))
    progs.append(carrier([{"obs": "oracle", "name": "c12_grid", "seed": seed, "n": 40 if tier == "quick" else 600}]))
    # the collision probe is compared on the implementation only (the model identifies compartments
    # structurally, see DESIGN.md name hygiene)
    ex = checklib.explore(progs, keys=KEYS, obs_filter=None)
    nontrivial = set()
    for p, a in zip(progs, ex["mres"]):
        if a.get("build_error") is None and a.get("obs") and any(o["op"] == "strat" for o in p["ops"]):
            nontrivial.add(checklib.signature(p))
    return {"programs": progs, "explore": ex, "distinct_nontrivial": len(nontrivial),
            "rule": "build programs with 0-3 full/partial stratifications (a third of them with Stratification objects that are also applied to a second model of another layout before the run) and post-stratification flow additions, non-unit "
                    "and non-integer timesteps, non-zero start times; compartment list, flow endpoints, number of times and "
                    "initial population compared with the model; on the implementation: times grid, outputs shape, endpoint "
                    "indices, data-frame labels, row 0, distinct names; 20/300 random reference dates for the date labels and "
                    "the datetime round trip; decimal (non-dyadic) time specifications: whenever accepted, the grid is start + k * timestep "
                    "with one output row per time; non-trivial = stratified at least once",
            "dist": dist(progs)}
