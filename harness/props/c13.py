"""C13 - name-and-strata selection means: name equal and strata contain the filter."""
import itertools
from .common import *  # noqa

KEYS = {"comps", "flows", "flow_rates", "derived"}
# observations whose model value is the property's specified value (a disagreement there is a failing input);
# on the others the correspondence supports the tie and the oracle searches for the failing input
SPEC_KEYS = {"comps", "flows", "flow_rates", "derived"}


def filters_for(prog, rng, thorough):
    strats = [(o["name"], o["strata"]) for o in prog["ops"] if o["op"] == "strat"]
    pairs = [(n, s) for n, ss in strats for s in ss]
    fs = [{}]
    fs += [{n: s} for n, s in pairs]
    two = [dict([a, b]) for a, b in itertools.combinations(pairs, 2) if a[0] != b[0]]
    fs += two if thorough else rng.sample(two, min(len(two), 4))
    if strats:
        fs.append({n: ss[0] for n, ss in strats})           # full
        fs.append({strats[0][0]: "nosuchstratum"})           # value that does not exist
    return fs


def run(tier, seed):
    n = tier_n(tier, 200, 2500)
    g = gen.Gen(seed * 7919 + 13)
    progs = [g.program({"nstrat": g.rng.choice([1, 2, 2, 3]), "p_post": 0.6, "cross": 0.5, "nsteps": g.rng.choice([1, 2]),
                        "full_filters": 0.6, "prefix_names": 0.3, "fadj_pairs": 0.6,
                        "post_import": 0.4, "post_exit": 0.5, "post_birth": 0.3}) for _ in range(n)]
    out = []
    nq = 0
    for p in progs:
        fs = filters_for(p, g.rng, tier == "thorough")
        flow_names = sorted({o["name"] for o in p["ops"] if o["op"] in ("flow", "udeath")})
        obs = [{"obs": "struct"}]
        queries = []
        picks = fs if tier == "thorough" else g.rng.sample(fs, min(len(fs), 8))
        for f in picks:
            name = g.rng.choice(p["comps"])
            obs.append({"obs": "qcomps", "name": name, "filt": f})
            queries.append({"kind": "comps", "name": name, "filt": f})
            queries.append({"kind": "comps", "name": None, "filt": f})
            fn = g.rng.choice(flow_names) if flow_names else "none"
            f2 = g.rng.choice(fs)
            for sf, df in ((f, {}), ({}, f), (f, f2)):
                obs.append({"obs": "qflows", "name": fn, "sf": sf, "df": df})
                queries.append({"kind": "flows", "name": fn, "sf": sf, "df": df})
        obs.append({"obs": "oracle", "name": "c13", "queries": queries, "seed": seed, "program": checklib.strip_meta(dict(p, obs=[])) if len(out) % 3 == 0 else None})
        nq += len(queries)
        p["obs"] = obs
        out.append(p)
    # which adjustment a source / destination restricted flow adjustment lands on shows in the flow rates
    out2 = []
    for p, st in with_struct(out):
        if st is not None:
            nc = len(st["comps"])
            pv = g.params_values(small=True)
            x = fix_domain(p, st["comps"], g.state(nc, "pos"))
            p["obs"].append({"obs": "onestep", "params": pv, "t": gen.dy(g.rng, 0, 24, 2), "x": x})
            # flow / compartment derived outputs select by name + strata too (twin requests: the same pairs on either end)
            if any(o["op"] == "req" for o in p["ops"]) and ((not p["nonlinear"]) or nsteps(p) <= 2):
                p["obs"].append({"obs": "run", "solver": "euler", "params": pv})
        out2.append(p)
    out = out2
    ex = checklib.explore(out, keys=KEYS, per_prog_timeout=30.0)
    nontrivial = set()
    for p, a in zip(out, ex["mres"]):
        if a.get("build_error") is None and a.get("obs"):
            sel = [o for o in a["obs"][1:] if ("comps" in o and 0 < len(o["comps"])) or ("flows" in o and len(o["flows"]) > 0)]
            if sel and any(o["op"] == "strat" for o in p["ops"]):
                nontrivial.add(checklib.signature(p))
    return {"programs": out, "explore": ex, "distinct_nontrivial": len(nontrivial),
            "rule": "stratified models (1-3 stratifications, flows added after stratification with strata filters, same-named "
                    "cross-stratum flows adjusted later through source AND destination filters, flow rates observed); per model "
                    "the filters {empty, every single pair, pairs of pairs, full, non-existent stratum} applied through "
                    "query_compartments, query_flows (source / dest / both) and BaseFlow.is_match; compared with the model "
                    "and with a brute-force selection on the implementation; non-trivial = stratified and some query selects "
                    "a non-empty set",
            "dist": dist(out), "extra_coverage": {"queries": nq}}
