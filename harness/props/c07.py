"""C07 - every solver returns the solution of the model's ODE at the requested times."""
from .common import *  # noqa

KEYS = {"outputs", "ntimes", "y1", "f1", "err"}
# observations whose model value is the property's specified value (a disagreement there is a failing input);
# on the others the correspondence supports the tie and the oracle searches for the failing input
SPEC_KEYS = {"outputs", "ntimes", "y1", "f1", "err"}


def run(tier, seed):
    n = tier_n(tier, 120, 1500)
    g = gen.Gen(seed * 7919 + 7)
    progs = []
    for i in range(n):
        nonlin = i % 3 == 0
        grid = {"nsteps": g.rng.choice([1, 2]) if nonlin else g.rng.choice([2, 4, 6, 8]),
                "h": g.rng.choice(["1", "1/2", "1/4", "3/8", "2", "3/2"]),
                "t0": g.rng.choice(["0", "1", "-2", "5/2", "10"])}
        if i % 4 == 3:
            # decimal timesteps (0.9, 0.45, 0.3 ...): grids the library accepts although start, end and step are not
            # exactly representable
            t0_, h_, n_ = decimal_grid(g.rng, 2 if nonlin else 9)
            # (no explicit time dependence on these grids: a piecewise function with a breakpoint at a grid time would be
            # evaluated on either side of it depending on the last bit of start + k * step)
            grid = {"nsteps": n_, "h": h_, "t0": t0_, "no_time": True}
        p = g.program(dict({"nonlinear": nonlin, "requests": False}, **grid))
        pv = g.params_values(small=True)
        obs = [{"obs": "struct"}]
        if (not p["nonlinear"]) or nsteps(p) <= 2:
            obs.append({"obs": "run", "solver": "euler", "params": pv})
        if (not p["nonlinear"]) or nsteps(p) <= 1:
            obs.append({"obs": "run", "solver": "rk4", "params": pv})
        # one Dormand-Prince step of the adaptive solver from the initial population (Model/Adaptive.v rk_step)
        if (not p["nonlinear"]) or g.rng.random() < 0.5:
            obs.append({"obs": "rkstep", "params": pv, "t": p["times"][0], "dt": g.rng.choice(["1/4", "1/8", "1/2", "1/16"]), "x": None})
        obs.append({"obs": "oracle", "name": "c07", "params": pv})
        p["obs"] = obs
        progs.append(p)
    cases = []
    for _ in range(6 if tier == "quick" else 60):
        h = g.rng.choice([1.0, 0.5, 0.25, 2.0, 0.125])
        t0 = g.rng.choice([0.0, 1.0, -3.0, 2.5])
        cases.append((t0, t0 + h * g.rng.choice([4, 8, 16]), h, g.rng.choice([0.5, 0.25, 0.125, 0.3])))
    cases.append((0.0, 4.0, 0.5, 0.5))      # the input on which the unscaled RK4 formula fails
    progs.append(carrier([{"obs": "oracle", "name": "c07_closed", "cases": cases}]))
    ex = checklib.explore(progs, keys=KEYS, per_prog_timeout=12.0)
    nontrivial = set()
    for p, a in zip(progs, ex["mres"]):
        if a.get("build_error") is None and any("outputs" in o and len(o["outputs"]) > 1 and o["outputs"][0] != o["outputs"][-1]
                                                 for o in (a.get("obs") or [])):
            nontrivial.add(checklib.signature(p))
    return {"programs": progs, "explore": ex, "distinct_nontrivial": len(nontrivial),
            "rule": "build programs with timesteps {1, 1/2, 1/4, 3/8, 2, 3/2} and start times {0, 1, -2, 5/2, 10}, a quarter with decimal timesteps (0.9, 0.45, 0.3, 0.01 ...) whose grid the library accepts: euler and rk4 "
                    "trajectories (linear models up to 8 steps, nonlinear 1-2 steps) compared with the exact-rational model whose "
                    "step bodies are translated from solvers.py; one Dormand-Prince step (new state, new derivative, error "
                    "estimate) of ode.runge_kutta_step compared with Model/Adaptive.v over the translated tableau; on the implementation the recurrences are re-derived from "
                    "get_comp_rates, and decay / logistic closed forms give Euler, RK4 polynomial values, adaptive-solver "
                    "errors at two tolerances and two output grids, and the observed orders of convergence; non-trivial = the "
                    "trajectory moves",
            "dist": dist(progs), "extra_coverage": {"closed_form_cases": len(cases)}}
