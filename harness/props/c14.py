"""C14 - pruning derived outputs never changes the values of those that are kept."""
import itertools
from .common import *  # noqa

KEYS = {"derived"}
# observations whose model value is the property's specified value (a disagreement there is a failing input);
# on the others the correspondence supports the tie and the oracle searches for the failing input
SPEC_KEYS = set()


def run(tier, seed):
    n = tier_n(tier, 40, 300)
    g = gen.Gen(seed * 7919 + 14)
    base = []
    while len(base) < n:
        p = g.program({"requests": True, "nstrat": g.rng.choice([0, 1, 2]), "nsteps": g.rng.choice([1, 2]),
                       "nonlinear": g.rng.random() < 0.4})
        names = [o["name"] for o in p["ops"] if o["op"] == "req"]
        if 2 <= len(names) <= 6:
            p["ops"] = [o for o in p["ops"] if o["op"] != "whitelist"]
            base.append(p)
    progs = []
    for p in base:
        pv = g.params_values(small=True)
        # the function outputs get a parameter of their own (used nowhere else in the model), and the model gets
        # default parameters that differ from the values supplied to the runs
        pv["zeta"] = g.rng.choice(["3/4", "3/2", "5/8"])
        for o in p["ops"]:
            if o["op"] == "req" and o["req"]["type"] == "func":
                o["req"]["params"] = [{"p": "zeta"} if isinstance(e, dict) else e for e in o["req"]["params"]]
        for o in p["ops"]:
            if o["op"] == "req" and o["req"]["type"] == "func" and g.rng.random() < 0.5:
                o["req"]["wrap"] = True
        if any(o["op"] == "cv" for o in p["ops"]) and any(o["op"] == "req" and o["name"] == "cvA" for o in p["ops"]):
            # a function of the computed-value output, referenced inside an expression
            wl0 = [o for o in p["ops"] if o["op"] == "whitelist"]
            p["ops"] = [o for o in p["ops"] if o["op"] != "whitelist"] + \
                [{"op": "req", "name": "fcv", "save": True, "req": {"type": "func", "fn": 0, "sources": ["cvA", "cvA"], "params": ["3/4"], "wrap": True}}] + wl0
        chain = g.rng.random() < 0.5
        if chain:
            # a pruned function output (the only user of zeta) that reaches a kept output through a cumulative output,
            # next to a kept function output that does not use zeta
            src = [o["name"] for o in p["ops"] if o["op"] == "req"][0]
            p["ops"] += [{"op": "req", "name": "fz", "save": True, "req": {"type": "func", "fn": 0, "sources": [src, src], "params": [{"p": "zeta"}]}},
                         {"op": "req", "name": "fc", "save": True, "req": {"type": "func", "fn": 0, "sources": [src, src], "params": ["1/2"]}},
                         {"op": "req", "name": "cz", "save": True, "req": {"type": g.rng.choice(["cum", "agg"]), "source": "fz", "sources": ["fz"], "start": None}}]
        window = g.rng.random() < 0.5
        if window:
            # a whole-run cumulative output and a windowed one (from the second time on) of the same source: the windowed
            # one is kept with and without its sibling
            src = g.rng.choice([o["name"] for o in p["ops"] if o["op"] == "req"][:2])
            t0_, h_ = gen.Fraction(p["times"][0]), gen.Fraction(p["times"][2])
            p["ops"] += [{"op": "req", "name": "cw", "save": g.rng.random() < 0.8, "req": {"type": "cum", "source": src, "start": None}},
                         {"op": "req", "name": "cws", "save": True, "req": {"type": "cum", "source": src, "start": str(t0_ + h_)}}]
        if g.rng.random() < 0.6:
            at = min(i for i, o in enumerate(p["ops"]) if o["op"] == "req")
            p["ops"].insert(at, {"op": "setdefaults", "params": {k: "1/4" for k in pv}})
        names = [o["name"] for o in p["ops"] if o["op"] == "req"]
        subsets = [list(c) for r in range(1, len(names) + 1) for c in itertools.combinations(names, r)]
        picks = subsets if tier == "thorough" else g.rng.sample(subsets, min(4, len(subsets)))
        if chain and ["fc", "cz"] not in picks:
            picks = picks + [["fc", "cz"]]
        if window and ["cws"] not in picks:
            picks = picks + [["cws"]]
        solver_ok = (not p["nonlinear"]) or nsteps(p) <= 2
        # full evaluation (with the oracle on the implementation) ...
        q = dict(p)
        q["obs"] = ([{"obs": "run", "solver": "euler", "params": pv}] if solver_ok else []) + \
                   [{"obs": "oracle", "name": "c14", "program": checklib.strip_meta(dict(p, obs=[])), "params": pv,
                     "seed": seed, "exhaustive": tier == "thorough", "ratio": len(progs) % 2 == 0 and len(names) <= 4}]
        progs.append(q)
        # ... and whitelisted variants compared with the model
        if solver_ok:
            for W in picks:
                v = dict(p, ops=p["ops"] + [{"op": "whitelist", "names": W}])
                v["obs"] = [{"obs": "run", "solver": "euler", "params": pv}]
                progs.append(v)
    ex = checklib.explore(progs, keys=KEYS, per_prog_timeout=40.0)
    nontrivial = set()
    for p, a in zip(progs, ex["mres"]):
        if a.get("build_error") is None and any("derived" in o and len(o["derived"]) >= 1 for o in (a.get("obs") or [])):
            nontrivial.add(checklib.signature(p))
    return {"programs": progs, "explore": ex, "distinct_nontrivial": len(nontrivial),
            "rule": "models with 2-6 chained derived-output requests (flow, compartment, aggregate, cumulative, function, "
                    "computed value), function outputs with a parameter used nowhere else, whole-run and windowed cumulative outputs of one source, default parameters that differ from "
                    "the supplied values; for each: whitelists (4 random subsets quick / all subsets thorough) compared with the "
                    "model; on the implementation bit-exact comparison (float.hex) of every kept value against the full "
                    "evaluation over whitelists, save-flag vectors, dependency-consistent declaration orders and "
                    "include_full_outputs=False; non-trivial = builds and returns at least one derived output",
            "dist": dist(progs)}
