"""C06 - initial population = declared distribution pushed through splits and rebalances."""
from .common import *  # noqa

KEYS = {"initial_population", "comps"}
# observations whose model value is the property's specified value (a disagreement there is a failing input);
# on the others the correspondence supports the tie and the oracle searches for the failing input
SPEC_KEYS = {"initial_population", "comps"}


def run(tier, seed):
    n = tier_n(tier, 200, 3000)
    g = gen.Gen(seed * 7919 + 6)
    progs = []
    for i in range(n):
        p = g.program({"nstrat": g.rng.choice([1, 2, 2, 3]), "requests": False, "nsteps": 2, "rounded_splits": 0.25,
                       "shuffle_comps": 0.5})
        r = g.rng
        strats = [(o["name"], o["strata"]) for o in p["ops"] if o["op"] == "strat"]
        # extra rebalances after the last stratification (several, with and without filters)
        p["ops"] = [o for o in p["ops"] if o["op"] != "rebalance"]
        for k in range(r.choice([0, 1, 1, 2, 3])):
            if not strats:
                break
            sname, strata = r.choice(strats)
            nn = len(strata)
            w = [r.randint(1, 4) for _ in strata]
            pit_ = [(s, str(gen.Fraction(x, sum(w)))) for s, x in zip(strata, w)]
            if r.random() < 0.5:
                r.shuffle(pit_)          # proportions written in another order than the strata
            props = dict(pit_)
            others = [(a, b) for a, b in strats if a != sname]
            filt = {}
            if others and r.random() < 0.6:
                a, b = r.choice(others)
                filt = {a: r.choice(b)}
            p["ops"].append({"op": "rebalance", "strat": sname, "filt": filt, "props": props})
            if filt and r.random() < 0.5:
                # the same stratification adjusted again for another stratum of the filter, other proportions
                (a, v), = filt.items()
                rest = [x for x in dict(strats)[a] if x != v]
                if rest:
                    w2 = [r.randint(1, 5) for _ in strata]
                    p["ops"].append({"op": "rebalance", "strat": sname, "filt": {a: r.choice(rest)},
                                     "props": {s_: str(gen.Fraction(x, sum(w2))) for s_, x in zip(strata, w2)}})
        if i % 11 == 0:
            # whole-population array given as a graph object (used verbatim)
            pass
        pv = g.params_values(small=True)
        if i % 3 == 1:
            # default parameters that differ from the values supplied to the observations: the supplied values count
            other = g.params_values(small=True)
            p["ops"].append({"op": "setdefaults", "params": {k: str(gen.Fraction(v) + gen.Fraction(1, 2)) for k, v in other.items()}})
        p["obs"] = [{"obs": "struct"}, {"obs": "initpop", "params": pv}, {"obs": "onestep", "params": pv},
                    {"obs": "oracle", "name": "c06", "params": pv, "params2": g.params_values(small=True),
                     "program": checklib.strip_meta(dict(p, obs=[]))}]
        progs.append(p)
    out = []
    for p, st in with_struct(progs):
        if st is not None and g.rng.random() < 0.1:
            nc = len(st["comps"])
            arr = [gen.dy(g.rng, 0, 200, 2) if g.rng.random() < 0.8 else {"p": "mu"} for _ in range(nc)]
            p["ops"].append({"op": "arraypop", "arr": arr})
            p["obs"][-1]["program"] = checklib.strip_meta(dict(p, obs=[]))
        out.append(p)
    ex = checklib.explore(out, keys=KEYS, per_prog_timeout=30.0)
    nontrivial = set()
    for p, a in zip(out, ex["mres"]):
        if a.get("build_error") is None and any(o["op"] == "strat" for o in p["ops"]):
            nontrivial.add(checklib.signature(p))
    return {"programs": out, "explore": ex, "distinct_nontrivial": len(nontrivial),
            "rule": "(a third of the models carry default parameters that differ from the supplied values) literal, parameterised and function-valued distributions and splits, 1-3 full/partial stratifications, 0-3 "
                    "population-split adjustments after the last stratification (with and without destination filters; pairs of adjustments of one stratification for different strata of the same filter key), 10% with a whole-population array as a graph object; get_initial_population / one_step compared "
                    "with the model; on the implementation the population is recomputed from the definition and compared with "
                    "get_initial_population, one_step().initial_population and row 0 of the outputs of all three solvers; "
                    "non-trivial = stratified at least once",
            "dist": dist(out)}
