"""Writes /verif/MANIFEST.json from the set of properties that have a theorem file and an
exploration module; everything else is listed under not_applicable with the reason."""
import json
import os

VERIF = os.path.dirname(os.path.dirname(os.path.abspath(__file__)))

LEVEL_TEXT = {
    "C01": ("Theorems (any ordered field, any model the backend accepts, any parameters/time/state): the gather/scatter "
            "right-hand side equals the documented per-flow laws and inflow-minus-outflow; the key-sharing static/"
            "time-varying weight scatter gives every flow its own adjustment chain. Tie to /repo: differential "
            "correspondence of one_step on generated build programs + an independent per-flow oracle.", "6.1"),
}
DEFAULT_NOTE = ("Theorems are about the Gallina model (coq/Model); the tie to /repo is the sampled correspondence "
                "(extracted model vs real summer2 on the NumPy-backed jax stand-in) and the translator for the "
                "whitelisted kernels. Trusted base: Coq 8.16.1 kernel, extraction (ExtrOcamlBasic+ExtrOcamlString), "
                "OCaml driver, jax stand-in, generator/oracles. No axioms declared; Print Assumptions recorded in "
                "the evidence. IEEE rounding is not modelled (numbers compared with tolerance on dyadic inputs).")

TECHNIQUE = "Rocq/Coq proof about a Gallina model + checked model-to-code correspondence (extracted OCaml vs real code)"


def main():
    props = [json.loads(l) for l in open(os.path.join(VERIF, "properties.jsonl"))]
    reasons = {}
    rp = os.path.join(VERIF, "harness", "not_applicable.json")
    if os.path.exists(rp):
        reasons = json.load(open(rp))
    checks, na = [], []
    for p in props:
        pid = p["id"]
        have = os.path.exists(os.path.join(VERIF, "coq", "Props", pid + ".v")) and \
            os.path.exists(os.path.join(VERIF, "harness", "props", pid.lower() + ".py"))
        if have and pid not in reasons:
            text, ref = LEVEL_TEXT.get(pid, (None, None))
            lt = json.load(open(os.path.join(VERIF, "harness", "levels.json"))).get(pid) if os.path.exists(
                os.path.join(VERIF, "harness", "levels.json")) else None
            if lt:
                text, ref = lt["text"], lt["ref"]
            checks.append({
                "property_id": pid,
                "quick_cmd": "./check %s --quick" % pid,
                "thorough_cmd": "./check %s --thorough" % pid,
                "evidence_file": "/verif/evidence/%s.json" % pid,
                "replay_cmd_template": "./check %s --replay {path}" % pid,
                "engine": "coq-model+correspondence",
                "level_claimed": {"category": "proof", "text": text or "see DESIGN.md", "design_ref": "DESIGN.md section %s" % (ref or "6")},
                "level_note": DEFAULT_NOTE,
                "technique": TECHNIQUE,
            })
        else:
            na.append({"property_id": pid, "reason": reasons.get(pid, "check not built yet in this round (work in progress; see DESIGN.md section 6)")})
    man = {
        "version": 1,
        "setup_cmd": "/venv/bin/python harness/buildsys.py --setup",
        "hooks": {"guard": "SUMMER2_VERIF", "enable": "no source hooks are needed: the harness runs the unchanged /repo source with "
                  "PYTHONPATH=/verif/harness/jaxshim:/repo (NumPy-backed jax stand-in)",
                  "baseline_off_cmd": "cd /repo && /venv/bin/python -m pytest -ra -q -p no:cacheprovider --timeout=900 --continue-on-collection-errors",
                  "source_commits": [], "add_only": True},
        "engines": [{"name": "coq-model+correspondence", "path": "/verif/check",
                     "serves_properties": [c["property_id"] for c in checks],
                     "kind_free_text": "Coq 8.16.1 development under /verif/coq (Model, Spec, Proofs, Props, Gen) + extraction to OCaml + "
                                       "differential correspondence harness under /verif/harness"}],
        "checks": checks,
        "not_applicable": na,
        "notes": "Fix commits in /repo (unguarded, messages start with 'fix:') are listed in known_findings.json as fixed entries.",
    }
    with open(os.path.join(VERIF, "MANIFEST.json"), "w") as f:
        json.dump(man, f, indent=1)
    print("checks:", [c["property_id"] for c in checks], "not_applicable:", [n["property_id"] for n in na])


if __name__ == "__main__":
    main()
