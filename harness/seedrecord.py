"""Records a confirmed seeded change under /verif/seeded/<prop>-<variant>/ with what was run."""
import json
import os
import shutil
import sys

sys.path.insert(0, os.path.dirname(os.path.abspath(__file__)))
import seedtest  # noqa: E402

VERIF = seedtest.VERIF


def record(pid, variant, props):
    src = "/tmp/seed_%s" % pid
    wt = "/tmp/wt_%s" % pid
    patch, demo = "%s/patch%s.diff" % (src, variant), "%s/demo%s.py" % (src, variant)
    notes = open("%s/notes%s.txt" % (src, variant)).read() if os.path.exists("%s/notes%s.txt" % (src, variant)) else ""
    conf = seedtest.confirm(wt, patch, demo)
    if not conf["confirmed"]:
        print("NOT CONFIRMED", pid, variant, conf)
        return
    det = seedtest.detect(patch, props)
    d = os.path.join(VERIF, "seeded", "%s-%s" % (pid, variant))
    os.makedirs(d, exist_ok=True)
    shutil.copy(patch, os.path.join(d, "patch.diff"))
    shutil.copy(demo, os.path.join(d, "demo.py"))
    meta = {"property": pid, "variant": variant, "written_by": "independent sub-agent given only the property text and a scratch worktree",
            "needs_to_manifest": notes.strip(),
            "confirmed": {"demo_exit_clean": conf["demo_clean_rc"], "demo_exit_patched": conf["demo_patched_rc"],
                          "tests_patched": conf["tests_tail"],
                          "how": "git apply in the scratch worktree /tmp/wt_%s; demo run with PYTHONPATH=<jax stand-in>:<worktree>; "
                                 "the 110 stable tests run in the worktree; worktree reset afterwards" % pid},
            "checks_run": {k: {"exit": v["rc"], "first_lines": v["summary"][:3]} for k, v in det.items()},
            "detected_by": [k for k, v in det.items() if v["rc"] != 0],
            "how_checks_were_run": "git -C /repo apply patch.diff; ./check <id> --quick; git -C /repo checkout -- ."}
    json.dump(meta, open(os.path.join(d, "meta.json"), "w"), indent=1)
    print(pid, variant, "detected_by", meta["detected_by"])


if __name__ == "__main__":
    pid, variant = sys.argv[1], sys.argv[2]
    record(pid, variant, sys.argv[3:] or [pid])
