"""Confirms a seeded change (patch + demo) in a scratch worktree and runs the registered checks
against it: apply to /repo, run, undo straight afterwards.  Usage:
  seedtest.py confirm <worktree> <patch> <demo>      -> demo passes clean, fails patched, 110 tests pass patched
  seedtest.py detect <patch> <prop> [<prop> ...]     -> runs ./check <prop> --quick with the patch applied to /repo
"""
import json
import os
import subprocess
import sys

VERIF = os.path.dirname(os.path.dirname(os.path.abspath(__file__)))
TESTS = ("tests/test_compartment.py tests/test_flows tests/test_model_setup.py tests/test_stratification.py "
         "tests/test_stratify_flows.py tests/test_stratify_compartments.py tests/test_stratify_by_age.py "
         "tests/test_stratify_strains.py tests/test_solver.py tests/test_stratify_mixing_matrix.py::test_add_mixing_matrix_fails "
         "tests/test_population_restribution.py::test_expected_failures tests/test_add_flows.py::test_apply_flows__too_many_birth_flows")


def sh(cmd, cwd=None, timeout=1800, env=None):
    r = subprocess.run(cmd, shell=True, cwd=cwd, capture_output=True, text=True, timeout=timeout, env=env)
    return r.returncode, (r.stdout + r.stderr)


def demo(wt, demo_path):
    env = dict(os.environ, PYTHONPATH="%s/harness/jaxshim:%s" % (VERIF, wt))
    return sh("timeout 300 /venv/bin/python %s" % demo_path, env=env)


def confirm(wt, patch, demo_path):
    res = {}
    sh("git checkout -- .", cwd=wt)
    rc, out = demo(wt, demo_path)
    res["demo_clean_rc"] = rc
    rc, out = sh("git apply %s" % patch, cwd=wt)
    res["apply_rc"] = rc
    rc, out = demo(wt, demo_path)
    res["demo_patched_rc"] = rc
    res["demo_patched_tail"] = out[-300:]
    rc, out = sh("timeout 900 /venv/bin/python -m pytest -q -p no:cacheprovider --timeout=900 %s 2>&1 | tail -2" % TESTS, cwd=wt)
    res["tests_tail"] = out.strip()[-120:]
    sh("git checkout -- .", cwd=wt)
    res["confirmed"] = res["demo_clean_rc"] == 0 and res["apply_rc"] == 0 and res["demo_patched_rc"] != 0 and "110 passed" in res["tests_tail"]
    return res


def detect(patch, props):
    out = {}
    rc, o = sh("git -C /repo status --short")
    assert o.strip() == "", "/repo is not clean: " + o
    rc, o = sh("git -C /repo apply %s" % patch)
    if rc != 0:
        # written against an earlier commit: let patch(1) place the hunks
        sh("git -C /repo checkout -- .")
        rc, o = sh("patch -p1 -F3 --no-backup-if-mismatch -d /repo < %s" % patch)
        if rc != 0:
            # leave /repo as it was found
            sh("git -C /repo checkout -- . && git -C /repo clean -fdq -- summer2")
    assert rc == 0, o
    # the evidence files describe the unchanged tree: keep them
    import shutil
    import tempfile
    keep = tempfile.mkdtemp(prefix="evidence_keep_")
    shutil.copytree(os.path.join(VERIF, "evidence"), os.path.join(keep, "evidence"))
    try:
        for pid in props:
            rc, o = sh("timeout 1500 ./check %s --quick" % pid, cwd=VERIF)
            lines = [l for l in o.split("\n") if l.startswith(("VIOLATION", "OK", "KNOWN")) or l.startswith("    ")]
            out[pid] = {"rc": rc, "summary": lines[:4]}
    finally:
        sh("git -C /repo checkout -- .")
        sh("/venv/bin/python harness/py2coq.py", cwd=VERIF)
        shutil.rmtree(os.path.join(VERIF, "evidence"), ignore_errors=True)
        shutil.copytree(os.path.join(keep, "evidence"), os.path.join(VERIF, "evidence"))
        shutil.rmtree(keep, ignore_errors=True)
    return out


if __name__ == "__main__":
    if sys.argv[1] == "confirm":
        print(json.dumps(confirm(sys.argv[2], sys.argv[3], sys.argv[4]), indent=1))
    else:
        print(json.dumps(detect(sys.argv[2], sys.argv[3:]), indent=1))
