"""NumPy-backed stand-in for the ~60 `jax` names that summer2 and computegraph use.

Real jaxlib cannot execute in this sandbox (it was built against NumPy 1.x and only NumPy 2.x
is on disk: the first array operation segfaults).  This package is put in front of sys.path
by the /verif harness only; /repo is never modified for it.  It reproduces the documented JAX
semantics the code relies on:

  * arrays are immutable: ``x.at[i].set(v)`` / ``.add(v)`` return a copy;
  * gathers with out-of-bounds integer indices are clamped (not an IndexError);
  * scatters with out-of-bounds integer indices are dropped;
  * ``lax.switch`` clamps its index; ``lax.while_loop``/``scan``/``fori_loop``/``cond`` are
    ordinary Python loops over array-valued carries;
  * ``jit`` is the identity, ``vmap`` is a loop + stack.

A *taint mode* (SUMMER2_VERIF_TAINT=1, see taint.py) is layered on top for property C19.
It is part of the trusted base of the correspondence checks (DESIGN.md section 3).
"""
import sys
import types
import functools
import numpy as _np

__version__ = "0.4.24-verif-shim"


# ----------------------------------------------------------------------------------------------
# Array type
# ----------------------------------------------------------------------------------------------
def _clamp_index(k, n):
    """Clamp an integer (array) index into [-n, n-1] the way XLA gathers do."""
    if isinstance(k, (bool, _np.bool_)):
        return k
    if isinstance(k, (int, _np.integer)):
        if n == 0:
            return k
        return min(int(k), n - 1) if k >= 0 else max(int(k), -n)
    if isinstance(k, _np.ndarray) and k.dtype.kind in "iu":
        if n == 0:
            return k
        return _np.clip(_np.asarray(k), -n, n - 1)
    if isinstance(k, (list, tuple)) and len(k) and all(
        isinstance(e, (int, _np.integer)) and not isinstance(e, (bool, _np.bool_)) for e in k
    ):
        return _np.clip(_np.asarray(k, dtype=int), -n, n - 1) if n else _np.asarray(k, dtype=int)
    return k


def _clamp_key(key, shape):
    if isinstance(key, tuple):
        out = []
        ax = 0
        for k in key:
            if k is None or k is Ellipsis:
                out.append(k)
                if k is Ellipsis:
                    ax = len(shape) - (len(key) - len(out))
                continue
            if isinstance(k, _np.ndarray) and k.dtype == bool:
                out.append(_np.asarray(k))
                ax += k.ndim
                continue
            n = shape[ax] if ax < len(shape) else 0
            out.append(_clamp_index(k, n))
            ax += 1
        return tuple(out)
    if isinstance(key, _np.ndarray) and key.dtype == bool:
        return _np.asarray(key)
    if len(shape) == 0:
        return key
    return _clamp_index(key, shape[0])


class _AtIndexer:
    __slots__ = ("arr", "key")

    def __init__(self, arr, key):
        self.arr = arr
        self.key = key

    def _prep(self):
        new = _np.array(self.arr, copy=True)
        return new

    def _scatter(self, values, op):
        new = self._prep()
        key = self.key
        # out-of-range integer scatter indices are dropped (JAX default for .at[].set/add)
        if isinstance(key, (int, _np.integer)) and not isinstance(key, (bool, _np.bool_)):
            n = new.shape[0]
            if key >= n or key < -n:
                return new.view(JArr)
        elif isinstance(key, _np.ndarray) and key.dtype.kind in "iu" and new.ndim >= 1:
            n = new.shape[0]
            key = _np.asarray(key)
            ok = (key < n) & (key >= -n)
            if not ok.all():
                values = _np.broadcast_to(_np.asarray(values), key.shape + new.shape[1:])[ok]
                key = key[ok]
        elif isinstance(key, _np.ndarray):
            key = _np.asarray(key)
        if op == "set":
            new[key] = values
        elif op == "add":
            _np.add.at(new, key, values)
        elif op == "mul":
            _np.multiply.at(new, key, values)
        return new.view(JArr)

    def set(self, values, **kw):
        return self._scatter(_unwrap(values), "set")

    def add(self, values, **kw):
        return self._scatter(_unwrap(values), "add")

    def mul(self, values, **kw):
        return self._scatter(_unwrap(values), "mul")

    multiply = mul

    def get(self, **kw):
        return self.arr[self.key]


class _At:
    __slots__ = ("arr",)

    def __init__(self, arr):
        self.arr = arr

    def __getitem__(self, key):
        return _AtIndexer(self.arr, key)


def _unwrap(x):
    if isinstance(x, JArr):
        return _np.asarray(x)
    return x


class JArr(_np.ndarray):
    """ndarray subclass with JAX's functional update syntax and clamped gathers."""

    __array_priority__ = 100.0

    @property
    def at(self):
        return _At(self)

    def __getitem__(self, key):
        key = _clamp_key(key, self.shape)
        res = _np.ndarray.__getitem__(self, key)
        return res

    def __setitem__(self, key, value):
        raise TypeError(
            "'JArr' object does not support item assignment. JAX arrays are immutable "
            "(shim mirrors this); use x.at[idx].set(v)."
        )

    def __iter__(self):
        # __getitem__ clamps and therefore never raises IndexError: iterate by length.
        if self.ndim == 0:
            raise TypeError("iteration over a 0-d array")
        for i in range(self.shape[0]):
            yield self[i]

    def block_until_ready(self):
        return self


def _wrap(x):
    if isinstance(x, JArr):
        return x
    if isinstance(x, _np.ndarray):
        return x.view(JArr)
    if isinstance(x, _np.generic):
        return _np.asarray(x).view(JArr)
    return x


def _wrapping(f):
    @functools.wraps(f)
    def g(*a, **k):
        return _wrap(f(*a, **k))

    return g


Array = JArr


# ----------------------------------------------------------------------------------------------
# jax.numpy
# ----------------------------------------------------------------------------------------------
class _NumpyModule(types.ModuleType):
    def __getattr__(self, name):
        attr = getattr(_np, name)
        if callable(attr) and not isinstance(attr, type):
            w = _wrapping(attr)
            setattr(self, name, w)
            return w
        return attr


numpy = _NumpyModule("jax.numpy")
numpy.ndarray = JArr
numpy.float64 = _np.float64
numpy.float32 = _np.float32
numpy.floating = _np.floating
numpy.nan = _np.nan
numpy.inf = _np.inf
numpy.pi = _np.pi
numpy.newaxis = None
numpy.linalg = _np.linalg
numpy.int32 = _np.int32
numpy.int64 = _np.int64


def _jnp_array(obj, dtype=None, copy=True, **kw):
    if isinstance(obj, range):
        obj = list(obj)
    a = _np.array(obj, dtype=dtype)
    if a.dtype == object:
        raise TypeError("jnp.array: ragged or non-numeric input %r" % (obj,))
    return a.view(JArr)


def _jnp_asarray(obj, dtype=None, **kw):
    return _np.asarray(obj, dtype=dtype).view(JArr)


numpy.array = _jnp_array
numpy.asarray = _jnp_asarray
numpy.copy = lambda x: _np.array(x, copy=True).view(JArr)


def _jnp_empty(shape, dtype=float):
    # jnp.empty is zero-filled in JAX
    return _np.zeros(shape, dtype=dtype).view(JArr)


def _jnp_empty_like(x, dtype=None):
    return _np.zeros_like(_np.asarray(x), dtype=dtype).view(JArr)


numpy.empty = _jnp_empty
numpy.empty_like = _jnp_empty_like
numpy.issubdtype = _np.issubdtype
numpy.iscomplexobj = _np.iscomplexobj


# ----------------------------------------------------------------------------------------------
# jax.lax
# ----------------------------------------------------------------------------------------------
lax = types.ModuleType("jax.lax")


def _arrify(x):
    """Carried Python scalars become 0-d arrays (code calls .astype on them)."""
    if isinstance(x, (bool, int, float)):
        return _np.asarray(x).view(JArr)
    if isinstance(x, _np.generic):
        return _np.asarray(x).view(JArr)
    if isinstance(x, tuple):
        return tuple(_arrify(e) for e in x)
    if isinstance(x, list):
        return [_arrify(e) for e in x]
    if isinstance(x, dict):
        return {k: _arrify(v) for k, v in x.items()}
    return x


def _while_loop(cond_fun, body_fun, init_val):
    val = _arrify(init_val)
    n = 0
    while bool(cond_fun(val)):
        val = _arrify(body_fun(val))
        n += 1
        if n > 10_000_000:
            raise RuntimeError("jaxshim: while_loop exceeded 1e7 iterations")
    return val


def _fori_loop(lower, upper, body_fun, init_val):
    val = init_val
    for i in range(int(lower), int(upper)):
        val = body_fun(i, val)
    return val


def _stack_tree(ys):
    if len(ys) == 0:
        return None
    y0 = ys[0]
    if y0 is None:
        return None
    if isinstance(y0, tuple):
        return tuple(_stack_tree([y[i] for y in ys]) for i in range(len(y0)))
    if isinstance(y0, list):
        return [_stack_tree([y[i] for y in ys]) for i in range(len(y0))]
    if isinstance(y0, dict):
        return {k: _stack_tree([y[k] for y in ys]) for k in y0}
    return _np.stack([_np.asarray(y) for y in ys]).view(JArr)


def _scan(f, init, xs, length=None):
    carry = init
    ys = []
    if xs is None:
        n = length
        it = [None] * n
    else:
        n = len(xs)
        it = [xs[i] for i in range(n)]
    for x in it:
        carry, y = f(carry, x)
        ys.append(y)
    return carry, _stack_tree(ys)


def _cond(pred, true_fun, false_fun, *operands):
    if bool(pred):
        return true_fun(*operands)
    return false_fun(*operands)


def _switch(index, branches, *operands):
    i = int(index)
    i = max(0, min(i, len(branches) - 1))
    return branches[i](*operands)


lax.while_loop = _while_loop
lax.fori_loop = _fori_loop
lax.scan = _scan
lax.cond = _cond
lax.switch = _switch
lax.stop_gradient = lambda x: x


# ----------------------------------------------------------------------------------------------
# transformations
# ----------------------------------------------------------------------------------------------
def jit(fun=None, static_argnums=None, static_argnames=None, **kw):
    if fun is None:
        return lambda f: f
    return fun


def vmap(fun, in_axes=0, out_axes=0):
    def mapped(*args):
        axes = in_axes if isinstance(in_axes, (tuple, list)) else (in_axes,) * len(args)
        n = None
        for a, ax in zip(args, axes):
            if ax is not None:
                n = len(a)
                break
        outs = []
        for i in range(n):
            call_args = [a if ax is None else a[i] for a, ax in zip(args, axes)]
            outs.append(fun(*call_args))
        return _stack_tree(outs)

    return mapped


def vjp(*a, **k):
    raise NotImplementedError("jaxshim: reverse-mode differentiation is not available")


class custom_vjp:
    def __init__(self, fun, nondiff_argnums=()):
        self.fun = fun
        functools.update_wrapper(self, fun)

    def defvjp(self, fwd, bwd):
        self.fwd, self.bwd = fwd, bwd

    def __call__(self, *a, **k):
        return self.fun(*a, **k)


# ----------------------------------------------------------------------------------------------
# submodules
# ----------------------------------------------------------------------------------------------
def _mod(name, **attrs):
    m = types.ModuleType(name)
    m.__dict__.update(attrs)
    sys.modules[name] = m
    return m


sys.modules["jax.numpy"] = numpy
sys.modules["jax.lax"] = lax


class _Tracer:
    pass


def _valid_jaxtype(x):
    try:
        _np.asarray(x, dtype=float)
        return True
    except Exception:
        return isinstance(x, (_np.ndarray, int, float, bool, _np.generic))


core = _mod("jax.core", Tracer=_Tracer, valid_jaxtype=_valid_jaxtype, call=lambda f, *a: f(*a))


def _closure_convert(fun, *example_args):
    return fun, []


custom_derivatives = _mod(
    "jax.custom_derivatives", closure_convert=_closure_convert, custom_vjp=custom_vjp
)


def _tree_leaves(tree):
    if isinstance(tree, (tuple, list)):
        out = []
        for t in tree:
            out += _tree_leaves(t)
        return out
    if isinstance(tree, dict):
        out = []
        for k in sorted(tree):
            out += _tree_leaves(tree[k])
        return out
    if tree is None:
        return []
    return [tree]


def _tree_map(f, tree, *rest):
    if isinstance(tree, tuple):
        return tuple(_tree_map(f, t, *[r[i] for r in rest]) for i, t in enumerate(tree))
    if isinstance(tree, list):
        return [_tree_map(f, t, *[r[i] for r in rest]) for i, t in enumerate(tree)]
    if isinstance(tree, dict):
        return {k: _tree_map(f, v, *[r[k] for r in rest]) for k, v in tree.items()}
    if tree is None:
        return None
    return f(tree, *rest)


tree_util = _mod("jax.tree_util", tree_leaves=_tree_leaves, tree_map=_tree_map)
tree_map = _tree_map
tree_leaves = _tree_leaves


def _ravel_pytree(tree):
    leaves = _tree_leaves(tree)
    if isinstance(tree, (_np.ndarray, _np.generic, int, float)):
        arr = _np.asarray(tree)
        shape = arr.shape
        return arr.reshape(-1).view(JArr), (lambda flat: _np.asarray(flat).reshape(shape).view(JArr))
    shapes = [_np.shape(l) for l in leaves]
    sizes = [int(_np.prod(s)) if len(s) else 1 for s in shapes]
    flat = (
        _np.concatenate([_np.asarray(l, dtype=float).reshape(-1) for l in leaves])
        if leaves
        else _np.zeros(0)
    )

    def unravel(f):
        f = _np.asarray(f)
        out, pos = [], 0
        for s, n in zip(shapes, sizes):
            out.append(f[pos : pos + n].reshape(s).view(JArr))
            pos += n
        it = iter(out)
        return _tree_map(lambda _l: next(it), tree)

    return flat.view(JArr), unravel


flatten_util = _mod("jax.flatten_util", ravel_pytree=_ravel_pytree)


# jax.linear_util: generator based function transformations (only what ode.py needs)
class _WrappedFun:
    def __init__(self, f, transforms=()):
        self.f = f
        self.transforms = tuple(transforms)

    def wrap(self, gen, gen_static_args):
        return _WrappedFun(self.f, self.transforms + ((gen, gen_static_args),))

    def call_wrapped(self, *args, **kwargs):
        stack = []
        for gen, static in reversed(self.transforms):
            g = gen(*static, *args, **kwargs)
            args, kwargs = next(g)
            stack.append(g)
        ans = self.f(*args, **kwargs)
        while stack:
            g = stack.pop()
            ans = g.send(ans)
        return ans


def _lu_transformation(gen):
    def wrapper(fun, *static):
        return fun.wrap(gen, static)

    return wrapper


linear_util = _mod(
    "jax.linear_util", wrap_init=lambda f, params=None: _WrappedFun(f), transformation=_lu_transformation
)
extend = _mod("jax.extend", linear_util=linear_util)
sys.modules["jax.extend.linear_util"] = linear_util


def _promote_dtypes_inexact(*args):
    return [_np.asarray(a, dtype=float).view(JArr) for a in args]


_src = _mod("jax._src")
_src_numpy = _mod("jax._src.numpy")
_src_numpy_util = _mod(
    "jax._src.numpy.util",
    promote_dtypes_inexact=_promote_dtypes_inexact,
    _promote_dtypes_inexact=_promote_dtypes_inexact,
)


def _safe_map(f, *seqs):
    seqs = [list(s) for s in seqs]
    n = len(seqs[0])
    assert all(len(s) == n for s in seqs), "safe_map: length mismatch"
    return list(map(f, *seqs))


def _safe_zip(*seqs):
    seqs = [list(s) for s in seqs]
    n = len(seqs[0])
    assert all(len(s) == n for s in seqs), "safe_zip: length mismatch"
    return list(zip(*seqs))


_src_util = _mod("jax._src.util", safe_map=_safe_map, safe_zip=_safe_zip)
_src.numpy = _src_numpy
_src.util = _src_util
_src_numpy.util = _src_numpy_util


class _Config:
    def __init__(self):
        self.values = {}

    def update(self, k, v):
        self.values[k] = v


config = _Config()
_config_mod = _mod("jax.config", config=config)

import scipy as _scipy

scipy = _mod("jax.scipy")
scipy.__dict__.update({k: getattr(_scipy, k) for k in ("linalg", "special") if hasattr(_scipy, k)})


class _BCOO:
    def __init__(self, dense):
        self.dense = _np.asarray(dense)

    @classmethod
    def fromdense(cls, mat, **kw):
        return cls(mat)

    def __matmul__(self, other):
        return _wrap(self.dense @ _np.asarray(other))

    def todense(self):
        return _wrap(self.dense)


experimental = _mod("jax.experimental")
sparse = _mod("jax.experimental.sparse", BCOO=_BCOO)
experimental.sparse = sparse

# random is not used by the modelled code paths
