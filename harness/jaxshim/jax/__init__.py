"""NumPy-backed stand-in for the ~60 `jax` names that summer2 and computegraph use.

Real jaxlib cannot execute in this sandbox (it was built against NumPy 1.x and only NumPy 2.x
is on disk: the first array operation segfaults).  This package is put in front of sys.path
by the /verif harness only; /repo is never modified for it.  It reproduces the documented JAX
semantics the code relies on:

  * arrays are immutable: ``x.at[i].set(v)`` / ``.add(v)`` return a copy;
  * gathers with out-of-bounds integer indices are clamped (not an IndexError);
  * scatters with out-of-bounds integer indices are dropped;
  * ``lax.switch`` clamps its index; ``lax.while_loop``/``scan``/``fori_loop``/``cond`` are
    ordinary Python loops over array-valued carries;
  * ``jit`` is the identity, ``vmap`` is a loop + stack.

A *taint mode* (SUMMER2_VERIF_TAINT=1, see taint.py) is layered on top for property C19.
It is part of the trusted base of the correspondence checks (DESIGN.md section 3).
"""
import sys
import types
import functools
import numpy as _np

__version__ = "0.4.24-verif-shim"


# ----------------------------------------------------------------------------------------------
# Array type
# ----------------------------------------------------------------------------------------------
def _clamp_index(k, n):
    """Clamp an integer (array) index into [-n, n-1] the way XLA gathers do."""
    if isinstance(k, (bool, _np.bool_)):
        return k
    if isinstance(k, (int, _np.integer)):
        if n == 0:
            return k
        return min(int(k), n - 1) if k >= 0 else max(int(k), -n)
    if isinstance(k, _np.ndarray) and k.dtype.kind in "iu":
        if n == 0:
            return k
        return _np.clip(_np.asarray(k), -n, n - 1)
    if isinstance(k, (list, tuple)) and len(k) and all(
        isinstance(e, (int, _np.integer)) and not isinstance(e, (bool, _np.bool_)) for e in k
    ):
        return _np.clip(_np.asarray(k, dtype=int), -n, n - 1) if n else _np.asarray(k, dtype=int)
    return k


def _clamp_key(key, shape):
    if isinstance(key, tuple):
        out = []
        ax = 0
        for k in key:
            if k is None or k is Ellipsis:
                out.append(k)
                if k is Ellipsis:
                    ax = len(shape) - (len(key) - len(out))
                continue
            if isinstance(k, _np.ndarray) and k.dtype == bool:
                out.append(_np.asarray(k))
                ax += k.ndim
                continue
            n = shape[ax] if ax < len(shape) else 0
            out.append(_clamp_index(k, n))
            ax += 1
        return tuple(out)
    if isinstance(key, _np.ndarray) and key.dtype == bool:
        return _np.asarray(key)
    if len(shape) == 0:
        return key
    return _clamp_index(key, shape[0])


class _AtIndexer:
    __slots__ = ("arr", "key")

    def __init__(self, arr, key):
        self.arr = arr
        self.key = key

    def _prep(self):
        new = _np.array(self.arr, copy=True)
        return new

    def _scatter(self, values, op):
        new = self._prep()
        key = self.key
        # out-of-range integer scatter indices are dropped (JAX default for .at[].set/add)
        if isinstance(key, (int, _np.integer)) and not isinstance(key, (bool, _np.bool_)):
            n = new.shape[0]
            if key >= n or key < -n:
                return new.view(JArr)
        elif isinstance(key, _np.ndarray) and key.dtype.kind in "iu" and new.ndim >= 1:
            n = new.shape[0]
            key = _np.asarray(key)
            ok = (key < n) & (key >= -n)
            if not ok.all():
                values = _np.broadcast_to(_np.asarray(values), key.shape + new.shape[1:])[ok]
                key = key[ok]
        elif isinstance(key, _np.ndarray):
            key = _np.asarray(key)
        if op == "set":
            new[key] = values
        elif op == "add":
            _np.add.at(new, key, values)
        elif op == "mul":
            _np.multiply.at(new, key, values)
        return new.view(JArr)

    def set(self, values, **kw):
        return self._scatter(_unwrap(values), "set")

    def add(self, values, **kw):
        return self._scatter(_unwrap(values), "add")

    def mul(self, values, **kw):
        return self._scatter(_unwrap(values), "mul")

    multiply = mul

    def get(self, **kw):
        return self.arr[self.key]


class _At:
    __slots__ = ("arr",)

    def __init__(self, arr):
        self.arr = arr

    def __getitem__(self, key):
        return _AtIndexer(self.arr, key)


def _unwrap(x):
    if isinstance(x, JArr):
        return _np.asarray(x)
    return x


class JArr(_np.ndarray):
    """ndarray subclass with JAX's functional update syntax and clamped gathers."""

    __array_priority__ = 100.0

    @property
    def at(self):
        return _At(self)

    def __getitem__(self, key):
        key = _clamp_key(key, self.shape)
        res = _np.ndarray.__getitem__(self, key)
        return res

    def __setitem__(self, key, value):
        raise TypeError(
            "'JArr' object does not support item assignment. JAX arrays are immutable "
            "(shim mirrors this); use x.at[idx].set(v)."
        )

    def __iter__(self):
        # __getitem__ clamps and therefore never raises IndexError: iterate by length.
        if self.ndim == 0:
            raise TypeError("iteration over a 0-d array")
        for i in range(self.shape[0]):
            yield self[i]

    def block_until_ready(self):
        return self


def _wrap(x):
    if isinstance(x, JArr):
        return x
    if isinstance(x, _np.ndarray):
        return x.view(JArr)
    if isinstance(x, _np.generic):
        return _np.asarray(x).view(JArr)
    return x


def _wrapping(f):
    @functools.wraps(f)
    def g(*a, **k):
        return _wrap(f(*a, **k))

    return g


Array = JArr


# ----------------------------------------------------------------------------------------------
# jax.numpy
# ----------------------------------------------------------------------------------------------
class _NumpyModule(types.ModuleType):
    def __getattr__(self, name):
        attr = getattr(_np, name)
        if callable(attr) and not isinstance(attr, type):
            w = _wrapping(attr)
            setattr(self, name, w)
            return w
        return attr


numpy = _NumpyModule("jax.numpy")
numpy.ndarray = JArr
numpy.float64 = _np.float64
numpy.float32 = _np.float32
numpy.floating = _np.floating
numpy.nan = _np.nan
numpy.inf = _np.inf
numpy.pi = _np.pi
numpy.newaxis = None
numpy.linalg = _np.linalg
numpy.int32 = _np.int32
numpy.int64 = _np.int64


def _jnp_array(obj, dtype=None, copy=True, **kw):
    if isinstance(obj, range):
        obj = list(obj)
    a = _np.array(obj, dtype=dtype)
    if a.dtype == object:
        raise TypeError("jnp.array: ragged or non-numeric input %r" % (obj,))
    return a.view(JArr)


def _jnp_asarray(obj, dtype=None, **kw):
    return _np.asarray(obj, dtype=dtype).view(JArr)


numpy.array = _jnp_array
numpy.asarray = _jnp_asarray
numpy.copy = lambda x: _np.array(x, copy=True).view(JArr)


def _jnp_empty(shape, dtype=float):
    # jnp.empty is zero-filled in JAX
    return _np.zeros(shape, dtype=dtype).view(JArr)


def _jnp_empty_like(x, dtype=None):
    return _np.zeros_like(_np.asarray(x), dtype=dtype).view(JArr)


numpy.empty = _jnp_empty
numpy.empty_like = _jnp_empty_like
numpy.issubdtype = _np.issubdtype
numpy.iscomplexobj = _np.iscomplexobj


# ----------------------------------------------------------------------------------------------
# jax.lax
# ----------------------------------------------------------------------------------------------
lax = types.ModuleType("jax.lax")


def _arrify(x):
    """Carried Python scalars become 0-d arrays (code calls .astype on them)."""
    if isinstance(x, (bool, int, float)):
        return _np.asarray(x).view(JArr)
    if isinstance(x, _np.generic):
        return _np.asarray(x).view(JArr)
    if isinstance(x, tuple):
        return tuple(_arrify(e) for e in x)
    if isinstance(x, list):
        return [_arrify(e) for e in x]
    if isinstance(x, dict):
        return {k: _arrify(v) for k, v in x.items()}
    return x


def _while_loop(cond_fun, body_fun, init_val):
    val = _arrify(init_val)
    n = 0
    while bool(cond_fun(val)):
        val = _arrify(body_fun(val))
        n += 1
        if n > 10_000_000:
            raise RuntimeError("jaxshim: while_loop exceeded 1e7 iterations")
    return val


def _fori_loop(lower, upper, body_fun, init_val):
    val = init_val
    for i in range(int(lower), int(upper)):
        val = body_fun(i, val)
    return val


def _stack_tree(ys):
    if len(ys) == 0:
        return None
    y0 = ys[0]
    if y0 is None:
        return None
    if isinstance(y0, tuple):
        return tuple(_stack_tree([y[i] for y in ys]) for i in range(len(y0)))
    if isinstance(y0, list):
        return [_stack_tree([y[i] for y in ys]) for i in range(len(y0))]
    if isinstance(y0, dict):
        return {k: _stack_tree([y[k] for y in ys]) for k in y0}
    return _np.stack([_np.asarray(y) for y in ys]).view(JArr)


def _scan(f, init, xs, length=None):
    carry = init
    ys = []
    if xs is None:
        n = length
        it = [None] * n
    else:
        n = len(xs)
        it = [xs[i] for i in range(n)]
    for x in it:
        carry, y = f(carry, x)
        ys.append(y)
    return carry, _stack_tree(ys)


def _cond(pred, true_fun, false_fun, *operands):
    if bool(pred):
        return true_fun(*operands)
    return false_fun(*operands)


def _switch(index, branches, *operands):
    i = int(index)
    i = max(0, min(i, len(branches) - 1))
    return branches[i](*operands)


lax.while_loop = _while_loop
lax.fori_loop = _fori_loop
lax.scan = _scan
lax.cond = _cond
lax.switch = _switch
lax.stop_gradient = lambda x: x


# ----------------------------------------------------------------------------------------------
# transformations
# ----------------------------------------------------------------------------------------------
def jit(fun=None, static_argnums=None, static_argnames=None, **kw):
    if fun is None:
        return lambda f: f
    return fun


def vmap(fun, in_axes=0, out_axes=0):
    def mapped(*args):
        axes = in_axes if isinstance(in_axes, (tuple, list)) else (in_axes,) * len(args)
        n = None
        for a, ax in zip(args, axes):
            if ax is not None:
                n = len(a)
                break
        outs = []
        for i in range(n):
            call_args = [a if ax is None else a[i] for a, ax in zip(args, axes)]
            outs.append(fun(*call_args))
        return _stack_tree(outs)

    return mapped


def vjp(*a, **k):
    raise NotImplementedError("jaxshim: reverse-mode differentiation is not available")


class custom_vjp:
    def __init__(self, fun, nondiff_argnums=()):
        self.fun = fun
        functools.update_wrapper(self, fun)

    def defvjp(self, fwd, bwd):
        self.fwd, self.bwd = fwd, bwd

    def __call__(self, *a, **k):
        return self.fun(*a, **k)


# ----------------------------------------------------------------------------------------------
# submodules
# ----------------------------------------------------------------------------------------------
def _mod(name, **attrs):
    m = types.ModuleType(name)
    m.__dict__.update(attrs)
    sys.modules[name] = m
    return m


sys.modules["jax.numpy"] = numpy
sys.modules["jax.lax"] = lax


class _Tracer:
    pass


def _valid_jaxtype(x):
    try:
        _np.asarray(x, dtype=float)
        return True
    except Exception:
        return isinstance(x, (_np.ndarray, int, float, bool, _np.generic))


core = _mod("jax.core", Tracer=_Tracer, valid_jaxtype=_valid_jaxtype, call=lambda f, *a: f(*a))


def _closure_convert(fun, *example_args):
    return fun, []


custom_derivatives = _mod(
    "jax.custom_derivatives", closure_convert=_closure_convert, custom_vjp=custom_vjp
)


def _tree_leaves(tree):
    if isinstance(tree, (tuple, list)):
        out = []
        for t in tree:
            out += _tree_leaves(t)
        return out
    if isinstance(tree, dict):
        out = []
        for k in sorted(tree):
            out += _tree_leaves(tree[k])
        return out
    if tree is None:
        return []
    return [tree]


def _tree_map(f, tree, *rest):
    if isinstance(tree, tuple):
        return tuple(_tree_map(f, t, *[r[i] for r in rest]) for i, t in enumerate(tree))
    if isinstance(tree, list):
        return [_tree_map(f, t, *[r[i] for r in rest]) for i, t in enumerate(tree)]
    if isinstance(tree, dict):
        return {k: _tree_map(f, v, *[r[k] for r in rest]) for k, v in tree.items()}
    if tree is None:
        return None
    return f(tree, *rest)


tree_util = _mod("jax.tree_util", tree_leaves=_tree_leaves, tree_map=_tree_map)
tree_map = _tree_map
tree_leaves = _tree_leaves


def _ravel_pytree(tree):
    leaves = _tree_leaves(tree)
    if isinstance(tree, (_np.ndarray, _np.generic, int, float)):
        arr = _np.asarray(tree)
        shape = arr.shape
        return arr.reshape(-1).view(JArr), (lambda flat: _np.asarray(flat).reshape(shape).view(JArr))
    shapes = [_np.shape(l) for l in leaves]
    sizes = [int(_np.prod(s)) if len(s) else 1 for s in shapes]
    flat = (
        _np.concatenate([_np.asarray(l, dtype=float).reshape(-1) for l in leaves])
        if leaves
        else _np.zeros(0)
    )

    def unravel(f):
        f = _np.asarray(f)
        out, pos = [], 0
        for s, n in zip(shapes, sizes):
            out.append(f[pos : pos + n].reshape(s).view(JArr))
            pos += n
        it = iter(out)
        return _tree_map(lambda _l: next(it), tree)

    return flat.view(JArr), unravel


flatten_util = _mod("jax.flatten_util", ravel_pytree=_ravel_pytree)


# jax.linear_util: generator based function transformations (only what ode.py needs)
class _WrappedFun:
    def __init__(self, f, transforms=()):
        self.f = f
        self.transforms = tuple(transforms)

    def wrap(self, gen, gen_static_args):
        return _WrappedFun(self.f, self.transforms + ((gen, gen_static_args),))

    def call_wrapped(self, *args, **kwargs):
        stack = []
        for gen, static in reversed(self.transforms):
            g = gen(*static, *args, **kwargs)
            args, kwargs = next(g)
            stack.append(g)
        ans = self.f(*args, **kwargs)
        while stack:
            g = stack.pop()
            ans = g.send(ans)
        return ans


def _lu_transformation(gen):
    def wrapper(fun, *static):
        return fun.wrap(gen, static)

    return wrapper


linear_util = _mod(
    "jax.linear_util", wrap_init=lambda f, params=None: _WrappedFun(f), transformation=_lu_transformation
)
extend = _mod("jax.extend", linear_util=linear_util)
sys.modules["jax.extend.linear_util"] = linear_util


def _promote_dtypes_inexact(*args):
    return [_np.asarray(a, dtype=float).view(JArr) for a in args]


_src = _mod("jax._src")
_src_numpy = _mod("jax._src.numpy")
_src_numpy_util = _mod(
    "jax._src.numpy.util",
    promote_dtypes_inexact=_promote_dtypes_inexact,
    _promote_dtypes_inexact=_promote_dtypes_inexact,
)


def _safe_map(f, *seqs):
    seqs = [list(s) for s in seqs]
    n = len(seqs[0])
    assert all(len(s) == n for s in seqs), "safe_map: length mismatch"
    return list(map(f, *seqs))


def _safe_zip(*seqs):
    seqs = [list(s) for s in seqs]
    n = len(seqs[0])
    assert all(len(s) == n for s in seqs), "safe_zip: length mismatch"
    return list(zip(*seqs))


_src_util = _mod("jax._src.util", safe_map=_safe_map, safe_zip=_safe_zip)
_src.numpy = _src_numpy
_src.util = _src_util
_src_numpy.util = _src_numpy_util


class _Config:
    def __init__(self):
        self.values = {}

    def update(self, k, v):
        self.values[k] = v


config = _Config()
_config_mod = _mod("jax.config", config=config)

import scipy as _scipy

scipy = _mod("jax.scipy")
scipy.__dict__.update({k: getattr(_scipy, k) for k in ("linalg", "special") if hasattr(_scipy, k)})


class _BCOO:
    def __init__(self, dense):
        self.dense = _np.asarray(dense)

    @classmethod
    def fromdense(cls, mat, **kw):
        return cls(mat)

    def __matmul__(self, other):
        return _wrap(self.dense @ _np.asarray(other))

    def todense(self):
        return _wrap(self.dense)


experimental = _mod("jax.experimental")
sparse = _mod("jax.experimental.sparse", BCOO=_BCOO)
experimental.sparse = sparse

# random is not used by the modelled code paths


# ----------------------------------------------------------------------------------------------
# taint mode (property C19): SUMMER2_VERIF_TAINT=1
# ----------------------------------------------------------------------------------------------
# Emulates what JAX tracing does to Python code: every value that depends on a jit argument, on a
# loop carry / loop index of lax.scan / fori_loop / while_loop, or on an operand of lax.cond /
# lax.switch is an abstract tracer.  Array operations on tracers give tracers; asking a tracer for
# a concrete Python value (bool(), int(), float(), index into a Python container, boolean-mask
# indexing, .item()/.tolist(), use as a shape) raises - here ConcretizationError - and so does
# handing one to a plain numpy function (TracerArrayConversionError in JAX).  Both branches of
# cond / every branch of switch are executed, as tracing does.  Numerical results are unchanged.
import os as _os


class ConcretizationError(TypeError):
    """the concrete value of a run-time dependent (traced) array was requested"""


class TracerArrayConversionError(ConcretizationError):
    """a plain numpy function was applied to a run-time dependent (traced) array"""


TAINT = _os.environ.get("SUMMER2_VERIF_TAINT", "") == "1"
_jnp_depth = [0]
_jit_depth = [0]
_plain_JArr = JArr


def _mk_tuple(proto, items):
    """tuples keep their type (namedtuples are pytrees)"""
    if hasattr(proto, "_fields"):
        return type(proto)(*items)
    return tuple(items)


def _is_t(x):
    return isinstance(x, _np.ndarray) and getattr(x, "_taint", False)


def _tainted(x):
    if isinstance(x, _np.ndarray):
        return getattr(x, "_taint", False)
    if isinstance(x, (tuple, list)):
        return any(_tainted(e) for e in x)
    if isinstance(x, dict):
        return any(_tainted(e) for e in x.values())
    if isinstance(x, slice):
        return _tainted((x.start, x.stop, x.step))
    return False


def _strip(x):
    """the same values as plain ndarrays / containers (no taint, no dispatch)"""
    if isinstance(x, _np.ndarray):
        return x.view(_np.ndarray) if type(x) is not _np.ndarray else x
    if isinstance(x, tuple):
        return _mk_tuple(x, [_strip(e) for e in x])
    if isinstance(x, list):
        return [_strip(e) for e in x]
    if isinstance(x, dict):
        return {k: _strip(v) for k, v in x.items()}
    if isinstance(x, slice):
        return slice(_strip(x.start), _strip(x.stop), _strip(x.step))
    return x


def _rewrap(res, t):
    if isinstance(res, tuple):
        return _mk_tuple(res, [_rewrap(r, t) for r in res])
    if isinstance(res, list):
        return [_rewrap(r, t) for r in res]
    if isinstance(res, _np.ndarray):
        out = res.view(JArr)
        out._taint = bool(t)
        return out
    if isinstance(res, _np.generic) and t:
        out = _np.asarray(res).view(JArr)
        out._taint = True
        return out
    return res


def taint(x):
    """mark every numeric leaf of a pytree as run-time dependent"""
    if isinstance(x, (bool, int, float, _np.generic, _np.ndarray)):
        out = _np.array(_strip(x) if isinstance(x, _np.ndarray) else x).view(JArr)
        if TAINT:
            out._taint = True
        return out
    if isinstance(x, tuple):
        return _mk_tuple(x, [taint(e) for e in x])
    if isinstance(x, list):
        return [taint(e) for e in x]
    if isinstance(x, dict):
        return {k: taint(v) for k, v in x.items()}
    return x


def untaint(x):
    if isinstance(x, _np.ndarray):
        return _np.array(_strip(x))
    if isinstance(x, tuple):
        return _mk_tuple(x, [untaint(e) for e in x])
    if isinstance(x, list):
        return [untaint(e) for e in x]
    if isinstance(x, dict):
        return {k: untaint(v) for k, v in x.items()}
    return x


def _peek(x):
    return _strip(x) if isinstance(x, _np.ndarray) else x


def _concretization(self, what):
    raise ConcretizationError(
        "%s of a run-time dependent array (shape %s) was requested: under jax tracing this is a "
        "ConcretizationTypeError" % (what, self.shape))


class TArr(_plain_JArr):
    _taint = False

    def __array_finalize__(self, obj):
        self._taint = getattr(obj, "_taint", False)

    def __array_ufunc__(self, ufunc, method, *inputs, out=None, **kwargs):
        t = _tainted(inputs) or _tainted(out)
        kw = dict(kwargs)
        if out is not None:
            kw["out"] = tuple(_strip(o) for o in out)
        if "where" in kw:
            t = t or _tainted(kw["where"])
            kw["where"] = _strip(kw["where"])
        res = getattr(ufunc, method)(*[_strip(i) for i in inputs], **kw)
        return _rewrap(res, t)

    def __array_function__(self, func, types, args, kwargs):
        t = _tainted(args) or _tainted(kwargs)
        if t and _jnp_depth[0] == 0:
            raise TracerArrayConversionError(
                "numpy.%s was applied to a run-time dependent array outside jax.numpy: under jax tracing this is a "
                "TracerArrayConversionError" % getattr(func, "__name__", func))
        res = func(*_strip(args), **_strip(kwargs))
        return _rewrap(res, t)

    def __getitem__(self, key):
        kt = _tainted(key)
        if kt:
            ks = key if isinstance(key, tuple) else (key,)
            for k in ks:
                if isinstance(k, _np.ndarray) and k.dtype == bool and _is_t(k):
                    _concretization(k, "boolean-mask indexing (the result shape depends on the values)")
                if isinstance(k, slice) and _tainted(k):
                    # jax: "Array slice indices must have static start/stop/step" (use lax.dynamic_slice)
                    _concretization(next(b for b in (k.start, k.stop, k.step) if _tainted(b)),
                                    "slice bounds (array slices need static start / stop / step)")
        key = _clamp_key(_strip(key), self.shape)
        res = _np.ndarray.__getitem__(self, key)
        return _rewrap(res, self._taint or kt) if (self._taint or kt or isinstance(res, _np.ndarray)) else res

    def __bool__(self):
        if self._taint:
            _concretization(self, "the truth value")
        return bool(_strip(self))

    def __int__(self):
        if self._taint:
            _concretization(self, "int()")
        return int(_strip(self))

    def __float__(self):
        if self._taint:
            _concretization(self, "float()")
        return float(_strip(self))

    def __complex__(self):
        if self._taint:
            _concretization(self, "complex()")
        return complex(_strip(self))

    def __index__(self):
        if self._taint:
            _concretization(self, "use as a Python index / size")
        return _strip(self).__index__()

    def item(self, *a):
        if self._taint:
            _concretization(self, ".item()")
        return _strip(self).item(*a)

    def tolist(self):
        if self._taint:
            _concretization(self, ".tolist()")
        return _strip(self).tolist()

    def __format__(self, spec):
        return format(_strip(self), spec)

    def __repr__(self):
        return ("Traced" if self._taint else "") + repr(_strip(self))

    def __str__(self):
        return ("Traced" if self._taint else "") + str(_strip(self))


if TAINT:
    JArr = TArr
    Array = TArr
    numpy.ndarray = TArr

    # arguments that determine a shape must be concrete
    _SHAPE_ALL = {"zeros", "ones", "empty", "eye", "identity", "arange", "tri"}
    _SHAPE_ARG = {"full": (0, "shape"), "reshape": (1, "newshape"), "repeat": (1, "repeats"), "linspace": (2, "num"),
                  "tile": (1, "reps"), "broadcast_to": (1, "shape")}

    def _check_shapes(name, a, k):
        if name in _SHAPE_ALL and (_tainted(a) or _tainted(k)):
            raise ConcretizationError("jax.numpy.%s: a shape / range argument depends on run-time values" % name)
        if name in _SHAPE_ARG:
            pos, kw = _SHAPE_ARG[name]
            v = a[pos] if len(a) > pos else k.get(kw)
            if _tainted(v):
                raise ConcretizationError("jax.numpy.%s: the %s argument depends on run-time values" % (name, kw))

    def _wrapping(f):  # noqa: F811
        @functools.wraps(f)
        def g(*a, **k):
            _check_shapes(getattr(f, "__name__", ""), a, k)
            t = _tainted(a) or _tainted(k)
            _jnp_depth[0] += 1
            try:
                res = f(*_strip(a), **_strip(k))
            finally:
                _jnp_depth[0] -= 1
            return _rewrap(res, t)

        return g

    # re-wrap everything numpy falls back to, and the explicit constructors
    for _n in [n for n in list(vars(numpy)) if callable(getattr(numpy, n)) and getattr(getattr(numpy, n), "__wrapped__", None)]:
        delattr(numpy, _n)

    def _t_array(obj, dtype=None, copy=True, **kw):
        if isinstance(obj, range):
            obj = list(obj)
        a = _np.array(_strip(obj), dtype=dtype)
        if a.dtype == object:
            raise TypeError("jnp.array: ragged or non-numeric input %r" % (obj,))
        return _rewrap(a, _tainted(obj))

    _t_linalg = types.ModuleType("jax.numpy.linalg")
    for _n in dir(_np.linalg):
        if callable(getattr(_np.linalg, _n)) and not _n.startswith("_") and not isinstance(getattr(_np.linalg, _n), type):
            setattr(_t_linalg, _n, _wrapping(getattr(_np.linalg, _n)))
    numpy.linalg = _t_linalg

    numpy.array = _t_array
    numpy.asarray = lambda obj, dtype=None, **kw: _rewrap(_np.asarray(_strip(obj), dtype=dtype), _tainted(obj))
    numpy.copy = lambda x: _rewrap(_np.array(_strip(x), copy=True), _tainted(x))
    numpy.empty_like = lambda x, dtype=None: _rewrap(_np.zeros_like(_strip(x), dtype=dtype), False)

    def _t_empty(shape, dtype=float):
        _check_shapes("empty", (shape,), {})
        return _rewrap(_np.zeros(_strip(shape), dtype=dtype), False)

    numpy.empty = _t_empty

    _plain_scatter = _AtIndexer._scatter

    def _t_scatter(self, values, op):
        t = _tainted(self.arr) or _tainted(values) or _tainted(self.key)
        plain = _AtIndexer(_strip(self.arr).view(_plain_JArr), _strip(self.key))
        res = _plain_scatter(plain, _strip(values), op)
        return _rewrap(_np.asarray(res), t)

    _AtIndexer._scatter = _t_scatter
    _AtIndexer.set = lambda self, values, **kw: self._scatter(values, "set")
    _AtIndexer.add = lambda self, values, **kw: self._scatter(values, "add")
    _AtIndexer.mul = lambda self, values, **kw: self._scatter(values, "mul")
    _AtIndexer.multiply = _AtIndexer.mul

    def _arrify_t(x):
        return taint(x)

    def _branch_all(fs, chosen, *operands):
        """execute every branch (tracing does); the result is the chosen branch's"""
        ops = taint(operands)
        out = None
        for j, f in enumerate(fs):
            if j == chosen:
                out = f(*ops)
            else:
                try:
                    with _np.errstate(all="ignore"):
                        f(*ops)
                except ConcretizationError:
                    raise
                except Exception:   # numerical trouble in a branch that is not taken is not our concern
                    pass
        return _rewrap_tree(out, True)

    def _rewrap_tree(x, t):
        if isinstance(x, (bool, int, float, _np.generic, _np.ndarray)):
            if t:
                return taint(x)
            return _rewrap(x, False) if isinstance(x, _np.ndarray) else x      # (arrays stay jax arrays)
        if isinstance(x, tuple):
            return _mk_tuple(x, [_rewrap_tree(e, t) for e in x])
        if isinstance(x, list):
            return [_rewrap_tree(e, t) for e in x]
        if isinstance(x, dict):
            return {k: _rewrap_tree(v, t) for k, v in x.items()}
        return x

    def _t_while_loop(cond_fun, body_fun, init_val):
        val = taint(init_val)
        n = 0
        while bool(_peek(_np.asarray(_strip(cond_fun(val))))):
            val = taint(body_fun(val))
            n += 1
            if n > 10_000_000:
                raise RuntimeError("jaxshim: while_loop exceeded 1e7 iterations")
        return val

    def _t_fori_loop(lower, upper, body_fun, init_val):
        val = taint(init_val)
        for i in range(int(_peek(_np.asarray(_strip(lower)))), int(_peek(_np.asarray(_strip(upper))))):
            val = taint(body_fun(taint(i), val))
        return val

    def _t_scan(f, init, xs, length=None):
        carry = taint(init)
        ys = []
        if xs is None:
            it = [None] * length
        else:
            n = len(_tree_leaves(xs)[0]) if not isinstance(xs, _np.ndarray) else len(xs)
            it = [_tree_map(lambda l: l[i], xs) for i in range(n)]
        for x in it:
            carry, y = f(carry, taint(x))
            carry = taint(carry)
            ys.append(y)
        return carry, _rewrap_tree(_stack_tree([_strip(y) for y in ys]), True)

    def _t_cond(pred, true_fun, false_fun, *operands):
        p = bool(_peek(_np.asarray(_strip(pred))))
        return _branch_all([true_fun, false_fun], 0 if p else 1, *operands)

    def _t_switch(index, branches, *operands):
        i = int(_peek(_np.asarray(_strip(index))))
        i = max(0, min(i, len(branches) - 1))
        return _branch_all(list(branches), i, *operands)

    def _outermost(prim):
        """a control-flow primitive called with concrete arguments outside any traced function traces its body but
        returns concrete arrays (jax.lax.scan(...) called eagerly gives ordinary arrays)"""
        @functools.wraps(prim)
        def g(*a, **k):
            outer = _jit_depth[0] == 0 and not (_tainted(a) or _tainted(k))
            _jit_depth[0] += 1
            try:
                res = prim(*a, **k)
            finally:
                _jit_depth[0] -= 1
            return _rewrap_tree(_strip(res), False) if outer else res
        return g

    lax.while_loop = _outermost(_t_while_loop)
    lax.fori_loop = _outermost(_t_fori_loop)
    lax.scan = _outermost(_t_scan)
    lax.cond = _outermost(_t_cond)
    lax.switch = _outermost(_t_switch)

    def jit(fun=None, static_argnums=None, static_argnames=None, **kw):  # noqa: F811
        if fun is None:
            return lambda f: jit(f, static_argnums, static_argnames)

        if static_argnums is None:
            snums = ()
        elif isinstance(static_argnums, int):
            snums = (static_argnums,)
        else:
            snums = tuple(static_argnums)
        snames = () if static_argnames is None else ((static_argnames,) if isinstance(static_argnames, str) else tuple(static_argnames))

        @functools.wraps(fun)
        def traced(*a, **k):
            # static arguments are compile-time constants: concrete inside the traced function
            a2 = tuple(v if (i in snums or (i - len(a)) in snums) else taint(v) for i, v in enumerate(a))
            k2 = {n: (v if n in snames else taint(v)) for n, v in k.items()}
            _jit_depth[0] += 1
            try:
                res = fun(*a2, **k2)
            finally:
                _jit_depth[0] -= 1
            if _jit_depth[0] == 0:
                # what the outermost compiled function hands back to its caller is concrete again
                return _rewrap_tree(_strip(res), False)
            return res

        return traced

    def vmap(fun, in_axes=0, out_axes=0):  # noqa: F811
        def mapped(*args):
            axes = in_axes if isinstance(in_axes, (tuple, list)) else (in_axes,) * len(args)
            n = None
            for a, ax in zip(args, axes):
                if ax is not None:
                    n = len(a)
                    break
            outs = []
            for i in range(n):
                call_args = [a if ax is None else taint(a[i]) for a, ax in zip(args, axes)]
                outs.append(fun(*call_args))
            return _rewrap_tree(_stack_tree([_strip(o) for o in outs]), True)

        return mapped

    # numpy.asarray / numpy.array do not dispatch on ndarray subclasses: called by the library on a traced array they
    # would silently hand back a concrete copy (jax: TracerArrayConversionError)
    def _conversion_guard(orig, name):
        @functools.wraps(orig)
        def g(a=None, *args, **kw):
            if _jnp_depth[0] == 0 and _tainted(a):
                import sys as _sys
                if str(_sys._getframe(1).f_globals.get("__name__", "")).startswith("summer2"):
                    raise TracerArrayConversionError(
                        "numpy.%s was applied to a run-time dependent array by %s: under jax tracing this is a "
                        "TracerArrayConversionError" % (name, _sys._getframe(1).f_globals.get("__name__")))
            return orig(a, *args, **kw)
        return g

    for _cn in ("asarray", "array", "asanyarray", "ascontiguousarray"):
        setattr(_np, _cn, _conversion_guard(getattr(_np, _cn), _cn))

    _plain_ravel = _ravel_pytree

    def _t_ravel_pytree(tree):
        t = _tainted(_tree_leaves(tree))
        flat, unravel = _plain_ravel(_strip(tree))
        return _rewrap(_np.asarray(flat), t), (lambda f: _rewrap_tree(unravel(_strip(f)), _tainted(f)))

    flatten_util.ravel_pytree = _t_ravel_pytree
    _src_numpy_util.promote_dtypes_inexact = lambda *args: [_rewrap(_np.asarray(_strip(a), dtype=float), _tainted(a)) for a in args]
    _src_numpy_util._promote_dtypes_inexact = _src_numpy_util.promote_dtypes_inexact
    _BCOO.__matmul__ = lambda self, other: _rewrap(self.dense @ _np.asarray(_strip(other)), _tainted(other))
    _BCOO.__init__ = lambda self, dense: setattr(self, "dense", _np.asarray(_strip(dense)))
