"""Implementation side of the correspondence check: executes a build program on the real
summer2 source in /repo (on the NumPy-backed jax stand-in) and returns the observations in the
same shape as harness/driver.ml prints them.  Must be run with
PYTHONPATH=/verif/harness/jaxshim:<repo> (see runner.py)."""
import json
import os
import sys
import warnings
from fractions import Fraction

warnings.filterwarnings("ignore")

import numpy as np  # noqa: E402

from summer2 import CompartmentalModel, Stratification, AgeStratification, StrainStratification  # noqa: E402
from summer2 import Multiply, Overwrite  # noqa: E402
from summer2.parameters import Parameter, Time, CompartmentValues, DerivedOutput, Function  # noqa: E402
from summer2.functions.time import get_piecewise_function, get_linear_interpolation_function, get_sigmoidal_interpolation_function  # noqa: E402
from summer2.functions.util import capture_array  # noqa: E402
import summer2.flows as sflows  # noqa: E402

KIND_OF_CLASS = {
    "CrudeBirthFlow": "crude_birth", "ReplacementBirthFlow": "replacement_birth", "ImportFlow": "importation",
    "DeathFlow": "death", "TransitionFlow": "transition", "AbsoluteFlow": "absolute",
    "InfectionFrequencyFlow": "infection_frequency", "InfectionDensityFlow": "infection_density",
}


def num(s):
    return float(Fraction(s))


def jnp_mean(x, axis=None):
    from jax import numpy as jnp
    return jnp.mean(x, axis=axis)


def lexpr(e):
    """entry of a list-valued argument (interpolation points / values, mixing matrices): whole numbers are written as
    Python ints, as users write them"""
    if isinstance(e, str) and e != "t":
        fr = Fraction(e)
        if fr.denominator == 1:
            return int(fr)
    return expr(e)


_STRATS = []       # the Stratification objects of the model being built (see "shared_strats" in build)
_SHARE = None      # with "share_exprs" in a program: one Python object per distinct expression, as a user who defines


def expr(e):       # a rate once and uses it at several sites (flow rate, computed value, adjustment) would have
    if isinstance(e, dict) and _SHARE is not None:
        key = json.dumps(e, sort_keys=True)
        if key not in _SHARE:
            _SHARE[key] = _expr(e)
        return _SHARE[key]
    return _expr(e)


def _expr(e):
    if isinstance(e, str):
        if e == "t":
            return Time
        return num(e)
    (k, v), = e.items()
    if k == "p":
        return Parameter(v)
    if k == "c":
        return CompartmentValues[int(v)]
    if k in "+-*/":
        a, b = expr(v[0]), expr(v[1])
        if k == "+":
            return a + b
        if k == "-":
            return a - b
        if k == "*":
            return a * b
        return a / b
    if k == "pw":
        return get_piecewise_function([lexpr(b) for b in v[1]], [lexpr(b) for b in v[2]], x_axis=expr(v[0]))
    if k == "lin":
        return get_linear_interpolation_function([lexpr(b) for b in v[1]], [lexpr(b) for b in v[2]], x_axis=expr(v[0]))
    if k == "sig":
        # sigmoidal interpolation (implementation-side oracles only; the Gallina expression language has no such node)
        return get_sigmoidal_interpolation_function([expr(b) for b in v[1]], [expr(b) for b in v[2]], x_axis=expr(v[0]),
                                                    **({"curvature": num(v[3])} if len(v) > 3 else {}))
    raise ValueError(e)


def pyval(v):
    """an arbitrary Python value handed over as a flow rate"""
    (k, x), = v.items()
    if k == "num":
        return num(x)
    if k == "graph":
        return expr(x)
    if k == "str":
        return str(x)
    if k == "none":
        return None
    if k == "list":
        return [num(q) for q in x]
    raise ValueError(v)


def adj(a):
    if a is None:
        return None
    (k, v), = a.items()
    if k == "num":
        return num(v)           # a bare number: the library's shorthand for Multiply(number)
    return Multiply(expr(v)) if k == "mul" else Overwrite(expr(v))


# the function library of request_function_output (mirrors Model/Derived.v apply_fn)
def _fn0(s0, k):
    return k * s0


def _fn1(s0, s1, k):
    return s0 + k * s1


def _fn2(s0, s1):
    return s0 * s1


def _fn3(s0, s1):
    # a ratio whose denominator vanishes at the first time (and wherever s1 returns to its first value): non-finite entries
    return s0 / (s1 - s1[0])


def build_strat(o):
    cls = {"plain": Stratification, "age": AgeStratification, "strain": StrainStratification}[o["kind"]]
    s = cls(o["name"], list(o["strata"]), list(o["comps"]))
    if o.get("split"):
        s.set_population_split({k: expr(v) for k, v in o["split"].items()})
    for fname, adjs, sf, df in o.get("fadj", []):
        s.set_flow_adjustments(fname, {k: adj(a) for k, a in adjs.items()}, source_strata=sf or None, dest_strata=df or None)
    for c, adjs in (o.get("iadj") or {}).items():
        s.add_infectiousness_adjustments(c, {k: adj(a) for k, a in adjs.items()})
    if o.get("mix") is not None:
        rows = [[lexpr(e) for e in row] for row in o["mix"]]
        if all(isinstance(e, (int, float)) for row in rows for e in row):
            s.set_mixing_matrix(np.array(rows))
        else:
            s.set_mixing_matrix(capture_array(rows))
    return s


def apply_op(m, o):
    k = o["op"]
    if k == "pop":
        m.set_initial_population({n: expr(e) for n, e in o["dist"].items()})
    elif k == "arraypop":
        arr = [expr(e) for e in o["arr"]]
        if o.get("int_array") and all(isinstance(e, float) and e == int(e) for e in arr):
            m.init_population_with_graphobject(np.array([int(e) for e in arr]))      # an integer-typed array: still a population
        elif all(isinstance(e, float) for e in arr):
            m.init_population_with_graphobject(np.array(arr))
        else:
            m.init_population_with_graphobject(capture_array(arr))
    elif k == "flow":
        kind, name = o["kind"], o["name"]
        sf, df = o.get("sf") or None, o.get("df") or None
        exp = o.get("expected")
        if o.get("pyrate") is not None:
            # the rate is whatever Python value the program says: the library's own check decides
            o = dict(o)
            expr_ = lambda _e, _v=pyval(o["pyrate"]): _v
        else:
            expr_ = expr
        if kind == "crude_birth":
            m.add_crude_birth_flow(name, expr_(o.get("param")), o["dst"], df, exp)
        elif kind == "replacement_birth":
            m.add_replacement_birth_flow(name, o["dst"], df, exp)
        elif kind == "importation":
            m.add_importation_flow(name, expr_(o.get("param")), o["dst"], bool(o.get("split", False)), df, exp)
        elif kind == "death":
            m.add_death_flow(name, expr_(o.get("param")), o["src"], sf, exp)
        elif kind == "transition":
            m.add_transition_flow(name, expr_(o.get("param")), o["src"], o["dst"], sf, df, exp)
        elif kind == "absolute":
            m.add_transition_flow(name, expr_(o.get("param")), o["src"], o["dst"], sf, df, exp, absolute=True)
        elif kind == "infection_frequency":
            m.add_infection_frequency_flow(name, expr_(o.get("param")), o["src"], o["dst"], sf, df, exp)
        elif kind == "infection_density":
            m.add_infection_density_flow(name, expr_(o.get("param")), o["src"], o["dst"], sf, df, exp)
        else:
            raise ValueError(kind)
    elif k == "udeath":
        m.add_universal_death_flows(o["name"], pyval(o["pyrate"]) if o.get("pyrate") is not None else expr(o["param"]))
    elif k == "strat":
        st_ = build_strat(o)
        m.stratify_with(st_)
        _STRATS.append(st_)
    elif k == "rebalance":
        m.adjust_population_split(o["strat"], dict(o.get("filt") or {}), {s: expr(e) for s, e in o["props"].items()})
    elif k == "req":
        r, name, save = o["req"], o["name"], bool(o.get("save", True))
        t = r["type"]
        if t == "flow":
            m.request_output_for_flow(name, r["flow_name"], r.get("sf") or None, r.get("df") or None,
                                      save_results=save, raw_results=bool(r.get("raw", False)))
        elif t == "comp":
            m.request_output_for_compartments(name, list(r["names"]), r.get("filt") or None, save_results=save)
        elif t == "agg":
            # (with "objs": the sources handed over as DerivedOutput objects instead of names)
            srcs_ = [DerivedOutput(s_) for s_ in r["sources"]] if r.get("objs") else list(r["sources"])
            m.request_aggregate_output(name, srcs_, save_results=save)
        elif t == "cum":
            st = r.get("start")
            m.request_cumulative_output(name, DerivedOutput(r["source"]) if r.get("objs") else r["source"],
                                        start_time=None if st is None else num(st), save_results=save)
        elif t == "func":
            srcs = [DerivedOutput(s) for s in r["sources"]]
            if r.get("wrap"):
                srcs = [s_ * 1.0 for s_ in srcs]       # the same series, referenced inside an expression
            ps = [expr(e) for e in r.get("params", [])]
            fn = int(r["fn"])
            if fn == 0:
                f = Function(_fn0, [srcs[0], ps[0]])
            elif fn == 1:
                f = Function(_fn1, [srcs[0], srcs[1], ps[0]])
            elif fn == 3:
                f = Function(_fn3, [srcs[0], srcs[1]])       # (implementation-side oracles only)
            else:
                f = Function(_fn2, [srcs[0], srcs[1]])
            m.request_function_output(name, f, save_results=save)
        elif t == "cv":
            m.request_computed_value_output(r["name"] if name is None else name, save_results=save)
        else:
            raise ValueError(t)
    elif k == "whitelist":
        m.set_derived_outputs_whitelist(list(o["names"]))
    elif k == "cv":
        m.add_computed_value_func(o["name"], expr(o["e"]))
    elif k == "finalize":
        m.finalize()
    elif k == "setdefaults":
        m.set_default_parameters({a: num(b) for a, b in (o.get("params") or {}).items()})
    else:
        raise ValueError(k)


def fl(x):
    x = float(x)
    if x != x:
        return "nan"
    if x in (float("inf"), float("-inf")):
        return "inf" if x > 0 else "-inf"
    return x


def vec(a):
    return [fl(x) for x in np.asarray(a).reshape(-1)]


def flow_rec(f):
    return [f.name, KIND_OF_CLASS[type(f).__name__], None if not f.source else str(f.source),
            None if not f.dest else str(f.dest)]


def pyparam(v, ints=False):
    """a parameter value as the caller writes it: whole numbers as Python ints when the program says so"""
    q = Fraction(v)
    return int(q) if (ints and q.denominator == 1) else float(q)


def params(o):
    return {k: pyparam(v, o.get("int_params")) for k, v in (o.get("params") or {}).items()}


def observe(m, o):
    k = o["obs"]
    if k == "struct":
        return {"comps": [str(c) for c in m.compartments], "flows": [flow_rec(f) for f in m.flows],
                "ntimes": int(len(m.times))}
    if k == "onestep":
        p = params(o)
        runner = m.get_runner(p, jit=False)
        t = None if o.get("t") is None else num(o["t"])
        x = None if o.get("x") is None else np.array([num(v) for v in o["x"]])
        if x is not None:
            from jax import numpy as jnp
            x = jnp.array(x)
        r = runner.impl_dict["one_step"](p, t, x)
        return {"flow_rates": vec(r.flow_rates), "comp_rates": vec(r.comp_rates),
                "initial_population": vec(r.initial_population),
                "infectious_multipliers": [] if r.infectious_multipliers is None else vec(r.infectious_multipliers)}
    if k == "run":
        p = params(o)
        m.run(p, solver=o["solver"], rebuild=True, jit=False, **(o.get("kwargs") or {}))
        return {"outputs": [vec(row) for row in m.outputs],
                "derived": {k2: vec(v) for k2, v in m.derived_outputs.items()}}
    if k == "rkstep":
        from jax import numpy as jnp
        from summer2.runner.jax import ode
        p = params(o)
        runner = m.get_runner(p, jit=False)
        r0 = runner.impl_dict["one_step"](p)
        gcr = runner.impl_dict["get_comp_rates"]
        func_ = lambda y, t: gcr(y, t, r0.static_graph_vals, r0.model_data)   # noqa: E731
        y0 = jnp.array(r0.initial_population) if o.get("x") is None else jnp.array([num(v) for v in o["x"]])
        t0, dt = jnp.array(num(o["t"])), jnp.array(num(o["dt"]))
        y1, f1, err, _k = ode.runge_kutta_step(func_, y0, func_(y0, t0), t0, dt)
        return {"y1": vec(y1), "f1": vec(f1), "err": vec(err)}
    if k == "initpop":
        p = params(o)
        s = m.get_initial_population(p)
        return {"initial_population": vec(s.values), "labels": list(s.index)}
    if k == "oracle":
        import oracles
        return oracles.run_oracle(m, o)
    if k == "history":
        # a fresh object: the calls change the object's state (cached runner, defaults)
        fresh, err, why = build(dict(o["program"], obs=[]))
        assert err is None, why
        handles, outs = [], []
        for c in o["calls"]:
            try:
                if c["call"] == "run":
                    fresh.run(params(c), solver=c["solver"], rebuild=bool(c.get("rebuild", False)), jit=False)
                    outs.append({"outputs": [vec(row) for row in fresh.outputs],
                                 "derived": {k2: vec(v) for k2, v in fresh.derived_outputs.items()}})
                elif c["call"] == "get_runner":
                    kw = {} if c.get("dyn") is None else {"dyn_params": list(c["dyn"])}
                    handles.append(fresh.get_runner(params(c), solver=c["solver"], jit=False, **kw))
                    outs.append(None)
                elif c["call"] == "runner_run":
                    if c["k"] >= len(handles):
                        outs.append(None)
                        continue
                    r = handles[c["k"]]
                    r.run(params(c))
                    outs.append({"outputs": [vec(row) for row in r.outputs],
                                 "derived": {k2: vec(v) for k2, v in r.derived_outputs.items()}})
                elif c["call"] == "set_defaults":
                    fresh.set_default_parameters(params(c))
                    outs.append(None)
            except (KeyboardInterrupt, SystemExit, ObservationTimeLimit):
                raise
            except BaseException as e:  # noqa
                outs.append({"error": repr(e)[:200]})
        return {"history": outs}
    if k == "kernels":
        # eager values of the array kernels on concrete inputs (compared with the translated terms of Gen/TraceGen.v)
        from jax import numpy as jnp
        from summer2.functions import util as U, interpolate as I
        from summer2.runner.jax import model_impl as MI
        res = []
        for c in o["cases"]:
            a = {k2: (jnp.array([num(x) for x in v]) if isinstance(v, list) else num(v)) for k2, v in c["args"].items()}
            try:
                if c["name"] == "binary_search_sum_ge":
                    r = U.binary_search_sum_ge(a["x"], a["points"])
                elif c["name"] == "piecewise_constant":
                    r = U.piecewise_constant(a["x"], a["breakpoints"], a["values"])
                elif c["name"] in ("linear_curve_at_x", "interpolate_linear"):
                    xd, yd = I.get_scale_data(a["xs"]), I.get_scale_data(a["ys"])
                    r = (I._get_linear_curve_at_x if c["name"] == "linear_curve_at_x" else I.interpolate_linear)(a["x"], xd, yd)
                elif c["name"] == "clean_compartments":
                    r = MI.clean_compartments(a["compartment_values"])
                else:
                    raise ValueError(c["name"])
                res.append(vec(np.asarray(r)))
            except (KeyboardInterrupt, SystemExit, ObservationTimeLimit):
                raise
            except BaseException as e:  # noqa
                res.append({"error": repr(e)[:200]})
        return {"kernels": res}
    if k == "traced_library":
        # property C19: the library's own time functions and series helpers inside a jit=True runner
        # (under SUMMER2_VERIF_TAINT=1 time, state and parameters are tracers)
        from summer2.functions import util as U, time as TF, derived as DV
        from summer2.parameters import Function as Fn, DerivedOutput as DO
        out = {}
        P = Parameter
        cases = {
            "windowed_constant": lambda: Fn(U.windowed_constant, [Time, P("v"), P("a"), P("w")]),
            "piecewise_scalar": lambda: TF.get_piecewise_scalar_function([P("a"), P("a") + P("w")], [0.0, P("v"), 1.0]),
            "piecewise": lambda: TF.get_piecewise_function([P("a"), 7.0], [P("v"), 1.0, P("v") * 0.5]),
            "linear": lambda: TF.get_linear_interpolation_function([0.0, P("a"), 9.0], [1.0, P("v"), 0.5]),
            "sigmoidal": lambda: TF.get_sigmoidal_interpolation_function([0.0, P("a"), 9.0], [1.0, P("v"), 0.5], curvature=8.0),
            "linear_of_state": lambda: TF.get_linear_interpolation_function([0.0, 50.0, 200.0], [1.0, P("v"), 0.5], x_axis=CompartmentValues[0]),
        }
        pv = {"v": 1.5, "a": 3.0, "w": 2.0}
        pv2 = {"v": 0.75, "a": 4.5, "w": 1.0}
        for name, mk in cases.items():
            rec = {}
            try:
                mm = CompartmentalModel([0.0, 10.0], ["S", "I"], ["I"], timestep=1.0)
                mm.set_initial_population({"S": 100.0, "I": 10.0})
                try:
                    rate = mk()
                except TypeError:
                    # piecewise_function takes Python callables: not expressible as graph arguments in this version
                    rec["skipped"] = True
                    out[name] = rec
                    continue
                mm.add_importation_flow("imp", rate, "S", split_imports=False)
                mm.add_transition_flow("si", 0.1, "S", "I")
                mm.request_output_for_compartments("prev", ["I"])
                mm.request_function_output("prev_diff", Fn(DV.get_rolling_diff(2), [DO("prev")]))
                mm.request_function_output("prev_roll", Fn(DV.get_rolling_reduction(jnp_mean, 3), [DO("prev")]))
                runs = []
                for solver in o["solvers"]:
                    runner = mm.get_runner(pv, solver=solver, jit=True)
                    for ps in (pv, pv2):
                        res = runner._run_func(parameters=ps)
                        runs.append({"outputs": [vec(row) for row in np.asarray(res["outputs"])],
                                     "derived": {k2: vec(np.asarray(v)) for k2, v in res["derived_outputs"].items()}})
                rec["runs"] = runs
            except (KeyboardInterrupt, SystemExit, ObservationTimeLimit):
                raise
            except BaseException as e:  # noqa
                import traceback
                import jax
                root = e
                while not isinstance(root, getattr(jax, "ConcretizationError", ())) and (getattr(root, "cause", None) or root.__cause__ or root.__context__):
                    nxt = getattr(root, "cause", None) or root.__cause__ or root.__context__
                    if not isinstance(nxt, BaseException):
                        break
                    root = nxt
                frames = [f for f in traceback.extract_tb(root.__traceback__) if "/jaxshim/" not in f.filename and "impl.py" not in f.filename]
                rec["error"] = {"concretization": isinstance(root, getattr(jax, "ConcretizationError", ())),
                                "type": type(root).__name__, "message": str(root)[:300],
                                "where": ["%s:%d %s" % (f.filename.split("site-packages/")[-1].replace("/repo/", ""), f.lineno, (f.line or "")[:100])
                                          for f in frames[-3:]]}
            out[name] = rec
        return {"traced": out}
    if k == "traced_run":
        # property C19: with SUMMER2_VERIF_TAINT=1 the jax stand-in treats jit arguments, loop carries and cond / switch
        # operands as tracers; without it this is an ordinary run and serves as the reference
        import jax
        out = {}
        psets = [params({"params": ps}) for ps in o["param_sets"]]
        for solver in o["solvers"]:
            rec = {}
            try:
                sname, _, sargs = solver.partition("|")        # "solve_ivp|{...}": the solver with its own options
                runner = m.get_runner(psets[0], solver=sname, jit=True, **({"solver_args": json.loads(sargs)} if sargs else {}),
                                      **({"dyn_params": o["dyn"]} if o.get("dyn") is not None else {}))
                runs = []
                for ps in psets:
                    res = runner._run_func(parameters=ps if o.get("dyn") is None else {k2: v for k2, v in ps.items() if k2 in o["dyn"]})
                    runs.append({"outputs": [vec(row) for row in np.asarray(res["outputs"])],
                                 "derived": {k2: vec(np.asarray(v)) for k2, v in res["derived_outputs"].items()}})
                rec["runs"] = runs
                if len(psets) > 1:
                    # compiled once, valid for every parameter value: the second set on the runner built with the first
                    # against a runner built with the second
                    fresh = m.get_runner(psets[1], solver=sname, jit=True, **({"solver_args": json.loads(sargs)} if sargs else {}),
                                         **({"dyn_params": o["dyn"]} if o.get("dyn") is not None else {}))
                    fres = fresh._run_func(parameters=psets[1] if o.get("dyn") is None else {k2: v for k2, v in psets[1].items() if k2 in o["dyn"]})
                    if o.get("dyn") is None:
                        a_, b_ = np.asarray(res["outputs"], dtype=float), np.asarray(fres["outputs"], dtype=float)
                        if np.isfinite(a_).all() and np.isfinite(b_).all():
                            d_ = float(np.abs(a_ - b_).max() / (1.0 + np.abs(b_).max()))
                            rec["reuse_vs_fresh"] = d_ if d_ > 1e-9 else 0.0
                            if d_ > 1e-9:
                                rec["reuse_row0"] = [vec(a_[0]), vec(b_[0])]
                one = jax.jit(runner.impl_dict["one_step"])
                r1 = one(psets[0], num(o["t"]), np.array([num(v) for v in o["x"]]))
                rec["one_step"] = {"flow_rates": vec(np.asarray(r1.flow_rates)), "comp_rates": vec(np.asarray(r1.comp_rates))}
            except (KeyboardInterrupt, SystemExit, ObservationTimeLimit):
                raise
            except BaseException as e:  # noqa
                import traceback
                root = e
                while not isinstance(root, getattr(jax, "ConcretizationError", ())) and (getattr(root, "cause", None) or root.__cause__ or root.__context__):
                    nxt = getattr(root, "cause", None) or root.__cause__ or root.__context__
                    if not isinstance(nxt, BaseException):
                        break
                    root = nxt
                frames = [f for f in traceback.extract_tb(root.__traceback__) if "/jaxshim/" not in f.filename and "impl.py" not in f.filename]
                rec["error"] = {"concretization": isinstance(root, getattr(jax, "ConcretizationError", ())),
                                "type": type(root).__name__, "message": str(root)[:300],
                                "where": ["%s:%d %s" % (f.filename.split("site-packages/")[-1].replace("/repo/", ""), f.lineno, (f.line or "")[:100])
                                          for f in frames[-3:]]}
            out[solver] = rec
        return {"traced": out}
    if k == "qcomps":
        q = dict(o.get("filt") or {})
        if o.get("name"):
            q = {"name": o["name"], **q}
        cs = m.query_compartments(q, tags=["infectious"] if o.get("inf") else None)
        return {"comps": [str(c) for c in cs]}
    if k == "qflows":
        fs = m.query_flows(o.get("name"), source=dict(o.get("sf") or {}) or None, dest=dict(o.get("df") or {}) or None)
        return {"flows": [flow_rec(f) for f in fs]}
    raise ValueError(k)


def build(prog):
    """Returns (model or None, index of the failing op or None, exception repr)."""
    global _SHARE
    _SHARE = {} if prog.get("share_exprs") else None
    del _STRATS[:]
    try:
        t0, t1, h = (num(x) for x in prog["times"])
        # (inf_bare: the infectious compartment(s) given as ONE bare string, which the constructor takes as one name)
        m = CompartmentalModel([t0, t1], list(prog["comps"]), prog["inf"][0] if prog.get("inf_bare") else list(prog["inf"]), timestep=h)
    except (KeyboardInterrupt, SystemExit, ObservationTimeLimit):
        raise
    except BaseException as e:  # noqa
        return None, 0, repr(e)[:300]
    for i, o in enumerate(prog["ops"]):
        try:
            apply_op(m, o)
        except (KeyboardInterrupt, SystemExit, ObservationTimeLimit):
            raise
        except BaseException as e:  # noqa
            return m, i + 1, repr(e)[:300]
    if prog.get("shared_strats"):
        # the same Stratification objects are then applied to a second model with another compartment layout (as when
        # several model variants are built from one set of stratification objects) before this one is run
        try:
            other = CompartmentalModel([t0, t1], ["Z0"] + list(reversed(prog["comps"])), list(prog["inf"]), timestep=h)
            for st_ in list(_STRATS):
                try:
                    other.stratify_with(st_)
                except (KeyboardInterrupt, SystemExit, ObservationTimeLimit):
                    raise
                except BaseException:  # noqa  (a stratification that does not fit the second model is skipped)
                    pass
        except (KeyboardInterrupt, SystemExit, ObservationTimeLimit):
            raise
        except BaseException:  # noqa
            pass
    return m, None, None


class ObservationTimeLimit(BaseException):
    """one observation ran longer than OBS_LIMIT seconds (a solver crawling towards a finite-time blow-up, for
    instance): outside the domain of every property, reported as such and never compared"""


OBS_LIMIT = int(os.environ.get("SUMMER2_VERIF_OBS_LIMIT", "25"))


def _alarm(signum, frame):
    import signal
    signal.alarm(1)      # (handlers that catch BaseException inside an oracle are interrupted again until the limit surfaces)
    raise ObservationTimeLimit()


def run_program(prog):
    import signal
    signal.signal(signal.SIGALRM, _alarm)
    signal.alarm(OBS_LIMIT)
    try:
        m, err, why = build(prog)
    except ObservationTimeLimit:
        return {"harness_error": "time limit while building"}
    finally:
        signal.alarm(0)
    if err is not None:
        return {"build_error": err, "why": why}
    out = []
    for o in prog.get("obs", []):
        try:
            signal.alarm(OBS_LIMIT)
            try:
                r_ = observe(m, o)
            finally:
                signal.alarm(0)
            if isinstance(r_, dict) and any("ObservationTimeLimit" in str(v) for v in r_.get("violations") or []):
                raise ObservationTimeLimit()
            out.append(r_)
        except ObservationTimeLimit:
            out.append({"error": "domain: time limit of %d s" % OBS_LIMIT})
        except (KeyboardInterrupt, SystemExit, ObservationTimeLimit):
            raise
        except BaseException as e:  # noqa
            import traceback
            cause = getattr(e, "cause", None)
            if "ObservationTimeLimit" in repr(e) or "ObservationTimeLimit" in repr(cause):
                # (the limit surfaced inside an oracle, wrapped in the oracle's own error)
                out.append({"error": "domain: time limit of %d s" % OBS_LIMIT})
                continue
            out.append({"error": (repr(e) + (" cause=" + repr(cause) if cause is not None else ""))[:400],
                        "tb": traceback.format_exc()[-600:]})
    return {"build_error": None, "obs": out}


def main():
    for line in sys.stdin:
        line = line.strip()
        if not line:
            continue
        prog = json.loads(line)
        try:
            res = run_program(prog)
        except (KeyboardInterrupt, SystemExit, ObservationTimeLimit):
            raise
        except BaseException as e:  # noqa
            res = {"harness_error": repr(e)[:300]}
        sys.stdout.write(json.dumps(res) + "\n")
        sys.stdout.flush()


if __name__ == "__main__":
    main()
