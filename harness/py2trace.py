"""Fail-closed Python-ast -> Model/Trace.v `exp` translator (property C19).

The array kernels of summer2/functions/util.py, summer2/functions/interpolate.py and
clean_compartments of runner/jax/model_impl.py are turned, on every run, into terms of the traced
expression language of coq/Model/Trace.v (coq/Gen/TraceGen.v).  Python-level decisions become
EPyIf / EConcrete / EAlloc nodes, array-level ones (jnp.where, lax.cond, lax.switch,
lax.while_loop) become EP3 PWhere / ECond / EWhile nodes, so that the binding-time check
(proved sound in Proofs/TraceProofs.v) decides, for the code as it is now, whether tracing can hit
a ConcretizationTypeError.

Supported subset (anything else raises Unsupported and the proof stage reports it):
  statements : x = e, a, b = e, return e, nested def (used as loop / branch bodies), if / else
               (becomes a Python-level decision on both continuations), docstrings
  expressions: names, numeric literals, + - * /, unary -, not, comparisons, and / or, a if c else b,
               e[i], rec.field for the InterpolatorScaleData records, tuples (pairs),
               len(), sum(), max() / min() / int() / float() / bool() (Python built-ins: concrete),
               e.astype(int), jnp.where / maximum / minimum / zeros / sum, lax.cond / switch /
               while_loop, calls of the other translated kernels (inlined) and of the opaque
               callbacks named per kernel
"""
import ast
import os
from fractions import Fraction

from py2coq import Unsupported, find_func, REPO, GEN

FIELDS = ("points", "ranges", "bounds")


def q(fr):
    fr = Fraction(fr)
    n, d = fr.numerator, fr.denominator
    return "(%s # %d)" % (("(%d)" % n) if n < 0 else str(n), d)


def s(x):
    return '"%s"' % x


def lit(fr):
    return "(ELit (VS %s))" % q(fr)


class Tr:
    def __init__(self, module_funcs, callbacks, records):
        self.funcs = module_funcs        # name -> FunctionDef of kernels that may be inlined
        self.callbacks = callbacks       # name -> shape string of the result ("same" = shape of the argument is scalar)
        self.records = set(records)      # names bound to InterpolatorScaleData records
        self.local_funcs = {}            # nested defs / lambdas bound to names
        self.lists = {}                  # names bound to Python lists of functions (branches)
        self.fresh = 0

    # ---- helpers
    def name(self, base):
        self.fresh += 1
        return "%s#%d" % (base, self.fresh)

    def var(self, x):
        return "(EVar %s)" % s(x)

    # ---- expressions
    def expr(self, n):
        if isinstance(n, ast.Name):
            if n.id in self.records:
                raise Unsupported("record %s used as a value" % n.id)
            return self.var(n.id)
        if isinstance(n, ast.Constant):
            if isinstance(n.value, bool):
                return lit(1 if n.value else 0)
            if isinstance(n.value, (int, float)):
                return lit(Fraction(str(n.value)))
            raise Unsupported("constant %r" % (n.value,))
        if isinstance(n, ast.UnaryOp):
            if isinstance(n.op, ast.USub):
                return "(EP1 PNeg %s)" % self.expr(n.operand)
            if isinstance(n.op, ast.Not):
                # Python `not x` needs bool(x)
                return "(EPyIf %s %s %s)" % (self.expr(n.operand), lit(0), lit(1))
            if isinstance(n.op, ast.Invert):
                return "(EP1 PNot %s)" % self.expr(n.operand)
            raise Unsupported("unary operator")
        if isinstance(n, ast.BinOp):
            ops = {ast.Add: "PAdd", ast.Sub: "PSub", ast.Mult: "PMul", ast.Div: "PDiv", ast.BitAnd: "PAnd"}
            for k, v in ops.items():
                if isinstance(n.op, k):
                    return "(EP2 %s %s %s)" % (v, self.expr(n.left), self.expr(n.right))
            raise Unsupported("binary operator %s" % type(n.op).__name__)
        if isinstance(n, ast.Compare):
            if len(n.ops) != 1:
                raise Unsupported("chained comparison")
            a, b = self.expr(n.left), self.expr(n.comparators[0])
            op = n.ops[0]
            if isinstance(op, ast.Lt):
                return "(EP2 PLt %s %s)" % (a, b)
            if isinstance(op, ast.Gt):
                return "(EP2 PLt %s %s)" % (b, a)
            if isinstance(op, ast.LtE):
                return "(EP2 PLe %s %s)" % (a, b)
            if isinstance(op, ast.GtE):
                return "(EP2 PLe %s %s)" % (b, a)
            if isinstance(op, ast.Eq):
                return "(EP2 PEq %s %s)" % (a, b)
            raise Unsupported("comparison %s" % type(op).__name__)
        if isinstance(n, ast.BoolOp):
            # a and b / a or b: Python evaluates bool(a)
            vals = [self.expr(v) for v in n.values]
            out = vals[-1]
            for v in reversed(vals[:-1]):
                out = "(EPyIf %s %s %s)" % ((v, out, v) if isinstance(n.op, ast.And) else (v, v, out))
            return out
        if isinstance(n, ast.IfExp):
            return "(EPyIf %s %s %s)" % (self.expr(n.test), self.expr(n.body), self.expr(n.orelse))
        if isinstance(n, ast.Tuple):
            if len(n.elts) != 2:
                raise Unsupported("tuple of %d elements" % len(n.elts))
            return "(EPair %s %s)" % (self.expr(n.elts[0]), self.expr(n.elts[1]))
        if isinstance(n, ast.Attribute):
            if isinstance(n.value, ast.Name) and n.value.id in self.records and n.attr in FIELDS:
                return self.var("%s.%s" % (n.value.id, n.attr))
            raise Unsupported("attribute %s" % n.attr)
        if isinstance(n, ast.Subscript):
            if isinstance(n.slice, ast.Slice):
                raise Unsupported("slice")
            return "(EP2 PIndex %s %s)" % (self.expr(n.value), self.expr(n.slice))
        if isinstance(n, ast.Call):
            return self.call(n)
        raise Unsupported("expression " + type(n).__name__)

    def dotted(self, f):
        if isinstance(f, ast.Name):
            return f.id
        if isinstance(f, ast.Attribute):
            base = self.dotted(f.value)
            return None if base is None else base + "." + f.attr
        return None

    def call(self, n):
        if n.keywords:
            raise Unsupported("keyword arguments")
        f = n.func
        # method calls
        if isinstance(f, ast.Attribute) and f.attr == "astype":
            if len(n.args) == 1 and isinstance(n.args[0], ast.Name) and n.args[0].id == "int":
                return "(EP1 PToInt %s)" % self.expr(f.value)
            raise Unsupported("astype(%s)" % ast.dump(n.args[0])[:40])
        if isinstance(f, ast.Attribute) and f.attr in ("item", "tolist"):
            return "(EConcrete %s)" % self.expr(f.value)
        if isinstance(f, ast.Attribute) and f.attr == "sum" and not n.args:
            return "(EP1 PSum %s)" % self.expr(f.value)
        name = self.dotted(f)
        a = n.args
        if name in ("jnp.where", "jax.numpy.where") and len(a) == 3:
            return "(EP3 PWhere %s %s %s)" % tuple(self.expr(x) for x in a)
        if name in ("jnp.maximum",) and len(a) == 2:
            return "(EP2 PMax %s %s)" % (self.expr(a[0]), self.expr(a[1]))
        if name in ("jnp.minimum",) and len(a) == 2:
            return "(EP2 PMin %s %s)" % (self.expr(a[0]), self.expr(a[1]))
        if name in ("jnp.sum", "sum") and len(a) == 1:
            # the builtin sum() over an array of known length unrolls into additions: traceable
            return "(EP1 PSum %s)" % self.expr(a[0])
        if name in ("jnp.zeros", "jnp.empty", "jnp.ones", "jnp.arange") and len(a) == 1:
            return "(EAlloc %s)" % self.expr(a[0])
        if name == "len" and len(a) == 1:
            return "(ELen %s)" % self.expr(a[0])
        if name in ("max", "min") and len(a) == 2:
            # builtin max(a, b) = b if b > a else a: bool() of an array comparison
            x, y = self.expr(a[0]), self.expr(a[1])
            cmp_ = "(EP2 PLt %s %s)" % ((x, y) if name == "max" else (y, x))
            return "(EPyIf %s %s %s)" % (cmp_, y, x)
        if name in ("int", "float", "bool") and len(a) == 1:
            return "(EConcrete %s)" % self.expr(a[0])
        if name in ("jnp.array", "jnp.asarray") and len(a) == 1 and not isinstance(a[0], (ast.Tuple, ast.List)):
            return self.expr(a[0])
        if name == "lax.cond":
            return self.lax_cond(a)
        if name == "lax.switch":
            return self.lax_switch(a)
        if name == "lax.while_loop":
            return self.lax_while(a)
        if name in self.callbacks and len(a) == 1:
            return "(ECall %s %s %s)" % (s(name), self.callbacks[name], self.expr(a[0]))
        if name in self.local_funcs or name in self.funcs:
            return self.inline(name, [("e", self.expr(x)) if not (isinstance(x, ast.Name) and x.id in self.records) else ("r", x.id)
                                      for x in a], dyn=False)
        raise Unsupported("call of %s" % (name or ast.dump(f)[:60]))

    # ---- functions as values
    def get_fn(self, node):
        """(params, body statements or expression) of a lambda / local or module function"""
        if isinstance(node, ast.Lambda):
            return [p.arg for p in node.args.args], node.body
        if isinstance(node, ast.Name):
            if node.id in self.local_funcs:
                fd = self.local_funcs[node.id]
            elif node.id in self.funcs:
                fd = self.funcs[node.id]
            else:
                raise Unsupported("unknown function %s" % node.id)
            if isinstance(fd, ast.Lambda):
                return [p.arg for p in fd.args.args], fd.body
            return [p.arg for p in fd.args.args], fd.body
        raise Unsupported("function value " + type(node).__name__)

    def apply_fn(self, node, args, dyn):
        """inline the function value `node` applied to args: list of ('e', exp text) | ('r', record name)"""
        params, body = self.get_fn(node)
        if len(params) != len(args):
            raise Unsupported("arity mismatch in call")
        saved = set(self.records)
        binds = []
        for p_, (kind, v) in zip(params, args):
            if kind == "r":
                self.records.add(p_)
                for fld in FIELDS:
                    src = self.var("%s.%s" % (v, fld))
                    binds.append(("%s.%s" % (p_, fld), "(EDyn %s)" % src if dyn else src))
            else:
                self.records.discard(p_)
                binds.append((p_, "(EDyn %s)" % v if dyn else v))
        inner = self.block(body) if isinstance(body, list) else self.expr(body)
        self.records = saved
        for x, e in reversed(binds):
            inner = "(ELet %s %s %s)" % (s(x), e, inner)
        return inner

    def inline(self, name, args, dyn):
        return self.apply_fn(ast.Name(id=name), args, dyn)

    def operands(self, nodes):
        return [("r", x.id) if (isinstance(x, ast.Name) and x.id in self.records) else ("e", self.expr(x)) for x in nodes]

    def lax_cond(self, a):
        if len(a) < 3:
            raise Unsupported("lax.cond arity")
        ops = self.operands(a[3:])
        return "(ECond %s %s %s)" % (self.expr(a[0]), self.apply_fn(a[1], ops, True), self.apply_fn(a[2], ops, True))

    def lax_switch(self, a):
        if len(a) < 2:
            raise Unsupported("lax.switch arity")
        br = a[1]
        if isinstance(br, ast.Name) and br.id in self.lists:
            br = self.lists[br.id]
        if not isinstance(br, ast.List) or not br.elts:
            raise Unsupported("lax.switch branches are not a literal list")
        ops = self.operands(a[2:])
        idx = self.name("switch_index")
        branches = [self.apply_fn(b, ops, True) for b in br.elts]
        out = branches[-1]
        for k in range(len(branches) - 2, -1, -1):
            out = "(ECond (EP2 PLe %s %s) %s %s)" % (self.var(idx), lit(k), branches[k], out)
        return "(ELet %s %s %s)" % (s(idx), self.expr(a[0]), out)

    def lax_while(self, a):
        if len(a) != 3:
            raise Unsupported("lax.while_loop arity")
        cp, cb = self.get_fn(a[0])
        bp, bb = self.get_fn(a[1])
        if len(cp) != 1 or len(bp) != 1:
            raise Unsupported("while_loop functions must take the carry")
        st = self.name("carry")
        saved = set(self.records)
        self.records.discard(cp[0])
        self.records.discard(bp[0])
        c = "(ELet %s %s %s)" % (s(cp[0]), self.var(st), self.block(cb) if isinstance(cb, list) else self.expr(cb))
        b = "(ELet %s %s %s)" % (s(bp[0]), self.var(st), self.block(bb) if isinstance(bb, list) else self.expr(bb))
        self.records = saved
        return "(EWhile %s %s %s %s)" % (s(st), c, b, self.expr(a[2]))

    # ---- statements
    def block(self, stmts):
        if not stmts:
            raise Unsupported("function without a return")
        st, rest = stmts[0], stmts[1:]
        if isinstance(st, ast.Expr) and isinstance(st.value, ast.Constant) and isinstance(st.value.value, str):
            return self.block(rest)
        if isinstance(st, ast.Return):
            if st.value is None:
                raise Unsupported("bare return")
            return self.expr(st.value)
        if isinstance(st, ast.FunctionDef):
            self.local_funcs[st.name] = st
            return self.block(rest)
        if isinstance(st, ast.Assign) and len(st.targets) == 1:
            t = st.targets[0]
            if isinstance(t, ast.Name):
                if isinstance(st.value, ast.Lambda):
                    self.local_funcs[t.id] = st.value
                    return self.block(rest)
                if isinstance(st.value, ast.List):
                    self.lists[t.id] = st.value
                    return self.block(rest)
                e = self.expr(st.value)
                self.records.discard(t.id)
                return "(ELet %s %s %s)" % (s(t.id), e, self.block(rest))
            if isinstance(t, ast.Tuple) and len(t.elts) == 2 and all(isinstance(e, ast.Name) for e in t.elts):
                tmp = self.name("pair")
                e = self.expr(st.value)
                for x in t.elts:
                    self.records.discard(x.id)
                return "(ELet %s %s (ELet %s (EFst %s) (ELet %s (ESnd %s) %s)))" % (
                    s(tmp), e, s(t.elts[0].id), self.var(tmp), s(t.elts[1].id), self.var(tmp), self.block(rest))
            raise Unsupported("assignment target")
        if isinstance(st, ast.If):
            # a Python-level decision: both continuations
            return "(EPyIf %s %s %s)" % (self.expr(st.test), self.block(list(st.body) + rest),
                                         self.block(list(st.orelse) + rest))
        raise Unsupported("statement " + type(st).__name__)


def kernel(tr_funcs, fd, callbacks=None, records=()):
    """translate FunctionDef fd; returns (exp text, [(param name, is_record)])"""
    t = Tr(tr_funcs, callbacks or {}, records)
    params = [p.arg for p in fd.args.args]
    body = t.block(list(fd.body))
    return body, params


HEADER = """(* GENERATED by harness/py2trace.py from %s -- do not edit; regenerated on every run. *)
From Coq Require Import QArith ZArith List String.
Import ListNotations.
From S2 Require Import Model.Trace.
Local Open Scope string_scope.
"""


def emit(out, name, body, inputs):
    out.append("Definition k_%s : exp :=\n  %s.\n" % (name, body))
    out.append("(* every run-time input of the kernel is dynamic *)\nDefinition k_%s_inputs : benv :=\n  [%s].\n" % (
        name, "; ".join("(%s, Dy)" % s(x) for x in inputs)))


def gen_trace(repo=None):
    repo = repo or REPO
    out = [HEADER % "summer2/functions/util.py, summer2/functions/interpolate.py, summer2/runner/jax/model_impl.py"]
    util = ast.parse(open(os.path.join(repo, "summer2/functions/util.py")).read())
    interp = ast.parse(open(os.path.join(repo, "summer2/functions/interpolate.py")).read())
    impl = ast.parse(open(os.path.join(repo, "summer2/runner/jax/model_impl.py")).read())
    bs = find_func(util, "binary_search_sum_ge")
    pc = find_func(util, "piecewise_constant")
    funcs = {"binary_search_sum_ge": bs, "piecewise_constant": pc}
    body, params = kernel(funcs, bs)
    emit(out, "binary_search_sum_ge", body, params)
    body, params = kernel(funcs, pc)
    emit(out, "piecewise_constant", body, params)
    lin = find_func(interp, "_get_linear_curve_at_x")
    il = find_func(interp, "interpolate_linear")
    funcs2 = dict(funcs, _get_linear_curve_at_x=lin)

    def rec_inputs(params, recs):
        res = []
        for p_ in params:
            if p_ in recs:
                res += ["%s.%s" % (p_, f) for f in FIELDS]
            else:
                res.append(p_)
        return res

    body, params = kernel(funcs2, lin, records=("xdata", "ydata"))
    emit(out, "linear_curve_at_x", body, rec_inputs(params, ("xdata", "ydata")))
    body, params = kernel(funcs2, il, records=("xdata", "ydata"))
    emit(out, "interpolate_linear", body, rec_inputs(params, ("xdata", "ydata")))
    bsm = find_func(interp, "build_sigmoidal_multicurve")
    sc = find_func(bsm, "_get_sigmoidal_curve_at_x")
    isg = find_func(bsm, "interpolate_sigmoidal")
    funcs3 = dict(funcs, _get_sigmoidal_curve_at_x=sc)
    body, params = kernel(funcs3, sc, callbacks={"sig": "ShS"}, records=("xdata", "ydata"))
    emit(out, "sigmoidal_curve_at_x", body, rec_inputs(params, ("xdata", "ydata")))
    body, params = kernel(funcs3, isg, callbacks={"sig": "ShS"}, records=("xdata", "ydata"))
    emit(out, "interpolate_sigmoidal", body, rec_inputs(params, ("xdata", "ydata")))
    cc = find_func(impl, "clean_compartments")
    body, params = kernel({}, cc)
    emit(out, "clean_compartments", body, params)
    return "TraceGen.v", "\n".join(out)


if __name__ == "__main__":
    name, text = gen_trace()
    os.makedirs(GEN, exist_ok=True)
    open(os.path.join(GEN, name), "w").write(text)
    print("wrote", name, len(text))
