"""Structured generator of build programs (DESIGN.md section 4.2).  Every random choice comes
from one random.Random(seed) so that any program can be regenerated from (seed, index)."""
import random
from fractions import Fraction

COMP_POOL = ["S", "E", "I", "R", "V"]
STRAT_NAMES = ["age", "loc", "risk", "vac"]
STRATA_POOL = {"loc": ["urban", "rural", "alpine"], "risk": ["lo", "hi"], "vac": ["v0", "v1", "v2"],
               "age": ["0", "5", "15", "40"]}
PARAMS = ["beta", "gamma", "mu", "kappa"]


def dy(rng, lo=1, hi=64, den_pow=3):
    """small positive dyadic rational as a string"""
    d = 2 ** rng.randint(0, den_pow)
    return str(Fraction(rng.randint(lo, hi), d))


def frac(rng, den_pow=4):
    d = 2 ** rng.randint(1, den_pow)
    return str(Fraction(rng.randint(1, d), d))


class Gen:
    def __init__(self, seed, profile=None):
        self.rng = random.Random(seed)
        self.profile = profile or {}

    # ------------------------------------------------------------------ expressions
    def rate(self, allow_time=True, allow_state=False, ncomp=0, allow_param=True):
        r = self.rng
        c = r.random()
        if c < 0.45 or not (allow_param or allow_time or allow_state):
            return frac(r)
        if c < 0.65 and allow_param:
            return {"p": r.choice(PARAMS)}
        if c < 0.75 and allow_param:
            return {"*": [{"p": r.choice(PARAMS)}, frac(r)]}
        if c < 0.85 and allow_time:
            return {"+": [frac(r), {"*": [frac(r, 5), "t"]}]}
        if c < 0.92 and allow_time:
            bps = sorted({r.randint(0, 6) for _ in range(r.randint(1, 3))})
            return {"pw": ["t", [str(b) for b in bps], [frac(r) for _ in range(len(bps) + 1)]]}
        if c < 0.96 and allow_time:
            xs = sorted({r.randint(0, 8) for _ in range(r.randint(2, 4))})
            if len(xs) < 2:
                xs = [0, 4]
            return {"lin": ["t", [str(b) for b in xs], [frac(r) for _ in xs]]}
        if allow_state and ncomp > 0:
            return {"*": [frac(r, 6), {"+": ["1", {"*": ["1/256", {"c": r.randrange(ncomp)}]}]}]}
        return frac(r)

    def params_values(self, small=False):
        if small:
            return {k: frac(self.rng, 3) for k in PARAMS}
        return {k: dy(self.rng, 1, 16, 3) for k in PARAMS}

    # ------------------------------------------------------------------ programs
    def _dest_filter(self, ops, comps, dst, name, strata):
        """a destination filter for a flow added to a stratified model: over a non-empty subset of the stratifications
        that cover dst - a proper subset when there are several, so that the filter still matches several compartments"""
        r = self.rng
        cover = [(o_["name"], o_["strata"]) for o_ in ops if o_["op"] == "strat" and dst in (o_.get("comps") or comps)]
        if not cover:
            return {name: r.choice(strata)}
        sub = r.sample(cover, r.randint(1, max(1, len(cover) - (1 if r.random() < 0.7 else 0))))
        return {n_: r.choice(st_) for n_, st_ in sub}

    def program(self, want=None):
        """want: dict of feature switches (solver steps, nonlinear, requests ...)"""
        r = self.rng
        want = dict(want or {})
        ncomp = r.randint(2, 4)
        comps = COMP_POOL[:ncomp] if r.random() < 0.7 else r.sample(COMP_POOL, ncomp)
        inf = [c for c in comps if c in ("I", "E") and r.random() < 0.8] or [comps[-1]]
        inf = inf[: r.randint(1, 2)]
        if want.get("two_inf"):
            # two infectious compartments, listed in the reverse of the compartments' order
            ncomp = max(ncomp, 3)
            comps = COMP_POOL[:ncomp]
            inf = ["I", "E"]
        if len(inf) == 2 and r.random() < 0.5 and not want.get("two_inf"):
            inf = inf[::-1]        # the infectious compartments need not be listed in the order of the compartments
        nsteps = want.get("nsteps", r.choice([1, 2, 3, 4]))
        h = want.get("h", r.choice(["1", "1/2", "1/4", "2", "3/8"]))
        t0 = want.get("t0", r.choice(["0", "0", "1", "-2", "5/2"]))
        t1 = str(Fraction(t0) + nsteps * Fraction(h))
        ops = []
        meta = {"flows": [], "strats": [], "adj": [], "mix": 0, "iadj": 0, "reqs": [], "err": None}
        if r.random() < 0.93:
            ops.append({"op": "pop", "dist": {c: (dy(r, 0, 400, 2) if r.random() < 0.85 else {"p": r.choice(PARAMS)})
                                               for c in comps if r.random() < 0.85}})
        else:
            ops.append({"op": "pop", "dist": {comps[0]: "100"}})
        flow_names = []
        kinds_nonlin = want.get("nonlinear", r.random() < 0.6)
        kind_pool = ["transition", "transition", "death", "importation", "absolute", "crude_birth",
                     "replacement_birth"]
        if "kind_pool" in want:
            kind_pool = list(want["kind_pool"])
        if kinds_nonlin:
            inf_kind = r.choice(["infection_frequency", "infection_frequency", "infection_density"])
            kind_pool += [inf_kind, inf_kind]
        allow_state = want.get("state_rates", r.random() < 0.15)
        nflows = r.randint(1, 5)
        has_birth = False
        for i in range(nflows):
            kind = r.choice(kind_pool)
            if kind in ("crude_birth", "replacement_birth"):
                if has_birth:
                    kind = "transition"
                else:
                    has_birth = True
            name = "f%d" % i if r.random() < 0.8 or not flow_names else r.choice(flow_names)
            if want.get("prefix_names") and flow_names and r.random() < want["prefix_names"]:
                name = r.choice(flow_names) + r.choice(["_b", "2", "x"])      # an existing name is a proper prefix of this one
            o = {"op": "flow", "kind": kind, "name": name,
                 "param": self.rate(allow_time=not want.get("no_time", False), allow_state=allow_state, ncomp=ncomp)}
            if want.get("signed") and r.random() < want["signed"]:
                # rates that are negative, or change sign in time (net migration, signed transfers): still weight x law
                o["param"] = r.choice(["-" + frac(r), {"-": [frac(r), {"*": [frac(r, 3), "t"]}]},
                                       {"-": [{"*": [frac(r, 3), "t"]}, frac(r, 5)]},
                                       {"lin": ["t", ["0", "4", "8"], ["-" + frac(r), frac(r), "-" + frac(r)]]}])
            if kind in ("crude_birth", "replacement_birth", "importation"):
                o["dst"] = r.choice(comps)
                if kind == "importation":
                    o["split"] = r.random() < 0.5
            elif kind == "death":
                o["src"] = r.choice(comps)
            else:
                s, d = r.sample(comps, 2)
                if want.get("self_flow") and kind == "transition" and r.random() < want["self_flow"]:
                    d = s        # a flow from a compartment to itself (counts events; moves nobody)
                if kind.startswith("infection"):
                    d = r.choice(inf) if r.random() < 0.8 else d
                    if s == d:
                        s = [c for c in comps if c != d][0]
                o["src"], o["dst"] = s, d
            ops.append(o)
            flow_names.append(name)
            meta["flows"].append(kind)
        if r.random() < want.get("p_udeath", 0.3):
            nm = "ud"
            ops.append({"op": "udeath", "name": nm, "param": self.rate(allow_time=False)})
            flow_names.append(nm)
            meta["flows"].append("universal_death")
        # stratifications
        nstrat = want.get("nstrat", r.choice([0, 1, 1, 2, 2, 3]))
        used = []
        strat_strata = {}
        cross = {}
        have_age = have_strain = False
        infection_dests = {o["dst"] for o in ops if o["op"] == "flow" and o["kind"].startswith("infection")}
        for k in range(nstrat):
            kind = r.choice(["plain", "plain", "plain", "age", "strain"])
            if kind == "age" and have_age:
                kind = "plain"
            if kind == "strain" and (have_strain or not kinds_nonlin):
                kind = "plain"
            if want.get("force_strain") and k == 0 and kinds_nonlin:
                kind = "strain"
            if kind == "age":
                name = "age"
                have_age = True
                strata = STRATA_POOL["age"][: r.randint(2, 4)]
                scomps = list(comps)
            elif kind == "strain":
                name = r.choice(["strain", "variant"])
                have_strain = True
                strata = ["a", "b", "c"][: r.randint(1, 3)]
                scomps = sorted(set(inf) | infection_dests, key=comps.index)
                spare = [c_ for c_ in inf if c_ not in infection_dests]
                if want.get("partial_strain") and len(set(inf)) >= 2 and spare and r.random() < want["partial_strain"]:
                    # an infectious compartment that the strain stratification leaves whole (a carrier state): it
                    # belongs to no strain
                    scomps = [c_ for c_ in scomps if c_ != spare[-1]]
            else:
                cands = [n for n in STRAT_NAMES[1:] if n not in used]
                if not cands:
                    break
                name = r.choice(cands)
                strata = STRATA_POOL[name][: r.randint(want.get("min_strata", 1), 3)]
                scomps = list(comps) if r.random() < want.get("p_full", 0.6) else sorted(r.sample(comps, r.randint(1, ncomp)), key=comps.index)
            if name in used:
                continue
            if want.get("shuffle_comps") and kind == "plain" and len(scomps) > 1 and r.random() < want["shuffle_comps"]:
                # the stratification lists its compartments in another order than the model
                scomps = list(scomps)
                r.shuffle(scomps)
            o = {"op": "strat", "kind": kind, "name": name, "strata": strata, "comps": scomps}
            # split
            c = r.random()
            if c < 0.5:
                ws = [r.randint(1, 5) for _ in strata]
                tot = sum(ws)
                # dyadic splits: scale to a power-of-two total
                if tot & (tot - 1) == 0:
                    o["split"] = {s: str(Fraction(w, tot)) for s, w in zip(strata, ws)}
                else:
                    n = len(strata)
                    base = [Fraction(1, 8)] * n
                    base[0] = 1 - Fraction(n - 1, 8)
                    o["split"] = {s: str(b) for s, b in zip(strata, base)}
            elif c < 0.6:
                # parameterised split (not validated by the API)
                o["split"] = {s: ({"p": "kappa"} if i == 0 else frac(r)) for i, s in enumerate(strata)}
            if want.get("rounded_splits") and len(strata) in (2, 3) and r.random() < want["rounded_splits"]:
                # literal splits rounded to three digits: accepted (within 1e-2 of one) and used as given
                o["split"] = dict(zip(strata, ["333/1000"] * 3 if len(strata) == 3 else ["499/1000", "1/2"]))
            # dictionaries need not be written in the order of the strata
            if o.get("split") and r.random() < 0.5:
                items = list(o["split"].items())
                r.shuffle(items)
                o["split"] = dict(items)
            if kind == "age" and r.random() < 0.3:
                shuffled = list(strata)
                r.shuffle(shuffled)
                o["strata"] = shuffled
            # flow adjustments
            fadj = []
            if not want.get("unadjusted", False):
                for fn in sorted(set(flow_names)):
                    if fn in want.get("never_adjust", ()):
                        continue
                    if r.random() < 0.35:
                        adjs = {}
                        for s in strata:
                            c2 = r.random()
                            if c2 < 0.25:
                                adjs[s] = None
                            elif c2 < 0.32:
                                adjs[s] = {r.choice(["mul", "ovr"]): "0"}      # an adjustment to exactly zero
                            elif c2 < 0.75:
                                adjs[s] = {"mul": self.rate(allow_time=not want.get("no_time", False))}
                            else:
                                adjs[s] = {"ovr": self.rate(allow_time=not want.get("no_time", False))}
                        sf, df = {}, {}
                        if used and r.random() < 0.4:
                            prev = r.choice(used)
                            filt = {prev: r.choice(strat_strata[prev])}
                            mode = r.random()
                            if mode < 0.35:
                                sf = filt
                            elif mode < 0.7:
                                df = filt
                            else:
                                # both ends filtered, possibly on different stratifications / strata
                                prev2 = r.choice(used)
                                sf, df = filt, {prev2: r.choice(strat_strata[prev2])}
                        if want.get("cross") and fn in cross and r.random() < 0.7:
                            # same-named flows leaving one stratum for several others: select one of them by BOTH ends
                            cs_, ca_, cbs_ = cross[fn]
                            sf, df = {cs_: ca_}, {cs_: r.choice(cbs_)}
                        if want.get("fadj_pairs") and (sf or df) and sf != df and r.random() < want["fadj_pairs"]:
                            # an earlier request for the same flow with the two filters at the other ends (or one of them
                            # at both): each request applies where ITS source and destination filters match
                            e_sf, e_df = r.choice([(df, sf), (sf or df, sf or df), (sf or df, {}), ({}, sf or df)])
                            if (e_sf, e_df) != (sf, df):
                                fadj.append([fn, {s: {"mul": frac(r)} for s in strata}, dict(e_sf), dict(e_df)])
                                meta["adj"].append("filtered twin")
                        fadj.append([fn, adjs, sf, df])
                        meta["adj"].append("filtered" if (sf or df) else "plain")
                        if r.random() < 0.2:
                            fadj.append([fn, {s: {"mul": frac(r)} for s in strata}, {}, {}])
            o["fadj"] = fadj
            # infectiousness adjustments
            iadj = {}
            if not want.get("unadjusted", False):
                for c_ in inf:
                    if c_ in scomps and r.random() < want.get("p_iadj", 0.3):
                        iadj[c_] = {s: (None if r.random() < 0.3 else
                                        ({"mul": self.rate(allow_time=False)} if r.random() < 0.7
                                         else {"ovr": self.rate(allow_time=False)})) for s in strata}
                        if want.get("bare_adjs"):
                            for s in strata:
                                if iadj[c_][s] is not None and r.random() < 0.2:
                                    iadj[c_][s] = {"mul": "0"}       # a stratum that is not infectious at all
                        meta["iadj"] += 1
            o["iadj"] = iadj
            # mixing
            if kind != "strain" and scomps == list(comps) and r.random() < want.get("p_mix", 0.35) \
                    and not want.get("unadjusted", False):
                n = len(strata)
                o["mix"] = [[(self.rate(allow_time=(r.random() < 0.3 and not want.get("no_time", False))) if r.random() < 0.25 else frac(r))
                             for _ in range(n)] for _ in range(n)]
                meta["mix"] += 1
            ops.append(o)
            used.append(name)
            strat_strata[name] = strata
            meta["strats"].append(kind + ("" if scomps == list(comps) else "-partial"))
            # flows added after stratification
            if r.random() < want.get("p_post", 0.25):
                s, d = r.sample(comps, 2)
                filt = {name: r.choice(strata)}
                o2 = {"op": "flow", "kind": "transition", "name": "post%d" % k, "param": frac(r), "src": s, "dst": d}
                if s in scomps and d in scomps:
                    o2["sf"], o2["df"] = filt, filt
                elif s in scomps:
                    o2["sf"] = filt
                elif d in scomps:
                    o2["df"] = filt
                ops.append(o2)
                flow_names.append(o2["name"])
                meta["flows"].append("post-strat")
            if want.get("post_birth") and not has_birth and len(strata) >= 2 and r.random() < want["post_birth"] \
                    and (k == nstrat - 1 or r.random() < 0.5):     # often kept for the last stratification: several matches
                # a birth flow added to the stratified model: its destination matches several compartments
                has_birth = True
                bk = r.choice(want.get("post_birth_kinds", ["replacement_birth", "crude_birth"]))
                o3 = {"op": "flow", "kind": bk, "name": "pbirth", "param": frac(r), "dst": r.choice(scomps)}
                if r.random() < 0.5:
                    o3["df"] = self._dest_filter(ops, comps, o3["dst"], name, strata)
                ops.append(o3)
                flow_names.append("pbirth")
                meta["flows"].append("post-strat " + bk)
            if want.get("post_exit") and len(strata) >= 2 and r.random() < want["post_exit"]:
                ops.append({"op": "flow", "kind": "death", "name": "pdeath%d" % k, "param": frac(r), "src": r.choice(scomps),
                            "sf": {name: r.choice(strata)}})
                flow_names.append("pdeath%d" % k)
                meta["flows"].append("post-strat filtered death")
            if want.get("post_import") and len(strata) >= 2 and r.random() < want["post_import"]:
                d = r.choice(scomps)
                ops.append({"op": "flow", "kind": "importation", "name": "pimp%d" % k, "param": frac(r, 1), "dst": d,
                            "split": True, "df": self._dest_filter(ops, comps, d, name, strata)})
                flow_names.append("pimp%d" % k)
                meta["flows"].append("post-strat split importation")
            if want.get("cross_strain") and kind == "strain" and len(strata) >= 2 and kinds_nonlin and len(scomps) >= 1 \
                    and r.random() < want["cross_strain"]:
                # re-infection with another strain: an infection flow whose source and destination carry different strains
                s_ = r.choice(scomps)
                d_ = r.choice([c_ for c_ in scomps if c_ in inf] or scomps)
                ikind = next((o_["kind"] for o_ in ops if o_["op"] == "flow" and o_["kind"].startswith("infection")), None)
                if ikind is not None:
                    a_, b_ = r.sample(strata, 2)
                    nm = "reinf%d" % k
                    ops.append({"op": "flow", "kind": ikind, "name": nm, "param": frac(r), "src": s_, "dst": d_,
                                "sf": {name: a_}, "df": {name: b_}})
                    flow_names.append(nm)
                    meta["flows"].append("cross-strain infection")
            if want.get("cross") and len(strata) >= 2 and r.random() < want["cross"]:
                s_ = r.choice(scomps)
                d_ = r.choice(scomps)
                nm = "cross%d" % k
                for b_ in strata[1:]:
                    ops.append({"op": "flow", "kind": "transition", "name": nm, "param": frac(r), "src": s_, "dst": d_,
                                "sf": {name: strata[0]}, "df": {name: b_}})
                # ... and one coming back, so that "out of" and "into" the first stratum are different non-empty selections
                ops.append({"op": "flow", "kind": "transition", "name": nm, "param": frac(r), "src": d_, "dst": s_,
                            "sf": {name: strata[1]}, "df": {name: strata[0]}})
                flow_names.append(nm)
                cross[nm] = (name, strata[0], strata[1:])
                meta["flows"].append("cross-stratum")
        # rebalance after the last stratification
        if used and r.random() < 0.25:
            sname = r.choice(used)
            strata = strat_strata[sname]
            n = len(strata)
            props = [Fraction(1, 4)] * n
            props[-1] = 1 - Fraction(n - 1, 4)
            if n > 4:
                props = [Fraction(1, n)] * n
            filt = {}
            others = [u for u in used if u != sname]
            if others and r.random() < 0.5:
                o_ = r.choice(others)
                filt = {o_: r.choice(strat_strata[o_])}
            pitems = [(s, str(p)) for s, p in zip(strata, props)]
            if r.random() < 0.5:
                r.shuffle(pitems)        # the proportions need not be written in the order of the strata
            ops.append({"op": "rebalance", "strat": sname, "filt": filt, "props": dict(pitems)})
            meta["strats"].append("rebalance")
        # derived output requests
        reqs = []
        if want.get("requests", r.random() < 0.5):
            ops_r, reqs = self.requests(comps, flow_names, used, strat_strata, ncomp, cross, want)
            if want.get("early_requests") and r.random() < want["early_requests"]:
                # flow outputs requested before the last stratification (requests refer to flows by name, so
                # the later stratification must not change what they mean)
                last = max((i for i, o_ in enumerate(ops) if o_["op"] == "strat"), default=None)
                early = [o_ for o_ in ops_r if o_["op"] == "req" and o_["req"]["type"] == "flow"
                         and not o_["req"].get("sf") and not o_["req"].get("df")
                         and (last is None or any(f_["op"] in ("flow", "udeath") and f_["name"] == o_["req"]["flow_name"] for f_ in ops[:last]))]
                if last is not None and early:
                    ops_r = [o_ for o_ in ops_r if o_ not in early]
                    ops = ops[:last] + early + ops[last:]
                    meta["flows"].append("early flow requests")
            ops += ops_r
            meta["reqs"] = [x["req"]["type"] for x in ops_r if x["op"] == "req"]
        if want.get("bare_adjs"):
            # adjustments written as bare numbers (shorthand for Multiply), zero included
            def bare(a_):
                if a_ is not None and "mul" in a_ and isinstance(a_["mul"], str) and a_["mul"] != "t" and r.random() < want["bare_adjs"]:
                    return {"num": a_["mul"]}
                return a_
            for o_ in ops:
                if o_["op"] == "strat":
                    o_["fadj"] = [[fn_, {s_: bare(a_) for s_, a_ in adjs_.items()}, sf_, df_] for fn_, adjs_, sf_, df_ in o_.get("fadj", [])]
                    o_["iadj"] = {c_: {s_: bare(a_) for s_, a_ in adjs_.items()} for c_, adjs_ in (o_.get("iadj") or {}).items()}
        prog = {"times": [t0, t1, h], "comps": comps, "inf": inf, "ops": ops, "obs": [], "meta": meta,
                "nonlinear": bool(kinds_nonlin or allow_state)}
        return prog

    def requests(self, comps, flow_names, used, strat_strata, ncomp, cross=None, want=None):
        r = self.rng
        want = want or {}
        ops, names = [], []
        for nm_, (sname_, a_, bs_) in sorted((cross or {}).items())[:1]:
            # outflow of a stratum and inflow into strata, for the same flow name: the same pairs on either end
            for j_, (end_, val_) in enumerate([("sf", a_), ("df", a_), ("df", bs_[0])]):
                ops.append({"op": "req", "name": "x%d" % j_, "save": True,
                            "req": {"type": "flow", "flow_name": nm_, "raw": True, end_: {sname_: val_}}})
                names.append("x%d" % j_)
        if r.random() < 0.4:
            ops.append({"op": "cv", "name": "cvA", "e": {"+": [{"c": 0}, {"*": ["1/2", "t"]}]}})
        n = r.randint(1, 6)
        for i in range(n):
            nm = "o%d" % i
            c = r.random()
            filt = {}
            if used and r.random() < 0.4:
                u = r.choice(used)
                filt = {u: r.choice(strat_strata[u])}
                if u == "age" and "15" in strat_strata[u] and r.random() < 0.5:
                    filt = {u: "15"}      # a stratum whose label contains another one ("5")
            if c < 0.3 or not names:
                if r.random() < 0.5 and flow_names:
                    rq = {"type": "flow", "flow_name": r.choice(flow_names), "raw": r.random() < 0.5}
                    if filt and r.random() < 0.5:
                        end = "sf" if r.random() < 0.5 else "df"
                        rq[end] = filt
                        if r.random() < 0.6:
                            # the same flow name selected by the same pairs on the other end (inflow vs outflow of a stratum)
                            twin = {"type": "flow", "flow_name": rq["flow_name"], "raw": rq["raw"], ("df" if end == "sf" else "sf"): filt}
                            ops.append({"op": "req", "name": nm + "t", "save": True, "req": twin})
                            names.append(nm + "t")
                else:
                    if want.get("full_filters") and len(used) >= 2 and r.random() < want["full_filters"]:
                        # a stratum of every stratification, the keys written in any order
                        ks = list(used)
                        r.shuffle(ks)
                        filt = {u_: r.choice(strat_strata[u_]) for u_ in ks}
                    rq = {"type": "comp", "names": r.sample(comps, r.randint(1, len(comps))), "filt": filt}
                    if filt and len(used) >= 2 and r.random() < 0.5:
                        # one compartment name, one stratum of one of several stratifications: the selected columns
                        # need not be adjacent
                        rq["names"] = [r.choice(comps)]
                        rq["filt"] = {used[-1]: r.choice(strat_strata[used[-1]])} if r.random() < 0.6 else filt
                    if r.random() < 0.15:
                        # the union of two overlapping groups of compartments: a name listed twice still counts once
                        rq["names"] = rq["names"] + [r.choice(rq["names"])]
            elif c < 0.5:
                rq = {"type": "agg", "sources": [r.choice(names) for _ in range(r.randint(1, 3))]}
            elif c < 0.7:
                rq = {"type": "cum", "source": r.choice(names), "start": None}
            elif c < 0.9:
                fn = r.randint(0, 2)
                rq = {"type": "func", "fn": fn, "sources": [r.choice(names), r.choice(names)],
                      "params": [r.choice([frac(r), {"p": "gamma"}])]}
            else:
                if any(o["op"] == "cv" for o in ops):
                    nm = "cvA"
                    if nm in names:
                        continue
                    rq = {"type": "cv", "name": "cvA"}
                else:
                    rq = {"type": "comp", "names": [comps[0]], "filt": {}}
            ops.append({"op": "req", "name": nm, "save": r.random() < 0.8, "req": rq})
            names.append(nm)
        if r.random() < 0.3 and names:
            ops.append({"op": "whitelist", "names": r.sample(names, r.randint(1, len(names)))})
        return ops, names

    # ------------------------------------------------------------------ states
    def state(self, n, kind="pos"):
        r = self.rng
        if kind == "pos":
            return [dy(r, 1, 300, 2) for _ in range(n)]
        xs = [dy(r, 1, 300, 2) for _ in range(n)]
        for i in range(n):
            c = r.random()
            if c < 0.25:
                xs[i] = "0"
            elif c < 0.35:
                xs[i] = "-1/1048576"
        return xs
