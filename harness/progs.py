"""Build programs: JSON representation shared by the implementation side (impl.py) and the
model side (driver.ml via s-expressions).  See DESIGN.md section 4.1."""
from fractions import Fraction


def sx(x):
    """Python nested list -> s-expression string (atoms must not contain spaces/parens)."""
    if isinstance(x, (list, tuple)):
        return "(" + " ".join(sx(e) for e in x) + ")"
    if x is None:
        return "none"
    if x is True:
        return "true"
    if x is False:
        return "false"
    s = str(x)
    assert s and not any(ch in s for ch in " ()\t\n"), repr(s)
    return s


def expr_sx(e):
    if isinstance(e, str):
        if e == "t":
            return "t"
        Fraction(e)  # validates
        return e
    assert isinstance(e, dict) and len(e) == 1, e
    (k, v), = e.items()
    if k == "p":
        return ["p", v]
    if k == "c":
        return ["c", int(v)]
    if k in "+-*/":
        return [k, expr_sx(v[0]), expr_sx(v[1])]
    if k == "pw":
        return ["pw", expr_sx(v[0]), [expr_sx(b) for b in v[1]], [expr_sx(b) for b in v[2]]]
    if k == "lin":
        return ["lin", expr_sx(v[0]), [expr_sx(b) for b in v[1]], [expr_sx(b) for b in v[2]]]
    raise ValueError(e)


def pyval_sx(v):
    """an arbitrary Python value handed over as a flow rate (the model's pyval)"""
    (k, x), = v.items()
    if k == "num":
        Fraction(x)
        return ["num", x]
    if k == "graph":
        return ["graph", expr_sx(x)]
    if k == "str":
        return ["str", x]
    if k == "none":
        return ["none"]
    if k == "list":
        return ["list"] + [str(Fraction(q)) for q in x]
    raise ValueError(v)


def strata_sx(d):
    return [[k, v] for k, v in (d or {}).items()]


def adj_sx(a):
    if a is None:
        return "none"
    (k, v), = a.items()
    return ["mul" if k == "num" else k, expr_sx(v)]


def req_sx(r):
    t = r["type"]
    if t == "flow":
        return ["flow", r["flow_name"], strata_sx(r.get("sf")), strata_sx(r.get("df")), bool(r.get("raw", False))]
    if t == "comp":
        return ["comp", list(r["names"]), strata_sx(r.get("filt"))]
    if t == "agg":
        return ["agg", list(r["sources"])]
    if t == "cum":
        return ["cum", r["source"], r.get("start")]
    if t == "func":
        return ["func", int(r["fn"]), list(r["sources"]), [expr_sx(e) for e in r.get("params", [])]]
    if t == "cv":
        return ["cv", r["name"]]
    raise ValueError(r)


def op_sx(o):
    k = o["op"]
    if k == "pop":
        return ["pop"] + [[n, expr_sx(e)] for n, e in o["dist"].items()]
    if k == "arraypop":
        return ["arraypop"] + [expr_sx(e) for e in o["arr"]]
    if k == "flow" and o.get("pyrate") is not None:
        return ["flowdyn", pyval_sx(o["pyrate"]), o["kind"], o["name"], "0", o.get("src") or "-", o.get("dst") or "-",
                strata_sx(o.get("sf")), strata_sx(o.get("df")),
                "none" if o.get("expected") is None else int(o["expected"]), bool(o.get("split", False))]
    if k == "udeath" and o.get("pyrate") is not None:
        return ["udeathdyn", o["name"], pyval_sx(o["pyrate"])]
    if k == "flow":
        return ["flow", o["kind"], o["name"], expr_sx(o.get("param", "1")), o.get("src") or "-", o.get("dst") or "-",
                strata_sx(o.get("sf")), strata_sx(o.get("df")),
                "none" if o.get("expected") is None else int(o["expected"]), bool(o.get("split", False))]
    if k == "udeath":
        return ["udeath", o["name"], expr_sx(o["param"])]
    if k == "strat":
        return ["strat", o["kind"], o["name"], list(o["strata"]), list(o["comps"]),
                ["split"] + [[s, expr_sx(e)] for s, e in (o.get("split") or {}).items()],
                ["fadj"] + [[fn, [[s, adj_sx(a)] for s, a in adjs.items()], strata_sx(sf), strata_sx(df)]
                            for fn, adjs, sf, df in o.get("fadj", [])],
                ["iadj"] + [[c, [[s, adj_sx(a)] for s, a in adjs.items()]] for c, adjs in (o.get("iadj") or {}).items()],
                ["mix", "none" if o.get("mix") is None else [[expr_sx(e) for e in row] for row in o["mix"]]]]
    if k == "rebalance":
        return ["rebalance", o["strat"], strata_sx(o.get("filt")), [[s, expr_sx(e)] for s, e in o["props"].items()]]
    if k == "req":
        return ["req", o["name"], bool(o.get("save", True)), req_sx(o["req"])]
    if k == "whitelist":
        return ["whitelist"] + list(o["names"])
    if k == "cv":
        return ["cv", o["name"], expr_sx(o["e"])]
    if k == "finalize":
        return ["finalize"]
    if k == "setdefaults":
        return ["setdefaults", params_sx(o.get("params"))]
    raise ValueError(o)


def params_sx(p):
    return ["params"] + [[k, v] for k, v in (p or {}).items()]


def obs_sx(o):
    k = o["obs"]
    if k == "struct":
        return ["struct"]
    if k == "onestep":
        return ["onestep", params_sx(o.get("params")), o.get("t"), None if o.get("x") is None else list(o["x"])]
    if k == "run":
        return ["run", o["solver"], params_sx(o.get("params"))]
    if k == "initpop":
        return ["initpop", params_sx(o.get("params"))]
    if k == "rkstep":
        return ["rkstep", params_sx(o.get("params")), o["t"], o["dt"], None if o.get("x") is None else list(o["x"])]
    if k == "qcomps":
        return ["qcomps", o.get("name") or "-", strata_sx(o.get("filt")), bool(o.get("inf", False))]
    if k == "qflows":
        return ["qflows", o.get("name") or "-", strata_sx(o.get("sf")), strata_sx(o.get("df"))]
    if k in ("oracle", "traced_run", "kernels", "traced_library"):
        return ["oracle"]
    if k == "history":
        calls = []
        for c in o["calls"]:
            if c["call"] == "run":
                calls.append(["crun", c["solver"], bool(c.get("rebuild", False)), params_sx(c.get("params"))])
            elif c["call"] == "get_runner":
                calls.append(["cgetrunner", c["solver"], "none" if c.get("dyn") is None else ["dyn"] + list(c["dyn"]),
                              params_sx(c.get("params"))])
            elif c["call"] == "runner_run":
                calls.append(["crunnerrun", str(c["k"]), params_sx(c.get("params"))])
            elif c["call"] == "set_defaults":
                calls.append(["csetdefaults", params_sx(c.get("params"))])
            else:
                raise ValueError(c)
        return ["history"] + calls
    raise ValueError(o)


def prog_sx(p):
    return sx(["prog", ["times"] + list(p["times"]), ["comps"] + list(p["comps"]), ["inf"] + list(p["inf"]),
               ["ops"] + [op_sx(o) for o in p["ops"]], ["obs"] + [obs_sx(o) for o in p.get("obs", [])]])
