"""Program transformations for the metamorphic checks of C15 (pure functions on program JSON)."""
import copy
import json
from fractions import Fraction


def mapnames(x, f_comp, f_strat, f_stratum, f_flow):
    """rename compartments, stratifications, strata and flows consistently in a program"""
    p = copy.deepcopy(x)
    p["comps"] = [f_comp(c) for c in p["comps"]]
    p["inf"] = [f_comp(c) for c in p["inf"]]

    def filt(d):
        return {f_strat(k): f_stratum(k, v) for k, v in (d or {}).items()}

    for o in p["ops"]:
        k = o["op"]
        if k == "pop":
            o["dist"] = {f_comp(c): v for c, v in o["dist"].items()}
        elif k == "flow":
            o["name"] = f_flow(o["name"])
            for e in ("src", "dst"):
                if o.get(e):
                    o[e] = f_comp(o[e])
            o["sf"], o["df"] = filt(o.get("sf")), filt(o.get("df"))
        elif k == "udeath":
            o["name"] = f_flow(o["name"])
        elif k == "strat":
            old = o["name"]
            o["name"] = f_strat(old)
            o["strata"] = [f_stratum(old, s) for s in o["strata"]]
            o["comps"] = [f_comp(c) for c in o["comps"]]
            if o.get("split"):
                o["split"] = {f_stratum(old, s): v for s, v in o["split"].items()}
            o["fadj"] = [[f_flow(fn), {f_stratum(old, s): a for s, a in adjs.items()}, filt(sf), filt(df)]
                         for fn, adjs, sf, df in o.get("fadj", [])]
            o["iadj"] = {f_comp(c): {f_stratum(old, s): a for s, a in adjs.items()} for c, adjs in (o.get("iadj") or {}).items()}
        elif k == "rebalance":
            old = o["strat"]
            o["strat"] = f_strat(old)
            o["filt"] = filt(o.get("filt"))
            o["props"] = {f_stratum(old, s): v for s, v in o["props"].items()}
        elif k == "req":
            r = o["req"]
            if r["type"] == "flow":
                r["flow_name"] = f_flow(r["flow_name"])
                r["sf"], r["df"] = filt(r.get("sf")), filt(r.get("df"))
            elif r["type"] == "comp":
                r["names"] = [f_comp(c) for c in r["names"]]
                r["filt"] = filt(r.get("filt"))
    return p


def rename(p, is_age):
    """injective renaming (age strata stay integers: they carry meaning)"""
    return mapnames(p, lambda c: "Q" + c.lower(), lambda s: s if is_age(s) else "z" + s,
                    lambda strat, st: st if is_age(strat) else st + "q", lambda f: "r" + f)


def rename_shared_labels(p, is_age):
    """every (non-age) stratification gets the same stratum labels L0, L1, ... by position: labels are per stratification,
    so sharing them between stratifications changes nothing"""
    order = {o["name"]: list(o["strata"]) for o in p["ops"] if o["op"] == "strat"}
    return mapnames(p, lambda c: c, lambda s: s,
                    lambda strat, st: st if is_age(strat) else "L%d" % order[strat].index(st), lambda f: f)


def comp_key(serialised, inv_comp=None, inv_strat=None, inv_stratum=None):
    """identity of a compartment from its serialised name: (name, frozenset of strata)"""
    parts = serialised.split("X")
    name = parts[0]
    strata = dict(x.split("_", 1) for x in parts[1:])
    if inv_comp:
        name = inv_comp(name)
        strata = {inv_strat(k): inv_stratum(inv_strat(k), v) for k, v in strata.items()}
    return (name, tuple(sorted(strata.items())))


def permute_comps(p, perm):
    q = copy.deepcopy(p)
    q["comps"] = [p["comps"][i] for i in perm]
    rank = {c: i for i, c in enumerate(q["comps"])}
    for o in q["ops"]:
        if o["op"] == "strat":
            # the stratification's own compartment list is reordered the same way
            o["comps"] = sorted(o["comps"], key=lambda c: rank[c])
    # literal whole-population arrays are positional: not used by these programs
    return q


def permute_model_comps_only(p, perm):
    """the model's compartments declared in another order, every stratification listing its compartments as before"""
    q = copy.deepcopy(p)
    q["comps"] = [p["comps"][i] for i in perm]
    return q


def permute_flows(p, rng):
    q = copy.deepcopy(p)
    first_strat = min([i for i, o in enumerate(q["ops"]) if o["op"] in ("strat",)] + [len(q["ops"])])
    idx = [i for i in range(first_strat) if q["ops"][i]["op"] in ("flow", "udeath")]
    ops = [q["ops"][i] for i in idx]
    rng.shuffle(ops)
    for i, o in zip(idx, ops):
        q["ops"][i] = o
    return q


def permute_strata(p, rng):
    q = copy.deepcopy(p)
    for o in q["ops"]:
        if o["op"] == "strat" and o["kind"] != "age" and len(o["strata"]) > 1:
            n = len(o["strata"])
            perm = list(range(n))
            rng.shuffle(perm)
            o["strata"] = [o["strata"][i] for i in perm]
            if o.get("mix") is not None:
                o["mix"] = [[o["mix"][i][j] for j in perm] for i in perm]
    return q


def shift_time(p, delta):
    q = copy.deepcopy(p)
    t0, t1, h = (Fraction(x) for x in q["times"])
    q["times"] = [str(t0 + delta), str(t1 + delta), str(h)]
    for o in q["ops"]:
        if o["op"] == "req" and o["req"]["type"] == "cum" and o["req"].get("start") is not None:
            o["req"]["start"] = str(Fraction(o["req"]["start"]) + delta)
    return q


def has_time(x):
    if x == "t":
        return True
    if isinstance(x, dict):
        return any(has_time(v) for v in x.values())
    if isinstance(x, list):
        return any(has_time(v) for v in x)
    return False


def scale_expr(e, k):
    if isinstance(e, str) and e != "t":
        return str(Fraction(e) * Fraction(k))
    return {"*": [str(k), e]}


def scale_population(p, k, density):
    """populations and absolute inflows x k (contact rates / k for density-dependent transmission)"""
    q = copy.deepcopy(p)
    for o in q["ops"]:
        if o["op"] == "pop":
            o["dist"] = {c: scale_expr(v, k) for c, v in o["dist"].items()}
        elif o["op"] == "flow":
            if o["kind"] in ("importation", "absolute"):
                o["param"] = scale_expr(o["param"], k)
            if density and o["kind"] == "infection_density":
                o["param"] = {"/": [o["param"], str(k)]}
    return q


def scalable(p):
    """an Overwrite on a flow name used by an absolute inflow (or a density contact rate) would replace the scaled value by an unscaled one"""
    absnames = {o["name"] for o in p["ops"] if o["op"] == "flow" and o["kind"] in ("importation", "absolute", "infection_density")}
    # populations and inflows are scaled as literals (a product of a literal and a parameter object in the initial
    # distribution can crash computegraph's Data.__eq__ - a dependency outside /repo, DESIGN.md 8.3)
    for o in p["ops"]:
        if o["op"] == "pop" and any(not isinstance(v, str) for v in o["dist"].values()):
            return False
        if o["op"] == "flow" and o["kind"] in ("importation", "absolute") and not isinstance(o["param"], str):
            return False
    for o in p["ops"]:
        if o["op"] == "strat":
            for fn, adjs, _, _ in o.get("fadj", []):
                if fn in absnames and any(a is not None and "ovr" in a for a in adjs.values()):
                    return False
    return True


def move_flow_after_strat(p, rng):
    """a transition / infection / death flow declared before an unadjusted stratification covering its endpoints,
    re-declared immediately after that stratification instead"""
    si = [i for i, o in enumerate(p["ops"]) if o["op"] == "strat"]
    if not si:
        return None
    s0 = si[0]
    st = p["ops"][s0]
    if st["kind"] == "strain":
        return None
    adjusted = {e[0] for e in st.get("fadj", [])}
    cands = [i for i in range(s0) if p["ops"][i]["op"] == "flow"
             and p["ops"][i]["kind"] in ("transition", "infection_frequency", "infection_density", "death")
             and p["ops"][i]["name"] not in adjusted
             and all(p["ops"][i].get(e) in st["comps"] for e in ("src", "dst") if p["ops"][i].get(e))]
    if not cands:
        return None
    i = rng.choice(cands)
    q = copy.deepcopy(p)
    f = q["ops"].pop(i)
    q["ops"].insert(s0, f)   # s0 shifted left by the pop, so this lands right after the stratification
    return q
