(* Correspondence driver for the extracted model (trusted base, DESIGN.md section 3).
   Reads one build program per line (s-expression, written by harness/progs.py), runs it on
   the extracted Gallina model at Qc, prints one JSON line of observations per program.
   Numbers are printed as exact rationals "num/den". *)
module BZ = Z
open Summer_model

(* ---------------------------------------------------------------- s-expressions *)
type sexp = A of string | L of sexp list

let parse_sexp (s : string) : sexp =
  let n = String.length s in
  let pos = ref 0 in
  let rec skip () = if !pos < n && (s.[!pos] = ' ' || s.[!pos] = '\t') then (incr pos; skip ()) in
  let rec parse () =
    skip ();
    if !pos >= n then failwith "sexp: unexpected end";
    if s.[!pos] = '(' then begin
      incr pos;
      let items = ref [] in
      let rec loop () =
        skip ();
        if !pos >= n then failwith "sexp: missing )";
        if s.[!pos] = ')' then incr pos else (items := parse () :: !items; loop ())
      in
      loop ();
      L (List.rev !items)
    end else begin
      let start = !pos in
      while !pos < n && s.[!pos] <> ' ' && s.[!pos] <> '(' && s.[!pos] <> ')' && s.[!pos] <> '\t' do incr pos done;
      A (String.sub s start (!pos - start))
    end
  in
  parse ()

(* ---------------------------------------------------------------- conversions *)
let explode (s : string) : char list = List.init (String.length s) (String.get s)
let implode (l : char list) : string = String.concat "" (List.map (String.make 1) l)

let rec pos_of_z (z : BZ.t) : positive =
  if BZ.equal z BZ.one then XH
  else if BZ.is_even z then XO (pos_of_z (BZ.shift_right z 1))
  else XI (pos_of_z (BZ.shift_right z 1))

let z_of_zt (z : BZ.t) : Summer_model.z =
  if BZ.sign z = 0 then Z0 else if BZ.sign z > 0 then Zpos (pos_of_z z) else Zneg (pos_of_z (BZ.neg z))

let rec zt_of_pos (p : positive) : BZ.t =
  match p with
  | XH -> BZ.one
  | XO p' -> BZ.shift_left (zt_of_pos p') 1
  | XI p' -> BZ.succ (BZ.shift_left (zt_of_pos p') 1)

let zt_of_z (z : Summer_model.z) : BZ.t =
  match z with Z0 -> BZ.zero | Zpos p -> zt_of_pos p | Zneg p -> BZ.neg (zt_of_pos p)

let q_of_string (s : string) : q =
  let num, den =
    match String.index_opt s '/' with
    | Some i -> (BZ.of_string (String.sub s 0 i), BZ.of_string (String.sub s (i + 1) (String.length s - i - 1)))
    | None -> (BZ.of_string s, BZ.one)
  in
  { qnum = z_of_zt num; qden = pos_of_z den }

let string_of_q (x : q) : string =
  let n = zt_of_z x.qnum and d = zt_of_pos x.qden in
  let g = BZ.gcd n d in
  let g = if BZ.sign g = 0 then BZ.one else g in
  BZ.to_string (BZ.div n g) ^ "/" ^ BZ.to_string (BZ.div d g)

let rec nat_of_int (i : int) : nat = if i <= 0 then O else S (nat_of_int (i - 1))
let rec int_of_nat (n : nat) : int = match n with O -> 0 | S n' -> 1 + int_of_nat n'

let atom = function A s -> s | L _ -> failwith "expected atom"
let items = function L l -> l | A s -> failwith ("expected list, got " ^ s)
let str x = explode (atom x)
let is_num s = String.length s > 0 && (s.[0] = '-' || (s.[0] >= '0' && s.[0] <= '9'))

let rec expr_of (x : sexp) : expr =
  match x with
  | A "t" -> ETime
  | A s when is_num s -> EConst (q_of_string s)
  | A s -> failwith ("bad expr atom " ^ s)
  | L [A "p"; A k] -> EParam (explode k)
  | L [A "c"; A i] -> EComp (nat_of_int (int_of_string i))
  | L [A "+"; a; b] -> EAdd (expr_of a, expr_of b)
  | L [A "-"; a; b] -> ESub (expr_of a, expr_of b)
  | L [A "*"; a; b] -> EMul (expr_of a, expr_of b)
  | L [A "/"; a; b] -> EDiv (expr_of a, expr_of b)
  | L [A "pw"; xe; L bps; L vals] -> EPiecewise (expr_of xe, List.map expr_of bps, List.map expr_of vals)
  | L [A "lin"; xe; L xs; L ys] -> ELinear (expr_of xe, List.map expr_of xs, List.map expr_of ys)
  | _ -> failwith "bad expr"

let strata_of (x : sexp) : strata =
  List.map (function L [k; v] -> (str k, str v) | _ -> failwith "bad strata") (items x)

let adj_of (x : sexp) : adj option =
  match x with
  | A "none" -> None
  | L [A "mul"; e] -> Some (AMul (expr_of e))
  | L [A "ovr"; e] -> Some (AOvr (expr_of e))
  | _ -> failwith "bad adj"

let kind_of = function
  | "crude_birth" -> KCrude | "replacement_birth" -> KRepl | "importation" -> KImport
  | "death" -> KDeath | "transition" -> KTrans | "absolute" -> KAbs
  | "infection_frequency" -> KInfFreq | "infection_density" -> KInfDens
  | s -> failwith ("bad kind " ^ s)

let string_of_kind = function
  | KCrude -> "crude_birth" | KRepl -> "replacement_birth" | KImport -> "importation"
  | KDeath -> "death" | KTrans -> "transition" | KAbs -> "absolute"
  | KInfFreq -> "infection_frequency" | KInfDens -> "infection_density"

let kv_exprs (x : sexp) = List.map (function L [k; e] -> (str k, expr_of e) | _ -> failwith "bad kv") (items x)
let kv_adjs (x : sexp) = List.map (function L [k; a] -> (str k, adj_of a) | _ -> failwith "bad kadj") (items x)

let flow_of (l : sexp list) : flow_spec =
  match l with
  | [A kind; name; param; src; dst; sf; df; A expected; A split] ->
      FlowSpec (kind_of kind, str name, expr_of param, str src, str dst, strata_of sf, strata_of df,
                (if expected = "none" then None else Some (nat_of_int (int_of_string expected))),
                split = "true")
  | _ -> failwith "bad flow"

let pyval_of (x : sexp) : pyval =
  match x with
  | L [A "num"; A q] -> PyNum (q_of_string q)
  | L [A "graph"; e] -> PyGraph (expr_of e)
  | L [A "str"; s] -> PyStr (str s)
  | L [A "none"] -> PyNone
  | L (A "list" :: qs) -> PyList (List.map (function A q -> q_of_string q | _ -> failwith "bad pylist") qs)
  | _ -> failwith "bad pyval"

let strat_of (l : sexp list) : strat =
  match l with
  | [A kind; name; L strata; L comps; L (A "split" :: split); L (A "fadj" :: fadj); L (A "iadj" :: iadj); L [A "mix"; mix]] ->
      { s_name = str name;
        s_kind = (match kind with "plain" -> SPlain | "age" -> SAge | "strain" -> SStrain | _ -> failwith "bad skind");
        s_strata = List.map str strata; s_comps = List.map str comps;
        s_split = kv_exprs (L split);
        s_fadj = List.map (function L [fname; adjs; sf; df] -> (str fname, ((kv_adjs adjs, strata_of sf), strata_of df))
                                  | _ -> failwith "bad fadj") fadj;
        s_iadj = List.map (function L [c; adjs] -> (str c, kv_adjs adjs) | _ -> failwith "bad iadj") iadj;
        s_mix = (match mix with A "none" -> None
                              | L rows -> Some (List.map (fun r -> List.map expr_of (items r)) rows)) }
  | _ -> failwith "bad strat"

let request_of (x : sexp) : request =
  match x with
  | L [A "flow"; fname; sf; df; A raw] -> RFlow (str fname, strata_of sf, strata_of df, raw = "true")
  | L [A "comp"; L names; filt] -> RComp (List.map str names, strata_of filt)
  | L [A "agg"; L srcs] -> RAgg (List.map str srcs)
  | L [A "cum"; src; A "none"] -> RCum (str src, None)
  | L [A "cum"; src; A st] -> RCum (str src, Some (q_of_string st))
  | L [A "func"; A fn; L srcs; L ps] -> RFunc (nat_of_int (int_of_string fn), List.map str srcs, List.map expr_of ps)
  | L [A "cv"; name] -> RCV (str name)
  | _ -> failwith "bad request"

let op_of (x : sexp) : op =
  match x with
  | L (A "pop" :: kvs) -> OpPop (kv_exprs (L kvs))
  | L (A "arraypop" :: es) -> OpArrayPop (List.map expr_of es)
  | L (A "flow" :: rest) -> OpFlow (flow_of rest)
  | L [A "udeath"; name; e] -> OpUDeath (str name, expr_of e)
  | L (A "flowdyn" :: v :: rest) -> OpFlowDyn (pyval_of v, flow_of rest)
  | L [A "udeathdyn"; name; v] -> OpUDeathDyn (str name, pyval_of v)
  | L (A "strat" :: rest) -> OpStrat (strat_of rest)
  | L [A "rebalance"; sname; filt; props] -> OpRebalance (str sname, strata_of filt, kv_exprs props)
  | L [A "req"; name; A save; r] -> OpRequest (str name, request_of r, save = "true")
  | L (A "whitelist" :: names) -> OpWhitelist (List.map str names)
  | L [A "cv"; name; e] -> OpCV (str name, expr_of e)
  | L [A "finalize"] -> OpFinalize
  | L [A "setdefaults"; L (A "params" :: ps)] ->
      OpSetDefaults (List.map (function L [k; A v] -> (str k, q_of_string v) | _ -> failwith "bad params") ps)
  | _ -> failwith "bad op"

(* ---------------------------------------------------------------- numeric instance *)
(* The Qc instance of the model's numeric interface, with division by zero reported instead
   of returning 0 (Coq's convention): such an observation is outside the domain of the
   properties (the implementation produces nan/inf there) and is skipped by the harness. *)
exception Div_by_zero_in_model

let is_zero (x : Obj.t) = (match (q_this (Obj.magic x)).qnum with Z0 -> true | _ -> false)
let ops : numOps =
  { qcOps with
    fdiv = (fun x y -> if is_zero y then raise Div_by_zero_in_model else qcOps.fdiv x y);
    finv = (fun y -> if is_zero y then raise Div_by_zero_in_model else qcOps.finv y) }
let q_one_step = one_step ops
let q_run_model = run_model ops
let q_initial_population = initial_population ops
let q_env_of = env_of ops

(* ---------------------------------------------------------------- JSON output *)
let jstr s = "\"" ^ s ^ "\""
let jlist f l = "[" ^ String.concat "," (List.map f l) ^ "]"
let jq (x : Obj.t) = jstr (string_of_q (q_this (Obj.magic x)))
let jvec (l : Obj.t list) = jlist jq l
let jcomp (c : comp) = jstr (implode (serialize c))
let jopt f = function None -> "null" | Some x -> f x

let params_of (x : sexp) = List.map (function L [k; A v] -> (str k, q_of_string v) | _ -> failwith "bad params") (items x)
let fvec (x : sexp) : Obj.t list = List.map (fun a -> Obj.magic (q2Qc (q_of_string (atom a)))) (items x)

exception Obs_timeout
let obs_budget = (try int_of_string (Sys.getenv "VERIF_MODEL_OBS_SECONDS") with _ -> 4)
let () = Sys.set_signal Sys.sigalrm (Sys.Signal_handle (fun _ -> raise Obs_timeout))

(* exact rational trajectories of nonlinear models can blow up; such an observation is given a
   time budget and reported as skipped (never as agreeing) when it exceeds it *)
let rec observe (m : model) (x : sexp) : string =
  ignore (Unix.alarm obs_budget);
  let r = (try observe_ m x with
           | Div_by_zero_in_model -> "{\"error\":\"divzero\"}"
           | Obs_timeout -> "{\"error\":\"model-timeout\"}") in
  ignore (Unix.alarm 0); r
and observe_ (m : model) (x : sexp) : string =
  match x with
  | L [A "struct"] ->
      "{\"comps\":" ^ jlist jcomp m.m_comps ^ ",\"flows\":"
      ^ jlist (fun f -> jlist (fun s -> s)
                 [jstr (implode f.f_name); jstr (string_of_kind f.f_kind); jopt jcomp f.f_src; jopt jcomp f.f_dst]) m.m_flows
      ^ ",\"ntimes\":" ^ string_of_int (int_of_nat (num_times m)) ^ "}"
  | L [A "onestep"; L (A "params" :: ps); t; xv] ->
      let env = q_env_of (params_of (L ps)) in
      let t = (match t with A "none" -> None | A s -> Some (Obj.magic (q2Qc (q_of_string s))) | _ -> failwith "bad t") in
      let xv = (match xv with A "none" -> None | l -> Some (fvec l)) in
      (match q_one_step m env t xv with
       | Err w -> "{\"error\":" ^ jstr (implode w) ^ "}"
       | Ok r -> "{\"flow_rates\":" ^ jvec r.sr_flow_rates ^ ",\"comp_rates\":" ^ jvec r.sr_comp_rates
                 ^ ",\"initial_population\":" ^ jvec r.sr_init_pop ^ ",\"infectious_multipliers\":" ^ jvec r.sr_inf_mul ^ "}")
  | L [A "run"; A solver; L (A "params" :: ps)] ->
      let env = q_env_of (params_of (L ps)) in
      let s = (match solver with "euler" -> Euler | "rk4" -> RK4 | _ -> failwith "bad solver") in
      (match q_run_model m s env with
       | Err w -> "{\"error\":" ^ jstr (implode w) ^ "}"
       | Ok r -> "{\"outputs\":" ^ jlist jvec r.rr_outputs ^ ",\"derived\":{"
                 ^ String.concat "," (List.map (fun (k, v) -> jstr (implode k) ^ ":" ^ jvec v) r.rr_derived) ^ "}}")
  | L [A "rkstep"; L (A "params" :: ps); A t; A dt; xv] ->
      (* one Dormand-Prince step of the adaptive solver on this model's right-hand side *)
      let env = q_env_of (params_of (L ps)) in
      (match prepare_structural m with
       | Err w -> "{\"error\":" ^ jstr (implode w) ^ "}"
       | Ok b ->
           let f = (fun t y -> get_comp_rates ops m b env t y) in
           let y0 = (match xv with A "none" -> q_initial_population m env | l -> fvec l) in
           let t0 = Obj.magic (q2Qc (q_of_string t)) in
           let r = rk_step ops (nat_of_int (List.length y0)) f y0 (f t0 y0) t0 (Obj.magic (q2Qc (q_of_string dt))) in
           "{\"y1\":" ^ jvec r.rk_y1 ^ ",\"f1\":" ^ jvec r.rk_f1 ^ ",\"err\":" ^ jvec r.rk_err ^ "}")
  | L [A "initpop"; L (A "params" :: ps)] ->
      let env = q_env_of (params_of (L ps)) in
      "{\"initial_population\":" ^ jvec (q_initial_population m env) ^ "}"
  | L [A "qcomps"; A name; filt; A inf] ->
      (match query_compartments m (if name = "-" then None else Some (explode name)) (strata_of filt) (inf = "true") with
       | Err w -> "{\"error\":" ^ jstr (implode w) ^ "}"
       | Ok cs -> "{\"comps\":" ^ jlist jcomp cs ^ "}")
  | L [A "qflows"; A name; sf; df] ->
      let fl = query_flows m (if name = "-" then None else Some (explode name)) (strata_of sf) (strata_of df) in
      "{\"flows\":" ^ jlist (fun f -> jlist (fun s -> s)
                 [jstr (implode f.f_name); jstr (string_of_kind f.f_kind); jopt jcomp f.f_src; jopt jcomp f.f_dst]) fl ^ "}"
  | L (A "oracle" :: _) -> "{\"oracle\":null}"
  | L (A "history" :: calls) ->
      let solver_of = (function "euler" -> Euler | "rk4" -> RK4 | _ -> failwith "bad solver") in
      let call_of = (function
        | L [A "crun"; A solver; A rb; L (A "params" :: ps)] -> CRun (params_of (L ps), solver_of solver, rb = "true")
        | L [A "cgetrunner"; A solver; dyn; L (A "params" :: ps)] ->
            CGetRunner (params_of (L ps),
                        (match dyn with A "none" -> None | L (A "dyn" :: ns) -> Some (List.map str ns) | _ -> failwith "bad dyn"),
                        solver_of solver)
        | L [A "crunnerrun"; A k; L (A "params" :: ps)] -> CRunnerRun (nat_of_int (int_of_string k), params_of (L ps))
        | L [A "csetdefaults"; L (A "params" :: ps)] -> CSetDefaults (params_of (L ps))
        | _ -> failwith "bad call") in
      let (_, outs) = steps ops (init_api ops m) (List.map call_of calls) in
      "{\"history\":" ^ jlist (function
          | None -> "null"
          | Some (Err w) -> "{\"error\":" ^ jstr (implode w) ^ "}"
          | Some (Ok r) -> "{\"outputs\":" ^ jlist jvec r.rr_outputs ^ ",\"derived\":{"
                 ^ String.concat "," (List.map (fun (k, v) -> jstr (implode k) ^ ":" ^ jvec v) r.rr_derived) ^ "}}") outs ^ "}"
  | _ -> failwith "bad observation"

let run_program (line : string) : string =
  match parse_sexp line with
  | L [A "prog"; L [A "times"; A t0; A t1; A h]; L (A "comps" :: comps); L (A "inf" :: inf);
       L (A "ops" :: ops); L (A "obs" :: obs)] ->
      let (mo, err) = build (q_of_string t0) (q_of_string t1) (q_of_string h)
                        (List.map str comps) (List.map str inf) (List.map op_of ops) in
      (match err, mo with
       | Some (k, w), _ -> "{\"build_error\":" ^ string_of_int (int_of_nat k) ^ ",\"why\":" ^ jstr (implode w) ^ "}"
       | None, Some m -> "{\"build_error\":null,\"obs\":" ^ jlist (fun o -> observe m o) obs ^ "}"
       | None, None -> failwith "impossible")
  | L [A "kernel"; A name; L binds] ->
      (* eager evaluation of a kernel translated into Model/Trace.v's language (property C19) *)
      let k = (match name with
               | "binary_search_sum_ge" -> k_binary_search_sum_ge | "piecewise_constant" -> k_piecewise_constant
               | "linear_curve_at_x" -> k_linear_curve_at_x | "interpolate_linear" -> k_interpolate_linear
               | "clean_compartments" -> k_clean_compartments | _ -> failwith "unknown kernel") in
      let v_of = (function
        | L [x; A "S"; A v] -> (str x, VS (q_of_string v))
        | L [x; A "A"; L vs] -> (str x, VA (List.map (fun a -> q_of_string (atom a)) vs))
        | _ -> failwith "bad kernel binding") in
      let rec jval = (function
        | VS x -> jstr (string_of_q x)
        | VA l -> jlist (fun x -> jstr (string_of_q x)) l
        | VP (a, b) -> "[" ^ jval a ^ "," ^ jval b ^ "]") in
      (match ev (fun _ _ -> None) (nat_of_int 200) (List.map v_of binds) k with
       | Some v -> "{\"kernel\":" ^ jval v ^ "}"
       | None -> "{\"kernel\":null}")
  | _ -> failwith "bad program"

let () =
  try
    while true do
      let line = input_line stdin in
      if String.length line > 0 then begin
        (try print_string (run_program line)
         with Failure w -> print_string ("{\"driver_error\":" ^ jstr w ^ "}")
            | Stack_overflow -> print_string "{\"driver_error\":\"stack overflow\"}");
        print_newline ()
      end
    done
  with End_of_file -> ()
