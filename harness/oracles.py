"""Independent property oracles evaluated on the implementation alone (never on the model).
They are *support*: they search for a concrete failing input (the replay) and widen what is
explored; what is claimed "for all" is what coq/Props/Cnn.v states.  Runs inside the
implementation process (needs the live summer2 objects)."""
import math

import numpy as np

from summer2.adjust import Overwrite

RTOL = 1e-9


def close(a, b, scale=1.0, tol=RTOL):
    if isinstance(a, float) and isinstance(b, float) and (math.isnan(a) or math.isnan(b)):
        return False
    return abs(a - b) <= tol * (1.0 + abs(scale))


def _jarr(a):
    from jax import numpy as jnp
    return jnp.array(np.asarray(a, dtype=float))


def value_of(param, p, t, xc):
    """value of a finalised flow parameter / adjustment parameter at (p, t, cleaned state)"""
    obj = getattr(param, "obj", param)
    if hasattr(obj, "evaluate"):
        return float(np.asarray(obj.evaluate(parameters=p, model_variables={"time": t, "compartment_values": xc},
                                             computed_values={}, graph_locals={})))
    return float(obj)


def flow_weight(f, p, t, xc):
    w = value_of(f.param, p, t, xc)
    for a in f.adjustments:
        v = value_of(a.param, p, t, xc)
        w = v if isinstance(a, Overwrite) else w * v
    return w


def comp_pos(m):
    names = [str(c) for c in m.compartments]
    return {n: i for i, n in enumerate(names)}


def c01(m, runner, p, t, x):
    """per-flow rate laws and inflow-minus-outflow, recomputed from model.flows"""
    r = runner.impl_dict["one_step"](p, t, x)
    fr = np.asarray(r.flow_rates, dtype=float)
    cr = np.asarray(r.comp_rates, dtype=float)
    xc = np.where(np.asarray(x, dtype=float) < 0, 0.0, np.asarray(x, dtype=float))
    pos = comp_pos(m)
    t_ = m.times[0] if t is None else t
    viol, checks = [], 0
    ws = [flow_weight(f, p, t_, xc) for f in m.flows]
    kinds = [type(f).__name__ for f in m.flows]
    pops = [xc[pos[str(f.source)]] if f.source else None for f in m.flows]
    deaths = sum(w * pp for w, k, pp in zip(ws, kinds, pops) if k == "DeathFlow")
    # one_step reports the multipliers of the *raw* state; the rates use the cleaned state
    rm = r if not (np.asarray(x, dtype=float) < 0).any() else runner.impl_dict["one_step"](p, t, _jarr(xc))
    muls = None if rm.infectious_multipliers is None else np.asarray(rm.infectious_multipliers, dtype=float)
    rank = 0
    scale = float(np.abs(fr).max()) if len(fr) else 1.0
    for i, (f, w, k, pp) in enumerate(zip(m.flows, ws, kinds, pops)):
        if k in ("TransitionFlow", "DeathFlow"):
            exp = w * pp
        elif k in ("InfectionFrequencyFlow", "InfectionDensityFlow"):
            exp = w * pp * muls[rank]
            rank += 1
        elif k == "CrudeBirthFlow":
            exp = w * xc.sum()
        elif k in ("ImportFlow", "AbsoluteFlow"):
            exp = w
        elif k == "ReplacementBirthFlow":
            exp = w * deaths
        else:
            continue
        checks += 1
        if not close(float(fr[i]), exp, scale):
            viol.append("flow %d (%s %s): rate %.12g, documented law gives %.12g" % (i, f.name, k, fr[i], exp))
    exp_cr = np.zeros(len(m.compartments))
    for i, f in enumerate(m.flows):
        if f.dest:
            exp_cr[pos[str(f.dest)]] += fr[i]
        if f.source:
            exp_cr[pos[str(f.source)]] -= fr[i]
    for j in range(len(exp_cr)):
        checks += 1
        if not close(float(cr[j]), float(exp_cr[j]), scale):
            viol.append("compartment %d: rate %.12g, inflow-outflow gives %.12g" % (j, cr[j], exp_cr[j]))
    return {"checks": checks, "violations": viol}


def c02(m, runner, p, t, x):
    """total rate = entry - exit, at one state"""
    r = runner.impl_dict["one_step"](p, t, x)
    fr = np.asarray(r.flow_rates, dtype=float)
    cr = np.asarray(r.comp_rates, dtype=float)
    entry = sum(fr[i] for i, f in enumerate(m.flows) if f.dest and not f.source)
    exit_ = sum(fr[i] for i, f in enumerate(m.flows) if f.source and not f.dest)
    scale = float(np.abs(fr).max()) if len(fr) else 1.0
    viol = []
    if not close(float(cr.sum()), float(entry - exit_), scale * max(1, len(fr))):
        viol.append("sum(comp_rates)=%.12g but entry-exit=%.12g" % (cr.sum(), entry - exit_))
    return {"checks": 1, "violations": viol}


def c02_traj(m, o):
    """closed / replacement-only models keep their total along the solved trajectory"""
    from fractions import Fraction
    p = {k: float(Fraction(v)) for k, v in (o.get("params") or {}).items()}
    viol, checks = [], 0
    has_entry = any(f.dest and not f.source for f in m.flows)
    has_exit = any(f.source and not f.dest for f in m.flows)
    only_repl = all(type(f).__name__ == "ReplacementBirthFlow" for f in m.flows if f.dest and not f.source)
    for solver, tol in (("euler", 1e-9), ("rk4", 1e-9), ("solve_ivp", 1e-3)):
        m.run(p, solver=solver, rebuild=True, jit=False)
        tot = np.asarray(m.outputs).sum(axis=1)
        if not np.isfinite(tot).all():
            continue
        conserved = (not has_entry and not has_exit) or (o.get("replacement") and has_entry and only_repl)
        if conserved:
            checks += 1
            drift = float(np.abs(tot - tot[0]).max())
            mag = float(np.abs(np.asarray(m.outputs)).sum(axis=1).max())
            if drift > tol * (1 + mag):
                viol.append("%s: total population drifts by %.6g (start %.6g)" % (solver, drift, tot[0]))
    return {"checks": checks, "violations": viol}


ORACLES = {"c01": c01, "c02": c02}
MODEL_ORACLES = {"c02_traj": c02_traj}


def run_oracle(m, o):
    from fractions import Fraction
    if o["name"] in MODEL_ORACLES:
        return MODEL_ORACLES[o["name"]](m, o)
    p = {k: float(Fraction(v)) for k, v in (o.get("params") or {}).items()}
    runner = m.get_runner(p, jit=False)
    t = None if o.get("t") is None else float(Fraction(o["t"]))
    x = None
    if o.get("x") is not None:
        from jax import numpy as jnp
        x = jnp.array([float(Fraction(v)) for v in o["x"]])
    else:
        x = runner.impl_dict["one_step"](p).initial_population
    return ORACLES[o["name"]](m, runner, p, t, x)
