"""Independent property oracles evaluated on the implementation alone (never on the model).
They are *support*: they search for a concrete failing input (the replay) and widen what is
explored; what is claimed "for all" is what coq/Props/Cnn.v states.  Runs inside the
implementation process (needs the live summer2 objects)."""
import math
import json

import numpy as np

from summer2.adjust import Overwrite

RTOL = 1e-9


def close(a, b, scale=1.0, tol=RTOL):
    if isinstance(a, float) and isinstance(b, float) and (math.isnan(a) or math.isnan(b)):
        return False
    return abs(a - b) <= tol * (1.0 + abs(scale))


def _jarr(a):
    from jax import numpy as jnp
    return jnp.array(np.asarray(a, dtype=float))


def value_of(param, p, t, xc):
    """value of a finalised flow parameter / adjustment parameter at (p, t, cleaned state)"""
    obj = getattr(param, "obj", param)
    if hasattr(obj, "evaluate"):
        return float(np.asarray(obj.evaluate(parameters=p, model_variables={"time": t, "compartment_values": xc},
                                             computed_values={}, graph_locals={})))
    return float(obj)


def flow_weight(f, p, t, xc):
    w = value_of(f.param, p, t, xc)
    for a in f.adjustments:
        v = value_of(a.param, p, t, xc)
        w = v if isinstance(a, Overwrite) else w * v
    return w


def comp_pos(m):
    names = [str(c) for c in m.compartments]
    return {n: i for i, n in enumerate(names)}


def c01(m, runner, p, t, x):
    """per-flow rate laws and inflow-minus-outflow, recomputed from model.flows"""
    r = runner.impl_dict["one_step"](p, t, x)
    fr = np.asarray(r.flow_rates, dtype=float)
    cr = np.asarray(r.comp_rates, dtype=float)
    xc = np.where(np.asarray(x, dtype=float) < 0, 0.0, np.asarray(x, dtype=float))
    pos = comp_pos(m)
    t_ = m.times[0] if t is None else t
    viol, checks = [], 0
    ws = [flow_weight(f, p, t_, xc) for f in m.flows]
    kinds = [type(f).__name__ for f in m.flows]
    pops = [xc[pos[str(f.source)]] if f.source else None for f in m.flows]
    deaths = sum(w * pp for w, k, pp in zip(ws, kinds, pops) if k == "DeathFlow")
    # one_step reports the multipliers of the *raw* state; the rates use the cleaned state
    rm = r if not (np.asarray(x, dtype=float) < 0).any() else runner.impl_dict["one_step"](p, t, _jarr(xc))
    muls = None if rm.infectious_multipliers is None else np.asarray(rm.infectious_multipliers, dtype=float)
    rank = 0
    scale = float(np.abs(fr).max()) if len(fr) else 1.0
    for i, (f, w, k, pp) in enumerate(zip(m.flows, ws, kinds, pops)):
        if k in ("TransitionFlow", "DeathFlow"):
            exp = w * pp
        elif k in ("InfectionFrequencyFlow", "InfectionDensityFlow"):
            exp = w * pp * muls[rank]
            rank += 1
        elif k == "CrudeBirthFlow":
            exp = w * xc.sum()
        elif k in ("ImportFlow", "AbsoluteFlow"):
            exp = w
        elif k == "ReplacementBirthFlow":
            exp = w * deaths
        else:
            continue
        checks += 1
        if not close(float(fr[i]), exp, scale):
            viol.append("flow %d (%s %s): rate %.12g, documented law gives %.12g" % (i, f.name, k, fr[i], exp))
    exp_cr = np.zeros(len(m.compartments))
    for i, f in enumerate(m.flows):
        if f.dest:
            exp_cr[pos[str(f.dest)]] += fr[i]
        if f.source:
            exp_cr[pos[str(f.source)]] -= fr[i]
    for j in range(len(exp_cr)):
        checks += 1
        if not close(float(cr[j]), float(exp_cr[j]), scale):
            viol.append("compartment %d: rate %.12g, inflow-outflow gives %.12g" % (j, cr[j], exp_cr[j]))
    return {"checks": checks, "violations": viol}


def c02(m, runner, p, t, x):
    """total rate = entry - exit, at one state"""
    r = runner.impl_dict["one_step"](p, t, x)
    fr = np.asarray(r.flow_rates, dtype=float)
    cr = np.asarray(r.comp_rates, dtype=float)
    entry = sum(fr[i] for i, f in enumerate(m.flows) if f.dest and not f.source)
    exit_ = sum(fr[i] for i, f in enumerate(m.flows) if f.source and not f.dest)
    scale = float(np.abs(fr).max()) if len(fr) else 1.0
    viol = []
    if not close(float(cr.sum()), float(entry - exit_), scale * max(1, len(fr))):
        viol.append("sum(comp_rates)=%.12g but entry-exit=%.12g" % (cr.sum(), entry - exit_))
    return {"checks": 1, "violations": viol}


def c02_traj(m, o):
    """closed / replacement-only models keep their total along the solved trajectory"""
    from fractions import Fraction
    p = {k: float(Fraction(v)) for k, v in (o.get("params") or {}).items()}
    viol, checks = [], 0
    has_entry = any(f.dest and not f.source for f in m.flows)
    has_exit = any(f.source and not f.dest for f in m.flows)
    only_repl = all(type(f).__name__ == "ReplacementBirthFlow" for f in m.flows if f.dest and not f.source)
    for solver, tol in (("euler", 1e-9), ("rk4", 1e-9), ("solve_ivp", 1e-3)):
        m.run(p, solver=solver, rebuild=True, jit=False)
        tot = np.asarray(m.outputs).sum(axis=1)
        if not np.isfinite(tot).all():
            continue
        conserved = (not has_entry and not has_exit) or (o.get("replacement") and has_entry and only_repl)
        if conserved:
            checks += 1
            drift = float(np.abs(tot - tot[0]).max())
            mag = float(np.abs(np.asarray(m.outputs)).sum(axis=1).max())
            if drift > tol * (1 + mag):
                viol.append("%s: total population drifts by %.6g (start %.6g)" % (solver, drift, tot[0]))
    return {"checks": checks, "violations": viol}


def _contains(strata, filt):
    return all(strata.get(k) == v for k, v in filt.items())


def c13(m, o):
    """query functions vs brute-force 'name equal and strata contain the filter', in model order"""
    viol, checks = [], 0
    for q in o["queries"]:
        filt = dict(q.get("filt") or {})
        if q["kind"] == "comps":
            name = q.get("name")
            exp = [str(c) for c in m.compartments if (name is None or c.name == name) and _contains(c.strata, filt)]
            try:
                got = [str(c) for c in m.query_compartments(({"name": name} if name else {}) | filt)]
            except KeyError:
                got = "KeyError"
                exp = exp if any(c.name == name for c in m.compartments) else "KeyError"
            checks += 1
            if got != exp:
                viol.append("query_compartments(name=%r, %r) = %s, expected %s" % (name, filt, got, exp))
        else:
            name, sf, df = q.get("name"), dict(q.get("sf") or {}), dict(q.get("df") or {})
            exp = [i for i, f in enumerate(m.flows)
                   if (name is None or f.name == name)
                   and (not f.source or _contains(f.source.strata, sf))
                   and (not f.dest or _contains(f.dest.strata, df))]
            try:
                got_f = m.query_flows(name, source=sf or None, dest=df or None)
                got = [i for i, f in enumerate(m.flows) if any(f is g for g in got_f)]
            except Exception as e:  # noqa
                got = "raised %r" % (e,)
            checks += 1
            if got != exp:
                viol.append("query_flows(%r, source=%r, dest=%r) selects flows %s, expected %s" % (name, sf, df, got, exp))
            # BaseFlow.is_match must agree as well
            got2 = [i for i, f in enumerate(m.flows) if name is not None and f.is_match(name, sf, df)]
            if name is not None:
                checks += 1
                if got2 != exp:
                    viol.append("is_match(%r, %r, %r) selects flows %s, expected %s" % (name, sf, df, got2, exp))
    # filter values given as collections and predicates (where the API accepts them: the compartment query, and
    # through it the strata filters of the flows added to a stratified model): per key, the compartment carries the
    # stratification and its stratum is in the collection / satisfies the predicate; the keys are combined with AND
    import random
    rng = random.Random(o.get("seed", 0) + len(m.compartments))
    strata_of = {}
    for c in m.compartments:
        for k, v in c.strata.items():
            strata_of.setdefault(k, [])
            if v not in strata_of[k]:
                strata_of[k].append(v)

    def rich_filter():
        ks = rng.sample(sorted(strata_of), rng.randint(1, min(3, len(strata_of))))
        f, show = {}, {}
        for k in ks:
            vs = rng.sample(strata_of[k], rng.randint(1, len(strata_of[k])))
            kind = rng.choice(["str", "list", "list", "tuple", "set", "pred"])
            if kind == "str":
                f[k], show[k] = vs[0], vs[0]
                vs = vs[:1]
            elif kind == "list":
                f[k], show[k] = list(vs), list(vs)
            elif kind == "tuple":
                f[k], show[k] = tuple(vs), tuple(vs)
            elif kind == "set":
                f[k], show[k] = set(vs), sorted(vs)
            else:
                f[k], show[k] = (lambda x, _vs=tuple(vs): x in _vs), "predicate: in %s" % (sorted(vs),)
            f[k + "#vs"] = set(vs)
        return f, show

    def brute(name, f):
        keys = [k for k in f if not k.endswith("#vs")]
        return [c for c in m.compartments if (name is None or c.name == name)
                and all(k in c.strata and c.strata[k] in f[k + "#vs"] for k in keys)]
    if strata_of:
        for _ in range(o.get("rich", 6)):
            f, show = rich_filter()
            q = {k: v for k, v in f.items() if not k.endswith("#vs")}
            name = rng.choice([None] + sorted({c.name for c in m.compartments}))
            exp = [str(c) for c in brute(name, f)]
            try:
                got = [str(c) for c in m.query_compartments(({"name": name} if name else {}) | q)]
            except Exception as e:  # noqa
                got = "raised %r" % (e,)
            checks += 1
            if got != exp:
                viol.append("query_compartments(name=%r, %r) = %s, expected %s" % (name, show, got, exp))
        if o.get("program") is not None:
            # a transition flow added to the stratified model with such filters on both ends
            import impl
            names_ = sorted({c.name for c in m.compartments})
            for _ in range(o.get("rich_flows", 2)):
                if len(names_) < 2:
                    break
                a_, b_ = rng.sample(names_, 2)
                f, show = rich_filter()
                q = {k: v for k, v in f.items() if not k.endswith("#vs")}
                srcs, dsts = brute(a_, f), brute(b_, f)
                m2, e2, _ = impl.build(dict(o["program"], obs=[]))
                if m2 is None or e2 is not None:
                    break
                before = len(m2.flows)
                try:
                    m2.add_transition_flow("richflow", 0.125, a_, b_, source_strata=dict(q), dest_strata=dict(q))
                    got = [(str(f_.source), str(f_.dest)) for f_ in m2.flows[before:]]
                except Exception as e:  # noqa
                    got = "raised %s" % type(e).__name__
                if len(srcs) == len(dsts) and len(srcs) > 0:
                    exp = [(str(x), str(y)) for x, y in zip(srcs, dsts)]
                elif len(srcs) == 1 or len(dsts) == 1:
                    exp = None if not (srcs and dsts) else [(str(x), str(y)) for x in srcs for y in dsts]
                else:
                    exp = None        # (unequal numbers of matches: refused by the library; not compared)
                if exp is not None and not isinstance(got, str):
                    checks += 1
                    if sorted(got) != sorted(exp):
                        viol.append("add_transition_flow(%s -> %s, source_strata = dest_strata = %r) creates %s, expected %s"
                                    % (a_, b_, show, got[:6], exp[:6]))
    return {"checks": checks, "violations": viol}


def c12(m, o):
    """alignment of outputs with times and compartments; endpoint indices; label distinctness"""
    from fractions import Fraction
    p = {k: float(Fraction(v)) for k, v in (o.get("params") or {}).items()}
    viol, checks = [], 0
    names = [str(c) for c in m.compartments]
    checks += 1
    if len(set(names)) != len(names):
        dup = sorted({n for n in names if names.count(n) > 1})
        viol.append("serialised-name-collision: compartment names are not distinct: %s" % dup)
        return {"checks": checks, "violations": viol}
    t0, t1, h = (float(Fraction(x)) for x in o["times"])
    n = int(round((t1 - t0) / h)) + 1
    checks += 1
    if len(m.times) != n or any(abs(m.times[i] - (t0 + i * h)) > 1e-9 * (1 + abs(t1)) for i in range(min(n, len(m.times)))):
        viol.append("times %s are not start + i*timestep for %d points" % (list(m.times)[:6], n))
    shared = o.get("program") if (o.get("program") or {}).get("shared_strats") else None
    try:
        m.run(p, solver="euler", jit=False, rebuild=True)
    except Exception as e:  # noqa
        if shared is None:
            raise
        import impl
        m3, e3, _ = impl.build(dict(shared, shared_strats=False, obs=[]))
        m3.run(p, solver="euler", jit=False)
        viol.append("the model runs when it is the only user of its Stratification objects, and fails with %s when the same "
                    "objects were also applied to a second model before the run" % repr(e)[:120])
        return {"checks": checks + 1, "violations": viol}
    out = np.asarray(m.outputs)
    if shared is not None:
        # two fresh builds of the definition, one whose Stratification objects are also applied to a second model
        # before the first run, one that keeps them to itself: the same results
        import impl
        m3, e3, _ = impl.build(dict(shared, shared_strats=False, obs=[]))
        m3.run(p, solver="euler", jit=False)
        o3 = np.asarray(m3.outputs)
        ms, es, _ = impl.build(dict(shared, obs=[]))
        checks += 1
        try:
            ms.run(p, solver="euler", jit=False)
            os_ = np.asarray(ms.outputs)
        except Exception as e:  # noqa
            os_ = None
            viol.append("the model runs when it is the only user of its Stratification objects, and fails with %s when the same "
                        "objects were also applied to a second model before the run" % repr(e)[:120])
        if os_ is not None:
            # ... and the objects are applied to (and run in) yet another model between two runs of this one: the second
            # run, on the runner this model has cached, gives the same results again
            from summer2 import CompartmentalModel
            try:
                other = CompartmentalModel([float(m.times[0]), float(m.times[-1])], ["Z0"] + [c for c in reversed(shared["comps"])],
                                           list(shared["inf"]), timestep=float(m.times[1] - m.times[0]))
                other.set_initial_population({c: 10.0 for c in shared["comps"]})
                applied = 0
                for st_ in list(impl._STRATS):
                    try:
                        other.stratify_with(st_)
                        applied += 1
                    except Exception:  # noqa  (a stratification that does not fit the other model)
                        pass
                if applied:
                    checks += 1
                    try:
                        ms.run(p, solver="euler", jit=False)
                        again = np.asarray(ms.outputs)
                        if again.shape != os_.shape or not np.array_equal(again, os_, equal_nan=True):
                            j = int(np.argmax(np.abs(again[0] - os_[0]))) if again.shape == os_.shape else 0
                            viol.append("shared-stratification-layout: after the model's Stratification objects were applied to another "
                                        "model, a second run of this model (same runner) puts %.12g instead of %.12g "
                                        "into column %s of row 0" % (again[0][j] if again.shape == os_.shape else float("nan"),
                                                                    os_[0][j], names[j] if j < len(names) else j))
                    except Exception as e:  # noqa
                        viol.append("shared-stratification-layout: after the model's Stratification objects were applied to another model, "
                                    "a second run of this model fails with %s" % repr(e)[:120])
            except Exception:  # noqa
                pass
        if os_ is not None and (o3.shape != os_.shape or not np.array_equal(o3, os_, equal_nan=True)):
            same = o3.shape == os_.shape
            j = int(np.argmax(np.abs(o3[0] - os_[0]))) if same else 0
            viol.append("the outputs change when the model's Stratification objects are also applied to a second model before the "
                        "run: row 0, column %s holds %.12g instead of %.12g"
                        % (names[j] if j < len(names) else j, os_[0][j] if same else float("nan"), o3[0][j] if same else float("nan")))
    checks += 1
    if out.shape != (len(m.times), len(names)):
        viol.append("outputs shape %s, expected (%d, %d)" % (out.shape, len(m.times), len(names)))
    pos = {nm: i for i, nm in enumerate(names)}
    for i, f in enumerate(m.flows):
        for end in (f.source, f.dest):
            if end:
                checks += 1
                if str(end) not in pos:
                    viol.append("flow %d (%s): endpoint %s is not a compartment of the model" % (i, f.name, end))
                elif end.idx != pos[str(end)]:
                    viol.append("flow %d (%s): endpoint %s claims index %s, is at %d" % (i, f.name, end, end.idx, pos[str(end)]))
    df = m.get_outputs_df()
    checks += 2
    if list(df.columns) != names:
        viol.append("outputs data frame columns %s differ from compartments" % list(df.columns)[:5])
    if len(df.index) != len(m.times) or any(abs(a - b) > 1e-12 for a, b in zip(df.index, m.times)):
        viol.append("outputs data frame index differs from model.times")
    ip = m.get_initial_population(p)
    checks += 2
    if list(ip.index) != names:
        viol.append("initial population labels differ from compartments")
    if np.abs(np.asarray(ip.values, dtype=float) - out[0]).max() > 1e-9 * (1 + np.abs(out[0]).max()):
        viol.append("row 0 of outputs differs from the initial population")
    if o.get("variant_program") is not None:
        # a second model with the same names and another layout, built and run while this one is alive: this one's
        # compartments and flow ends keep their positions
        import impl
        m2, e2, _ = impl.build(dict(o["variant_program"], obs=[]))
        if e2 is None:
            try:
                m2.run(p, solver="euler", jit=False)
            except BaseException as e:  # noqa
                if type(e).__name__ == "ObservationTimeLimit":
                    raise
            checks += 2
            bad = [(i, c.idx) for i, c in enumerate(m.compartments) if c.idx != i]
            if bad:
                viol.append("after another model (same names, other layout) was built, compartments of this model claim positions %s (position, claimed)" % bad[:4])
            for i, f in enumerate(m.flows):
                for end in (f.source, f.dest):
                    if end and str(end) in pos and end.idx != pos[str(end)]:
                        viol.append("after another model was built, flow %d (%s): endpoint %s claims index %s, is at %d" % (i, f.name, end, end.idx, pos[str(end)]))
                        break
            df2 = m.get_outputs_df()
            if list(df2.columns) != names or np.abs(df2.to_numpy() - out).max() > 0:
                viol.append("after another model was built, the outputs data frame of this model changed")
    if o.get("dist") is not None:
        # the columns carry the people of the compartment they are labelled with: per original compartment
        # the columns of row 0 add up to the population the definition gave that compartment
        for nm, e in o["dist"].items():
            want = _pyexpr(e, p, 0.0, None)
            got = float(sum(out[0][i] for i, c in enumerate(m.compartments) if c.name == nm))
            checks += 1
            if abs(got - want) > 1e-9 * (1 + abs(want)):
                viol.append("row 0: the columns labelled %s hold %.12g people, the initial distribution gives %s %.12g" % (nm, got, nm, want))
        for c_ in {c.name for c in m.compartments} - set(o["dist"]):
            got = float(sum(out[0][i] for i, c in enumerate(m.compartments) if c.name == c_))
            checks += 1
            if abs(got) > 1e-9:
                viol.append("row 0: the columns labelled %s hold %.12g people, the initial distribution gives that compartment nobody" % (c_, got))
    return {"checks": checks, "violations": viol}


def c12_dates(m, o):
    """reference dates: labels = ref_date + t days; datetime start/end convert back to the same numbers"""
    from datetime import datetime, timedelta
    import random
    from summer2 import CompartmentalModel
    from summer2.utils import Epoch
    rng = random.Random(o.get("seed", 0))
    viol, checks = [], 0
    for _ in range(o.get("n", 20)):
        ref = datetime(rng.randint(1990, 2030), rng.randint(1, 12), rng.randint(1, 28), rng.randint(0, 23), rng.choice([0, 30]))
        start = rng.randint(-400, 4000) / rng.choice([1, 2, 4])
        nst = rng.randint(1, 12)
        h = rng.choice([1.0, 0.5, 2.0, 0.25])
        end = start + nst * h
        ep = Epoch(ref)
        d0, d1 = ep.number_to_datetime(start), ep.number_to_datetime(end)
        mm = CompartmentalModel([d0, d1], ["A", "B"], ["B"], timestep=h, ref_date=ref)
        checks += 1
        if len(mm.times) != nst + 1 or abs(mm.times[0] - start) > 1e-9 or abs(mm.times[-1] - end) > 1e-9:
            viol.append("datetime times %s..%s convert to %s..%s, expected %s..%s" % (d0, d1, mm.times[0], mm.times[-1], start, end))
        mm.set_initial_population({"A": 10.0, "B": 5.0})
        mm.run(solver="euler", jit=False)
        idx = mm.get_outputs_df().index
        checks += 1
        exp = [ref + timedelta(days=float(t)) for t in mm.times]
        if any(abs((a.to_pydatetime() - b).total_seconds()) > 1e-3 for a, b in zip(idx, exp)) or len(idx) != len(exp):
            viol.append("data frame dates %s differ from ref_date + t days" % list(idx)[:3])
        checks += 1
        back = ep.datetime_to_number(ep.number_to_datetime(start))
        if abs(back - start) > 1e-9:
            viol.append("Epoch round trip %r -> %r" % (start, back))
    return {"checks": checks, "violations": viol}


def c12_grid(m, o):
    """decimal time specifications: whenever the constructor accepts (start, end, timestep), the model times are
    start + k * timestep for k = 0..(end - start) / timestep and the outputs have one row per time"""
    import random
    from fractions import Fraction
    from summer2 import CompartmentalModel
    rng = random.Random(o.get("seed", 0))
    viol, checks, accepted = [], 0, 0
    specs = [(0, 0.3, 0.1), (0, 0.6, 0.2), (0, 0.7, 0.1), (0, 1.2, 0.4), (0, 3.3, 1.1), (0, 0.35, 0.05), (1, 1.3, 0.1),
             (0, 2.1, 0.7), (0, 0.9, 0.3), (2, 2.6, 0.2)]
    for _ in range(o.get("n", 40)):
        dig = rng.choice([1, 1, 2, 3])
        h = Fraction(rng.randint(1, 30), 10 ** dig)
        t0 = Fraction(rng.randint(-50, 200), 10 ** rng.choice([0, 1, dig]))
        k = rng.randint(1, 40)
        specs.append((float(t0), float(t0 + k * h), float(h)))
    for t0, t1, h in specs:
        try:
            mm = CompartmentalModel([t0, t1], ["A", "B"], ["B"], timestep=h)
        except (KeyboardInterrupt, SystemExit):
            raise
        except BaseException:  # noqa
            continue          # refusing a specification is not a misaligned output
        accepted += 1
        n_exact = (Fraction(repr(t1)) - Fraction(repr(t0))) / Fraction(repr(h))
        checks += 1
        if n_exact.denominator != 1:
            viol.append("times (%r, %r) with timestep %r accepted although the timestep does not divide the span" % (t0, t1, h))
            continue
        n = int(n_exact)
        ts = np.asarray(mm.times, dtype=float)
        if len(ts) != n + 1 or np.abs(ts - (t0 + h * np.arange(n + 1))).max() > 1e-9 * (1 + abs(t1)):
            viol.append("times (%r, %r) timestep %r: expected %d model times start + k * timestep, got %d: %s" % (
                t0, t1, h, n + 1, len(ts), ts[:4]))
            continue
        if n <= 60:
            mm.set_initial_population({"A": 10.0, "B": 5.0})
            mm.add_transition_flow("ab", 0.5, "A", "B")
            mm.run(solver="euler", jit=False)
            checks += 1
            if np.asarray(mm.outputs).shape[0] != n + 1 or len(mm.get_outputs_df().index) != n + 1:
                viol.append("times (%r, %r) timestep %r: outputs have %d rows for %d times" % (t0, t1, h, np.asarray(mm.outputs).shape[0], n + 1))
    return {"checks": checks, "violations": viol[:8], "accepted": accepted}


def c07(m, o):
    """fixed-step solvers follow the classical recurrences with step = timestep (re-derived from
    get_comp_rates); row 0 is the initial state"""
    from fractions import Fraction
    from jax import numpy as jnp
    p = {k: float(Fraction(v)) for k, v in (o.get("params") or {}).items()}
    viol, checks = [], 0
    runner = m.get_runner(p, jit=False)
    r0 = runner.impl_dict["one_step"](p)
    f = runner.impl_dict["get_comp_rates"]
    sg, md = r0.static_graph_vals, r0.model_data
    y0 = np.asarray(r0.initial_population, dtype=float)
    h = float(m.timestep)
    ts = np.asarray(m.times, dtype=float)

    def rhs(t, y):
        return np.asarray(f(jnp.array(y), t, sg, md), dtype=float)

    for solver in ("euler", "rk4"):
        m.run(p, solver=solver, rebuild=True, jit=False)
        out = np.asarray(m.outputs, dtype=float)
        if not np.isfinite(out).all():
            continue
        checks += 1
        if np.abs(out[0] - y0).max() > 0:
            viol.append("%s: row 0 differs from the initial population" % solver)
        y = y0.copy()
        for i in range(len(ts) - 1):
            t = ts[i]
            if solver == "euler":
                y = y + h * rhs(t, y)
            else:
                k1 = rhs(t, y)
                k2 = rhs(t + h / 2, y + h / 2 * k1)
                k3 = rhs(t + h / 2, y + h / 2 * k2)
                k4 = rhs(t + h, y + h * k3)
                y = y + h / 6 * (k1 + 2 * k2 + 2 * k3 + k4)
            checks += 1
            scale = 1 + np.abs(y).max()
            if not np.isfinite(y).all():
                break
            if np.abs(out[i + 1] - y).max() > 1e-9 * scale:
                viol.append("%s: row %d = %s, classical update with step %g gives %s" % (
                    solver, i + 1, np.round(out[i + 1], 8)[:4], h, np.round(y, 8)[:4]))
                break
    return {"checks": checks, "violations": viol}


def c07_closed(m, o):
    """closed forms and orders of convergence on models built here (independent of the program)"""
    import math
    from summer2 import CompartmentalModel
    viol, checks = [], 0

    def decay(t0, t1, h, lam, solver, **kw):
        mm = CompartmentalModel([t0, t1], ["I", "R"], ["I"], timestep=h)
        mm.set_initial_population({"I": 100.0})
        mm.add_transition_flow("rec", lam, "I", "R")
        mm.run(solver=solver, jit=False, **kw)
        return mm.times, np.asarray(mm.outputs)[:, 0]

    # a smooth arrival wave much narrower than the output step (default solver, coarse output grids): the outputs are the
    # solution at the output times however far apart they are
    from summer2.parameters import Function, Time
    from jax import numpy as jnp
    for (h_, centre, width) in o.get("pulses2", [(30.0, 58.0, 1.0), (60.0, 47.0, 2.0), (1.0, 58.0, 1.0)]):
        mm = CompartmentalModel([0.0, 120.0], ["S", "R"], ["S"], timestep=h_)
        mm.set_initial_population({"S": 10.0})
        mm.add_importation_flow("arrivals", Function(lambda t, c=centre, w=width: 100.0 * jnp.exp(-((t - c) ** 2) / (2.0 * w * w)), [Time]), "R",
                                split_imports=False)
        mm.run(jit=False)
        got = float(np.asarray(mm.outputs)[-1, 1])
        exact = 100.0 * width * math.sqrt(2 * math.pi) * 0.5 * (math.erf((120.0 - centre) / (width * math.sqrt(2))) - math.erf((0.0 - centre) / (width * math.sqrt(2))))
        checks += 1
        if abs(got - exact) > 20 * 1.4e-4 * (1 + abs(exact)):
            viol.append("default solver, arrivals 100*exp(-(t-%g)^2/(2*%g^2)) into R, output step %g: R(120) = %.6f, exact %.6f"
                        % (centre, width, h_, got, exact))
    for (t0, t1, h, lam) in o["cases"]:
        n = int(round((t1 - t0) / h))
        z = -h * lam
        ts, e = decay(t0, t1, h, lam, "euler")
        checks += 1
        if abs(e[-1] - 100.0 * (1 + z) ** n) > 1e-9 * 100:
            viol.append("rk4-missing-timestep-or-euler: euler decay t=[%g,%g] h=%g lam=%g: I(end)=%.10g, (1-h*lam)^n gives %.10g" % (t0, t1, h, lam, e[-1], 100.0 * (1 + z) ** n))
        ts, r = decay(t0, t1, h, lam, "rk4")
        pz = 1 + z + z * z / 2 + z ** 3 / 6 + z ** 4 / 24
        checks += 1
        if abs(r[-1] - 100.0 * pz ** n) > 1e-9 * 100:
            viol.append("rk4-missing-timestep: rk4 decay t=[%g,%g] h=%g lam=%g: I(end)=%.10g, classical RK4 gives %.10g (exact %.10g)" % (
                t0, t1, h, lam, r[-1], 100.0 * pz ** n, 100.0 * math.exp(-lam * (t1 - t0))))
        # adaptive solver: within a small multiple of its tolerances, for two output grids
        for tol in (1.4e-4, 1.4e-8):
            ts1, a1 = decay(t0, t1, h, lam, "solve_ivp", solver_args={"rtol": tol, "atol": tol})
            exact = 100.0 * np.exp(-lam * (np.asarray(ts1) - t0))
            checks += 1
            err = np.abs(a1 - exact).max()
            if err > 50 * tol * (1 + 100.0):
                viol.append("odeint decay t=[%g,%g] h=%g lam=%g tol=%g: max error %.3g" % (t0, t1, h, lam, tol, err))
            ts2, a2 = decay(t0, t1, h / 4, lam, "solve_ivp", solver_args={"rtol": tol, "atol": tol})
            checks += 1
            if np.abs(a2[::4] - a1).max() > 50 * tol * 101:
                viol.append("odeint depends on the output grid: h=%g vs h=%g differ by %.3g at common times (tol %g)" % (
                    h, h / 4, np.abs(a2[::4] - a1).max(), tol))
    # a coarse output grid over a long span (many internal steps between two output times) must agree with
    # the exact solution and with a fine grid over the same span
    for (t1, hcoarse, lam) in o.get("coarse", [(1200.0, 600.0, 0.002)]):
        ts_c, a_c = decay(0.0, t1, hcoarse, lam, "solve_ivp")
        exact = 100.0 * np.exp(-lam * np.asarray(ts_c))
        checks += 1
        if np.abs(a_c - exact).max() > 50 * 1.4e-4 * 101:
            viol.append("odeint on a coarse output grid t=[0,%g] timestep=%g lam=%g: max error %.4g against the exact solution" % (
                t1, hcoarse, lam, np.abs(a_c - exact).max()))
        # S -> I -> R chain: coarse grid vs fine grid over the same span
        def chain(h):
            mm = CompartmentalModel([0.0, 2000.0], ["S", "I", "R"], ["I"], timestep=h)
            mm.set_initial_population({"S": 1000.0})
            mm.add_transition_flow("a", 0.004, "S", "I")
            mm.add_transition_flow("b", 0.002, "I", "R")
            mm.run(solver="solve_ivp", jit=False)
            return np.asarray(mm.outputs)
        coarse, fine = chain(1000.0), chain(250.0)
        k1, k2 = 0.004, 0.002
        tt = np.array([0.0, 1000.0, 2000.0])
        exact_i = 1000.0 * k1 / (k2 - k1) * (np.exp(-k1 * tt) - np.exp(-k2 * tt))
        checks += 2
        if np.abs(coarse[:, 1] - exact_i).max() > 50 * 1.4e-4 * 1001:
            viol.append("odeint on a coarse output grid (S->I->R, t=[0,2000], timestep=1000): I differs from the exact solution by %.4g" % np.abs(coarse[:, 1] - exact_i).max())
        if np.abs(coarse - fine[::4]).max() > 50 * 1.4e-4 * 1001:
            viol.append("odeint depends on the output grid (S->I->R, timestep 1000 vs 250): max difference %.4g at common times" % np.abs(coarse - fine[::4]).max())
        ts_s, a_s = decay(0.0, 8.0, 4.0, 0.25, "solve_ivp", solver_args={"max_step": 0.01})
        checks += 1
        if np.abs(a_s - 100.0 * np.exp(-0.25 * np.asarray(ts_s))).max() > 50 * 1.4e-4 * 101:
            viol.append("odeint with max_step=0.01 over t=[0,8] timestep=4: max error %.4g" % np.abs(a_s - 100.0 * np.exp(-0.25 * np.asarray(ts_s))).max())
    # caller-supplied tolerances that differ from one another, on compartments far from 1: a linear chain against its
    # closed form, error within a small multiple of atol + rtol * |y|
    for (n_, rtol_, atol_) in o.get("tols", [(1e6, 1e-9, 1e-2), (1e-3, 1e-3, 1e-10), (1e6, 1e-3, 1e-9)]):
        mm = CompartmentalModel([0.0, 4.0], ["S", "I", "R"], ["I"], timestep=0.5)
        mm.set_initial_population({"S": n_})
        mm.add_transition_flow("a", 2.0, "S", "I")
        mm.add_transition_flow("b", 1.5, "I", "R")
        mm.run(solver="solve_ivp", solver_args={"rtol": rtol_, "atol": atol_}, jit=False)
        got = np.asarray(mm.outputs, dtype=float)
        tt = np.asarray(mm.times, dtype=float)
        ex_s = n_ * np.exp(-2.0 * tt)
        ex_i = n_ * 2.0 / (1.5 - 2.0) * (np.exp(-2.0 * tt) - np.exp(-1.5 * tt))
        err = max(np.abs(got[:, 0] - ex_s).max(), np.abs(got[:, 1] - ex_i).max())
        checks += 1
        if err > 200 * (atol_ + rtol_ * n_):
            viol.append("default solver with rtol=%g atol=%g on a chain of size %g: max error %.4g, i.e. %.3g x (atol + rtol x size)"
                        % (rtol_, atol_, n_, err, err / (atol_ + rtol_ * n_)))
    # one model object run with loose, then tight, then loose tolerances (new option dicts each time): every run is
    # within a small multiple of ITS tolerances
    mm = CompartmentalModel([0.0, 10.0], ["A", "B"], ["A"], timestep=0.5)
    mm.set_initial_population({"A": 1000.0})
    mm.add_transition_flow("decay", 0.7, "A", "B")
    exact_ = 1000.0 * np.exp(-0.7 * np.asarray(mm.times, dtype=float))
    for tol in (1e-2, 1e-9, 1e-5, 1e-9):
        mm.run(solver="solve_ivp", solver_args={"rtol": tol, "atol": tol}, jit=False)
        err = np.abs(np.asarray(mm.outputs, dtype=float)[:, 0] - exact_).max()
        checks += 1
        if err > 50 * tol * 1001:
            viol.append("one model object run again with rtol=atol=%g (after runs with other tolerances): max error %.4g against the exact solution, "
                        "bound %.3g" % (tol, err, 50 * tol * 1001))
    # a narrow smooth pulse after a long stretch in which nothing happens (all rates exactly zero): closed form
    # S(T) = S0 exp(-a * integral of the Gaussian), on three output grids
    from summer2.parameters import Function as Fn_, Time as Time_
    from jax import numpy as jnp_
    for (a_, c_, w_, T_) in o.get("pulses", [(0.5, 65.0, 1.0, 100.0), (0.8, 40.5, 0.7, 60.0)]):
        exact_T = 1000.0 * math.exp(-a_ * w_ * math.sqrt(math.pi / 2) * (math.erf((T_ - c_) / (w_ * math.sqrt(2))) - math.erf((0.0 - c_) / (w_ * math.sqrt(2)))))
        for h_ in (1.0, 0.5, 5.0):
            mm = CompartmentalModel([0.0, T_], ["S", "R"], ["S"], timestep=h_)
            mm.set_initial_population({"S": 1000.0})
            mm.add_transition_flow("pulse", Fn_(lambda t, a=a_, c=c_, w=w_: a * jnp_.exp(-((t - c) ** 2) / (2 * w * w)), [Time_]), "S", "R")
            mm.run(solver="solve_ivp", jit=False)
            got = float(np.asarray(mm.outputs)[-1, 0])
            checks += 1
            if abs(got - exact_T) > 50 * 1.4e-4 * 1001:
                viol.append("default solver, pulse of height %g centred at t=%g after a stretch with all rates zero, timestep %g: S(%g) = %.8g, exact %.8g"
                            % (a_, c_, h_, T_, got, exact_T))
    # orders of convergence on a logistic (SI) model
    def si(h, solver):
        mm = CompartmentalModel([0, 4], ["S", "I"], ["I"], timestep=h)
        mm.set_initial_population({"S": 990.0, "I": 10.0})
        mm.add_infection_frequency_flow("inf", 1.2, "S", "I")
        mm.run(solver=solver, jit=False)
        return np.asarray(mm.outputs)[-1, 1]
    exact = 1000.0 / (1 + 99.0 * math.exp(-1.2 * 4))
    for solver, lo, hi in (("euler", 1.6, 2.6), ("rk4", 10.0, 24.0)):
        e1, e2 = abs(si(0.25, solver) - exact), abs(si(0.125, solver) - exact)
        checks += 1
        if not (e2 > 0 and lo <= e1 / e2 <= hi):
            viol.append("%s: error ratio when halving the timestep is %.3g (errors %.3g, %.3g), expected order %s" % (
                solver, e1 / e2 if e2 else float("inf"), e1, e2, "1" if solver == "euler" else "4"))
    return {"checks": checks, "violations": viol}


def c16(m, o):
    """time-function library vs NumPy / pandas definitions, on inputs built here"""
    import random
    import pandas as pd
    from jax import numpy as jnp
    from summer2.functions import time as stf
    from summer2.functions import derived as sfd
    from summer2.functions.util import capture_array
    from summer2.parameters import Parameter, Data, Time
    rng = random.Random(o.get("seed", 0))
    viol, checks = [], 0

    def positions(xs):
        ts = [xs[0] - 1.5, xs[0] - 1e-9, xs[-1] + 1e-9, xs[-1] + 2.0]
        for a in xs:
            ts += [a, a - 1e-7, a + 1e-7]
        for a, b in zip(xs, xs[1:]):
            ts += [(a + b) / 2, a + 0.25 * (b - a)]
        return sorted(ts)

    for case in range(o.get("n", 30)):
        n = rng.randint(2, o.get("maxlen", 7))
        xs = sorted(rng.sample([i / 2 for i in range(-8, 40)], n))
        ys = [rng.randint(-20, 60) / 4 for _ in xs]
        ts = positions(xs)
        form = case % 4
        params = {"y0": ys[0], "x1": xs[1]}
        if form == 0:
            xa, ya = np.array(xs), np.array(ys)
        elif form == 1:
            xa, ya = list(xs), [Parameter("y0")] + ys[1:]
        elif form == 2:
            xa, ya = Data(jnp.array(xs)), Data(jnp.array(ys))
        else:
            xa, ya = [xs[0], Parameter("x1")] + xs[2:], list(ys)
        # linear
        f = stf.get_time_callable(stf.get_linear_interpolation_function(xa, ya), jit_compile=False)
        exp = np.interp(ts, xs, ys)
        got_s = np.array([float(f(t, params)) for t in ts])
        got_v = np.asarray(f(np.array(ts), params), dtype=float)
        checks += 2
        if np.abs(got_s - exp).max() > 1e-9 * (1 + np.abs(exp).max()):
            i = int(np.abs(got_s - exp).argmax())
            viol.append("linear interpolation x=%s y=%s at t=%r: %r, piecewise-linear interpolant gives %r" % (xs, ys, ts[i], got_s[i], exp[i]))
        if np.abs(got_v - exp).max() > 1e-9 * (1 + np.abs(exp).max()):
            viol.append("linear interpolation (vectorised) differs from np.interp for x=%s" % xs)
        # piecewise
        vals = [rng.randint(-20, 60) / 4 for _ in range(n + 1)]
        if form == 1:
            va = [Parameter("y0")] + vals[1:]
            vals_eff = [ys[0]] + vals[1:]
        else:
            va, vals_eff = (np.array(vals) if form == 0 else list(vals)), vals
        fpw = stf.get_time_callable(stf.get_piecewise_function(np.array(xs) if form != 3 else list(xs), va), jit_compile=False)
        exp = np.array([vals_eff[int((t >= np.array(xs)).sum())] for t in ts])
        got = np.array([float(fpw(t, params)) for t in ts])
        checks += 1
        if np.abs(got - exp).max() > 0:
            i = int(np.abs(got - exp).argmax())
            viol.append("piecewise breakpoints=%s values=%s at x=%r: %r, values[#{b<=x}] = %r" % (xs, vals_eff, ts[i], got[i], exp[i]))
        # lists mixing whole-number literals (written as Python ints) with parameters that take non-integer values
        if case % 3 == 0:
            pk, tm = 0.7, 7.5
            fl_ = stf.get_time_callable(stf.get_linear_interpolation_function([0, 10, 20], [0, Parameter("pk"), 0]), jit_compile=False)
            fs_ = stf.get_time_callable(stf.get_sigmoidal_interpolation_function([0, Parameter("tm"), 20], [1, 3, 2]), jit_compile=False)
            fp_ = stf.get_time_callable(stf.get_piecewise_function([5, Parameter("tm")], [1, Parameter("pk"), 3]), jit_compile=False)
            pp = {"pk": pk, "tm": tm}
            checks += 3
            got = [float(fl_(t, pp)) for t in (5.0, 10.0, 15.0)]
            if np.abs(np.array(got) - np.array([pk / 2, pk, pk / 2])).max() > 1e-9:
                viol.append("linear interpolation through [0, Parameter(0.7), 0] (int literals) gives %s at t=5,10,15" % got)
            if abs(float(fs_(tm, pp)) - 3.0) > 1e-9 or abs(float(fs_(7.0, pp)) - 3.0) < 1e-12:
                viol.append("sigmoidal interpolation with the knot [0, Parameter(7.5), 20]: value at 7.5 is %r, at 7.0 %r" % (float(fs_(tm, pp)), float(fs_(7.0, pp))))
            got = [float(fp_(t, pp)) for t in (4.0, 6.0, 7.2, 7.5, 9.0)]
            if got != [1.0, pk, pk, 3.0, 3.0]:
                viol.append("piecewise with breakpoints [5, Parameter(7.5)] and values [1, Parameter(0.7), 3] gives %s at 4, 6, 7.2, 7.5, 9" % got)
        # evenly spaced breakpoints whose step is not a binary fraction (decimal, monthly, literal lists and arrays),
        # evaluated AT the breakpoints (the intervals are left-closed) and beside them
        if case % 3 == 1:
            k_ = rng.randint(3, 12)
            b0_, st_ = rng.choice([1, 1000, 0.3]), rng.choice([0.1, 0.7, 1 / 3, 0.05])
            grids_ = [[j / 10 for j in range(k_)], [0.1 * (j + 1) for j in range(k_)], [2020 + j / 12 for j in range(k_)],
                      [b0_ + j * st_ for j in range(k_)]]
            for gi_, bp_ in enumerate(grids_):
                vals_ = [float(j) for j in range(len(bp_) + 1)]
                for form_ in (list(bp_), np.array(bp_)):
                    fg_ = stf.get_time_callable(stf.get_piecewise_function(form_, list(vals_) if gi_ % 2 else np.array(vals_)), jit_compile=False)
                    xs_ = sorted(list(bp_) + [b_ + 1e-9 for b_ in bp_] + [b_ - 1e-9 for b_ in bp_])
                    exp_ = [vals_[int((x_ >= np.array(bp_)).sum())] for x_ in xs_]
                    got_ = [float(fg_(x_, {})) for x_ in xs_]
                    gv_ = list(np.asarray(fg_(np.array(xs_), {}), dtype=float))
                    checks += 2
                    for x_, g_, e_, v_ in zip(xs_, got_, exp_, gv_):
                        if g_ != e_ or v_ != e_:
                            viol.append("piecewise with evenly spaced breakpoints %s values 0..%d at x=%r: %r (vectorised %r), values[#{b<=x}] = %r"
                                        % ([round(b_, 6) for b_ in bp_[:4]] + ["..."], len(bp_), x_, g_, v_, e_))
                            break
        # one breakpoint
        f1 = stf.get_time_callable(stf.get_piecewise_function([xs[0]], [1.0, 2.0]), jit_compile=False)
        checks += 1
        if [float(f1(xs[0] - 1, {})), float(f1(xs[0], {})), float(f1(xs[0] + 1, {}))] != [1.0, 2.0, 2.0]:
            viol.append("piecewise with one breakpoint %r is not left-closed" % xs[0])
        # another x-axis: a parameter
        fp = stf.get_linear_interpolation_function(np.array(xs), np.array(ys), x_axis=Parameter("u"))
        from computegraph import ComputeGraph
        cg = ComputeGraph(fp).get_callable()
        u = (xs[0] + xs[1]) / 2
        checks += 1
        if abs(float(cg(parameters={"u": u}, model_variables={"time": 99.0})["out"]) - float(np.interp(u, xs, ys))) > 1e-9 * (1 + abs(max(ys, key=abs))):
            viol.append("linear interpolation on a parameter x-axis ignores the x-axis argument")
        # sigmoidal
        for curv in (16.0, 4.0):
            fs = stf.get_time_callable(stf.get_sigmoidal_interpolation_function(xa, ya, curvature=curv), jit_compile=False)
            gs = np.array([float(fs(t, params)) for t in ts])
            checks += 1
            for t, g in zip(ts, gs):
                if t <= xs[0] and abs(g - ys[0]) > 1e-9 * (1 + abs(ys[0])):
                    viol.append("sigmoidal not constant below the first point (t=%r)" % t)
                if t >= xs[-1] and abs(g - ys[-1]) > 1e-9 * (1 + abs(ys[-1])):
                    viol.append("sigmoidal not constant above the last point (t=%r): %r vs %r" % (t, g, ys[-1]))
            at = np.array([float(fs(a, params)) for a in xs])
            if np.abs(at - np.array(ys)).max() > 1e-9 * (1 + np.abs(ys).max()):
                viol.append("sigmoidal (curvature %g) does not pass through the points x=%s y=%s: %s" % (curv, xs, ys, at))
            for (a, b, ya_, yb_) in zip(xs, xs[1:], ys, ys[1:]):
                grid = np.linspace(a, b, 9)
                g = np.array([float(fs(t, params)) for t in grid])
                lo, hi = min(ya_, yb_), max(ya_, yb_)
                if (g < lo - 1e-9).any() or (g > hi + 1e-9).any():
                    viol.append("sigmoidal leaves the range of its neighbours on [%r,%r]" % (a, b))
                d = np.diff(g) * (1 if yb_ >= ya_ else -1)
                if (d < -1e-9).any():
                    viol.append("sigmoidal not monotone on [%r,%r]" % (a, b))
        fsm = stf.get_time_callable(stf.get_sigmoidal_interpolation_function(xa, ya, curvature=1e-3), jit_compile=False)
        g = np.array([float(fsm(t, params)) for t in ts])
        checks += 1
        if np.abs(g - np.interp(ts, xs, ys)).max() > 1e-4 * (1 + np.abs(ys).max()):
            viol.append("sigmoidal with curvature 1e-3 is not close to the linear interpolant (max diff %.3g)" % np.abs(g - np.interp(ts, xs, ys)).max())
        # rolling helpers vs pandas
        series = np.array([rng.randint(-50, 50) / 4 for _ in range(rng.randint(3, 12))])
        for periods in list(range(1, min(4, len(series)))) + [0, -1, -2, -len(series), len(series) + 1]:
            # (zero and negative periods included: pandas.Series.diff takes them)
            try:
                got = np.asarray(sfd.get_rolling_diff(periods)(jnp.array(series)), dtype=float)
            except Exception as e_:  # noqa
                got = np.array([np.inf])
                viol.append("rolling diff periods=%d on %s raised %r" % (periods, series, e_))
                continue
            exp = pd.Series(series).diff(periods).to_numpy()
            checks += 1
            if got.shape != exp.shape or not np.allclose(got, exp, equal_nan=True):
                viol.append("rolling diff periods=%d on %s: %s, pandas gives %s" % (periods, series, got, exp))
        for window in range(1, min(5, len(series)) + 1):
            for fn, name in ((jnp.mean, "mean"), (jnp.max, "max"), (jnp.sum, "sum")):
                got = np.asarray(sfd.get_rolling_reduction(fn, window)(jnp.array(series)), dtype=float)
                exp = getattr(pd.Series(series).rolling(window), name)().to_numpy()
                checks += 1
                if not np.allclose(got, exp, equal_nan=True):
                    viol.append("rolling %s window=%d on %s: %s, pandas gives %s" % (name, window, series, got, exp))
        # a window sees its own entries only: a missing value blanks the windows that contain it and no others (the usual
        # chain difference -> rolling mean starts with NaN), and a large early value does not cost later windows their digits
        if len(series) >= 4 and case % 2 == 0:
            holed = series.copy()
            holed[rng.randrange(0, len(series) - 2)] = np.nan
            wide = np.concatenate([[1e12, -1e12 / 3], np.array([rng.randint(1, 99) / 297 for _ in range(6)])])
            for ser in (holed, wide, np.asarray(sfd.get_rolling_diff(1)(jnp.array(series)), dtype=float)):
                for window in (2, 3):
                    for fn, name in ((jnp.mean, "mean"), (jnp.sum, "sum")):
                        got = np.asarray(sfd.get_rolling_reduction(fn, window)(jnp.array(ser)), dtype=float)
                        exp = np.array([np.nan] * (window - 1) + [getattr(np, name)(ser[i - window + 1: i + 1]) for i in range(window - 1, len(ser))])
                        checks += 1
                        if not np.allclose(got, exp, equal_nan=True, rtol=1e-9, atol=0):
                            viol.append("rolling %s window=%d on %s: %s, each window on its own gives %s" % (name, window, ser, got, exp))
    return {"checks": checks, "violations": viol[:20]}


def _hex(v):
    return [float(x).hex() for x in np.asarray(v, dtype=float).reshape(-1)]


def _rebuild_and_run(prog, p, solver="euler", **runner_kw):
    import impl
    m2, err, why = impl.build(prog)
    if err is not None:
        raise RuntimeError("variant does not build at op %s: %s" % (err, why))
    m2.run(p, solver=solver, jit=False, rebuild=True)
    return m2


def c14(m, o):
    """whitelists, save flags, declaration orders and the full-outputs switch only remove entries"""
    import itertools
    import random
    from fractions import Fraction
    prog = o["program"]
    p = {k: float(Fraction(v)) for k, v in (o.get("params") or {}).items()}
    rng = random.Random(o.get("seed", 0))
    viol, checks = [], 0
    ops = prog["ops"]
    if o.get("ratio"):
        # a function output with non-finite entries (a ratio whose denominator vanishes at the first time) and a
        # cumulative output that consumes it: pruning / not saving the ratio must not change what the consumer sees
        have = [x["name"] for x in ops if x["op"] == "req"]
        wl_ = [x for x in ops if x["op"] == "whitelist"]
        ops = [x for x in ops if x["op"] != "whitelist"] + \
              [{"op": "req", "name": "rt", "save": True, "req": {"type": "func", "fn": 3, "sources": [have[0], have[-1]], "params": []}},
               {"op": "req", "name": "crt", "save": True, "req": {"type": "cum", "source": "rt", "start": None}}] + wl_
        prog = dict(prog, ops=ops)
    req_idx = [i for i, x in enumerate(ops) if x["op"] == "req"]
    names = [ops[i]["name"] for i in req_idx]
    base_ops = [dict(x, save=True) if x["op"] == "req" else x for x in ops if x["op"] != "whitelist"]
    base = _rebuild_and_run(dict(prog, ops=base_ops), p)
    D = {k: _hex(v) for k, v in base.derived_outputs.items()}
    if sorted(D) != sorted(names):
        viol.append("full evaluation returns %s, requested %s" % (sorted(D), sorted(names)))
    subsets = [list(c) for r in range(1, len(names) + 1) for c in itertools.combinations(names, r)]
    if not o.get("exhaustive") and len(subsets) > 10:
        subsets = rng.sample(subsets, 10)
    for W in subsets:
        v = _rebuild_and_run(dict(prog, ops=base_ops + [{"op": "whitelist", "names": W}]), p)
        checks += 1
        got = {k: _hex(x) for k, x in v.derived_outputs.items()}
        if sorted(got) != sorted(W):
            viol.append("whitelist %s returns keys %s" % (W, sorted(got)))
        for k in W:
            if k in got and got[k] != D.get(k):
                viol.append("whitelist %s changes the value of %s" % (W, k))
    flags = list(itertools.product([True, False], repeat=len(names)))
    if not o.get("exhaustive") and len(flags) > 8:
        flags = rng.sample(flags, 8)
    for fl in flags:
        fops, j = [], 0
        for x in base_ops:
            if x["op"] == "req":
                fops.append(dict(x, save=fl[j]))
                j += 1
            else:
                fops.append(x)
        v = _rebuild_and_run(dict(prog, ops=fops), p)
        checks += 1
        got = {k: _hex(x) for k, x in v.derived_outputs.items()}
        exp = [n for n, f in zip(names, fl) if f]
        if sorted(got) != sorted(exp):
            viol.append("save flags %s return keys %s, expected %s" % (fl, sorted(got), sorted(exp)))
        for k in got:
            if got[k] != D.get(k):
                viol.append("save flags %s change the value of %s" % (fl, k))
    # declaration orders consistent with the dependencies
    deps = {}
    for i in req_idx:
        r = ops[i]["req"]
        deps[ops[i]["name"]] = list(r.get("sources", [])) + ([r["source"]] if "source" in r else [])
    perms = []
    for perm in itertools.permutations(range(len(names))):
        order = [names[i] for i in perm]
        if all(order.index(d) < order.index(n) for n in order for d in deps[n] if d in order):
            perms.append(order)
        if len(perms) > (120 if o.get("exhaustive") else 6):
            break
    non_req = [x for x in base_ops if x["op"] != "req"]
    byname = {x["name"]: x for x in base_ops if x["op"] == "req"}
    for order in perms[1:]:
        v = _rebuild_and_run(dict(prog, ops=non_req + [byname[n] for n in order]), p)
        checks += 1
        got = {k: _hex(x) for k, x in v.derived_outputs.items()}
        for k in got:
            if got[k] != D.get(k):
                viol.append("declaration order %s changes the value of %s" % (order, k))
    # omitting the full compartment outputs
    import impl
    m3, _, _ = impl.build(dict(prog, ops=base_ops))
    # (ModelResults.run is the AuTuMN wrapper and expects the full outputs; the runner function is the API here)
    res = m3.get_runner(p, jit=False, include_full_outputs=False, solver="euler").function(parameters=p)
    checks += 1
    if "outputs" in res:
        viol.append("include_full_outputs=False still returns the outputs")
    for k, x in res["derived_outputs"].items():
        if _hex(x) != D.get(k):
            viol.append("include_full_outputs=False changes the value of %s" % k)
    # a whitelist set between two runs of one object (the documented use: fewer outputs for calibration, more later)
    names_ = list(D)
    if len(names_) >= 2:
        m5, _, _ = impl.build(dict(prog, ops=base_ops))
        checks += 1
        try:
            m5.run(p, solver="euler", jit=False)
            keep_ = names_[: max(1, len(names_) // 2)]
            m5.set_derived_outputs_whitelist(list(keep_))
            m5.run(p, solver="euler", jit=False)
            got5 = {k: _hex(v) for k, v in m5.derived_outputs.items()}
            if set(got5) != set(keep_):
                viol.append("whitelist-after-run: a whitelist %s set after a first run is not applied by the next run: it returns %s"
                            % (keep_[:3], sorted(got5)[:5]))
            elif any(got5[k] != D.get(k) for k in got5):
                viol.append("whitelist-after-run: a whitelist set after a first run changes the values of the kept outputs")
            m5.set_derived_outputs_whitelist(list(names_))
            m5.run(p, solver="euler", jit=False)
            got6 = {k: _hex(v) for k, v in m5.derived_outputs.items()}
            if set(got6) != set(names_) or any(got6[k] != D.get(k) for k in got6):
                viol.append("whitelist-after-run: widening the whitelist again does not bring the other outputs back unchanged")
        except Exception as e:  # noqa
            if type(e).__name__ == "ObservationTimeLimit":
                raise
            viol.append("whitelist-after-run: raises %s" % repr(e)[:80])
    # ... and through model.run / runner.run: the derived outputs are returned, with the same values
    for via in ("model.run", "runner.run"):
        m4, _, _ = impl.build(dict(prog, ops=base_ops))
        checks += 1
        try:
            if via == "model.run":
                m4.run(p, solver="euler", jit=False, include_full_outputs=False)
            else:
                m4.get_runner(p, jit=False, include_full_outputs=False, solver="euler").run(p)
            got4 = {k: _hex(v) for k, v in m4.derived_outputs.items()}
            bad4 = [k for k in got4 if got4[k] != D.get(k)]
            if bad4 or set(got4) != set(res["derived_outputs"]):
                viol.append("no-full-outputs: %s with include_full_outputs=False returns other derived outputs (%s)" % (via, bad4[:3]))
        except Exception as e:  # noqa
            if type(e).__name__ == "ObservationTimeLimit":
                raise
            viol.append("no-full-outputs: %s with include_full_outputs=False raises %s instead of returning the derived outputs" % (via, repr(e)[:80]))
    return {"checks": checks, "violations": viol[:12]}


def _pyexpr(e, p, t, xc):
    """plain-Python evaluation of a program expression (used for computed values)"""
    from fractions import Fraction
    if isinstance(e, str):
        return t if e == "t" else float(Fraction(e))
    (k, v), = e.items()
    if k == "p":
        return p[v]
    if k == "c":
        return xc[min(int(v), len(xc) - 1)]
    if k == "pw":
        xv = _pyexpr(v[0], p, t, xc)
        bps = [_pyexpr(b, p, t, xc) for b in v[1]]
        vals = [_pyexpr(b, p, t, xc) for b in v[2]]
        return vals[min(sum(1 for b in bps if b <= xv), len(vals) - 1)]
    if k == "lin":
        xv = _pyexpr(v[0], p, t, xc)
        return float(np.interp(xv, [_pyexpr(b, p, t, xc) for b in v[1]], [_pyexpr(b, p, t, xc) for b in v[2]]))
    a, b = _pyexpr(v[0], p, t, xc), _pyexpr(v[1], p, t, xc)
    return {"+": a + b, "-": a - b, "*": a * b, "/": a / b if b else float("nan")}[k]


def c08(m, o):
    """every derived output recomputed from its definition on the solved trajectory"""
    from fractions import Fraction
    from jax import numpy as jnp
    p = {k: float(Fraction(v)) for k, v in (o.get("params") or {}).items()}
    viol, checks = [], 0
    solver = o.get("solver", "euler")
    if o.get("extra") and o.get("program"):
        # requests outside the model's function library (a ratio with non-finite entries and outputs chained on it):
        # implementation side only, on a model built here
        import impl
        prog_ = o["program"]
        wl_ = [x for x in prog_["ops"] if x["op"] == "whitelist"]
        ops_ = [x for x in prog_["ops"] if x["op"] != "whitelist"] + [dict(x, op="req") for x in o["extra"]] + wl_
        m, err_, why_ = impl.build(dict(prog_, ops=ops_, obs=[]))
        if err_ is not None:
            return {"checks": 0, "violations": ["c08: the program with the extra requests does not build: %s" % why_]}
        o = dict(o, reqs=list(o["reqs"]) + [{"name": x["name"], "req": x["req"], "save": x.get("save", True)} for x in o["extra"]])
    if o.get("prior_params"):
        # the runner is built and run with other parameter values first: the outputs of the second run
        # must be the definitions applied with the parameters of the second run
        p_prior = {k: float(Fraction(v)) for k, v in o["prior_params"].items()}
        m.run(p_prior, solver=solver, jit=False, rebuild=True)
        m.run(p, solver=solver, jit=False)
    else:
        m.run(p, solver=solver, jit=False, rebuild=True)
    out = np.asarray(m.outputs, dtype=float)
    D = {k: np.asarray(v, dtype=float) for k, v in m.derived_outputs.items()}
    if not np.isfinite(out).all():
        return {"checks": 0, "violations": []}
    runner = m.get_runner(p, jit=False)
    ts = np.asarray(m.times, dtype=float)
    rates = np.array([np.asarray(runner.impl_dict["one_step"](p, float(t), jnp.array(row)).flow_rates, dtype=float)
                      for t, row in zip(ts, out)])
    vals = {}
    whitelist = o.get("whitelist")
    for rq in o["reqs"]:
        name, r = rq["name"], rq["req"]
        t_ = r["type"]
        if t_ == "comp":
            idx = [i for i, c in enumerate(m.compartments) if c.name in r["names"] and _contains(c.strata, r.get("filt") or {})]
            v = out[:, idx].sum(axis=1)
        elif t_ == "flow":
            idx = [i for i, f in enumerate(m.flows) if f.name == r["flow_name"]
                   and (not f.source or _contains(f.source.strata, r.get("sf") or {}))
                   and (not f.dest or _contains(f.dest.strata, r.get("df") or {}))]
            raw = rates[:, idx].sum(axis=1) if idx else np.zeros(len(ts))
            if r.get("raw"):
                v = raw
            else:
                v = raw.copy()
                v[1:] = (raw[1:] + raw[:-1]) * 0.5
        elif t_ == "agg":
            v = sum(vals[s_] for s_ in r["sources"])
        elif t_ == "cum":
            src = vals[r["source"]]
            if r.get("start") is None:
                v = np.cumsum(src)
            else:
                st = float(Fraction(r["start"]))
                k = int(np.where(ts == st)[0][0])
                v = np.zeros(len(ts))
                v[k:] = np.cumsum(src[k:])
        elif t_ == "func":
            srcs = [vals[s_] for s_ in r["sources"]]
            ps = [_pyexpr(e, p, 0.0, []) for e in r.get("params", [])]
            fn = int(r["fn"])
            if fn == 3:
                with np.errstate(all="ignore"):
                    v = srcs[0] / (srcs[1] - srcs[1][0])
            else:
                v = ps[0] * srcs[0] if fn == 0 else (srcs[0] + ps[0] * srcs[1] if fn == 1 else srcs[0] * srcs[1])
        elif t_ == "cv":
            e = o["cvs"][r["name"]]
            v = np.array([_pyexpr(e, p, float(t), np.where(row < 0, 0.0, row)) for t, row in zip(ts, out)])
        else:
            continue
        vals[name] = np.asarray(v, dtype=float)
        if name in D:
            checks += 1
            fin = np.isfinite(vals[name])
            scale = 1 + (np.abs(vals[name][fin]).max() if fin.any() else 0.0)
            same_holes = D[name].shape == vals[name].shape and np.array_equal(np.isnan(D[name]), np.isnan(vals[name])) \
                and np.array_equal(np.isposinf(D[name]), np.isposinf(vals[name])) and np.array_equal(np.isneginf(D[name]), np.isneginf(vals[name]))
            if not same_holes or (fin.any() and np.abs(D[name][fin] - vals[name][fin]).max() > 1e-8 * scale):
                viol.append("derived output %s (%s) = %s, its definition gives %s" % (name, t_, np.round(D[name], 8)[:5], np.round(vals[name], 8)[:5]))
    expected_keys = whitelist if whitelist else [rq["name"] for rq in o["reqs"] if rq.get("save", True)]
    checks += 1
    if sorted(D) != sorted(expected_keys):
        viol.append("returned keys %s, expected %s" % (sorted(D), sorted(expected_keys)))
    return {"checks": checks, "violations": viol[:10]}


from progutil import subst_prog as _subst_prog, params_in as _params_in  # noqa: E402


def c09(m, o):
    """literal vs parameter builds, every dyn/frozen partition, defaults, reported input parameters"""
    import itertools
    import impl
    from fractions import Fraction
    prog = o["program"]
    vals = o["params"]
    p = {k: float(Fraction(v)) for k, v in vals.items()}
    viol, checks = [], 0
    solver = o.get("solver", "euler")

    def outs(model):
        return np.asarray(model.outputs, dtype=float), {k: np.asarray(v, dtype=float) for k, v in model.derived_outputs.items()}

    def same(a, b, what):
        (oa, da), (ob, db) = a, b
        if not np.isfinite(oa).all():
            return
        scale = 1 + np.abs(oa).max()
        if oa.shape != ob.shape or np.abs(oa - ob).max() > 1e-9 * scale:
            viol.append("%s: outputs differ by %.3g" % (what, np.abs(oa - ob).max() if oa.shape == ob.shape else -1))
        for k in da:
            if k not in db or np.abs(da[k] - db[k]).max() > 1e-9 * (1 + np.abs(da[k]).max()):
                viol.append("%s: derived output %s differs" % (what, k))

    used = sorted(_params_in(prog["ops"], set()))
    m.run(p, solver=solver, jit=False, rebuild=True)
    ref = outs(m)
    # 1. literal build
    lit, err, why = impl.build(_subst_prog(dict(prog, obs=[]), vals))
    checks += 1
    if err is not None:
        # literal splits are validated (must sum to one), parameterised ones are not: out of the domain
        pass
    else:
        lit.run({}, solver=solver, jit=False, rebuild=True)
        same(ref, outs(lit), "literal values instead of named parameters")
    # 2. reported input parameters
    checks += 1
    reported = sorted(m.get_input_parameters())
    if not set(reported) <= set(used):
        viol.append("get_input_parameters() = %s reports parameters that do not occur in the definition %s" % (reported, used))
    # a parameter that occurs but is not reported (e.g. in an adjustment that a later Overwrite replaces)
    # must be neither needed nor able to influence the results
    for k in sorted(set(used) - set(reported)):
        m0, _, _ = impl.build(dict(prog, obs=[]))
        checks += 1
        try:
            m0.run({q: v for q, v in p.items() if q != k}, solver=solver, jit=False)
            same(ref, outs(m0), "omitting the unreported parameter %s" % k)
        except BaseException as e:  # noqa
            viol.append("parameter %s is not reported by get_input_parameters() but running without it raises %r" % (k, e))
    used = reported
    # 3. every partition into build-time-fixed and run-time-supplied
    subsets = [list(c) for r in range(len(used) + 1) for c in itertools.combinations(used, r)]
    for dyn in subsets[: (64 if o.get("exhaustive") else 8)]:
        m2, _, _ = impl.build(dict(prog, obs=[]))
        base = {k: v for k, v in p.items() if k not in dyn}
        try:
            r = m2.get_runner(base, dyn_params=dyn, jit=False, solver=solver)
            r.run({k: p[k] for k in dyn})
        except BaseException as e:  # noqa
            viol.append("partition dyn=%s raises %r" % (dyn, e))
            continue
        checks += 1
        same(ref, outs(m2), "partition dyn=%s" % dyn)
    # 3b. a runner built with other values for the dynamic parameters: the run-time values are the ones that count
    other = {k: v * 2 + 0.5 for k, v in p.items()}
    for dyn in ([None] + subsets[1: (64 if o.get("exhaustive") else 4)]):
        m2, _, _ = impl.build(dict(prog, obs=[]))
        dn = used if dyn is None else dyn
        base = {k: (other[k] if k in dn else v) for k, v in p.items()}
        try:
            r = m2.get_runner(base, jit=False, solver=solver, **({} if dyn is None else {"dyn_params": dyn}))
            r.run({k: p[k] for k in dn})
        except BaseException as e:  # noqa
            viol.append("runner built with other values, dyn=%s raises %r" % (dyn, e))
            continue
        checks += 1
        same(ref, outs(m2), "runner built with other values for the dynamic parameters %s" % (dn,))
    # 3c. the same partitions on a model whose default parameters hold other values: what was fixed when the runner was
    #     built is fixed for the whole run (rates and derived outputs alike); the defaults only fill in what is missing
    wrong_d = {k: v * 3 + 1 for k, v in p.items()}
    for dyn in subsets[: (64 if o.get("exhaustive") else 6)]:
        if len(dyn) == len(used):
            continue
        m2, _, _ = impl.build(dict(prog, obs=[]))
        m2.set_default_parameters(dict(wrong_d))
        base = {k: v for k, v in p.items() if k not in dyn}
        try:
            r = m2.get_runner(base, dyn_params=dyn, jit=False, solver=solver)
            r.run({k: p[k] for k in dyn})
        except BaseException as e:  # noqa
            viol.append("partition dyn=%s on a model with other default values raises %r" % (dyn, e))
            continue
        checks += 1
        same(ref, outs(m2), "partition dyn=%s, the other parameters fixed at build time, on a model whose defaults hold other values" % dyn)
    # 4. defaults fill in omitted values; supplied values win
    if used:
        m3, _, _ = impl.build(dict(prog, obs=[]))
        wrong = {k: v * 3 + 1 for k, v in p.items()}
        half = used[: max(1, len(used) // 2)]
        m3.set_default_parameters({**{k: wrong[k] for k in half}, **{k: p[k] for k in used if k not in half}})
        m3.run({k: p[k] for k in half}, solver=solver, jit=False)
        checks += 1
        same(ref, outs(m3), "defaults for %s, supplied %s" % ([k for k in used if k not in half], half))
        # defaults + a first run that omits some values + a second run on the same object that supplies them
        m5, _, _ = impl.build(dict(prog, obs=[]))
        m5.set_default_parameters(dict(wrong))
        try:
            m5.run({k: p[k] for k in used if k not in half}, solver=solver, jit=False)
            m5.run({k: p[k] for k in used}, solver=solver, jit=False)
            checks += 1
            same(ref, outs(m5), "second run of one object, supplying values the first run took from the defaults")
        except BaseException as e:  # noqa
            viol.append("runs over default parameters raise %r" % (e,))
        # one runner called several times: a call that omits what an earlier call supplied takes the defaults again
        for via_model in (False, True):
            m6, _, _ = impl.build(dict(prog, obs=[]))
            m6.set_default_parameters({k: p[k] for k in used})
            try:
                if via_model:
                    m6.run({}, solver=solver, jit=False)
                    m6.run({k: wrong[k] for k in half}, solver=solver, jit=False)
                    m6.run({}, solver=solver, jit=False)
                else:
                    r6 = m6.get_runner({}, jit=False, solver=solver)
                    r6.run({})
                    r6.run({k: wrong[k] for k in half})
                    r6.run({})
                checks += 1
                same(ref, outs(m6), "%s called with {}, then with other values for %s, then with {} again: the defaults count again"
                     % ("model.run" if via_model else "one runner", half))
            except BaseException as e:  # noqa
                if type(e).__name__ == "ObservationTimeLimit":
                    raise
                viol.append("repeated calls of one runner over default parameters raise %r" % (e,))
        m4, _, _ = impl.build(dict(prog, obs=[]))
        m4.set_default_parameters({k: p[k] for k in used})
        r4 = m4.get_runner({}, dyn_params=half, jit=False, solver=solver)
        r4.run({k: p[k] for k in half})
        checks += 1
        same(ref, outs(m4), "defaults-not-merged: frozen parameters taken from the defaults in get_runner")
    return {"checks": checks, "violations": viol[:10]}


def c10(m, o):
    """no stale values: a runner evaluated at a sequence of (t, x) points gives, at each point, what a
    freshly built model gives there; raw flow outputs and computed values along a trajectory equal the
    one_step values at (times[i], outputs[i])"""
    import impl
    from fractions import Fraction
    from jax import numpy as jnp
    p = {k: float(Fraction(v)) for k, v in (o.get("params") or {}).items()}
    viol, checks = [], 0
    runner = m.get_runner(p, jit=False)
    pts = [(float(Fraction(t)), [float(Fraction(v)) for v in x]) for t, x in o["points"]]
    seq = [np.asarray(runner.impl_dict["one_step"](p, t, jnp.array(x)).flow_rates, dtype=float) for t, x in pts]
    for (t, x), got in zip(pts, seq):
        fresh, _, _ = impl.build(dict(o["program"], obs=[]))
        r2 = fresh.get_runner(p, jit=False)
        exp = np.asarray(r2.impl_dict["one_step"](p, t, jnp.array(x)).flow_rates, dtype=float)
        checks += 1
        if got.shape != exp.shape or not np.array_equal(np.nan_to_num(got), np.nan_to_num(exp)):
            viol.append("one_step at t=%r after other evaluations differs from a fresh runner: %s vs %s" % (t, got[:4], exp[:4]))
    # along a trajectory
    m.run(p, solver=o.get("solver", "euler"), jit=False, rebuild=True)
    out = np.asarray(m.outputs, dtype=float)
    if np.isfinite(out).all():
        res = m._runner.function(parameters={**(m.get_default_parameters() or {}), **p})
        runner = m.get_runner(p, jit=False)
        # every stage of every step reads the inputs at the time and state of that stage: the rows are the classical
        # update formed from one_step rates at (t_i, y_i), (t_i + h/2, .), (t_i + h, .)
        f_ = lambda t_, y_: np.asarray(runner.impl_dict["one_step"](p, float(t_), jnp.array(y_)).comp_rates, dtype=float)
        h_ = float(m.timestep)
        for i in range(len(out) - 1):
            t_i, y_i = float(m.times[i]), out[i]
            if o.get("solver", "euler") == "euler":
                nxt = y_i + h_ * f_(t_i, y_i)
            else:
                k1 = f_(t_i, y_i)
                k2 = f_(t_i + h_ / 2, y_i + h_ / 2 * k1)
                k3 = f_(t_i + h_ / 2, y_i + h_ / 2 * k2)
                k4 = f_(t_i + h_, y_i + h_ * k3)
                nxt = y_i + h_ / 6 * (k1 + 2 * k2 + 2 * k3 + k4)
            checks += 1
            if not np.isfinite(nxt).all():
                break
            if np.abs(nxt - out[i + 1]).max() > 1e-8 * (1 + np.abs(nxt).max()):
                j_ = int(np.abs(nxt - out[i + 1]).argmax())
                viol.append("%s row %d (t=%r): compartment %d is %.12g, the step from row %d with the inputs read at the stage times "
                            "gives %.12g" % (o.get("solver", "euler"), i + 1, float(m.times[i + 1]), j_, out[i + 1][j_], i, nxt[j_]))
                break
        for i, (t, row) in enumerate(zip(m.times, out)):
            fr = np.asarray(runner.impl_dict["one_step"](p, float(t), jnp.array(row)).flow_rates, dtype=float)
            for rq in o.get("raw_flows", []):
                idx = [j for j, f in enumerate(m.flows) if f.name == rq["flow_name"]]
                checks += 1
                val = np.asarray(m.derived_outputs[rq["name"]], dtype=float)[i]
                if abs(val - fr[idx].sum()) > 1e-9 * (1 + abs(val)):
                    viol.append("raw flow output %s at row %d (t=%r) = %r, rate at the current time and state = %r" % (rq["name"], i, t, val, fr[idx].sum()))
            for name, e in (o.get("cvs") or {}).items():
                if name in m.derived_outputs:
                    checks += 1
                    val = float(np.asarray(m.derived_outputs[name])[i])
                    exp = _pyexpr(e, p, float(t), np.where(row < 0, 0.0, row))
                    if abs(val - exp) > 1e-9 * (1 + abs(exp)):
                        viol.append("computed value %s at row %d = %r, evaluated at the current time and state = %r" % (name, i, val, exp))
    return {"checks": checks, "violations": viol[:10]}


def _strip(c, sname):
    if c is None:
        return None
    return (c.name, tuple((k, v) for k, v in c.strata.items() if k != sname))


def _ident(c):
    return None if c is None else (c.name, tuple(c.strata.items()))


def c04(m, o):
    """the last stratification of the program: copies and their weights recomputed from the documented rules,
    starting from the model built without that stratification"""
    import impl
    from fractions import Fraction
    prog = o["program"]
    p = {k: float(Fraction(v)) for k, v in (o.get("params") or {}).items()}
    t = float(Fraction(o.get("t", "1")))
    viol, checks = [], 0
    ops = prog["ops"]
    last = max(i for i, x in enumerate(ops) if x["op"] == "strat")
    st = ops[last]
    before, err, why = impl.build(dict(prog, ops=ops[:last] + [x for x in ops[last + 1:] if x["op"] == "pop"], obs=[]))
    after, err2, why2 = impl.build(dict(prog, ops=ops[:last + 1], obs=[]))
    if err is not None or err2 is not None:
        return {"checks": 0, "violations": []}
    before.finalize()
    after.finalize()
    nb = len(before.compartments)
    na = len(after.compartments)
    xb, xa = np.linspace(1.0, 2.0, nb), np.linspace(1.0, 2.0, na)
    strata = [str(s_) for s_ in st["strata"]]
    if st["kind"] == "age":
        strata = [str(v) for v in sorted(int(s_) for s_ in strata)]
    n = len(strata)
    scomps = set(st["comps"])
    sname = st["name"]
    declared = {}
    for fn, adjs, sf, df in st.get("fadj", []):
        declared.setdefault(fn, []).append((adjs, sf or {}, df or {}))
    expected = []
    for f in before.flows:
        kind = type(f).__name__
        w = flow_weight(f, p, t, xb)
        src_s = bool(f.source) and f.source.name in scomps
        dst_s = bool(f.dest) and f.dest.name in scomps
        entry, exit_ = (f.source is None), (f.dest is None)
        aff = dst_s if entry else (src_s if exit_ else (src_s or dst_s))
        if not aff:
            expected.append((f.name, kind, _ident(f.source), _ident(f.dest), w))
            continue
        user = None
        for adjs, sf, df in declared.get(f.name, []):
            if (not sf or not f.source or _contains(f.source.strata, sf)) and (not df or not f.dest or _contains(f.dest.strata, df)):
                user = adjs
        birth_age = kind in ("CrudeBirthFlow", "ReplacementBirthFlow") and st["kind"] == "age"
        for s_ in strata:
            if birth_age and s_ != "0":
                continue
            src = None if f.source is None else ((f.source.name, tuple(f.source.strata.items()) + ((sname, s_),)) if src_s else _ident(f.source))
            dst = None if f.dest is None else ((f.dest.name, tuple(f.dest.strata.items()) + ((sname, s_),)) if dst_s else _ident(f.dest))
            wc = w
            conserve = False
            if user is not None:
                a = user.get(s_)
                if a is not None:
                    (k_, e_), = a.items()
                    v_ = _pyexpr(e_, p, t, xa)
                    wc = v_ if k_ == "ovr" else w * v_
            elif entry and not birth_age:
                wc = w / n
            elif (not entry and not exit_) and dst_s and not src_s and st["kind"] != "strain":
                wc = w / n
                conserve = True
            if kind == "AbsoluteFlow" and n > 1 and not conserve:
                wc = wc / n
            expected.append((f.name, kind, src, dst, wc))
    got = [(f.name, type(f).__name__, _ident(f.source), _ident(f.dest), flow_weight(f, p, t, xa)) for f in after.flows]
    got_main, got_extra = got[:len(expected)], got[len(expected):]
    checks += 1
    if [g[:4] for g in got_main] != [e[:4] for e in expected]:
        viol.append("copies after stratification %s: %s, prescribed: %s" % (sname, [g[:4] for g in got_main][:6], [e[:4] for e in expected][:6]))
    else:
        for g, e in zip(got_main, expected):
            checks += 1
            if abs(g[4] - e[4]) > 1e-9 * (1 + abs(e[4])):
                viol.append("weight of copy %s %s->%s is %.10g, prescribed %.10g" % (g[0], g[2], g[3], g[4], e[4]))
    # ageing flows
    if st["kind"] == "age":
        ages = [int(s_) for s_ in strata]
        exp_age = []
        for a, b in zip(ages, ages[1:]):
            for c in before.compartments:
                exp_age.append((c.name, tuple(c.strata.items()) + ((sname, str(a)),), tuple(c.strata.items()) + ((sname, str(b)),), 1.0 / (b - a)))
        got_age = [(g[2][0], g[2][1], g[3][1], g[4]) for g in got_extra]
        checks += 1
        if [(a_[0], a_[1], a_[2]) for a_ in got_age] != [(a_[0], a_[1], a_[2]) for a_ in exp_age] or \
                any(abs(x_[3] - y_[3]) > 1e-12 for x_, y_ in zip(got_age, exp_age)):
            viol.append("ageing flows %s, prescribed %s" % (got_age[:4], exp_age[:4]))
    elif got_extra:
        viol.append("unexpected extra flows after stratification: %s" % [g[:4] for g in got_extra][:4])
    return {"checks": checks, "violations": viol[:10]}


def c18(m, runner, p, t, x):
    """empty / marginally negative compartments have non-negative rates"""
    r = runner.impl_dict["one_step"](p, t, x)
    cr = np.asarray(r.comp_rates, dtype=float)
    xv = np.asarray(x, dtype=float)
    if not np.isfinite(cr).all():
        return {"checks": 0, "violations": []}
    scale = 1 + float(np.abs(np.asarray(r.flow_rates, dtype=float)).max()) if len(r.flow_rates) else 1.0
    viol, checks = [], 0
    for j in range(len(xv)):
        if xv[j] <= 0:
            checks += 1
            if cr[j] < -1e-12 * scale:
                viol.append("compartment %d (%s) holds %r but its rate of change is %r" % (j, m.compartments[j], xv[j], cr[j]))
    return {"checks": checks, "violations": viol}


def c18_traj(m, o):
    """solved trajectories started from a boundary state stay non-negative up to the solver tolerance"""
    from fractions import Fraction
    p = {k: float(Fraction(v)) for k, v in (o.get("params") or {}).items()}
    viol, checks = [], 0
    # (fixed-step solvers overshoot legitimately when rate x step is large; only the error-controlled
    # solver is held to its tolerance)
    for solver, tol in (("solve_ivp", 1.4e-4 * 20),):
        m.run(p, solver=solver, jit=False, rebuild=True)
        out = np.asarray(m.outputs, dtype=float)
        if not np.isfinite(out).all():
            continue
        checks += 1
        mn = float(out.min())
        if mn < -tol * (1 + float(np.abs(out).max())):
            viol.append("%s: a compartment falls to %r" % (solver, mn))
        # the tolerance is per compartment (atol + rtol * that compartment's own size): a small compartment next to a
        # large one may not undershoot by a fraction of the large one
        checks += 1
        lo = out.min(axis=0)
        own = 20 * 1.4e-4 * (1 + np.abs(out).max(axis=0))      # default rtol = atol = 1.4e-4 (SolverArgs.DEFAULT)
        bad = np.where(lo < -own)[0]
        if len(bad) and not viol:
            j = int(bad[0])
            viol.append("%s: compartment %s falls to %r although it never exceeds %r (largest compartment %r)"
                        % (solver, m.compartments[j], float(lo[j]), float(np.abs(out[:, j]).max()), float(np.abs(out).max())))
    return {"checks": checks, "violations": viol}


def c18_disparity(m, o):
    """a small compartment that drains quickly next to a very large one, error-controlled solver: it stays above
    -(tolerance on its own scale)"""
    from summer2 import CompartmentalModel
    viol, checks = [], 0
    for (n_, e0, sigma, gamma, beta) in o["cases"]:
        mm = CompartmentalModel([0.0, 6.0], ["S", "E", "I", "R"], ["I"], timestep=1.0)
        mm.set_initial_population({"S": float(n_), "E": float(e0)})
        mm.add_transition_flow("prog", sigma, "E", "I")
        mm.add_transition_flow("rec", gamma, "I", "R")
        if beta:
            mm.add_infection_frequency_flow("inf", beta, "S", "E")
        mm.run(solver="solve_ivp", jit=False)
        out = np.asarray(mm.outputs, dtype=float)
        if not np.isfinite(out).all():
            continue
        checks += 1
        lo = out.min(axis=0)
        own = 20 * 1.4e-4 * (1 + np.abs(out).max(axis=0))      # default rtol = atol = 1.4e-4 (SolverArgs.DEFAULT)
        bad = np.where(lo < -own)[0]
        if len(bad):
            j = int(bad[0])
            viol.append("default solver, S=%g E=%g progression %g recovery %g contact %g: compartment %s falls to %r although it never exceeds %r"
                        % (n_, e0, sigma, gamma, beta, mm.compartments[j], float(lo[j]), float(np.abs(out[:, j]).max())))
    # a default run after somebody ran ANOTHER model object with very loose (or tight) caller-supplied solver options
    # in the same session: it is held to the default tolerances all the same
    def seir_():
        ms = CompartmentalModel([0.0, 20.0], ["S", "E", "I", "R"], ["I"], timestep=0.5)
        ms.set_initial_population({"S": 990.0, "I": 10.0})
        ms.add_infection_frequency_flow("infection", 8.0, "S", "E")
        ms.add_transition_flow("progression", 5.0, "E", "I")
        ms.add_transition_flow("recovery", 3.0, "I", "R")
        return ms
    for sa_ in ({"rtol": 0.5, "atol": 0.5}, {"rtol": 0.3}, {"atol": 50.0}):
        seir_().run(solver="solve_ivp", jit=False, solver_args=dict(sa_))
        mm = seir_()
        mm.run(solver="solve_ivp", jit=False)
        out = np.asarray(mm.outputs, dtype=float)
        checks += 1
        lo = out.min(axis=0)
        own = 20 * 1.4e-4 * (1 + np.abs(out).max(axis=0))
        bad = np.where(~(lo >= -own))[0]
        if len(bad):
            j = int(bad[0])
            viol.append("default solver on a fresh model after another model object was run with solver_args=%s: compartment %s falls to %r "
                        "although it never exceeds %r" % (sa_, mm.compartments[j], float(lo[j]), float(np.abs(out[:, j]).max())))
            break
    # many internal steps between two output times (a fast exchange that stays positive; outputs far apart): still
    # the solution, hence not negative
    for which in o.get("long", ["stiff", "sparse"]):
        if which == "stiff":
            mm = CompartmentalModel([0.0, 3.0], ["A", "B", "S", "I", "R"], ["I"], timestep=1.0)
            mm.set_initial_population({"A": 300.0, "B": 10.0, "S": 990.0, "I": 10.0})
            mm.add_transition_flow("ab", 400.0, "A", "B")
            mm.add_transition_flow("ba", 200.0, "B", "A")
            mm.add_infection_frequency_flow("inf", 0.4, "S", "I")
            mm.add_transition_flow("rec", 0.1, "I", "R")
        else:
            mm = CompartmentalModel([0.0, 1600.0], ["S", "I", "R"], ["I"], timestep=800.0)
            mm.set_initial_population({"S": 990.0, "I": 10.0})
            mm.add_infection_frequency_flow("inf", 0.3, "S", "I")
            mm.add_transition_flow("rec", 0.1, "I", "R")
            mm.add_transition_flow("wane", 0.01, "R", "S")
        mm.run(solver="solve_ivp", jit=False)
        out = np.asarray(mm.outputs, dtype=float)
        checks += 1
        if not np.isfinite(out).all():
            viol.append("default solver, %s case: non-finite outputs" % which)
            continue
        lo = out.min(axis=0)
        own = 20 * 1.4e-4 * (1 + np.abs(out).max(axis=0))
        bad = np.where(lo < -own)[0]
        if len(bad):
            j = int(bad[0])
            viol.append("default solver, %s case (many internal steps between two output times): compartment %s falls to %r"
                        % (which, mm.compartments[j], float(lo[j])))
        checks += 1
        if abs(out.sum(axis=1) - out[0].sum()).max() > 1e-6 * out[0].sum():
            viol.append("default solver, %s case: the closed population drifts by %r" % (which, float(abs(out.sum(axis=1) - out[0].sum()).max())))
    return {"checks": checks, "violations": viol[:6]}


def _rotated_constants(prog):
    """the same definition with its literal numbers at other sites: initial values rotated among the compartments, split
    and infectiousness values rotated among the strata; None when nothing changes"""
    prog2 = json.loads(json.dumps(prog))
    changed = [False]

    def rot(d):
        ks = list(d)
        vs = [d[k] for k in ks]
        if len(ks) >= 2 and len({json.dumps(v) for v in vs}) > 1:
            changed[0] = True
            return dict(zip(ks, vs[1:] + vs[:1]))
        return d
    for op in prog2["ops"]:
        if op["op"] == "pop" and all(isinstance(v, str) for v in op["dist"].values()):
            op["dist"] = rot(op["dist"])
        if op["op"] == "strat":
            if op.get("split") and all(isinstance(v, str) for v in op["split"].values()):
                op["split"] = rot(op["split"])
            if op.get("iadj"):
                op["iadj"] = {c_: rot(a_) for c_, a_ in op["iadj"].items()}
    return prog2 if changed[0] else None


def c06(m, o):
    """initial population recomputed from the definition: distribution x splits, then rebalances"""
    from fractions import Fraction
    prog = o["program"]
    p = {k: float(Fraction(v)) for k, v in (o.get("params") or {}).items()}
    viol, checks = [], 0
    ev = lambda e: _pyexpr(e, p, 0.0, [])
    dist = {}
    arr = None
    for x in prog["ops"]:
        if x["op"] == "pop":
            dist = {k: ev(v) for k, v in x["dist"].items()}
        if x["op"] == "arraypop":
            arr = [ev(e) for e in x["arr"]]
    comps = [(c, ()) for c in prog["comps"]]
    vals = [dist.get(c, 0.0) for c in prog["comps"]]
    for x in prog["ops"]:
        if x["op"] == "strat":
            strata = [str(s_) for s_ in x["strata"]]
            if x["kind"] == "age":
                strata = [str(v) for v in sorted(int(s_) for s_ in strata)]
            split = {k: ev(v) for k, v in (x.get("split") or {}).items()} or {s_: 1.0 / len(strata) for s_ in strata}
            nc, nv = [], []
            for (name, st), v in zip(comps, vals):
                if name in x["comps"]:
                    for s_ in strata:
                        nc.append((name, st + ((x["name"], s_),)))
                        nv.append(v * split[s_])
                else:
                    nc.append((name, st))
                    nv.append(v)
            comps, vals = nc, nv
        elif x["op"] == "rebalance":
            props = {k: ev(v) for k, v in x["props"].items()}
            filt = dict(x.get("filt") or {})
            groups = {}
            for i, (name, st) in enumerate(comps):
                d = dict(st)
                if x["strat"] in d and all(d.get(k) == v for k, v in filt.items()):
                    key = (name, tuple((k, v) for k, v in st if k != x["strat"]))
                    groups.setdefault(key, []).append(i)
            new = list(vals)
            for key, idx in groups.items():
                # the group = all compartments with that name and those other strata (any stratum of the rebalanced one)
                members = [i for i, (name, st) in enumerate(comps)
                           if name == key[0] and all(kv in st for kv in key[1])]
                tot = sum(vals[i] for i in members)
                for i in members:
                    new[i] = tot * props[dict(comps[i][1])[x["strat"]]]
            vals = new
    exp = np.array(arr if arr is not None else vals, dtype=float)
    names = [n + "".join("X%s_%s" % kv for kv in st) for n, st in comps]
    got = m.get_initial_population(p)
    checks += 1
    if arr is None and list(got.index) != names:
        viol.append("compartment labels %s, expected %s" % (list(got.index)[:6], names[:6]))
    gv = np.asarray(got.values, dtype=float)
    scale = 1 + np.abs(exp).max()
    checks += 1
    if gv.shape != exp.shape or np.abs(gv - exp).max() > 1e-9 * scale:
        viol.append("initial population %s, the definition gives %s" % (np.round(gv, 8)[:8], np.round(exp, 8)[:8]))
    runner = m.get_runner(p, jit=False)
    ip = np.asarray(runner.impl_dict["one_step"](p).initial_population, dtype=float)
    checks += 1
    if ip.shape != exp.shape or np.abs(ip - exp).max() > 1e-9 * scale:
        viol.append("one_step().initial_population differs from the definition")
    for solver in ("euler", "rk4", "solve_ivp"):
        m.run(p, solver=solver, jit=False, rebuild=True)
        row0 = np.asarray(m.outputs, dtype=float)[0]
        checks += 1
        if row0.shape != exp.shape or np.abs(row0 - exp).max() > 1e-9 * scale:
            viol.append("%s: row 0 of the outputs %s differs from the initial population %s" % (solver, np.round(row0, 8)[:6], np.round(exp, 8)[:6]))
    prog_r = _rotated_constants(prog) if arr is None else None
    if prog_r is not None and not viol:
        # a different model that holds the same literal numbers at other sites is built and evaluated in between: this
        # model's initial population does not move
        import impl
        other, e_o, _ = impl.build(dict(prog_r, obs=[]))
        if other is not None and e_o is None:
            try:
                other.get_initial_population(p)
            except BaseException as e:  # noqa
                if type(e).__name__ == "ObservationTimeLimit":
                    raise
            checks += 1
            try:
                again = np.asarray(m.get_initial_population(p).values, dtype=float)
                if again.shape != exp.shape or np.abs(again - exp).max() > 1e-9 * scale:
                    viol.append("after a different model using the same numbers at other sites was built and evaluated, the initial "
                                "population of this model is %s instead of %s" % (np.round(again, 8)[:8], np.round(exp, 8)[:8]))
            except BaseException as e:  # noqa
                if type(e).__name__ == "ObservationTimeLimit":
                    raise
                viol.append("after a different model using the same numbers at other sites was built and evaluated, "
                            "get_initial_population of this model raises %s" % repr(e)[:100])
    if o.get("params2") and not viol:
        # the same object run again with other parameter values: row 0 is the initial population of THOSE values
        # (the reference is a freshly built model's get_initial_population, itself compared with the definition above)
        import impl
        p2 = {k: float(Fraction(v)) for k, v in o["params2"].items()}
        fresh, _, _ = impl.build(dict(prog, obs=[]))
        try:
            exp2 = np.asarray(fresh.get_initial_population(p2).values, dtype=float)
            m.run(p, solver="euler", jit=False, rebuild=True)
            m.run(p2, solver="euler", jit=False)
            row0 = np.asarray(m.outputs, dtype=float)[0]
            st = m._runner.impl_dict["one_step"](p2)
        except BaseException as e:  # noqa
            if type(e).__name__ == "ObservationTimeLimit":
                raise
            exp2 = None
        if exp2 is not None and np.isfinite(exp2).all():
            checks += 2
            sc = 1 + np.abs(exp2).max()
            if row0.shape != exp2.shape or np.abs(row0 - exp2).max() > 1e-9 * sc:
                viol.append("second run of one object with other parameter values: row 0 %s, the initial population for those values is %s"
                            % (np.round(row0, 8)[:6], np.round(exp2, 8)[:6]))
            ip = np.asarray(st.initial_population, dtype=float)
            if ip.shape != exp2.shape or np.abs(ip - exp2).max() > 1e-9 * sc:
                viol.append("one_step of a runner built with other parameter values: initial population %s, for the values of the call %s"
                            % (np.round(ip, 8)[:6], np.round(exp2, 8)[:6]))
    return {"checks": checks, "violations": viol[:8]}


def c05(m, o):
    """brute-force force of infection from compartment strata, mixing matrices and infectiousness adjustments"""
    from fractions import Fraction
    from jax import numpy as jnp
    prog = o["program"]
    p = {k: float(Fraction(v)) for k, v in (o.get("params") or {}).items()}
    t = float(Fraction(o["t"]))
    x = np.array([float(Fraction(v)) for v in o["x"]])
    viol, checks = [], 0
    runner = m.get_runner(p, jit=False)
    r = runner.impl_dict["one_step"](p, t, jnp.array(x))
    if r.infectious_multipliers is None:
        return {"checks": 0, "violations": []}
    muls = np.asarray(r.infectious_multipliers, dtype=float)
    fr = np.asarray(r.flow_rates, dtype=float)
    strats = [s_ for s_ in prog["ops"] if s_["op"] == "strat"]
    ev = lambda e: _pyexpr(e, p, t, x)
    # total mixing matrix and categories in order of application
    M = np.array([[1.0]])
    cats = [{}]
    for s_ in strats:
        if s_.get("mix") is not None:
            strata = [str(v) for v in s_["strata"]]
            if s_["kind"] == "age":
                strata = [str(v) for v in sorted(int(a) for a in strata)]
            M = np.kron(M, np.array([[ev(e) for e in row] for row in s_["mix"]]))
            cats = [dict(c, **{s_["name"]: st}) for c in cats for st in strata]
    strain_strat = next((s_ for s_ in strats if s_["kind"] == "strain"), None)
    comps = m.compartments
    infectious = set(prog["inf"])
    # infectiousness of every compartment: adjustments of its strata in stratification order
    infness = []
    for c in comps:
        w = 1.0
        for s_ in strats:
            adjs = (s_.get("iadj") or {}).get(c.name)
            st = c.strata.get(s_["name"])
            if adjs is not None and st is not None and adjs.get(st) is not None:
                (k_, e_), = adjs[st].items()
                w = ev(e_) if k_ == "ovr" else w * ev(e_)
        infness.append(w)
    infness = np.array(infness)

    def in_cat(c, cat):
        return all(c.strata.get(k) == v for k, v in cat.items())

    N = np.array([sum(x[i] for i, c in enumerate(comps) if in_cat(c, cat)) for cat in cats])
    inf_flows = [(i, f) for i, f in enumerate(m.flows) if type(f).__name__ in ("InfectionFrequencyFlow", "InfectionDensityFlow")]
    for rank, (i, f) in enumerate(inf_flows):
        freq = type(f).__name__ == "InfectionFrequencyFlow"
        strain = f.dest.strata.get(strain_strat["name"]) if strain_strat else None
        P = np.array([sum(x[j] * infness[j] for j, c in enumerate(comps)
                          if in_cat(c, cat) and c.name in infectious
                          and (strain_strat is None or c.strata.get(strain_strat["name"]) == strain)) for cat in cats])
        ci = next(k for k, cat in enumerate(cats) if in_cat(f.source, cat))
        if freq and (N <= 0).any():
            continue
        exp = float(M[ci] @ (P / N if freq else P))
        checks += 1
        if abs(muls[rank] - exp) > 1e-9 * (1 + abs(exp)):
            viol.append("infection flow %d (%s %s->%s): force of infection %.12g, definition gives %.12g" % (i, f.name, f.source, f.dest, muls[rank], exp))
        w = flow_weight(f, p, t, x)
        checks += 1
        if abs(fr[i] - w * x[comp_pos(m)[str(f.source)]] * exp) > 1e-9 * (1 + abs(fr[i])):
            viol.append("infection flow %d rate %.12g, weight x source x force of infection = %.12g" % (i, fr[i], w * x[comp_pos(m)[str(f.source)]] * exp))
    if o.get("traj") and not viol:
        # the same definition holds at every state of a run: each Euler row is the previous row plus the timestep times
        # the compartment rates one_step gives at that row (one_step itself has just been compared with the definition)
        try:
            m.run(p, solver="euler", jit=False, rebuild=True)
            out = np.asarray(m.outputs, dtype=float)
        except BaseException:  # noqa
            out = None
        if out is not None and np.isfinite(out).all():
            runner = m.get_runner(p, jit=False)
            h = float(m.timestep)
            for k in range(len(out) - 1):
                st = runner.impl_dict["one_step"](p, float(m.times[k]), jnp.array(out[k]))
                nxt = out[k] + h * np.asarray(st.comp_rates, dtype=float)
                checks += 1
                if np.abs(nxt - out[k + 1]).max() > 1e-9 * (1 + np.abs(nxt).max()):
                    j = int(np.abs(nxt - out[k + 1]).argmax())
                    viol.append("row %d of an euler run: compartment %s = %.12g, but row %d plus timestep x rates at that row "
                                "(force of infection from the populations at that row) = %.12g" % (k + 1, m.compartments[j], out[k + 1][j], k, nxt[j]))
                    break
    return {"checks": checks, "violations": viol[:8]}


def c03(m, o):
    """metamorphic: the program with extra unadjusted stratifications vs without them, aggregated over the new strata"""
    import impl
    from fractions import Fraction
    from jax import numpy as jnp
    import random
    p = {k: float(Fraction(v)) for k, v in (o.get("params") or {}).items()}
    rng = random.Random(o.get("seed", 0))
    viol, checks = [], 0
    base, err, why = impl.build(dict(o["base_program"], obs=[]))
    strat, err2, why2 = impl.build(dict(o["strat_program"], obs=[]))
    if err is not None or err2 is not None:
        return {"checks": 0, "violations": ["c03 oracle: programs do not build: %s / %s" % (why, why2)] if (err is None) != (err2 is None) else []}
    new_keys = set(o["new_strats"])
    bpos = {(c.name, tuple(c.strata.items())): i for i, c in enumerate(base.compartments)}
    groups = [[] for _ in bpos]
    for j, c in enumerate(strat.compartments):
        key = (c.name, tuple((k, v) for k, v in c.strata.items() if k not in new_keys))
        if key not in bpos:
            return {"checks": 1, "violations": ["stratified compartment %s has no parent in the base model" % c]}
        groups[bpos[key]].append(j)

    def agg(v):
        v = np.asarray(v, dtype=float)
        return np.array([v[..., g].sum(axis=-1) for g in groups]).T if v.ndim == 2 else np.array([v[g].sum() for g in groups])

    rb, rs = base.get_runner(p, jit=False), strat.get_runner(p, jit=False)
    ns = len(strat.compartments)
    for k in range(0 if o.get("proportionate") else o.get("states", 3)):
        xs = np.array([rng.randint(1, 400) / 4 for _ in range(ns)])
        t = rng.randint(0, 20) / 4
        a = rs.impl_dict["one_step"](p, t, jnp.array(xs))
        b = rb.impl_dict["one_step"](p, t, jnp.array(agg(xs)))
        ca, cb = agg(a.comp_rates), np.asarray(b.comp_rates, dtype=float)
        checks += 1
        scale = 1 + np.abs(cb).max()
        if not o.get("strain_only") and np.abs(ca - cb).max() > 1e-9 * scale:
            i = int(np.abs(ca - cb).argmax())
            viol.append("t=%g: summed over the new strata the rate of %s is %.10g, unstratified %.10g" % (t, base.compartments[i], ca[i], cb[i]))
        # flow rates summed by parent flow name (flow names are kept by stratification)
        fa, fb = np.asarray(a.flow_rates, dtype=float), np.asarray(b.flow_rates, dtype=float)
        for name in sorted({f.name for f in base.flows}):
            if name.startswith("ageing_"):
                continue
            if o.get("strain_only") and not any(f.name == name and "Infection" in type(f).__name__ for f in base.flows):
                continue      # under a strain stratification only the infection flows are claimed to add up
            # (a non-infection flow may share the name: under strain only the infection flows are summed)
            sel = (lambda f: f.name == name and "Infection" in type(f).__name__) if o.get("strain_only") else (lambda f: f.name == name)
            sa = sum(fa[i] for i, f in enumerate(strat.flows) if sel(f))
            sb = sum(fb[i] for i, f in enumerate(base.flows) if sel(f))
            checks += 1
            if abs(sa - sb) > 1e-9 * (1 + abs(sb)):
                viol.append("t=%g: flows named %s add up to %.10g in the stratified model, %.10g unstratified" % (t, name, sa, sb))
    gentle = True
    if not o.get("strain_only"):
        # the multi-stage solvers evaluate the rates at intermediate states; the equality is claimed while
        # those stay non-negative too (clipping does not commute with summation): replay the RK4 stages
        h_ = float(strat.timestep)
        r0_ = rs.impl_dict["one_step"](p)
        f_ = rs.impl_dict["get_comp_rates"]
        rhs_ = lambda tt, yy: np.asarray(f_(jnp.array(yy), tt, r0_.static_graph_vals, r0_.model_data), dtype=float)
        yy = np.asarray(r0_.initial_population, dtype=float)
        for t_ in strat.times[:-1]:
            t_ = float(t_)
            k1 = rhs_(t_, yy); y2 = yy + h_ / 2 * k1
            k2 = rhs_(t_ + h_ / 2, y2); y3 = yy + h_ / 2 * k2
            k3 = rhs_(t_ + h_ / 2, y3); y4 = yy + h_ * k3
            k4 = rhs_(t_ + h_, y4)
            if min(y2.min(), y3.min(), y4.min(), (yy + 1.5 * h_ * k1).min()) < 0:
                gentle = False
            yy = yy + h_ / 6 * (k1 + 2 * k2 + 2 * k3 + k4)

    # (the error-controlled solver chooses different steps for the two models; its error is only controlled
    # where the rates are continuous in time, so it is compared on programs without piecewise-constant time functions)
    adaptive = () if o.get("discontinuous") else (("solve_ivp", 5e-3),)
    for solver, tol in (() if o.get("strain_only") else (("euler", 1e-9), ("rk4", 1e-9)) + adaptive):
        base.run(p, solver=solver, jit=False, rebuild=True)
        strat.run(p, solver=solver, jit=False, rebuild=True)
        ob, os_ = np.asarray(base.outputs, dtype=float), np.asarray(strat.outputs, dtype=float)
        if not (np.isfinite(ob).all() and np.isfinite(os_).all()) or (os_ < -1e-9).any():
            continue      # the equality is claimed while the stratified states stay non-negative
        if solver != "euler" and not gentle:
            continue

        checks += 1
        d = np.abs(agg(os_) - ob).max()
        if d > tol * (1 + np.abs(ob).max()):
            viol.append("%s: summed stratified outputs differ from the unstratified outputs by %.6g" % (solver, d))
        for k_, v in base.derived_outputs.items():
            if k_ in strat.derived_outputs:
                checks += 1
                dd = np.abs(np.asarray(v) - np.asarray(strat.derived_outputs[k_])).max()
                if dd > tol * (1 + np.abs(np.asarray(v)).max()):
                    viol.append("%s: derived output %s differs by %.6g between the stratified and unstratified model" % (solver, k_, dd))
    return {"checks": checks, "violations": viol[:10]}


def c15(m, o):
    """metamorphic: differently presented builds of the same model give the same results, matched by identity"""
    import impl
    import transforms as TR
    from fractions import Fraction
    p = {k: float(Fraction(v)) for k, v in (o.get("params") or {}).items()}
    viol, checks = [], 0
    solver = o.get("solver", "euler")

    def run(prog, key=None):
        mm, err, why = impl.build(dict(prog, obs=[]))
        if err is not None:
            return None, "rejected at op %s: %s" % (err, why)
        try:
            mm.run(p, solver=solver, jit=False)
        except (KeyboardInterrupt, SystemExit):
            raise
        except BaseException as e:  # noqa
            return None, "running raises %r" % (e,)
        out = np.asarray(mm.outputs, dtype=float)
        ids = [(key or TR.comp_key)(str(c)) for c in mm.compartments]
        return (mm, out, ids, {k: np.asarray(v, dtype=float) for k, v in mm.derived_outputs.items()}), None

    ref, why = run(o["program"])
    if ref is None:
        return {"checks": 0, "violations": []}
    _, out0, ids0, d0 = ref
    if not np.isfinite(out0).all():
        return {"checks": 0, "violations": []}
    scale0 = 1 + np.abs(out0).max()

    def compare(what, res, factor=1.0, tol=1e-9, derived=True, dkey=lambda k: k):
        nonlocal checks
        if res[0] is None:
            viol.append("%s: %s" % (what, res[1]))
            return
        _, out, ids, d = res[0]
        checks += 1
        if sorted(ids, key=str) != sorted(ids0, key=str):
            viol.append("%s: the compartments differ as sets: %s vs %s" % (what, ids[:4], ids0[:4]))
            return
        pos = {k: i for i, k in enumerate(ids)}
        perm = [pos[k] for k in ids0]
        # (for a scale factor below one the tolerance shrinks with it: the scaled results are compared on their own scale)
        fac_ = factor if factor < 1.0 else max(1.0, factor)
        if out.shape != out0.shape or np.abs(out[:, perm] - factor * out0).max() > tol * scale0 * fac_:
            viol.append("%s: outputs differ by %.6g (matched by compartment identity)" % (
                what, np.abs(out[:, perm] - factor * out0).max() if out.shape == out0.shape else -1))
        if derived:
            for k, v in d0.items():
                kk = dkey(k)
                if kk not in d or np.abs(d[kk] - factor * v).max() > tol * (1 + np.abs(v).max()) * fac_:
                    viol.append("%s: derived output %s differs" % (what, k))

    for name, prog2 in o["variants"]:
        if name == "rename":
            inv_c = lambda c: c[1:].upper()
            inv_s = lambda s_: s_ if s_ == "age" else s_[1:]
            inv_st = lambda strat, st: st if strat == "age" else st[:-1]
            compare(name, run(prog2, key=lambda s_: TR.comp_key(s_, inv_c, inv_s, inv_st)))
        elif name.startswith("rename (stratum labels shared"):
            order_ = {x["name"]: [str(v) for v in x["strata"]] for x in o["program"]["ops"] if x["op"] == "strat"}
            inv_st2 = lambda strat, st: st if (strat == "age" or not st.startswith("L")) else order_[strat][int(st[1:])]
            compare(name, run(prog2, key=lambda s_: TR.comp_key(s_, lambda c: c, lambda s__: s__, inv_st2)))
        elif name.startswith("scale"):
            compare(name, run(prog2), factor=float(Fraction(o["scale"])), tol=1e-9, derived=o.get("derived_homogeneous", True))
        else:
            compare(name, run(prog2))
    return {"checks": checks, "violations": viol[:10]}


DEFINITION_ATTRS = ["times", "timestep", "compartments", "_infectious_compartments", "_original_compartment_names",
                    "_stratifications", "flows", "_derived_output_requests", "_derived_outputs_whitelist",
                    "_mixing_matrices", "_mixing_categories", "_disease_strains", "_default_parameters",
                    "_array_population", "_computed_values_graph_dict"]


def canon(x, depth=0, seen=None):
    """canonical, comparable picture of a piece of a model definition (cycle- and depth-limited)"""
    seen = seen if seen is not None else set()
    if x is None or isinstance(x, (bool, int, str)):
        return x
    if isinstance(x, float):
        return float(x).hex()
    if isinstance(x, (np.floating, np.integer)):
        return canon(x.item())
    if isinstance(x, np.ndarray):
        return ["ndarray", list(x.shape), [canon(v) for v in x.ravel().tolist()]]
    if depth > 7:
        return "<deep>"
    if isinstance(x, (list, tuple)):
        return [canon(v, depth + 1, seen) for v in x]
    if isinstance(x, (set, frozenset)):
        return sorted((json.dumps(canon(v, depth + 1, seen), sort_keys=True, default=str) for v in x))
    if isinstance(x, dict):
        return sorted(([json.dumps(canon(k, depth + 1, seen), sort_keys=True, default=str), canon(v, depth + 1, seen)]
                       for k, v in x.items()), key=lambda kv: kv[0])
    if id(x) in seen:
        return "<cycle %s>" % type(x).__name__
    if callable(x) and not hasattr(x, "__dict__"):
        return "<callable %s>" % getattr(x, "__name__", type(x).__name__)
    d = getattr(x, "__dict__", None)
    if d is None:
        return "<%s %s>" % (type(x).__name__, str(x)[:80])
    seen = seen | {id(x)}
    if type(x).__name__ in ("CompartmentalModel", "ModelBackend", "ModelResults", "ComputeGraph", "DiGraph", "ModelBuildTracker"):
        return "<%s>" % type(x).__name__
    return [type(x).__name__, sorted(([k, canon(v, depth + 1, seen)] for k, v in d.items()
                                      if not k.startswith("_cache") and k not in ("_graph_key",)), key=lambda kv: kv[0])]


def definition_snapshot(m):
    return {a: canon(getattr(m, a, None)) for a in DEFINITION_ATTRS}


def snapshot_diff(a, b):
    out = []
    for k in a:
        if json.dumps(a[k], sort_keys=True, default=str) != json.dumps(b[k], sort_keys=True, default=str):
            out.append(k)
    return out


def c11(m, o):
    """histories on the implementation: equal calls give bit-identical results whatever came in between,
    on a second independently built object too, and the definition and the caller's dictionaries are not altered"""
    import impl
    import copy
    from fractions import Fraction
    viol, checks = [], 0
    calls = o["calls"]

    ints = any(c.get("int_params") for c in calls)

    def fl(d):
        return {k: impl.pyparam(v, ints) for k, v in (d or {}).items()}

    def bits(mm):
        out = np.asarray(mm.outputs, dtype=float)
        d = {k: np.asarray(v, dtype=float) for k, v in mm.derived_outputs.items()}
        return (out.shape, out.tobytes(), tuple(sorted((k, v.shape, v.tobytes()) for k, v in d.items())))

    def execute(order_calls, tag):
        nonlocal checks
        mm, err, why = impl.build(dict(o["program"], obs=[]))
        assert err is None, why
        seen, handles, snap, defaults = {}, [], None, {}
        for ci, c in enumerate(order_calls):
            given = fl(c.get("params"))
            keep = copy.deepcopy(given)
            try:
                if c["call"] == "run":
                    mm.run(given, solver=c["solver"], rebuild=bool(c.get("rebuild", False)), jit=False)
                    key = ("model", tuple(sorted({**defaults, **given}.items())), c["solver"])
                    res = bits(mm)
                elif c["call"] == "get_runner":
                    kw = {} if c.get("dyn") is None else {"dyn_params": list(c["dyn"])}
                    handles.append((mm.get_runner(given, solver=c["solver"], jit=False, **kw), dict(defaults), c))
                    key = None
                elif c["call"] == "runner_run":
                    if c["k"] >= len(handles):
                        continue
                    r, dflt, gc = handles[c["k"]]
                    r.run(given)
                    # (a runner's result is a function of the runner - what it froze when built - and of the values
                    # given to this call: frozen parameters rule the model, given ones the derived-output functions)
                    key = ("runner", c["k"], tuple(sorted({**dflt, **given}.items())))
                    res = bits(r)
                    # ModelResults.run also stores the results on the model
                    if bits(mm) != res:
                        viol.append("%s call %d: runner.run left different results on the model object" % (tag, ci))
                elif c["call"] == "set_defaults":
                    mm.set_default_parameters(given)
                    defaults = dict(given)
                    key = None
            except (KeyboardInterrupt, SystemExit):
                raise
            except BaseException as e:  # noqa
                key, res = None, None
                seen.setdefault(("error", ci), repr(e)[:100])
            if given != keep:
                viol.append("%s call %d (%s): the caller's parameter dictionary was modified" % (tag, ci, c["call"]))
            if c["call"] == "set_defaults" and mm.get_default_parameters() != keep:
                viol.append("%s call %d: default parameters differ from what was set" % (tag, ci))
            if key is not None:
                checks += 1
                if key in seen and seen[key][0] != res:
                    viol.append("%s call %d (%s %s): result differs bitwise from call %d with the same definition and "
                                "parameter values" % (tag, ci, c["call"], dict(key[1] if key[0] == "model" else key[2]), seen[key][1]))
                seen.setdefault(key, (res, ci))
            if mm._finalized:
                s_now = definition_snapshot(mm)
                if snap is None:
                    snap = s_now
                else:
                    checks += 1
                    dd = [a for a in snapshot_diff(snap, s_now) if not (a == "_default_parameters" and c["call"] == "set_defaults")]
                    if dd:
                        viol.append("%s call %d (%s): the definition changed: %s" % (tag, ci, c["call"], dd))
                    snap = s_now
        return seen

    def whitelist_step():
        """a runner built for a subset of the derived outputs, then an ordinary rebuilt run: same keys and numbers as before"""
        nonlocal checks
        mm, err, why = impl.build(dict(o["program"], obs=[]))
        assert err is None, why
        full = [c for c in calls if c["call"] == "run" and len(c.get("params") or {}) >= 4]
        if not full:
            return
        given = fl(full[0]["params"])
        solver_ = full[0]["solver"]
        try:
            mm.run(dict(given), solver=solver_, jit=False)
        except BaseException:  # noqa
            return
        before = bits(mm)
        keys = list(mm.derived_outputs)
        if not keys:
            return
        snap = definition_snapshot(mm)
        try:
            r_ = mm.get_runner(dict(given), solver=solver_, jit=False, derived_outputs=keys[:1])
            r_.run(dict(given))
        except BaseException:  # noqa
            return
        checks += 3
        left = list(mm.derived_outputs)
        if left != keys[:1]:
            viol.append("after a full run, a runner for the derived outputs %s leaves %s on the model (a fresh model gives %s)"
                        % (keys[:1], left, keys[:1]))
        dd = snapshot_diff(snap, definition_snapshot(mm))
        if dd:
            viol.append("building a runner for the derived outputs %s changed the definition: %s" % (keys[:1], dd))
        mm.run(dict(given), solver=solver_, jit=False, rebuild=True)
        if bits(mm) != before:
            viol.append("after a runner for the derived outputs %s was built, a rebuilt run returns %s instead of %s (or other numbers)"
                        % (keys[:1], list(mm.derived_outputs), keys))

    def other_models_options():
        """the default solver on this model, then an unrelated model run with its own solver options, then an
        independently built copy of this model: bit-identical to the first run"""
        nonlocal checks
        from summer2 import CompartmentalModel
        full = [c for c in calls if c["call"] == "run" and len(c.get("params") or {}) >= 4]
        if not full:
            return
        given = fl(full[0]["params"])
        ma, err, why = impl.build(dict(o["program"], obs=[]))
        mb, _, _ = impl.build(dict(o["program"], obs=[]))
        try:
            ma.run(dict(given), jit=False)
        except BaseException:  # noqa
            return
        ref = bits(ma)
        other = CompartmentalModel([0.0, 3.0], ["U", "V"], ["V"], timestep=1.0)
        other.set_initial_population({"U": 50.0, "V": 5.0})
        other.add_infection_frequency_flow("uv", 0.7, "U", "V")
        other.run(solver="solve_ivp", solver_args={"rtol": 1e-9, "atol": 1e-9}, jit=False)
        other.run(solver="rk4", jit=False)
        mb.run(dict(given), jit=False)
        checks += 1
        if bits(mb) != ref:
            viol.append("after an unrelated model was run with its own solver options, an independently built copy of the "
                        "model no longer reproduces the first run of %s bit for bit (default solver)" % (given,))
        ma.run(dict(given), jit=False, rebuild=True)
        checks += 1
        if bits(ma) != ref:
            viol.append("after an unrelated model was run with its own solver options, a rebuilt run of the same object no longer "
                        "reproduces its first run bit for bit (default solver)")

    def same_numbers_elsewhere():
        """a different model that uses the same literal numbers at other sites (initial values, splits and infectiousness
        adjustments rotated among compartments / strata) is built and run in between: this model's next runs, on the
        same runner and on a rebuilt one, reproduce its first run bit for bit"""
        nonlocal checks
        full = [c for c in calls if c["call"] == "run" and len(c.get("params") or {}) >= 4]
        if not full:
            return
        given = fl(full[0]["params"])
        prog2 = json.loads(json.dumps(o["program"]))
        changed = False

        def rot(d):
            nonlocal changed
            ks = list(d)
            vs = [d[k] for k in ks]
            if len(ks) >= 2 and all(isinstance(v, (str, dict)) or v is None for v in vs) and len({json.dumps(v) for v in vs}) > 1:
                changed = True
                return dict(zip(ks, vs[1:] + vs[:1]))
            return d
        for op in prog2["ops"]:
            if op["op"] == "pop" and all(isinstance(v, str) for v in op["dist"].values()):
                op["dist"] = rot(op["dist"])
            if op["op"] == "strat":
                if op.get("split") and all(isinstance(v, str) for v in op["split"].values()):
                    op["split"] = rot(op["split"])
                if op.get("iadj"):
                    op["iadj"] = {c_: rot(a_) for c_, a_ in op["iadj"].items()}
        if not changed:
            return
        ma, err, why = impl.build(dict(o["program"], obs=[]))
        try:
            ma.run(dict(given), jit=False)
        except BaseException:  # noqa
            return
        ref = bits(ma)
        mc, _, _ = impl.build(dict(prog2, obs=[]))
        if mc is None:
            return
        try:
            mc.run(dict(given), jit=False)
        except BaseException:  # noqa
            pass
        for rebuild in (False, True):
            ma.run(dict(given), jit=False, rebuild=rebuild)
            checks += 1
            if bits(ma) != ref:
                viol.append("after a different model using the same numbers at other sites was built and run, %s of this model no "
                            "longer reproduces its first run of %s bit for bit"
                            % ("a rebuilt run" if rebuild else "the next run on the same runner", given))
                break

    whitelist_step()
    other_models_options()
    same_numbers_elsewhere()
    first = execute(calls, "history")
    # an independently built object, the run calls alone, in reverse order, each on a rebuilt runner
    runs = [c for c in calls if c["call"] in ("run", "set_defaults")]
    second = execute(calls[::-1] if not any(c["call"] in ("set_defaults", "get_runner", "runner_run") for c in calls)
                     else [dict(c, rebuild=True) if c["call"] == "run" else c for c in calls], "second object")
    for k, v in first.items():
        if k[0] in ("model", "runner") and k in second:
            checks += 1
            if second[k][0] != v[0]:
                viol.append("an independently built identical model gives bitwise different results for %s" % (dict(k[1] if k[0] == "model" else k[2]),))
    return {"checks": checks, "violations": viol[:10]}


def c10_axis(m, o):
    """a time function given another x axis (a compartment value, a shifted / scaled time, a parameter) takes, at
    (t, x), the value the same function of plain time takes at t' = the axis evaluated at (t, x)"""
    import impl
    import random
    from fractions import Fraction
    from jax import numpy as jnp
    rng = random.Random(o.get("seed", 0))
    viol, checks = [], 0
    p = {"d": 0.75, "s": 1.5}
    for case in range(o.get("n", 12)):
        kind = ["sig", "lin", "pw", "sig"][case % 4]
        npts = rng.randint(2, 5)
        xs = sorted(rng.sample(range(0, 40), npts))
        ys = [rng.randint(1, 16) / 8 for _ in range(npts + (1 if kind == "pw" else 0))]
        axis = rng.choice([{"c": 0}, {"-": ["t", {"p": "d"}]}, {"+": [{"*": [{"p": "s"}, "t"]}, {"/": [{"c": 1}, "8"]}]},
                           {"*": [{"c": 1}, "1/4"]}, {"p": "s"}])
        def fn(ax):
            body = [ax, [str(v) for v in (xs[:-1] if kind == "pw" and False else xs)], [str(Fraction(v).limit_denominator(64)) for v in ys]]
            if kind == "sig" and case % 8 >= 4:
                body.append("4")
            return {kind: body}
        def prog(ax):
            return {"times": ["0", "4", "1"], "comps": ["A", "B"], "inf": ["B"], "obs": [],
                    "ops": [{"op": "pop", "dist": {"A": "70", "B": "30"}},
                            {"op": "flow", "kind": "transition", "name": "ab", "param": fn(ax), "src": "A", "dst": "B"}]}
        ma, ea, wa = impl.build(prog(axis))
        mb, eb, wb = impl.build(prog("t"))
        if ea is not None or eb is not None:
            viol.append("c10_axis: program does not build: %s %s" % (wa, wb))
            continue
        ra, rb = ma.get_runner(p, jit=False), mb.get_runner(p, jit=False)
        for k in range(4):
            t = rng.randint(0, 160) / 4
            x = [rng.randint(0, 320) / 4, rng.randint(0, 320) / 4]
            tprime = _pyexpr(axis, p, t, x)
            a = float(np.asarray(ra.impl_dict["one_step"](p, t, jnp.array(x)).flow_rates)[0])
            b = float(np.asarray(rb.impl_dict["one_step"](p, tprime, jnp.array(x)).flow_rates)[0])
            checks += 1
            if abs(a - b) > 1e-9 * (1 + abs(b)):
                viol.append("%s interpolation over x axis %s at t=%g x=%s: rate %.10g, but the function of plain time at %g gives %.10g"
                            % (kind, json.dumps(axis), t, x, a, tprime, b))
    return {"checks": checks, "violations": viol[:8]}


ORACLES = {"c01": c01, "c02": c02, "c18": c18}
def c18_timefuncs(m, o):
    """rates and adjustments given by the library's own time functions over non-negative data (ending or starting at
    zero in particular) are non-negative at every time - before the first point, at the points, between them and after
    the last one - so an empty compartment is not drained"""
    import random
    from jax import numpy as jnp
    from summer2 import CompartmentalModel
    from summer2.parameters import Time
    from summer2.functions.time import (get_sigmoidal_interpolation_function, get_linear_interpolation_function,
                                        get_piecewise_function)
    rng = random.Random(o.get("seed", 0))
    viol, checks = [], 0
    for case in range(o.get("n", 8)):
        npts = rng.randint(2, 5)
        xs = sorted(rng.sample(range(0, 60, 5), npts))
        ys = [rng.choice([0.0, 0.0, 0.05, 0.1, 0.3]) for _ in range(npts)]
        if case % 2 == 0:
            ys[-1], ys[-2] = 0.0, rng.choice([0.05, 0.1, 0.3])      # the last segment falls to zero
        else:
            ys[0], ys[1] = 0.0, rng.choice([0.05, 0.1, 0.3])        # the first segment rises from zero
        kind = ["sig", "sig4", "lin", "pw", "sig4", "sig", "pw", "lin"][case % 8]
        if kind == "sig":
            f = get_sigmoidal_interpolation_function([float(v) for v in xs], ys)
        elif kind == "sig4":
            f = get_sigmoidal_interpolation_function([float(v) for v in xs], ys, curvature=4.0)
        elif kind == "lin":
            f = get_linear_interpolation_function([float(v) for v in xs], ys)
        else:
            f = get_piecewise_function([float(v) for v in xs], ys + [0.0])
        mm = CompartmentalModel([0.0, 2.0], ["S", "I", "R", "V"], ["I"], timestep=1.0)
        mm.set_initial_population({"S": 990.0, "I": 10.0})
        mm.add_infection_frequency_flow("inf", 0.3, "S", "I")
        mm.add_transition_flow("rec", 0.1, "I", "R")
        mm.add_transition_flow("vac", f, "S", "V")
        mm.add_transition_flow("wane", 0.05, "V", "S")
        runner = mm.get_runner({}, jit=False)
        times = [xs[0] - 7.5, float(xs[0]), (xs[0] + xs[1]) / 2, float(xs[-1]), xs[-1] + 0.5, xs[-1] + 30.0, xs[-1] + 400.0]
        for t in times:
            for x in ([500.0, 20.0, 480.0, 0.0], [0.0, 20.0, 480.0, 500.0], [990.0, 10.0, 0.0, 0.0]):
                r = runner.impl_dict["one_step"]({}, t, jnp.array(x))
                fr, cr = np.asarray(r.flow_rates, dtype=float), np.asarray(r.comp_rates, dtype=float)
                checks += 1
                if not (np.isfinite(fr).all() and np.isfinite(cr).all()):
                    continue
                if fr.min() < -1e-12 * (1 + np.abs(fr).max()):
                    viol.append("%s function through %s / %s as a vaccination rate: flow rate %r at t=%r, state %s"
                                % (kind, xs, ys, float(fr.min()), t, x))
                    break
                bad = [j for j in range(4) if x[j] <= 0 and cr[j] < -1e-12 * (1 + np.abs(fr).max())]
                if bad:
                    viol.append("%s function through %s / %s: empty compartment %s has rate %r at t=%r" % (kind, xs, ys, mm.compartments[bad[0]], float(cr[bad[0]]), t))
                    break
            else:
                continue
            break
    return {"checks": checks, "violations": viol[:6]}


def c11_shared_keys(m, o):
    """a Stratification object (with a literal population split) used by two models that hold other numbers: finalising
    the second model must not change what the first one computes"""
    from summer2 import CompartmentalModel, Stratification
    viol, checks = [], 0

    def base(init):
        mm = CompartmentalModel([0, 5], ["S", "I"], ["I"], timestep=1.0)
        mm.set_initial_population(init)
        mm.add_transition_flow("rec", 0.1, "I", "S")
        return mm
    own = Stratification("age", ["young", "old"], ["S", "I"])
    own.set_population_split({"young": 0.25, "old": 0.75})
    ref = base({"S": 990.0, "I": 10.0})
    ref.stratify_with(own)
    ref.run({}, solver="euler", jit=False)
    want = np.asarray(ref.outputs)
    s_ = Stratification("age", ["young", "old"], ["S", "I"])
    s_.set_population_split({"young": 0.25, "old": 0.75})
    a = base({"S": 990.0, "I": 10.0})
    a.stratify_with(s_)
    b = base({"S": 0.25, "I": 0.75})
    b.stratify_with(s_)
    a.finalize()
    b.finalize()
    checks += 1
    try:
        a.run({}, solver="euler", jit=False)
        got = np.asarray(a.outputs)
        if got.shape != want.shape or not np.allclose(got, want, rtol=1e-12, atol=0):
            viol.append("shared-graph-keys: two models share one Stratification object (split young 0.25 / old 0.75); model A starts at "
                        "S=990, I=10, model B at S=0.25, I=0.75; after both were finalised A starts at %s instead of %s"
                        % ([float(v) for v in got[0]], [float(v) for v in want[0]]))
    except Exception as e:  # noqa
        viol.append("shared-graph-keys: two models share one Stratification object; after both were finalised the first fails with %s" % repr(e)[:120])
    return {"checks": checks, "violations": viol}


def c11_caller_objects(m, o):
    """the caller keeps one parameter dictionary (nested, with an array-valued entry) and changes it in place between two
    runs of one runner: each run is the run of a fresh object with the values the dictionary holds at that time"""
    from summer2 import CompartmentalModel
    from summer2.parameters import Parameter, Function
    from jax import numpy as jnp
    viol, checks = [], 0

    def build():
        mm = CompartmentalModel([0, 6], ["S", "I", "R"], ["I"], timestep=1.0)
        mm.set_initial_population({"S": 990.0, "I": 10.0})
        mm.add_infection_frequency_flow("inf", Parameter("contact.rate"), "S", "I")
        mm.add_transition_flow("rec", Function(lambda r: r[0] + r[1], [Parameter("rates")]), "I", "R")
        return mm

    def fresh(contact, rates):
        f = build()
        f.run({"contact": {"rate": contact}, "rates": jnp.array(rates)}, solver="euler", jit=False)
        return np.asarray(f.outputs).copy()
    for via_model in (True, False):
        a = build()
        p = {"contact": {"rate": 1.0 / 3}, "rates": np.array([0.1, 0.05])}
        run = (lambda q: a.run(q, solver="euler", jit=False)) if via_model else None
        if not via_model:
            r_ = a.get_runner(dict(p), solver="euler", jit=False)
            run = r_.run
        try:
            run(p)
            first = np.asarray(a.outputs).copy()
            p["contact"]["rate"] = 0.6          # nested entry changed in place
            run(p)
            second = np.asarray(a.outputs).copy()
            p["rates"][0] = 0.25                # array entry changed in place
            run(p)
            third = np.asarray(a.outputs).copy()
        except Exception as e:  # noqa
            viol.append("caller-objects: runs with a nested / array-valued parameter dictionary raise %s" % repr(e)[:100])
            continue
        for got, want, what in ((first, fresh(1.0 / 3, [0.1, 0.05]), "the first run"),
                                (second, fresh(0.6, [0.1, 0.05]), "the run after contact.rate was changed in place to 0.6"),
                                (third, fresh(0.6, [0.25, 0.05]), "the run after rates[0] was changed in place to 0.25")):
            checks += 1
            if got.shape != want.shape or not np.allclose(got, want, rtol=1e-12, atol=0):
                viol.append("caller-objects (%s): %s gives S(end) = %.6f, a fresh object with those values %.6f"
                            % ("model.run" if via_model else "runner.run", what, float(got[-1][0]), float(want[-1][0])))
                break
    # the solver options dictionary changed in place between two runs: the second run uses the new options
    sa = {"rtol": 1e-2, "atol": 1e-2}
    a = build()
    p0 = {"contact": {"rate": 0.5}, "rates": np.array([0.1, 0.05])}
    try:
        a.run(p0, solver="solve_ivp", solver_args=sa, jit=False)
        sa["rtol"] = sa["atol"] = 1e-9
        a.run(p0, solver="solve_ivp", solver_args=sa, jit=False)
        got = np.asarray(a.outputs).copy()
        f = build()
        f.run(p0, solver="solve_ivp", solver_args={"rtol": 1e-9, "atol": 1e-9}, jit=False)
        checks += 1
        if not np.array_equal(got, np.asarray(f.outputs)):
            viol.append("caller-objects (solver options): after solver_args was changed in place from 1e-2 to 1e-9 the second run "
                        "of the object differs from a fresh object run with 1e-9 by %.3g" % float(np.abs(got - np.asarray(f.outputs)).max()))
    except Exception as e:  # noqa
        viol.append("caller-objects (solver options): %s" % repr(e)[:100])
    return {"checks": checks, "violations": viol}


def c08_cumgrid(m, o):
    """cumulative outputs that start at a model time, on time grids whose step is a decimal fraction (the start time is
    given as the model's own times[k]): zero before the start, the running sum of the source from there on"""
    from summer2 import CompartmentalModel
    viol, checks = [], 0
    for (t0, t1, h, solver) in o.get("grids", [(1.0, 2.0, 0.1, "euler"), (0.0, 5.0, 0.1, "euler"), (2000.0, 2001.0, 0.1, "rk4"),
                                                (0.0, 3.0, 0.3, "euler"), (5.0, 12.0, 0.7, "rk4"), (1.0, 4.5, 0.7, "euler")]):
        mm = CompartmentalModel([t0, t1], ["S", "I", "R"], ["I"], timestep=h)
        mm.set_initial_population({"S": 990.0, "I": 10.0})
        mm.add_infection_frequency_flow("inf", 1.5, "S", "I")
        mm.add_transition_flow("rec", 0.4, "I", "R")
        mm.request_output_for_flow("inc", "inf")
        mm.request_output_for_compartments("prev", ["I"])
        n = len(mm.times)
        ks = list(range(1, n - 1))
        for k in ks:
            mm.request_cumulative_output("cinc_%d" % k, "inc", start_time=mm.times[k])
            if k % 3 == 0:
                mm.request_cumulative_output("cprev_%d" % k, "prev", start_time=float(mm.times[k]))
        mm.run(solver=solver, jit=False)
        do = mm.get_derived_outputs_df()
        for k in ks:
            for src, nm in (("inc", "cinc_%d" % k), ("prev", "cprev_%d" % k)):
                if nm not in do.columns:
                    continue
                srcv = np.asarray(do[src], dtype=float)
                exp = np.concatenate([np.zeros(k), np.cumsum(srcv[k:])])
                got = np.asarray(do[nm], dtype=float)
                checks += 1
                if np.abs(got - exp).max() > 1e-9 * (1 + np.abs(exp).max()):
                    i = int(np.abs(got - exp).argmax())
                    viol.append("times %g..%g step %g: cumulative %s from start_time=times[%d]=%r: at index %d (t=%r) %r, running sum of the "
                                "source from the start time gives %r" % (t0, t1, h, src, k, float(mm.times[k]), i, float(mm.times[i]), float(got[i]), float(exp[i])))
    return {"checks": checks, "violations": viol[:12]}


def c09_superseded(m, o):
    """known finding (probe): a parameter in an infectiousness Multiply that later Overwrites replace for every compartment
    cannot influence the results, yet it is reported (and required) as an input parameter; flow adjustments prune theirs"""
    from summer2 import CompartmentalModel, Stratification
    from summer2.parameters import Parameter
    from summer2.adjust import Multiply, Overwrite
    viol, checks = [], 0

    def build():
        mm = CompartmentalModel([0, 5], ["S", "I", "R"], ["I"])
        mm.set_initial_population(dict(S=990, I=10, R=0))
        mm.add_infection_frequency_flow("infection", 0.5, "S", "I")
        mm.add_transition_flow("rec", 0.2, "I", "R")
        s = Stratification("age", ["y", "o"], ["S", "I", "R"])
        s.add_infectiousness_adjustments("I", {"y": Multiply(Parameter("m")), "o": None})
        s.set_flow_adjustments("rec", {"y": Multiply(Parameter("q")), "o": None})
        mm.stratify_with(s)
        s2 = Stratification("loc", ["u", "r"], ["S", "I", "R"])
        s2.add_infectiousness_adjustments("I", {"u": Overwrite(0.3), "r": Overwrite(0.6)})
        s2.set_flow_adjustments("rec", {"u": Overwrite(0.3), "r": Overwrite(0.1)})
        mm.stratify_with(s2)
        return mm
    mm = build()
    reported = set(mm.get_input_parameters())
    outs = []
    for v in (0.5, 5.0):
        mm.run({"m": v, "q": v}, solver="euler", jit=False)
        outs.append(np.asarray(mm.outputs, dtype=float).copy())
    checks += 2
    same = float(np.abs(outs[0] - outs[1]).max()) == 0.0
    if same and reported:
        viol.append("superseded-infectiousness-parameter: age adjusts the infectiousness of I by Multiply(Parameter('m')), loc then Overwrites it for "
                    "every I compartment (and likewise the rate of 'rec' with Parameter('q')): the outputs are identical for m = q = 0.5 and 5, "
                    "get_input_parameters() = %s" % sorted(reported))
    elif not same and not {"m", "q"} & reported:
        viol.append("superseded parameters: the outputs depend on m / q, which get_input_parameters() does not report (%s)" % sorted(reported))
    return {"checks": checks, "violations": viol}


MODEL_ORACLES = {"c02_traj": c02_traj, "c13": c13, "c12": c12, "c12_dates": c12_dates,
                 "c07": c07, "c07_closed": c07_closed, "c16": c16, "c14": c14, "c08": c08, "c09": c09, "c10": c10, "c04": c04, "c18_traj": c18_traj, "c06": c06, "c05": c05, "c03": c03, "c15": c15, "c11": c11, "c10_axis": c10_axis, "c12_grid": c12_grid,
                 "c18_disparity": c18_disparity, "c18_timefuncs": c18_timefuncs, "c11_shared_keys": c11_shared_keys, "c11_caller_objects": c11_caller_objects, "c08_cumgrid": c08_cumgrid, "c09_superseded": c09_superseded}


def run_oracle(m, o):
    from fractions import Fraction
    if o["name"] in MODEL_ORACLES:
        return MODEL_ORACLES[o["name"]](m, o)
    p = {k: float(Fraction(v)) for k, v in (o.get("params") or {}).items()}
    runner = m.get_runner(p, jit=False)
    t = None if o.get("t") is None else float(Fraction(o["t"]))
    x = None
    if o.get("x") is not None:
        from jax import numpy as jnp
        x = jnp.array([float(Fraction(v)) for v in o["x"]])
    else:
        x = runner.impl_dict["one_step"](p).initial_population
    return ORACLES[o["name"]](m, runner, p, t, x)
