"""Self-tests of the checks (not registered as checks): thorough tier on the unchanged tree, each repair
reverted (the check of its property must report the violation again), every seeded change re-applied.
Usage: selftest.py thorough | fixes | seeds    (each applies / reverts patches in /repo itself)"""
import glob
import json
import os
import subprocess
import sys

sys.path.insert(0, os.path.dirname(os.path.abspath(__file__)))
import seedtest  # noqa: E402

VERIF = seedtest.VERIF
FIXES = [("10e9daa", ["C07"]), ("aab8232", ["C03", "C04"]), ("54cf653", ["C13"]), ("dcff2a1", ["C17"]), ("b60ed29", ["C17"]),
         ("c240a2c", ["C09"]), ("f41eb8c", ["C05", "C15"]), ("636f27d", ["C11"]), ("f211346", ["C02"]), ("24b787d", ["C09"]), ("8c8093e", ["C15"]), ("29321c7", ["C12"]), ("cc07eac..bd60111", ["C11"]), ("3001f79", ["C14"]), ("80e0b49", ["C14"]), ("bd60111", ["C11"]), ("d696f9e", ["C16"])]


def sh(cmd, cwd=VERIF, timeout=7200):
    r = subprocess.run(cmd, shell=True, cwd=cwd, capture_output=True, text=True, timeout=timeout)
    return r.returncode, r.stdout + r.stderr


def thorough():
    out = {}
    for i in range(1, 20):
        pid = "C%02d" % i
        rc, o = sh("timeout 7000 ./check %s --thorough" % pid)
        lines = [l for l in o.split("\n") if l.startswith(("OK", "VIOLATION", "KNOWN"))]
        out[pid] = {"rc": rc, "lines": [l[:300] for l in lines]}
        print(pid, rc, lines[-1][:200] if lines else o[-300:], flush=True)
    json.dump(out, open(os.path.join(VERIF, "build", "thorough.json"), "w"), indent=1)


def fixes():
    out = {}
    for commit, props in FIXES:
        if ".." in commit:
            # a repair and its follow-up on the same lines (cc07eac, then bd60111): the whole repair is reverted
            first, last = commit.split("..")
            patch = "/var/tmp/fix_%s.diff" % first
            rpatch = patch + ".rev"
            # reverse-apply the follow-up, then the repair, and hand the resulting difference to detect()
            for c_ in (last, first):
                sh("git -C /repo diff %s~1 %s > %s" % (c_, c_, patch))
                rc, o = sh("git -C /repo apply -R %s" % patch)
                assert rc == 0, o
            sh("git -C /repo diff > %s" % rpatch)
            sh("git -C /repo checkout -- .")
            os.remove(patch)
            res = seedtest.detect(rpatch, props)
            out[commit] = {"reverted": True, "checks": {k: {"exit": v["rc"], "first": v["summary"][:2]} for k, v in res.items()}}
            print(commit, {k: v["rc"] for k, v in res.items()}, flush=True)
            os.remove(rpatch)
            continue
        patch = "/var/tmp/fix_%s.diff" % commit
        sh("git -C /repo diff %s~1 %s > %s" % (commit, commit, patch))
        rc, o = sh("git -C /repo apply -R --check %s" % patch)
        if rc != 0:
            out[commit] = {"reverted": False, "why": o[-200:]}
            print(commit, "cannot be reverted cleanly", o[-200:], flush=True)
            continue
        # detect() applies a patch forward: build the reverse patch
        rpatch = patch + ".rev"
        sh("git -C /repo diff %s %s~1 > %s" % (commit, commit, rpatch))
        res = seedtest.detect(rpatch, props)
        out[commit] = {"reverted": True, "checks": {k: {"exit": v["rc"], "first": v["summary"][:2]} for k, v in res.items()}}
        print(commit, {k: v["rc"] for k, v in res.items()}, flush=True)
        os.remove(patch)
        os.remove(rpatch)
    json.dump(out, open(os.path.join(VERIF, "build", "fixes_reverted.json"), "w"), indent=1)


def seeds():
    out = {}
    for d in sorted(glob.glob(os.path.join(VERIF, "seeded", "*"))):
        name = os.path.basename(d)
        pid = name.split("-")[0]
        try:
            res = seedtest.detect(os.path.join(d, "patch.diff"), [pid])
        except AssertionError as e:
            # the change no longer applies to the repaired tree (the lines it edits were repaired since)
            out[name] = "does not apply"
            print(name, "does not apply:", str(e)[-160:].replace("\n", " "), flush=True)
            continue
        meta = json.load(open(os.path.join(d, "meta.json")))
        meta["final_pass"] = {"exit": res[pid]["rc"], "first_lines": res[pid]["summary"][:2]}
        json.dump(meta, open(os.path.join(d, "meta.json"), "w"), indent=1)
        out[name] = res[pid]["rc"]
        print(name, res[pid]["rc"], (res[pid]["summary"] or [""])[0][:120], flush=True)
    json.dump(out, open(os.path.join(VERIF, "build", "seeds_final.json"), "w"), indent=1)


if __name__ == "__main__":
    {"thorough": thorough, "fixes": fixes, "seeds": seeds}[sys.argv[1]]()
