"""Common machinery of /verif/check: proof stage (full .vo build of the property's theorem file,
axiom report, forbidden-token gate), correspondence stage (model vs implementation), oracle
stage (independent property check on the implementation), verdict, evidence."""
import glob
import hashlib
import json
import os
import re
import subprocess
import sys
import time

HERE = os.path.dirname(os.path.abspath(__file__))
VERIF = os.path.dirname(HERE)
COQ = os.path.join(VERIF, "coq")
BUILD = os.path.join(VERIF, "build")
REPLAYS = os.path.join(VERIF, "replays")
EVIDENCE = os.path.join(VERIF, "evidence")
sys.path.insert(0, HERE)

import buildsys  # noqa: E402
import runner  # noqa: E402

TRUSTED_BASE = [
    "Coq 8.16.1 kernel via coqc (full .vo builds, no -vos/-vok); vm_compute used; native_compute not used",
    "axioms: none declared by this development; Print Assumptions output of every property theorem is recorded below "
    "and compared with the allow-list (theorems over the abstract field / Qc are closed under the global context)",
    "extraction: Require Extraction, ExtrOcamlBasic, ExtrOcamlString only (no Extract Constant/Inductive of our own); "
    "OCaml 4.13.1 ocamlfind ocamlopt with zarith+unix; harness/driver.ml (s-expression reader, printer, checked "
    "division and per-observation time budget)",
    "translators, run on every check: harness/py2coq.py (fail-closed Python-ast to Gallina for the whitelisted kernels: "
    "true translation of solver steps, Dormand-Prince tables, binary search, interpolators; source-pattern-checked "
    "templates for force of infection, midpoint / cumulative outputs) and harness/py2trace.py (Python-ast to the traced "
    "expression language of Model/Trace.v, C19), with the hand-written semantics of the JAX primitives they target "
    "(Base/Arr.v, Base/ZArr.v, Model/Trace.v)",
    "correspondence harness: program generator, harness/jaxshim (NumPy-backed stand-in for jax, needed because real "
    "jaxlib segfaults in this sandbox; its value-tainting mode SUMMER2_VERIF_TAINT=1 emulates tracing for C19), canonicaliser and tolerance rule, independent oracles in harness/oracles.py",
    "the theorems are about the Gallina model in coq/Model; only the translator and the sampled correspondence "
    "connect it to /repo; IEEE rounding, XLA compilation, the reverse-mode adjoint, pandas/plotting are not modelled",
]

FORBIDDEN = re.compile(r"\b(Admitted|admit|Axiom|Axioms|Parameter|Parameters|Conjecture|Conjectures)\b"
                       r"|Unset\s+Guard|bypass_check|type-in-type|impredicative-set|Admit\s+Obligations"
                       r"|Unset\s+Universe\s+Checking|Unset\s+Positivity")
ALLOWED_AXIOMS = set()


def strip_comments(src):
    out, depth, i = [], 0, 0
    while i < len(src):
        if src.startswith("(*", i):
            depth += 1
            i += 2
        elif src.startswith("*)", i) and depth:
            depth -= 1
            i += 2
        else:
            if not depth:
                out.append(src[i])
            i += 1
    return "".join(out)


def gate():
    """forbidden tokens anywhere in the development (outside comments and strings); Variable / Hypothesis / Context
    only inside a Section"""
    bad = []
    for f in sorted(glob.glob(os.path.join(COQ, "**", "*.v"), recursive=True)):
        src = strip_comments(open(f).read())
        src = re.sub(r'"[^"]*"', '""', src)
        depth = 0
        for mt in re.finditer(r"^\s*(Section|End|Variable|Variables|Hypothesis|Hypotheses|Context)\b", src, flags=re.M):
            w = mt.group(1)
            if w == "Section":
                depth += 1
            elif w == "End":
                depth = max(0, depth - 1)
            elif depth == 0:
                bad.append("%s: %s outside a section" % (os.path.relpath(f, VERIF), w))
        for mt in FORBIDDEN.finditer(src):
            # Section-local Variable/Hypothesis are fine; 'Parameter' etc. never are
            bad.append("%s: %s" % (os.path.relpath(f, VERIF), mt.group(0)))
    return bad


def theorem_names(vfile):
    src = strip_comments(open(vfile).read())
    return re.findall(r"^\s*(?:Theorem|Example|Corollary)\s+([A-Za-z0-9_']+)", src, flags=re.M)


def coq_deps(vfile, seen=None):
    """S2 modules a .v file depends on, transitively (by its Require lines)"""
    seen = seen if seen is not None else set()
    try:
        src = strip_comments(open(vfile).read())
    except OSError:
        return seen
    for stmt in re.findall(r"From\s+S2\s+Require\s+(?:Import|Export)?\s*([^.]*(?:\.[A-Za-z][^.]*)*)\.", src):
        for mod in stmt.split():
            if mod == "Props.Examples":
                continue      # the non-vacuity examples run whole models; the property theorems do not depend on that
            if mod not in seen and re.match(r"^[A-Z][A-Za-z]*\.[A-Za-z0-9_]+$", mod):
                seen.add(mod)
                coq_deps(os.path.join(COQ, *mod.split(".")) + ".v", seen)
    return seen


def proof_stage(pid):
    """Build the property's theorem file (and everything it depends on) with a full make, then
    re-run coqc on it to capture Print Assumptions."""
    t0 = time.time()
    res = {"ok": False, "obligations": 0, "discharged": 0, "axioms": {}, "broken": [], "log": "", "gate": []}
    vfile = os.path.join(COQ, "Props", pid + ".v")
    names = theorem_names(vfile)
    res["obligations"] = len(names)
    res["theorems"] = names
    res["gate"] = gate()
    ok, log = buildsys.regenerate()
    res["translator_ok"] = ok
    res["translator_log"] = log[-1500:]
    rc, out = buildsys.sh("coq_makefile -f _CoqProject -o Makefile", cwd=COQ)
    rc, out = buildsys.sh("timeout 1500 make -j16 Props/%s.vo 2>&1" % pid, cwd=COQ, timeout=1600)
    res["log"] = out[-3000:]
    if rc != 0:
        mt = re.search(r'File "\./([^"]+)", line (\d+)', out)
        res["broken"].append("build of Props/%s.vo failed%s" % (pid, (" in %s line %s" % (mt.group(1), mt.group(2))) if mt else ""))
        res["wall_s"] = time.time() - t0
        return res
    os.makedirs(os.path.join(BUILD, "props"), exist_ok=True)
    rc, out = buildsys.sh("timeout 600 coqc -Q %s S2 %s -o %s 2>&1" % (COQ, vfile, os.path.join(BUILD, "props", pid + ".vo")), cwd=COQ)
    if rc != 0:
        res["broken"].append("coqc Props/%s.v failed" % pid)
        res["log"] += out[-2000:]
        res["wall_s"] = time.time() - t0
        return res
    # Print Assumptions blocks, in order of the Print commands in the file
    src = strip_comments(open(vfile).read())
    printed = re.findall(r"Print\s+Assumptions\s+([A-Za-z0-9_']+)", src)
    blocks = re.split(r"(?=Closed under the global context|Axioms:)", out)
    blocks = [b for b in blocks if b.startswith("Closed") or b.startswith("Axioms:")]
    axioms = {}
    for name, blk in zip(printed, blocks):
        if blk.startswith("Closed"):
            axioms[name] = []
        else:
            axioms[name] = sorted(set(re.findall(r"^([A-Za-z0-9_.']+)\s*:", blk, flags=re.M)))
    res["axioms"] = axioms
    unlisted = sorted({a for l in axioms.values() for a in l if a not in ALLOWED_AXIOMS})
    if unlisted:
        res["broken"].append("theorems depend on axioms outside the allow-list: %s" % unlisted)
    if len(blocks) < len(printed):
        res["broken"].append("Print Assumptions output missing for some theorems")
    if res["gate"]:
        res["broken"].append("forbidden tokens in the development: %s" % res["gate"][:5])
    if not ok:
        # a kernel the translators cannot read breaks the tie of the properties whose theorems (or model) use it
        try:
            import py2coq
            failed = list(py2coq.FAILED)
        except Exception:  # noqa
            failed = ["?"]
        used = [f for f in failed if f == "?" or f in coq_deps(vfile)]
        res["translator_failed_modules"] = failed
        if used:
            res["broken"].append("translator failed for %s (used by Props/%s.v): %s" % (used, pid, log[-300:]))
    res["discharged"] = len(names) if not res["broken"] else 0
    res["ok"] = not res["broken"]
    res["wall_s"] = time.time() - t0
    return res


def ensure_model_built():
    ok, log = buildsys.build_all()
    return ok, log


def load_known_findings():
    p = os.path.join(VERIF, "known_findings.json")
    if not os.path.exists(p):
        return []
    return json.load(open(p))


def write_replay(pid, payload):
    os.makedirs(os.path.join(REPLAYS, pid), exist_ok=True)
    blob = json.dumps(payload, sort_keys=True, indent=1)
    h = hashlib.sha256(blob.encode()).hexdigest()[:12]
    path = os.path.join(REPLAYS, pid, h + ".json")
    with open(path, "w") as f:
        f.write(blob)
    return path


def write_evidence(pid, ev):
    os.makedirs(EVIDENCE, exist_ok=True)
    with open(os.path.join(EVIDENCE, pid + ".json"), "w") as f:
        json.dump(ev, f, indent=1, sort_keys=True)


def strip_meta(p):
    return {k: v for k, v in p.items() if k not in ("meta",)}


def explore(programs, keys=None, tol=1e-9, obs_filter=None, repo=None, per_prog_timeout=6.0):
    """Run programs on both sides.  Returns dict with disagreements, oracle violations, counts."""
    t0 = time.time()
    mres = runner.run_model(programs)
    t1 = time.time()
    ires = runner.run_impl(programs, repo=repo, per_prog_timeout=per_prog_timeout)
    t2 = time.time()
    disagreements, oracle_viol, skipped, oracle_checks, obs_compared = [], [], 0, 0, 0
    harness_fail = []
    build_errors = 0
    time_limited = 0
    for i, (p, a, b) in enumerate(zip(programs, mres, ires)):
        if "harness_error" in b or "harness_error" in a or "driver_error" in a:
            harness_fail.append({"index": i, "model": a.get("harness_error") or a.get("driver_error"), "impl": b.get("harness_error")})
            continue
        d = runner.compare(a, b, tol=tol, keys=keys, obs_filter=obs_filter)
        if d:
            disagreements.append({"index": i, "diffs": d[:8]})
        if a.get("build_error") is not None:
            build_errors += 1
        for j, (mo, io) in enumerate(zip(a.get("obs") or [], b.get("obs") or [])):
            if str(io.get("error", "")).startswith("domain: time limit"):
                skipped += 1
                time_limited += 1
            elif mo.get("error") in ("divzero", "model-timeout"):
                skipped += 1
            elif "oracle" not in mo:
                obs_compared += 1
            if "violations" in io:
                oracle_checks += io.get("checks", 0)
                if io["violations"]:
                    oracle_viol.append({"index": i, "obs": j, "violations": io["violations"][:6]})
            elif "oracle" in mo and "error" in io:
                # an oracle that could not run is reported, never silently dropped
                if not io.get("error", "").startswith("domain:"):
                    oracle_viol.append({"index": i, "obs": j, "violations": ["oracle raised: " + io["error"][:300]]})
    if time_limited > max(3, len(programs) // 50):
        # a few crawling solver runs are outside every property's domain; many of them mean the code hangs
        harness_fail.append({"index": 0, "model": None,
                             "impl": "%d observations hit the time limit of the implementation runner" % time_limited})
    return {"mres": mres, "ires": ires, "disagreements": disagreements, "oracle_violations": oracle_viol, "time_limited_obs": time_limited,
            "skipped_obs": skipped, "oracle_checks": oracle_checks, "obs_compared": obs_compared,
            "harness_failures": harness_fail, "build_errors": build_errors,
            "model_s": t1 - t0, "impl_s": t2 - t1}


def signature(p):
    """structural signature of a program (for distinct_nontrivial)"""
    q = strip_meta(p)
    return hashlib.sha256(json.dumps(q, sort_keys=True).encode()).hexdigest()
