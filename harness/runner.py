"""Runs build programs on both sides (real summer2 on the jax stand-in / extracted Gallina
model) and compares the observations.  DESIGN.md sections 4.3, 4.4."""
import json
import math
import os
import subprocess
import sys
import tempfile
import time
from concurrent.futures import ThreadPoolExecutor
from fractions import Fraction

HERE = os.path.dirname(os.path.abspath(__file__))
VERIF = os.path.dirname(HERE)
BUILD = os.path.join(VERIF, "build")
REPO = os.environ.get("VERIF_REPO", "/repo")
PY = "/venv/bin/python"
NCPU = min(16, os.cpu_count() or 4)

sys.path.insert(0, HERE)
import progs as P  # noqa: E402


def impl_env(repo=None, extra=None):
    env = dict(os.environ)
    env["PYTHONPATH"] = os.path.join(HERE, "jaxshim") + ":" + (repo or REPO)
    env.setdefault("PYTHONHASHSEED", "0")
    env["OMP_NUM_THREADS"] = "1"
    env["OPENBLAS_NUM_THREADS"] = "1"
    env["MKL_NUM_THREADS"] = "1"
    env["PYTHONDONTWRITEBYTECODE"] = "1"
    if extra:
        env.update(extra)
    return env


def _run_chunk(args):
    chunk, repo, extra_env, per_prog_timeout, script = args
    if not chunk:
        return []
    inp = "\n".join(json.dumps(p) for p in chunk) + "\n"
    try:
        r = subprocess.run([PY, os.path.join(HERE, script)], input=inp, capture_output=True, text=True,
                           env=impl_env(repo, extra_env), timeout=30 + per_prog_timeout * len(chunk))
        lines = [l for l in r.stdout.split("\n") if l.strip()]
        out = []
        for l in lines:
            try:
                out.append(json.loads(l))
            except Exception:
                out.append({"harness_error": "unparsable output: " + l[:200]})
        while len(out) < len(chunk):
            out.append({"harness_error": "worker died: rc=%s stderr=%s" % (r.returncode, r.stderr[-400:])})
        return out[: len(chunk)]
    except subprocess.TimeoutExpired:
        return [{"harness_error": "timeout"} for _ in chunk]


def run_impl(programs, repo=None, extra_env=None, workers=NCPU, per_prog_timeout=5.0, script="impl.py"):
    """Execute the programs on the real summer2 (list of result dicts, same order)."""
    n = len(programs)
    if n == 0:
        return []
    nchunks = max(1, min(workers * 2, (n + 7) // 8))
    size = (n + nchunks - 1) // nchunks
    chunks = [programs[i: i + size] for i in range(0, n, size)]
    with ThreadPoolExecutor(max_workers=workers) as ex:
        res = list(ex.map(_run_chunk, [(c, repo, extra_env, per_prog_timeout, script) for c in chunks]))
    return [r for c in res for r in c]


def run_model(programs, workers=NCPU):
    """Execute the programs on the extracted Gallina model."""
    exe = os.path.join(BUILD, "summer_model")
    n = len(programs)
    if n == 0:
        return []
    nchunks = max(1, min(workers, (n + 31) // 32))
    size = (n + nchunks - 1) // nchunks
    chunks = [programs[i: i + size] for i in range(0, n, size)]

    def one(chunk):
        inp = "\n".join(P.prog_sx(p) for p in chunk) + "\n"
        try:
            r = subprocess.run(["bash", "-c", "ulimit -s unlimited 2>/dev/null; exec " + exe], input=inp,
                               capture_output=True, text=True, timeout=60 + 2 * len(chunk))
        except subprocess.TimeoutExpired:
            return [{"harness_error": "model timeout"} for _ in chunk]
        out = []
        for l in r.stdout.split("\n"):
            if l.strip():
                try:
                    out.append(json.loads(l))
                except Exception:
                    out.append({"harness_error": "unparsable model output " + l[:200]})
        while len(out) < len(chunk):
            out.append({"harness_error": "model died rc=%s %s" % (r.returncode, r.stderr[-300:])})
        return out[: len(chunk)]

    with ThreadPoolExecutor(max_workers=workers) as ex:
        res = list(ex.map(one, chunks))
    return [r for c in res for r in c]


# ------------------------------------------------------------------------------ comparison
def to_float(v):
    if isinstance(v, str):
        if v in ("nan", "inf", "-inf"):
            return float(v)
        return float(Fraction(v))
    return float(v)


def vec_close(a, b, tol):
    """model vector a (exact rationals) vs implementation vector b (doubles)."""
    if len(a) != len(b):
        return "length %d vs %d" % (len(a), len(b))
    fa = [to_float(x) for x in a]
    fb = [to_float(x) for x in b]
    scale = 1.0 + max([abs(x) for x in fa if math.isfinite(x)] + [0.0])
    for i, (x, y) in enumerate(zip(fa, fb)):
        if math.isnan(y) or math.isinf(y):
            return "index %d: model %r vs impl %r" % (i, x, y)
        if abs(x - y) > tol * scale:
            return "index %d: model %.12g vs impl %.12g" % (i, x, y)
    return None


NUMERIC_KEYS = ("flow_rates", "comp_rates", "initial_population", "infectious_multipliers", "y1", "f1", "err")


def compare_obs(mo, io, tol=1e-9, keys=None, traj_tol=1e-7):
    """Differences between one model observation and one implementation observation."""
    diffs = []
    merr, ierr = "error" in mo, "error" in io
    if "oracle" in mo:
        return []
    if mo.get("error") == "divzero":
        # outside the domain of every property (a category population or a user divisor is 0):
        # the implementation yields nan/inf there; not compared
        return ["SKIP divzero"]
    if mo.get("error") == "model-timeout":
        return ["SKIP model-timeout"]
    if str(io.get("error", "")).startswith("domain: time limit"):
        return ["SKIP impl-time-limit"]
    if merr or ierr:
        if merr != ierr:
            diffs.append("raise mismatch: model %s / impl %s" % (mo.get("error"), io.get("error")))
        return diffs
    if "history" in mo:
        if "history" not in io or len(io["history"]) != len(mo["history"]):
            return ["history: lengths differ"]
        for i, (a, b) in enumerate(zip(mo["history"], io["history"])):
            if (a is None) != (b is None):
                diffs.append("history call %d: one side returned nothing" % i)
            elif a is not None:
                for d in compare_obs(a, b, tol, None, traj_tol):
                    if not d.startswith("SKIP"):
                        diffs.append("history call %d: %s" % (i, d))
        return diffs
    for k in mo:
        if keys is not None and k not in keys:
            continue
        if k not in io:
            diffs.append("missing key %s on impl side" % k)
            continue
        if k in NUMERIC_KEYS:
            d = vec_close(mo[k], io[k], tol)
            if d:
                diffs.append("%s: %s" % (k, d))
        elif k == "outputs":
            if len(mo[k]) != len(io[k]):
                diffs.append("outputs: %d rows vs %d" % (len(mo[k]), len(io[k])))
            else:
                for i, (ra, rb) in enumerate(zip(mo[k], io[k])):
                    d = vec_close(ra, rb, traj_tol)
                    if d:
                        diffs.append("outputs row %d: %s" % (i, d))
                        break
        elif k == "derived":
            if sorted(mo[k]) != sorted(io[k]):
                diffs.append("derived keys: %s vs %s" % (sorted(mo[k]), sorted(io[k])))
            else:
                for name in mo[k]:
                    d = vec_close(mo[k][name], io[k][name], traj_tol)
                    if d:
                        diffs.append("derived[%s]: %s" % (name, d))
        else:
            if mo[k] != io[k]:
                diffs.append("%s: model %s vs impl %s" % (k, json.dumps(mo[k])[:300], json.dumps(io[k])[:300]))
    return diffs


def compare(mres, ires, tol=1e-9, keys=None, obs_filter=None):
    diffs = []
    for side, r in (("model", mres), ("impl", ires)):
        if "harness_error" in r or "driver_error" in r:
            return ["%s harness failure: %s" % (side, r.get("harness_error") or r.get("driver_error"))]
    if mres.get("build_error") != ires.get("build_error"):
        return ["build error position: model %s (%s) vs impl %s (%s)" % (
            mres.get("build_error"), mres.get("why"), ires.get("build_error"), ires.get("why"))]
    if mres.get("build_error") is not None:
        return []
    for j, (mo, io) in enumerate(zip(mres["obs"], ires["obs"])):
        if obs_filter is not None and not obs_filter(j):
            continue
        for d in compare_obs(mo, io, tol, keys):
            if d.startswith("SKIP"):
                continue
            diffs.append("obs %d: %s" % (j, d))
    return diffs


if __name__ == "__main__":
    progs = [json.loads(l) for l in open(sys.argv[1]) if l.strip()]
    t = time.time()
    mr = run_model(progs)
    t1 = time.time()
    ir = run_impl(progs)
    t2 = time.time()
    nd = 0
    for i, (p, a, b) in enumerate(zip(progs, mr, ir)):
        d = compare(a, b)
        if d:
            nd += 1
            print("PROGRAM", i, json.dumps(p)[:2000])
            for x in d[:6]:
                print("   ", x)
    print("programs=%d disagreements=%d model=%.1fs impl=%.1fs" % (len(progs), nd, t1 - t, t2 - t1))
