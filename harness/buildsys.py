"""Builds the Coq development (full .vo build), extracts the model and compiles the driver."""
import os
import subprocess
import sys
import time

HERE = os.path.dirname(os.path.abspath(__file__))
VERIF = os.path.dirname(HERE)
COQ = os.path.join(VERIF, "coq")
BUILD = os.path.join(VERIF, "build")
EXTRACTED = os.path.join(BUILD, "extracted")


def sh(cmd, cwd=None, timeout=1800):
    r = subprocess.run(cmd, shell=True, cwd=cwd, capture_output=True, text=True, timeout=timeout)
    return r.returncode, r.stdout + r.stderr


def make(jobs=16, timeout=1800, target="Model/Api.vo Model/Adaptive.vo Model/Trace.vo Gen/TraceGen.vo"):
    """coq_makefile + make of the executable model only (the proofs are built per property by the
    proof stage, so that a broken proof never prevents the model from being run); returns (ok, log)"""
    os.makedirs(BUILD, exist_ok=True)
    rc, out = sh("coq_makefile -f _CoqProject -o Makefile", cwd=COQ)
    if rc != 0:
        return False, out
    rc, out = sh("timeout %d make -j%d %s 2>&1" % (timeout, jobs, target), cwd=COQ, timeout=timeout + 30)
    return rc == 0, out


def newer(src_files, target):
    if not os.path.exists(target):
        return True
    t = os.path.getmtime(target)
    return any(os.path.getmtime(f) > t for f in src_files if os.path.exists(f))


def extract_and_compile(force=False):
    os.makedirs(EXTRACTED, exist_ok=True)
    exe = os.path.join(BUILD, "summer_model")
    vo = [os.path.join(COQ, "Model", f) for f in os.listdir(os.path.join(COQ, "Model")) if f.endswith(".vo")]
    srcs = vo + [os.path.join(COQ, "Extract", "Extract.v"), os.path.join(HERE, "driver.ml")]
    if not force and not newer(srcs, exe):
        return True, "up to date"
    rc, out = sh("timeout 300 coqc -Q %s S2 %s -o %s/Extract.vo" % (COQ, os.path.join(COQ, "Extract", "Extract.v"), EXTRACTED),
                 cwd=EXTRACTED)
    if rc != 0:
        return False, out
    rc, out2 = sh("cp %s/driver.ml . && timeout 300 ocamlfind ocamlopt -package zarith,unix -linkpkg -w -a "
                  "summer_model.mli summer_model.ml driver.ml -o %s" % (HERE, exe), cwd=EXTRACTED)
    return rc == 0, out + out2


def build_all(force=False):
    t = time.time()
    ok, log = make()
    if not ok:
        return False, log
    ok, log2 = extract_and_compile(force)
    return ok, log + log2 + "\nbuild %.1fs" % (time.time() - t)


def regenerate():
    """Regenerate coq/Gen/*.v from the current /repo working tree (translator)."""
    try:
        import py2coq
    except ImportError:
        return True, "translator not present"
    try:
        return py2coq.regenerate_all()
    except Exception as e:  # fail closed: a kernel the translator cannot read breaks the proof stage
        return False, "translator error: %r" % (e,)


if __name__ == "__main__":
    if "--setup" in sys.argv:
        okr, logr = regenerate()
        print(logr[-500:])
        # build every theorem file once so that the per-property checks only re-check what changed
        rc, out = sh("coq_makefile -f _CoqProject -o Makefile && timeout 3000 make -j16 2>&1 | tail -5", cwd=COQ, timeout=3100)
        print(out[-800:])
    ok, log = build_all("--force" in sys.argv or "--setup" in sys.argv)
    print(log[-3000:])
    sys.exit(0 if ok else 1)
