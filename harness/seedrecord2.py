"""Later rounds of seeded changes: /tmp/seed<round>_<id>/{patchA.diff,demoA.py,notesA.txt}, worktree /tmp/wt2_<id>;
recorded as /verif/seeded/<id>-R<round> (SEED_ROUND=2 by default)."""
import json
import os
import shutil
import sys

sys.path.insert(0, os.path.dirname(os.path.abspath(__file__)))
import seedtest  # noqa: E402

VERIF = seedtest.VERIF


ROUND = os.environ.get("SEED_ROUND", "2")


def record(pid, props):
    src, wt = "/tmp/seed%s_%s" % (ROUND, pid), "/tmp/wt2_%s" % pid
    patch, demo = src + "/patchA.diff", src + "/demoA.py"
    if not (os.path.exists(patch) and os.path.exists(demo)):
        print(pid, "NOT DELIVERED")
        return
    notes = open(src + "/notesA.txt").read() if os.path.exists(src + "/notesA.txt") else ""
    conf = seedtest.confirm(wt, patch, demo)
    if not conf["confirmed"]:
        print("NOT CONFIRMED", pid, conf)
        return
    det = seedtest.detect(patch, props)
    d = os.path.join(VERIF, "seeded", "%s-R%s" % (pid, ROUND))
    os.makedirs(d, exist_ok=True)
    shutil.copy(patch, os.path.join(d, "patch.diff"))
    shutil.copy(demo, os.path.join(d, "demo.py"))
    meta = {"property": pid, "variant": "R" + ROUND + " (later round: written after the checks had been strengthened on the first round; "
                                        "the author was told which changes had been tried and asked for a different site and mechanism)",
            "written_by": "independent sub-agent given only the property text and a scratch worktree",
            "needs_to_manifest": notes.strip(),
            "confirmed": {"demo_exit_clean": conf["demo_clean_rc"], "demo_exit_patched": conf["demo_patched_rc"],
                          "tests_patched": conf["tests_tail"]},
            "checks_run": {k: {"exit": v["rc"], "first_lines": v["summary"][:3]} for k, v in det.items()},
            "detected_by": [k for k, v in det.items() if v["rc"] != 0],
            "how_checks_were_run": "git -C /repo apply patch.diff; ./check <id> --quick; git -C /repo checkout -- ."}
    json.dump(meta, open(os.path.join(d, "meta.json"), "w"), indent=1)
    print(pid, "R" + ROUND, "detected_by", meta["detected_by"], [v["summary"][:1] for v in det.values()][0][:1])


if __name__ == "__main__":
    record(sys.argv[1], sys.argv[2:] or [sys.argv[1]])
