(* Specification of the rates of change: the documented per-flow laws (C01) and the
   "inflow minus outflow" rule, stated flow by flow over compartment identities. *)
From Coq Require Import QArith List String Bool Arith.
Import ListNotations.
From S2 Require Import Base.Num Base.Arr Model.Expr Model.Struct Model.Rates.
Local Open Scope nat_scope.

Section Spec.
Variable O : NumOps.
Notation F := (F O).
Notation env := (env O).

(* the weight of a flow: its parameter with the adjustments applied in order;
   Multiply scales, Overwrite replaces everything accumulated before it *)
Definition apply_adj (p : env) (t : F) (x : list F) (w : F) (a : adj) : F :=
  match a with
  | AMul e => fmul O w (eval O p t x e)
  | AOvr e => eval O p t x e
  end.

Definition weight_spec (p : env) (t : F) (x : list F) (f : flow) : F :=
  fold_left (apply_adj p t x) (f_adjs f) (eval O p t x (f_param f)).

Definition src_index (cs : list comp) (f : flow) : nat :=
  match f_src f with Some c => comp_index cs c | None => 0 end.

(* the documented law for each kind of flow *)
Definition flow_law (k : fkind) (w pop total foi deaths : F) : F :=
  match k with
  | KTrans | KDeath => fmul O w pop
  | KInfFreq | KInfDens => fmul O (fmul O w pop) foi
  | KCrude => fmul O w total
  | KImport | KAbs => w
  | KRepl => fmul O w deaths
  end.

(* rate of a fractional (source-proportional) flow before any multiplier *)
Definition base_rate (m : model) (p : env) (t : F) (x : list F) (f : flow) : F :=
  fmul O (weight_spec p t x f) (get_clamp (f0 O) x (src_index (m_comps m) f)).

(* total death rate: sum over the death flows of weight x source population *)
Definition total_deaths (m : model) (p : env) (t : F) (x : list F) : F :=
  fsum O (map (base_rate m p t x) (filter (fun f => fkind_eqb (f_kind f) KDeath) (m_flows m))).

(* position of flow i among the infection flows *)
Definition infection_rank (fl : list flow) (i : nat) : nat :=
  List.length (filter (fun f => is_infection (f_kind f)) (firstn i fl)).

(* rate of the flow at position i; [muls] is the vector of force-of-infection multipliers,
   one per infection flow in model order (specified by C05); x is the cleaned state *)
Definition flow_rate_spec (m : model) (p : env) (t : F) (x : list F) (muls : list F) (i : nat) (f : flow) : F :=
  flow_law (f_kind f) (weight_spec p t x f)
           (get_clamp (f0 O) x (src_index (m_comps m) f))
           (fsum O x)
           (nth (infection_rank (m_flows m) i) muls (f0 O))
           (total_deaths m p t x).

(* inflow minus outflow of the compartment at position s *)
Definition comp_rate_spec (m : model) (rates : list F) (s : nat) : F :=
  fsub O
    (fsum O (map (fun jf => match f_dst (snd jf) with
                            | Some d => if Nat.eqb (comp_index (m_comps m) d) s then nth (fst jf) rates (f0 O) else f0 O
                            | None => f0 O end) (enumerate (m_flows m))))
    (fsum O (map (fun jf => match f_src (snd jf) with
                            | Some c => if Nat.eqb (comp_index (m_comps m) c) s then nth (fst jf) rates (f0 O) else f0 O
                            | None => f0 O end) (enumerate (m_flows m)))).

End Spec.
