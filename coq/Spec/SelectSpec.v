(* C13: what "name and strata filter" means. *)
From Coq Require Import List String Bool.
Import ListNotations.
From S2 Require Import Model.Struct.

(* the strata of the item contain every key/value pair of the filter *)
Definition strata_contain (s filt : strata) : Prop := forall kv, In kv filt -> In kv s.

Definition selects_comp (name : string) (filt : strata) (c : comp) : Prop :=
  c_name c = name /\ strata_contain (c_strata c) filt.

(* an end that does not exist never excludes a flow; an empty filter selects all *)
Definition end_ok (oc : option comp) (filt : strata) : Prop :=
  match oc with None => True | Some c => strata_contain (c_strata c) filt end.

Definition selects_flow (name : string) (src_f dst_f : strata) (f : flow) : Prop :=
  f_name f = name /\ end_ok (f_src f) src_f /\ end_ok (f_dst f) dst_f.
