(* Order facts over the numeric interface: boolean comparisons reflect the order. *)
From Coq Require Import QArith Field Ring List Bool Arith Lia.
Import ListNotations.
From S2 Require Import Base.Num Base.Arr Proofs.NumLemmas.
Local Open Scope nat_scope.

Section Order.
Variable O : NumOps.
Variable T : NumTheory O.
Notation F := (F O).
Notation "x <= y" := (fle O T x y).
Definition flt (x y : F) : Prop := x <= y /\ x <> y.
Notation "x < y" := (flt x y).

Lemma fltb_true x y : fltb O x y = true <-> x < y.
Proof. apply (fltb_spec O T). Qed.

Lemma fltb_false x y : fltb O x y = false <-> y <= x.
Proof.
  split.
  - intro H. destruct (fle_total O T x y) as [Hxy|Hyx]; [|exact Hyx].
    destruct (feq_dec O T x y) as [->|Hne]; [apply (fle_refl O T)|].
    assert (fltb O x y = true) by (apply fltb_true; split; assumption). congruence.
  - intro H. destruct (fltb O x y) eqn:E; [|reflexivity].
    apply fltb_true in E. destruct E as [Hxy Hne]. elim Hne. apply (fle_antisym O T); assumption.
Qed.

Lemma fleb_true x y : fleb O x y = true <-> x <= y.
Proof. unfold fleb. rewrite negb_true_iff. apply fltb_false. Qed.

Lemma fleb_false x y : fleb O x y = false <-> y < x.
Proof. unfold fleb. rewrite negb_false_iff. apply fltb_true. Qed.

Lemma flt_le x y : x < y -> x <= y. Proof. intros [H _]; exact H. Qed.

Lemma fle_lt_trans x y z : x <= y -> y < z -> x < z.
Proof.
  intros H1 [H2 Hne]. split; [apply (fle_trans O T x y z); assumption|].
  intro E. subst. apply Hne. apply (fle_antisym O T); assumption.
Qed.

Lemma flt_le_trans x y z : x < y -> y <= z -> x < z.
Proof.
  intros [H1 Hne] H2. split; [apply (fle_trans O T x y z); assumption|].
  intro E. subst. apply Hne. apply (fle_antisym O T); assumption.
Qed.

Lemma flt_irrefl x : ~ x < x. Proof. intros [_ H]; apply H; reflexivity. Qed.

Lemma flt_not_le x y : x < y -> ~ y <= x.
Proof. intros [H Hne] H'. apply Hne. apply (fle_antisym O T); assumption. Qed.

End Order.
