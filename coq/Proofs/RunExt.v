(* C09 / C11: a whole run depends on the parameter environment only through the parameters that
   occur in the definition (model.get_input_parameters()): two environments that agree on them give
   the same initial population, rates, trajectories and derived outputs. *)
From Coq Require Import QArith List String Bool Arith Lia.
Import ListNotations.
From S2 Require Import Base.Num Base.Arr Model.Expr Model.Struct Model.Rates Model.InitPop Model.Solvers
     Model.Derived Model.Run Model.Program Model.Api Spec.RatesSpec Gen.SolversGen
     Proofs.ArrLemmas Proofs.ExprLemmas Proofs.WeightProofs Proofs.ParamProofs.
Local Open Scope nat_scope.
Local Notation length := List.length.

Section RunExt.
Variable O : NumOps.
Variable T : NumTheory O.
Notation F := (F O).
Notation env := (env O).

Definition agree (S : list string) (p q : env) : Prop := forall k, In k S -> p k = q k.

Lemma agree_incl S S' p q : incl S' S -> agree S p q -> agree S' p q.
Proof. intros Hi H k Hk. apply H, Hi, Hk. Qed.

Lemma agree_exprs (es : list expr) p q e : agree (flat_map params_of es) p q -> In e es -> agree (params_of e) p q.
Proof. intros H He k Hk. apply H. apply in_flat_map. exists e. split; assumption. Qed.

Lemma eval_agree p q e t x : agree (params_of e) p q -> eval O p t x e = eval O q t x e.
Proof. intro H. apply eval_env_ext. exact H. Qed.

Lemma fold_left_ext_in {A B} (f g : A -> B -> A) l : (forall a b, In b l -> f a b = g a b) ->
  forall a, fold_left f l a = fold_left g l a.
Proof.
  induction l as [|b l IH]; intros H a; [reflexivity|]. cbn. rewrite H by (left; reflexivity).
  apply IH. intros a' b' Hb. apply H. right; exact Hb.
Qed.

Lemma assoc_in {A} k (l : list (string * A)) v : assoc k l = Some v -> In v (map snd l).
Proof.
  induction l as [|[k' v'] l IH]; cbn; [discriminate|]. destruct (String.eqb k k').
  - intro E. injection E as <-. left; reflexivity.
  - intro E. right. apply IH. exact E.
Qed.

(* ---- flow weights *)
Lemma flow_weights_ext p q t x fl :
  agree (flat_map flow_params fl) p q -> flow_weights O p t x fl = flow_weights O q t x fl.
Proof.
  intro H. apply (nth_ext _ _ (f0 O) (f0 O)); [rewrite !flow_weights_length; reflexivity|].
  intros i Hi. rewrite flow_weights_length in Hi.
  rewrite !(flow_weights_nth O T) by exact Hi. apply weight_env_ext.
  intros k Hk. apply H. apply in_flat_map. exists (nth i fl dflow). split; [apply nth_In; exact Hi|exact Hk].
Qed.

(* ---- mixing matrix *)
Lemma eval_matrix_ext p q t x mm :
  agree (flat_map params_of (List.concat mm)) p q -> eval_matrix O p t x mm = eval_matrix O q t x mm.
Proof.
  intro H. unfold eval_matrix. apply map_ext_in. intros row Hrow. apply map_ext_in. intros e He.
  apply eval_agree. eapply agree_exprs; [exact H|]. apply in_concat. exists row. split; assumption.
Qed.

Definition mix_exprs (m : model) : list expr :=
  flat_map (fun s => match s_mix s with Some mm => List.concat mm | None => [] end) (m_strats m).

Lemma mixing_matrix_ext m p q t x :
  agree (flat_map params_of (mix_exprs m)) p q -> mixing_matrix O m p t x = mixing_matrix O m q t x.
Proof.
  intro H. unfold mixing_matrix.
  assert (HL : forall mm, In mm (flat_map (fun s => opt_to_list (s_mix s)) (m_strats m)) ->
                          agree (flat_map params_of (List.concat mm)) p q).
  { intros mm Hmm k Hk. apply H. apply in_flat_map in Hmm. destruct Hmm as [s [Hs Hm]].
    apply in_flat_map in Hk. destruct Hk as [e [He Hk]]. apply in_flat_map. exists e. split; [|exact Hk].
    unfold mix_exprs. apply in_flat_map. exists s. split; [exact Hs|].
    unfold opt_to_list in Hm. destruct (s_mix s) as [mm'|]; [|destruct Hm]. destruct Hm as [<-|[]]. exact He. }
  destruct (flat_map _ (m_strats m)) as [|m0 rest]; [reflexivity|].
  rewrite (eval_matrix_ext p q t x m0) by (apply HL; left; reflexivity).
  apply fold_left_ext_in. intros acc mm Hmm. rewrite (eval_matrix_ext p q t x mm); [reflexivity|].
  apply HL. right; exact Hmm.
Qed.

(* ---- infectiousness *)
Definition iadj_exprs (m : model) : list expr :=
  flat_map (fun s => flat_map (fun ce => oadj_exprs (snd ce)) (s_iadj s)) (m_strats m).

Lemma apply_iadj_ext m p q sname inf ce :
  agree (flat_map params_of (oadj_exprs (snd ce))) p q -> apply_iadj O m p sname inf ce = apply_iadj O m q sname inf ce.
Proof.
  intro H. unfold apply_iadj. apply fold_left_ext_in. intros acc sa Hsa. destruct (snd sa) as [a|] eqn:Ea; [|reflexivity].
  rewrite (eval_agree p q (adj_expr a)); [reflexivity|].
  eapply agree_exprs; [exact H|]. unfold oadj_exprs. apply in_flat_map. exists sa. split; [exact Hsa|].
  rewrite Ea. left; reflexivity.
Qed.

Lemma compartment_infectiousness_ext m p q :
  agree (flat_map params_of (iadj_exprs m)) p q -> compartment_infectiousness O m p = compartment_infectiousness O m q.
Proof.
  intro H. unfold compartment_infectiousness. apply fold_left_ext_in. intros inf s Hs.
  apply fold_left_ext_in. intros inf' ce Hce. apply apply_iadj_ext.
  intros k Hk. apply H. apply in_flat_map in Hk. destruct Hk as [e [He Hk]]. apply in_flat_map. exists e. split; [|exact Hk].
  unfold iadj_exprs. apply in_flat_map. exists s. split; [exact Hs|]. apply in_flat_map. exists ce. split; assumption.
Qed.

(* ---- rates *)
Definition rate_exprs (m : model) : list string :=
  flat_map flow_params (m_flows m) ++ flat_map params_of (mix_exprs m) ++ flat_map params_of (iadj_exprs m).

Lemma get_flow_rates_ext m b p q t x :
  agree (rate_exprs m) p q -> get_flow_rates O m b p t x = get_flow_rates O m b q t x.
Proof.
  intro H. unfold get_flow_rates, apply_infection, infectious_multipliers.
  rewrite (flow_weights_ext p q) by (eapply agree_incl; [|exact H]; unfold rate_exprs; apply incl_appl, incl_refl).
  rewrite (mixing_matrix_ext m p q)
    by (eapply agree_incl; [|exact H]; unfold rate_exprs; apply incl_appr, incl_appl, incl_refl).
  rewrite (compartment_infectiousness_ext m p q)
    by (eapply agree_incl; [|exact H]; unfold rate_exprs; apply incl_appr, incl_appr, incl_refl).
  reflexivity.
Qed.

Lemma get_comp_rates_ext m b p q t x :
  agree (rate_exprs m) p q -> get_comp_rates O m b p t x = get_comp_rates O m b q t x.
Proof. intro H. unfold get_comp_rates. rewrite (get_flow_rates_ext m b p q t x H). reflexivity. Qed.

(* ---- initial population *)
Lemma stratify_values_ext p q s cs vals :
  agree (flat_map params_of (map snd (s_split s))) p q -> stratify_values O p s cs vals = stratify_values O q s cs vals.
Proof.
  intro H. unfold stratify_values. apply fold_left_ext_in. intros acc kt Hkt.
  destruct (assoc (fst kt) (s_split s)) as [e|] eqn:Ea; [|reflexivity].
  unfold static_eval. rewrite (eval_agree p q e); [reflexivity|]. eapply agree_exprs; [exact H|]. eapply assoc_in; exact Ea.
Qed.

Lemma rebalance_ext m p q pop sname filt props :
  agree (flat_map params_of (map snd props)) p q -> rebalance O p m pop sname filt props = rebalance O q m pop sname filt props.
Proof.
  intro H. unfold rebalance. apply fold_left_ext_in. intros out g Hg. apply fold_left_ext_in. intros out' i Hi.
  destruct (nth_error (m_comps m) i) as [c|]; [|reflexivity].
  destruct (strata_get (c_strata c) sname) as [k|]; [|reflexivity].
  destruct (assoc k props) as [e|] eqn:Ea; [|reflexivity].
  unfold static_eval. rewrite (eval_agree p q e); [reflexivity|]. eapply agree_exprs; [exact H|]. eapply assoc_in; exact Ea.
Qed.

Definition init_exprs (m : model) : list expr :=
  flat_map (fun a => match a with
                     | AStratify s => map snd (s_split s)
                     | ARebalance _ _ props => map snd props end) (m_actions m)
  ++ match m_initpop m with Some d => map snd d | None => [] end
  ++ match m_arraypop m with Some a => a | None => [] end.

Lemma initial_population_ext m p q :
  agree (flat_map params_of (init_exprs m)) p q -> initial_population O m p = initial_population O m q.
Proof.
  intro H. unfold initial_population.
  assert (Harr : forall arr, m_arraypop m = Some arr -> agree (flat_map params_of arr) p q).
  { intros arr E k Hk. apply H. unfold init_exprs. rewrite E. rewrite !flat_map_app. apply in_or_app. right.
    apply in_or_app. right. exact Hk. }
  destruct (m_arraypop m) as [arr|] eqn:Earr.
  - apply map_ext_in. intros e He. unfold static_eval. apply eval_agree. eapply agree_exprs; [apply Harr; reflexivity|exact He].
  - f_equal.
    assert (Hinit : map (fun n => match assoc n (match m_initpop m with Some d => d | None => [] end) with
                                  | Some e => static_eval O p e | None => f0 O end) (m_orig m)
                    = map (fun n => match assoc n (match m_initpop m with Some d => d | None => [] end) with
                                    | Some e => static_eval O q e | None => f0 O end) (m_orig m)).
    { apply map_ext. intro n. destruct (assoc n _) as [e|] eqn:Ea; [|reflexivity].
      unfold static_eval. apply eval_agree. eapply agree_exprs; [exact H|].
      unfold init_exprs. apply in_or_app. right. apply in_or_app. left.
      destruct (m_initpop m) as [d|]; [eapply assoc_in; exact Ea | discriminate]. }
    rewrite Hinit. apply fold_left_ext_in. intros st a Ha.
    assert (Hact : agree (flat_map params_of (match a with AStratify s => map snd (s_split s)
                                                      | ARebalance _ _ props => map snd props end)) p q).
    { intros k Hk. apply H. unfold init_exprs. rewrite flat_map_app. apply in_or_app. left.
      apply in_flat_map in Hk. destruct Hk as [e [He Hk]]. apply in_flat_map. exists e. split; [|exact Hk].
      apply in_flat_map. exists a. split; assumption. }
    destruct a as [s|sname filt props].
    + rewrite (stratify_values_ext p q s _ _ Hact). reflexivity.
    + rewrite (rebalance_ext m p q _ sname filt props Hact). reflexivity.
Qed.

(* ---- derived outputs *)
Lemma apply_fn_ext fn srcs (p q : env) ps :
  agree (flat_map params_of (request_exprs (RFunc fn [] ps))) p q ->
  apply_fn O fn srcs (map (fun e => eval O p (f0 O) [] e) ps) = apply_fn O fn srcs (map (fun e => eval O q (f0 O) [] e) ps).
Proof.
  intro H. unfold apply_fn.
  assert (E : fn = 0 \/ fn = 1 -> nth 0 (map (fun e => eval O p (f0 O) [] e) ps) (f0 O)
                                   = nth 0 (map (fun e => eval O q (f0 O) [] e) ps) (f0 O)).
  { intro Hfn. destruct ps as [|e ps]; [reflexivity|]. cbn [map nth]. apply eval_agree.
    intros k Hk. apply H. destruct Hfn as [-> | ->]; cbn; rewrite app_nil_r; exact Hk. }
  destruct fn as [|[|fn]]; [rewrite E by auto; reflexivity | rewrite E by auto; reflexivity | reflexivity].
Qed.

Definition request_param_exprs (m : model) : list expr :=
  flat_map (fun nr => request_exprs (fst (snd nr))) (m_requests m).

Lemma request_exprs_srcs fn srcs ps : request_exprs (RFunc fn srcs ps) = request_exprs (RFunc fn [] ps).
Proof. destruct fn as [|[|fn]]; reflexivity. Qed.

Lemma eval_request_ext m (p q : env) n outputs flows cvs acc r :
  agree (flat_map params_of (request_exprs r)) p q ->
  eval_request O m p n outputs flows cvs acc r = eval_request O m q n outputs flows cvs acc r.
Proof.
  intro H. destruct r; cbn [eval_request]; try reflexivity.
  rewrite (apply_fn_ext fn _ p q params); [reflexivity|]. rewrite <- (request_exprs_srcs fn sources params). exact H.
Qed.

Lemma eval_requests_ext m (p q : env) n outputs flows cvs needed reqs :
  agree (flat_map params_of (flat_map (fun nr => request_exprs (fst (snd nr))) reqs)) p q ->
  forall acc, eval_requests O m p n outputs flows cvs needed reqs acc = eval_requests O m q n outputs flows cvs needed reqs acc.
Proof.
  induction reqs as [|nr reqs IH]; intros H acc; [reflexivity|]. cbn [eval_requests].
  assert (H1 : agree (flat_map params_of (request_exprs (fst (snd nr)))) p q).
  { intros k Hk. apply H. cbn [flat_map]. rewrite flat_map_app. apply in_or_app. left. exact Hk. }
  assert (H2 : agree (flat_map params_of (flat_map (fun nr => request_exprs (fst (snd nr))) reqs)) p q).
  { intros k Hk. apply H. cbn [flat_map]. rewrite flat_map_app. apply in_or_app. right. exact Hk. }
  destruct (mem_str (fst nr) needed); [|apply IH; exact H2].
  rewrite (eval_request_ext m p q n outputs flows cvs acc _ H1).
  destruct (eval_request O m q n outputs flows cvs acc (fst (snd nr))); cbn [bind]; [apply IH; exact H2 | reflexivity].
Qed.

Lemma derived_outputs_ext m (p q : env) n outputs flows cvs :
  agree (flat_map params_of (request_param_exprs m)) p q ->
  derived_outputs O m p n outputs flows cvs = derived_outputs O m q n outputs flows cvs.
Proof.
  intro H. unfold derived_outputs.
  destruct (guard _ _); cbn [bind]; [|reflexivity]. destruct (guard _ _); cbn [bind]; [|reflexivity].
  rewrite (eval_requests_ext m p q n outputs flows cvs _ (m_requests m) H). reflexivity.
Qed.

(* ---- the whole run *)
Definition run_params (m : model) : list string :=
  rate_exprs m ++ flat_map params_of (init_exprs m) ++ flat_map params_of (map snd (m_cvs m)).

Lemma iterate_steps_ext (s1 s2 : F -> list F -> list F) h n : (forall t y, s1 t y = s2 t y) ->
  forall t y, iterate_steps O s1 h t y n = iterate_steps O s2 h t y n.
Proof.
  intro H. induction n as [|k IH]; intros t y; cbn; [reflexivity|]. rewrite H, IH. reflexivity.
Qed.

Lemma gen_steps_ext (s : solver) (f g : rhs O) : (forall t y, f t y = g t y) ->
  forall h t y, (match s with Euler => gen_euler_step O | RK4 => gen_rk4_step O end) f h t y
              = (match s with Euler => gen_euler_step O | RK4 => gen_rk4_step O end) g h t y.
Proof.
  intros H h t y. destruct s; unfold gen_euler_step, gen_rk4_step; cbn zeta; rewrite ?H; reflexivity.
Qed.

(* two parameter environments that agree on the input parameters give the same run *)
Theorem run_model_gen_ext (m : model) (s : solver) (p q pd qd : env) :
  agree (run_params m) p q -> agree (flat_map params_of (request_param_exprs m)) pd qd ->
  run_model_gen O m s p pd = run_model_gen O m s q qd.
Proof.
  intros H Hd. unfold run_model_gen.
  destruct (prepare_structural m) as [b|w]; cbn [bind]; [|reflexivity].
  destruct (m_times m) as [[t0 t1] h].
  assert (Hr : agree (rate_exprs m) p q) by (eapply agree_incl; [|exact H]; unfold run_params; apply incl_appl, incl_refl).
  assert (Hi : agree (flat_map params_of (init_exprs m)) p q)
    by (eapply agree_incl; [|exact H]; unfold run_params; apply incl_appr, incl_appl, incl_refl).
  assert (Hc : agree (flat_map params_of (map snd (m_cvs m))) p q)
    by (eapply agree_incl; [|exact H]; unfold run_params; apply incl_appr, incl_appr, incl_refl).
  cbv zeta. rewrite (initial_population_ext m p q Hi).
  set (sol_p := solve_fixed O _ (fun t y => get_comp_rates O m b p t y) _ _ _ _).
  set (sol_q := solve_fixed O _ (fun t y => get_comp_rates O m b q t y) _ _ _ _).
  assert (Hsol : sol_p = sol_q).
  { unfold sol_p, sol_q, solve_fixed. apply iterate_steps_ext. intros t y. apply gen_steps_ext.
    intros t' y'. apply get_comp_rates_ext. exact Hr. }
  clearbody sol_p. subst sol_p. set (outputs := sol_q). clearbody outputs. clear sol_q.
  assert (Hfl : forall ts, zip_with (fun t y => get_flow_rates O m b p t y) ts outputs
                         = zip_with (fun t y => get_flow_rates O m b q t y) ts outputs).
  { intro ts. generalize outputs. induction ts as [|t ts IH]; intros [|y ys]; cbn; try reflexivity.
    rewrite (get_flow_rates_ext m b p q t y Hr), IH. reflexivity. }
  rewrite Hfl.
  assert (Hcv : map (fun ke => (fst ke, zip_with (fun t y => eval O p t (vclean O y) (snd ke)) (times_F O m) outputs)) (m_cvs m)
              = map (fun ke => (fst ke, zip_with (fun t y => eval O q t (vclean O y) (snd ke)) (times_F O m) outputs)) (m_cvs m)).
  { apply map_ext_in. intros ke Hke. f_equal.
    assert (Ek : agree (params_of (snd ke)) p q) by (eapply agree_exprs; [exact Hc|]; apply in_map; exact Hke).
    generalize outputs. induction (times_F O m) as [|t ts IH]; intros [|y ys]; cbn; try reflexivity.
    rewrite (eval_agree p q (snd ke) t (vclean O y) Ek), IH. reflexivity. }
  rewrite Hcv.
  rewrite (derived_outputs_ext m pd qd _ _ _ _ Hd). reflexivity.
Qed.

(* the parameters a run depends on are among the reported input parameters *)
Lemma params_incl (L1 L2 : list expr) : incl L1 L2 -> incl (flat_map params_of L1) (flat_map params_of L2).
Proof.
  intros H k Hk. apply in_flat_map in Hk. destruct Hk as [e [He Hk]]. apply in_flat_map. exists e. split; [apply H; exact He|exact Hk].
Qed.

Lemma flow_params_incl (fl : list flow) :
  incl (flat_map flow_params fl) (flat_map params_of (flat_map (fun f => f_param f :: adj_exprs (f_adjs f)) fl)).
Proof.
  intros k Hk. apply in_flat_map in Hk. destruct Hk as [f [Hf Hk]]. unfold flow_params in Hk.
  apply in_flat_map.
  apply in_app_or in Hk. destruct Hk as [Hk|Hk].
  - exists (f_param f). split; [|exact Hk]. apply in_flat_map. exists f. split; [exact Hf|left; reflexivity].
  - apply in_flat_map in Hk. destruct Hk as [a [Ha Hk]]. exists (adj_expr a). split; [|exact Hk].
    apply in_flat_map. exists f. split; [exact Hf|]. right. unfold adj_exprs. apply in_map. exact Ha.
Qed.

Lemma mix_exprs_incl m : incl (mix_exprs m) (flat_map strat_exprs (m_strats m)).
Proof.
  intros e He. unfold mix_exprs in He. apply in_flat_map in He. destruct He as [s [Hs He]].
  apply in_flat_map. exists s. split; [exact Hs|]. unfold strat_exprs. do 3 (apply in_or_app; right). exact He.
Qed.

Lemma iadj_exprs_incl m : incl (iadj_exprs m) (flat_map strat_exprs (m_strats m)).
Proof.
  intros e He. unfold iadj_exprs in He. apply in_flat_map in He. destruct He as [s [Hs He]].
  apply in_flat_map. exists s. split; [exact Hs|]. unfold strat_exprs. do 2 (apply in_or_app; right). apply in_or_app. left. exact He.
Qed.

Lemma init_exprs_incl m : incl (init_exprs m) (model_exprs m).
Proof.
  intros e He. unfold init_exprs in He. unfold model_exprs.
  apply in_app_or in He. destruct He as [He|He].
  - do 2 (apply in_or_app; right). apply in_or_app. left.
    apply in_flat_map in He. destruct He as [a [Ha He]]. apply in_flat_map. exists a. split; [exact Ha|].
    destruct a as [s|sname filt props]; cbn [action_exprs]; [|exact He]. unfold strat_exprs. apply in_or_app. left. exact He.
  - apply in_app_or in He. destruct He as [He|He].
    + do 3 (apply in_or_app; right). apply in_or_app. left. exact He.
    + do 4 (apply in_or_app; right). apply in_or_app. left. exact He.
Qed.

Lemma run_params_reported (m : model) :
  incl (run_params m ++ flat_map params_of (request_param_exprs m)) (input_parameters m).
Proof.
  unfold input_parameters, run_params, rate_exprs. intros k Hk.
  repeat (apply in_app_or in Hk; destruct Hk as [Hk|Hk]).
  - apply flow_params_incl in Hk. revert k Hk. apply params_incl. unfold model_exprs. apply incl_appl, incl_refl.
  - revert k Hk. apply params_incl. unfold model_exprs. eapply incl_tran; [apply mix_exprs_incl|]. apply incl_appr, incl_appl, incl_refl.
  - revert k Hk. apply params_incl. unfold model_exprs. eapply incl_tran; [apply iadj_exprs_incl|]. apply incl_appr, incl_appl, incl_refl.
  - revert k Hk. apply params_incl. apply init_exprs_incl.
  - revert k Hk. apply params_incl. unfold model_exprs. do 5 apply incl_appr. apply incl_appl, incl_refl.
  - revert k Hk. apply params_incl. unfold model_exprs, request_param_exprs. do 6 apply incl_appr. apply incl_refl.
Qed.

(* get_input_parameters() is sufficient: two parameter sets that agree on the reported input
   parameters give the same outputs and derived outputs *)
Theorem input_parameters_sufficient (m : model) (s : solver) (p q : env) :
  agree (input_parameters m) p q -> run_model O m s p = run_model O m s q.
Proof.
  intro H. unfold run_model. apply run_model_gen_ext.
  - eapply agree_incl; [|exact H]. eapply incl_tran; [|apply run_params_reported]. apply incl_appl, incl_refl.
  - eapply agree_incl; [|exact H]. eapply incl_tran; [|apply run_params_reported]. apply incl_appr, incl_refl.
Qed.

End RunExt.
