(* The C03 whole-model theorems with the side condition about the age stratum "0" discharged: an accepted age
   stratification has exactly one stratum "0" (Proofs/AgeZero.v), so the premise of the theorems of AggregateAll,
   AggregateFinal and AggregateTraj holds for every stratification the model accepts. *)
From Coq Require Import QArith List String Bool Arith Lia.
Import ListNotations.
From S2 Require Import Base.Num Base.Arr Model.Expr Model.Struct Model.Rates Model.Solvers Model.Program Spec.RatesSpec
     Proofs.ArrLemmas Proofs.NumLemmas Proofs.BuildProofs Proofs.RatesProofs Proofs.ConservationProofs Proofs.AggregateProofs Proofs.InvarianceProofs Proofs.Assembly Proofs.AggregateRates
     Proofs.AggregateModel Proofs.AggregateTotals Proofs.AggregateAll Proofs.RatesBridge Proofs.AggregateFinal
     Proofs.AggregateTraj Proofs.AgeZero.
Local Open Scope nat_scope.
Local Notation length := List.length.

Section Closed.
Variable O : NumOps.
Variable T : NumTheory O.
Notation F := (F O).

Variables (t0 t1 h : Q) (comps inf : list string) (ops : list op) (m : model) (s0 : strat) (m' : model) (b b' : backend).
Hypothesis Hb : build_ok t0 t1 h comps inf ops = Some m.
Hypothesis Hcs_nd : NoDup (m_comps m).
Hypothesis H : stratify_with m s0 = Ok m'.
Hypothesis Hpb : prepare_structural m = Ok b.
Hypothesis Hpb' : prepare_structural m' = Ok b'.
Let s := normalise_strat s0.
Hypothesis Hst : NoDup (s_strata s).
Hypothesis Hne : s_strata s <> [].
Hypothesis Hns : is_strain (s_kind s) = false.
Hypothesis Hna : s_fadj s = [].
Hypothesis Hfl : forall f, In f (m_flows m) -> ni_flow f.

Lemma age0 : is_age (s_kind s) = true -> length (filter (fun st => String.eqb st "0") (s_strata s)) = 1.
Proof. intro Hage. exact (age_zero_once m s0 m' H Hst Hage). Qed.

Theorem noninfection_model_aggregates_closed (p : env O) (t : F) (x' : list F) :
  length x' = length (m_comps m') ->
  forall c, In c (m_comps m) ->
    fsum O (map (fun c' => net_rate O (ni_rate O p t m' x') (m_flows m') c') (group s c))
    = net_rate O (ni_rate O p t m (aggx O s (m_comps m) x')) (m_flows m) c.
Proof.
  intros Hlen c Hc.
  exact (noninfection_model_aggregates O T t0 t1 h comps inf ops m s0 m' Hb Hcs_nd H Hst Hne Hns Hna age0 Hfl p t x' Hlen c Hc).
Qed.

Theorem stratified_comp_rates_aggregate_closed (p : env O) (t : F) (x' : list F) :
  length x' = length (m_comps m') -> Forall (fun v => fle O T (f0 O) v) x' ->
  forall i dflt, i < length (m_comps m) ->
    fsum O (map (fun c' => nth (comp_index (m_comps m') c') (get_comp_rates O m' b' p t x') (f0 O))
                (group s (nth i (m_comps m) dflt)))
    = nth i (get_comp_rates O m b p t (aggx O s (m_comps m) x')) (f0 O).
Proof.
  intros Hlen Hpos i dflt Hi.
  exact (stratified_comp_rates_aggregate O T t0 t1 h comps inf ops m s0 m' b b' Hb Hcs_nd H Hpb Hpb' Hst Hne Hns Hna age0 Hfl
           p t x' Hlen Hpos i dflt Hi).
Qed.

Theorem stratified_euler_rows_aggregate_closed (p : env O) (hs tstart : F) (y0' : list F) (k : nat) :
  length y0' = length (m_comps m') ->
  Forall (Forall (fun v => fle O T (f0 O) v))
         (solve_fixed O (euler_step O) (fun t y => get_comp_rates O m' b' p t y) tstart hs y0' k) ->
  map (agg O (copy_positions m s0 m')) (solve_fixed O (euler_step O) (fun t y => get_comp_rates O m' b' p t y) tstart hs y0' k)
  = solve_fixed O (euler_step O) (fun t y => get_comp_rates O m b p t y) tstart hs (agg O (copy_positions m s0 m') y0') k.
Proof.
  intros Hlen Hpos.
  exact (stratified_euler_rows_aggregate O T t0 t1 h comps inf ops m s0 m' b b' Hb Hcs_nd H Hpb Hpb' Hst Hne Hns Hna age0 Hfl
           p hs tstart y0' k Hlen Hpos).
Qed.

End Closed.
