(* C17 on the model: each documented defect makes the offending call return an error, in every
   context (whatever the model built so far), and a finalised model refuses every change. *)
From Coq Require Import QArith List String Bool Arith Lia.
Import ListNotations.
From S2 Require Import Base.Num Base.Arr Model.Expr Model.Struct Model.Program Proofs.BuildProofs.
Local Open Scope nat_scope.
Local Notation length := List.length.

Definition rejected {A} (r : result A) : Prop := exists w, r = Err w.

Lemma rejected_err {A} w : rejected (@Err A w). Proof. exists w. reflexivity. Qed.

(* go through the guards in the order the call performs them: each either fails (rejected) or is
   passed; the hypothesis contradicts the guard of the defect *)
Ltac reject :=
  unfold rejected;
  repeat match goal with
         | |- context [guard ?c ?w] => let E := fresh "G" in destruct c eqn:E; cbn [guard bind]; [|eexists; reflexivity]
         | |- exists w, Err _ = Err w => eexists; reflexivity
         end.

(* ---------------------------------------------------------------- construction *)
Theorem reject_times_order t0 t1 h comps inf : Qle_bool t1 t0 = true -> rejected (new_model t0 t1 h comps inf).
Proof. intro H. unfold new_model, bind. rewrite H. cbn. apply rejected_err. Qed.

Theorem reject_timestep_not_dividing t0 t1 h comps inf :
  q_is_int (1 + (t1 - t0) / h)%Q = false -> rejected (new_model t0 t1 h comps inf).
Proof. intro H. unfold new_model, bind. reject. congruence. Qed.

Theorem reject_unknown_infectious t0 t1 h comps inf :
  forallb (fun n => mem_str n comps) inf = false -> rejected (new_model t0 t1 h comps inf).
Proof. intro H. unfold new_model, bind. reject. congruence. Qed.

(* ---------------------------------------------------------------- population *)
Theorem reject_unknown_population_compartment m dist :
  forallb (fun kv => mem_str (fst kv) (m_orig m)) dist = false -> rejected (set_initial_population m dist).
Proof. intro H. unfold set_initial_population, not_finalized, bind. reject. congruence. Qed.

Theorem reject_population_after_stratification m dist :
  m_strats m <> [] -> rejected (set_initial_population m dist).
Proof.
  intro H. unfold set_initial_population, not_finalized, bind. reject.
  destruct (m_strats m); [congruence|discriminate].
Qed.

(* ---------------------------------------------------------------- flows *)
Theorem reject_second_birth_flow m k name param src dst sf df expected split :
  is_birth k = true -> has_birth_flow m = true ->
  rejected (add_flow m (FlowSpec k name param src dst sf df expected split)).
Proof. intros Hk Hb. unfold add_flow, bind. destruct k; try discriminate; rewrite Hb; cbn; apply rejected_err. Qed.

Theorem reject_unknown_transition_compartment m k name param src dst sf df expected :
  is_entry k = false -> is_exit k = false ->
  (existsb (fun c => String.eqb src (c_name c)) (m_comps m) = false \/ existsb (fun c => String.eqb dst (c_name c)) (m_comps m) = false) ->
  rejected (add_flow m (FlowSpec k name param src dst sf df expected false)).
Proof.
  intros H1 H2 H. assert (G : rejected (add_transition_like m k name param src dst sf df expected)).
  { unfold add_transition_like, not_finalized, matching_comps, bind. reject.
    destruct (existsb (fun c => String.eqb dst (c_name c)) (m_comps m)) eqn:Ed; [|apply rejected_err].
    destruct (existsb (fun c => String.eqb src (c_name c)) (m_comps m)) eqn:Es; [|apply rejected_err].
    destruct H; congruence. }
  destruct k; cbn in H1, H2; try discriminate; exact G.
Qed.

Theorem reject_unequal_source_dest m k name param src dst sf df expected srcs dests :
  is_entry k = false -> is_exit k = false ->
  matching_comps m src sf = Ok srcs -> matching_comps m dst df = Ok dests -> length dests <> length srcs ->
  rejected (add_flow m (FlowSpec k name param src dst sf df expected false)).
Proof.
  intros H1 H2 Hs Hd Hne. assert (G : rejected (add_transition_like m k name param src dst sf df expected)).
  { unfold add_transition_like, not_finalized, bind. reject. rewrite Hd, Hs. reject.
    apply Nat.eqb_eq in G0. congruence. }
  destruct k; cbn in H1, H2; try discriminate; exact G.
Qed.

Theorem reject_flow_count m k name param dst df n :
  is_entry k = true -> is_birth k = false ->
  n <> length (filter (fun c => is_match c dst df) (m_comps m)) ->
  rejected (add_flow m (FlowSpec k name param EmptyString dst [] df (Some n) false)).
Proof.
  intros H1 H2 Hn. destruct k; cbn in H1, H2; try discriminate.
  unfold add_flow, add_entry_flow, not_finalized, check_count, bind. reject.
  rewrite map_length in G0. apply Nat.eqb_eq in G0. congruence.
Qed.

Theorem reject_duplicate_universal_death m name param :
  existsb (fun f => String.eqb (f_name f) name) (m_flows m) = true -> rejected (add_universal_death m name param).
Proof. intro H. unfold add_universal_death, bind. rewrite H. cbn. apply rejected_err. Qed.

(* ---------------------------------------------------------------- stratifications *)
Lemma stratify_rejected_if_object_invalid m s : rejected (validate_strat_object s) -> rejected (stratify_with m s).
Proof. intros [w Hw]. unfold stratify_with, bind. rewrite Hw. apply rejected_err. Qed.

Theorem reject_adjustment_missing_strata m s :
  forallb (fun ne => set_eq_str (map fst (fst (fst (snd ne)))) (s_strata s)) (s_fadj s) = false ->
  rejected (stratify_with m s).
Proof.
  intro H. apply stratify_rejected_if_object_invalid. unfold validate_strat_object, bind.
  destruct (match s_kind s with SAge => _ | _ => _ end); [|apply rejected_err].
  destruct (match (match s_split s with [] => None | _ => _ end) with Some _ => _ | None => _ end); [|apply rejected_err].
  rewrite H. cbn. apply rejected_err.
Qed.

Theorem reject_infectiousness_missing_strata m s :
  forallb (fun ce => set_eq_str (map fst (snd ce)) (s_strata s)) (s_iadj s) = false ->
  rejected (stratify_with m s).
Proof.
  intro H. apply stratify_rejected_if_object_invalid. unfold validate_strat_object, bind.
  destruct (match s_kind s with SAge => _ | _ => _ end); [|apply rejected_err].
  destruct (match (match s_split s with [] => None | _ => _ end) with Some _ => _ | None => _ end); [|apply rejected_err].
  reject. congruence.
Qed.

Theorem reject_bad_literal_split m s qs :
  s_split s <> [] -> all_literal (s_split s) = Some qs ->
  (set_eq_str (map fst (s_split s)) (s_strata s) = false \/ forallb (fun q => Qle_bool 0 q) qs = false
   \/ qabs_lt (1 - qsum qs)%Q (1 # 100) = false) ->
  rejected (stratify_with m s).
Proof.
  intros Hne Hl H. apply stratify_rejected_if_object_invalid. unfold validate_strat_object, bind.
  destruct (match s_kind s with SAge => _ | _ => _ end); [|apply rejected_err].
  destruct (s_split s) as [|x l] eqn:Es; [congruence|]. rewrite Hl. reject.
  destruct H as [H|[H|H]]; congruence.
Qed.

Theorem reject_strain_mixing m s mm :
  is_strain (s_kind s) = true -> s_mix s = Some mm -> rejected (stratify_with m s).
Proof.
  intros Hk Hm. apply stratify_rejected_if_object_invalid. unfold validate_strat_object, bind.
  destruct (match s_kind s with SAge => _ | _ => _ end); [|apply rejected_err].
  destruct (match (match s_split s with [] => None | _ => _ end) with Some _ => _ | None => _ end); [|apply rejected_err].
  reject. rewrite Hk, Hm in *. discriminate.
Qed.

(* defects detected by stratify_with itself: stated for stratifications whose object is valid *)
Section StratifyWith.
Variables (m : model) (s0 : strat).
Hypothesis Hvalid : validate_strat_object s0 = Ok tt.
Let s := normalise_strat s0.

Ltac enter := unfold stratify_with, not_finalized, bind; rewrite Hvalid; fold s; reject.

Theorem reject_duplicate_stratification : mem_str (s_name s) (strat_names m) = true -> rejected (stratify_with m s0).
Proof. intro H. enter. rewrite H in *. discriminate. Qed.

Theorem reject_stratify_finalized : m_finalized m = true -> rejected (stratify_with m s0).
Proof. intro H. enter. rewrite H in *. discriminate. Qed.

Theorem reject_adjusting_unknown_flow :
  forallb (fun ne => existsb (fun f => String.eqb (f_name f) (fst ne)) (m_flows m)) (s_fadj s) = false ->
  rejected (stratify_with m s0).
Proof. intro H. enter. congruence. Qed.

Theorem reject_unknown_filter_strata :
  forallb (fun ne => let '(_, sf, df) := snd ne in strata_exist m sf && strata_exist m df) (s_fadj s) = false ->
  rejected (stratify_with m s0).
Proof. intro H. enter. congruence. Qed.

Theorem reject_infectiousness_unknown_compartment :
  forallb (fun ce => mem_str (fst ce) (m_orig m)) (s_iadj s) = false -> rejected (stratify_with m s0).
Proof. intro H. enter. congruence. Qed.

Theorem reject_mixing_on_partial mm :
  s_mix s = Some mm -> set_eq_str (s_comps s) (m_orig m) = false -> rejected (stratify_with m s0).
Proof.
  intros Hm H. enter. rewrite Hm. cbn [bind]. reject. congruence.
Qed.

Theorem reject_second_strain :
  is_strain (s_kind s) = true -> existsb (fun s' => is_strain (s_kind s')) (m_strats m) = true ->
  rejected (stratify_with m s0).
Proof.
  intros Hk H. enter.
  destruct (s_mix s); cbn [bind]; reject; rewrite Hk; cbn [bind]; reject; rewrite H in *; discriminate.
Qed.

Theorem reject_stratify_unknown_compartment :
  forallb (fun c => mem_str c (m_orig m)) (s_comps s) = false -> rejected (stratify_with m s0).
Proof.
  intro H. enter.
  destruct (s_mix s); cbn [bind]; reject; destruct (is_strain (s_kind s)); cbn [bind]; reject; congruence.
Qed.

(* the checks made after the flows have been stratified: whatever that gave, the call is refused *)
Theorem reject_second_age :
  is_age (s_kind s) = true -> existsb (fun s' => is_age (s_kind s')) (m_strats m) = true ->
  rejected (stratify_with m s0).
Proof.
  intros Hk H. enter.
  destruct (s_mix s); cbn [bind]; reject; destruct (is_strain (s_kind s)); cbn [bind]; reject;
    (destruct (collect (stratify_flow s) (m_flows m)); cbn [bind]; [|apply rejected_err]);
    rewrite Hk; reject; rewrite H in *; discriminate.
Qed.

Theorem reject_age_on_partial :
  is_age (s_kind s) = true -> set_eq_str (s_comps s) (m_orig m) = false -> rejected (stratify_with m s0).
Proof.
  intros Hk H. enter.
  destruct (s_mix s); cbn [bind]; reject; destruct (is_strain (s_kind s)); cbn [bind]; reject;
    (destruct (collect (stratify_flow s) (m_flows m)); cbn [bind]; [|apply rejected_err]);
    rewrite Hk; reject; congruence.
Qed.

End StratifyWith.

(* ---------------------------------------------------------------- output requests *)
Theorem reject_duplicate_output m name r save : has_request m name = true -> rejected (request_output m name r save).
Proof. intro H. unfold request_output, not_finalized, bind. reject. rewrite H in *. discriminate. Qed.

Theorem reject_unknown_output_source m name srcs save :
  forallb (has_request m) srcs = false -> rejected (request_output m name (RAgg srcs) save).
Proof. intro H. unfold request_output, not_finalized, bind. reject. congruence. Qed.

Theorem reject_unknown_cumulative_source m name src st save :
  has_request m src = false -> rejected (request_output m name (RCum src st) save).
Proof. intro H. unfold request_output, not_finalized, bind. reject. congruence. Qed.

Theorem reject_unknown_function_source m name fn srcs ps save :
  forallb (has_request m) srcs = false -> rejected (request_output m name (RFunc fn srcs ps) save).
Proof. intro H. unfold request_output, not_finalized, bind. reject. congruence. Qed.

Theorem reject_output_for_unknown_flow m name fname sf df raw save :
  existsb (fun f => flow_is_match f fname sf df) (m_flows m) = false ->
  rejected (request_output m name (RFlow fname sf df raw) save).
Proof. intro H. unfold request_output, not_finalized, bind. reject. congruence. Qed.

Theorem reject_output_for_unknown_compartment m name names filt save :
  existsb (fun c => existsb (fun n => is_match c n filt) names) (m_comps m) = false ->
  rejected (request_output m name (RComp names filt) save).
Proof. intro H. unfold request_output, not_finalized, bind. reject. congruence. Qed.

(* ---------------------------------------------------------------- finalised models *)
Definition changes_definition (o : op) : bool :=
  match o with
  | OpPop _ | OpArrayPop _ | OpFlow _ | OpUDeath _ _ | OpStrat _ | OpRebalance _ _ _ | OpRequest _ _ _
  | OpFlowDyn _ _ | OpUDeathDyn _ _ => true
  | OpWhitelist _ | OpCV _ _ | OpFinalize | OpSetDefaults _ => false
  end.

Lemma fold_err {A B} (g : result A -> B -> result A) (l : list B) w :
  (forall b w', g (Err w') b = Err w') -> fold_left g l (Err w) = Err w.
Proof. intro H. induction l as [|b l IH]; cbn; [reflexivity|]. rewrite H. exact IH. Qed.

(* once a model has been finalised by running it, every flow-adding, stratifying,
   population-setting and output-requesting call is refused - whatever the call's arguments *)
Lemma finalized_refuses_flow m fs : m_finalized m = true -> rejected (add_flow m fs).
Proof.
  intro Hf.
  destruct fs as [k name param src dst sf df expected split]. unfold add_flow, bind.
    assert (E : forall k' prm adjs, rejected (add_entry_flow m k' name prm dst df expected adjs)).
    { intros. unfold add_entry_flow, not_finalized, bind. rewrite Hf. cbn. apply rejected_err. }
    assert (X : rejected (add_exit_flow m name param src sf expected)).
    { unfold add_exit_flow, not_finalized, bind. rewrite Hf. cbn. apply rejected_err. }
    assert (Tr : forall k', rejected (add_transition_like m k' name param src dst sf df expected)).
    { intros. unfold add_transition_like, not_finalized, bind. rewrite Hf. cbn. apply rejected_err. }
    destruct k; try (reject; apply E); try exact X; try apply Tr.
    destruct split; [reject; apply E | apply E].
Qed.

Lemma finalized_refuses_udeath m name param : m_finalized m = true -> m_orig m <> [] -> rejected (add_universal_death m name param).
Proof.
  intros Hf Horig.
  unfold add_universal_death, bind. reject.
    destruct (m_orig m) as [|c l]; [congruence|]. cbn [fold_left].
    assert (Ex : exists w, add_exit_flow m name param c [] None = Err w).
    { unfold add_exit_flow, not_finalized, bind. rewrite Hf. cbn. eexists; reflexivity. }
    destruct Ex as [w Hw]. cbn [bind]. rewrite Hw.
    rewrite fold_err; [eexists; reflexivity|]. intros; reflexivity.
Qed.

Theorem finalized_refuses m o :
  m_finalized m = true -> changes_definition o = true -> m_orig m <> [] -> rejected (apply_op m o).
Proof.
  intros Hf Ho Horig. destruct o; cbn in Ho; try discriminate; cbn [apply_op].
  - unfold set_initial_population, not_finalized, bind. rewrite Hf. cbn. apply rejected_err.
  - unfold init_population_with_graphobject, not_finalized, bind. rewrite Hf. cbn. apply rejected_err.
  - apply finalized_refuses_flow; exact Hf.
  - apply finalized_refuses_udeath; assumption.
  - unfold stratify_with, not_finalized, bind.
    destruct (validate_strat_object s); [|apply rejected_err]. reject. rewrite Hf in *. discriminate.
  - unfold adjust_population_split, not_finalized, bind. rewrite Hf. cbn. apply rejected_err.
  - unfold request_output, not_finalized, bind. rewrite Hf. cbn. apply rejected_err.
  - unfold add_flow_dyn, bind.
    destruct (fs_kind fs); try (destruct (validate_flowparam v); [|apply rejected_err]); apply finalized_refuses_flow; exact Hf.
  - unfold add_universal_death_dyn, bind. destruct (validate_flowparam v); [|apply rejected_err].
    apply finalized_refuses_udeath; assumption.
Qed.

(* a flow rate that is neither a number nor a graph object is refused by every flow-adding call that takes a rate,
   whatever the model and the other arguments *)
Definition is_rate (v : pyval) : bool := match v with PyNum _ | PyGraph _ => true | _ => false end.

Theorem reject_bad_rate m v fs : is_rate v = false -> fs_kind fs <> KRepl -> rejected (apply_op m (OpFlowDyn v fs)).
Proof.
  intros Hv Hk. cbn [apply_op]. unfold add_flow_dyn.
  destruct (fs_kind fs); try congruence; destruct v; try discriminate; apply rejected_err.
Qed.

Theorem reject_bad_rate_udeath m name v : is_rate v = false -> rejected (apply_op m (OpUDeathDyn name v)).
Proof. intro Hv. cbn [apply_op]. unfold add_universal_death_dyn. destruct v; try discriminate; apply rejected_err. Qed.

(* ... and a rate of a valid kind is passed on unchanged: the dynamic call is the typed one *)
Theorem good_rate_is_typed_call m e fs : apply_op m (OpFlowDyn (PyGraph e) (with_param fs e)) = apply_op m (OpFlow (with_param fs e)).
Proof. cbn [apply_op]. unfold add_flow_dyn. destruct fs as [k n p s d sf df ex sp]. cbn. destruct k; reflexivity. Qed.

Theorem number_rate_is_constant m q fs :
  apply_op m (OpFlowDyn (PyNum q) (with_param fs (EConst q))) = apply_op m (OpFlow (with_param fs (EConst q))).
Proof. cbn [apply_op]. unfold add_flow_dyn. destruct fs as [k n p s d sf df ex sp]. cbn. destruct k; reflexivity. Qed.

(* finalisation is one-way: no accepted call - set_default_parameters included - re-opens a
   finalised model, so the refusals above hold from the first run on, whatever is called afterwards *)
Theorem finalized_stays m o m' :
  m_finalized m = true -> m_orig m <> [] -> apply_op m o = Ok m' -> m_finalized m' = true /\ m_orig m' = m_orig m.
Proof.
  intros Hf Horig H.
  destruct (changes_definition o) eqn:Ec.
  - exfalso. destruct (finalized_refuses m o Hf Ec Horig) as [w Hw]. congruence.
  - destruct o; cbn in Ec; try discriminate; cbn [apply_op] in H.
    + injection H as <-. cbn. split; [exact Hf|reflexivity].
    + unfold add_computed_value, bind in H.
      destruct (guard _ _) in H; [|discriminate]. cbn in H. injection H as <-. cbn. split; [exact Hf|reflexivity].
    + unfold finalize, bind in H. destruct (guard _ _) in H; [|discriminate]. cbn in H. injection H as <-.
      cbn. split; reflexivity.
    + injection H as <-. cbn. split; [exact Hf|reflexivity].
Qed.

Theorem finalized_refuses_forever ops : forall m k m' o,
  m_finalized m = true -> m_orig m <> [] -> apply_ops m ops k = (m', None) ->
  changes_definition o = true -> rejected (apply_op m' o).
Proof.
  induction ops as [|o1 ops IH]; intros m k m' o Hf Horig H Ho; cbn in H.
  - injection H as <-. apply finalized_refuses; assumption.
  - destruct (apply_op m o1) as [m1|w] eqn:E; [|discriminate].
    destruct (finalized_stays m o1 m1 Hf Horig E) as [Hf1 Ho1].
    apply (IH m1 (S k) m' o); [exact Hf1 | congruence | exact H | exact Ho].
Qed.
