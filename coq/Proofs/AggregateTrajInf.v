(* C03 along Euler trajectories, infection flows included: as long as the rows of the stratified run stay non-negative,
   every row summed over the copies of each compartment is the row of the unstratified run from the aggregated initial
   state - within the (structural) domain of C05's multiplier theorem. *)
From Coq Require Import QArith Field Ring List String Bool Arith Lia.
Import ListNotations.
From S2 Require Import Base.Num Base.Arr Model.Expr Model.Struct Model.Rates Model.Solvers Model.Program Spec.RatesSpec
     Proofs.ArrLemmas Proofs.NumLemmas Proofs.BuildProofs Proofs.RatesProofs Proofs.ConservationProofs Proofs.AggregateProofs
     Proofs.InvarianceProofs Proofs.Assembly Proofs.AggregateRates Proofs.AggregateModel Proofs.AggregateTotals Proofs.AggregateAll
     Proofs.RatesBridge Proofs.AggregateFinal Proofs.AggregateTraj Proofs.RunExt Proofs.Scaling Proofs.TimeShift
     Proofs.AggregateInf Proofs.RatesBridgeInf Proofs.AggregateFinalInf.
Local Open Scope nat_scope.
Local Notation length := List.length.

Section ModelTrajInf.
Variable O : NumOps.
Variable T : NumTheory O.
Notation F := (F O).

Variables (t0 t1 h : Q) (comps inf : list string) (ops : list op) (m : model) (s0 : strat) (m' : model) (b b' : backend).
Hypothesis Hb : build_ok t0 t1 h comps inf ops = Some m.
Hypothesis Hcs_nd : NoDup (m_comps m).
Hypothesis H : stratify_with m s0 = Ok m'.
Hypothesis Hpb : prepare_structural m = Ok b.
Hypothesis Hpb' : prepare_structural m' = Ok b'.
Let s := normalise_strat s0.
Hypothesis Hst : NoDup (s_strata s).
Hypothesis Hne : s_strata s <> [].
Hypothesis Hns : is_strain (s_kind s) = false.
Hypothesis Hna : s_fadj s = [].
Hypothesis Hmix : s_mix s = None.
Hypothesis Hia : s_iadj s = [].
Hypothesis Hfl : forall f, In f (m_flows m) -> all_flow f.
Hypothesis Hmx : forallb state_free (mix_exprs m) = true.
Variable p : env O.
Hypothesis Hdom : forall t y, foi_domain O m p t y.
Hypothesis Hdom' : forall t y, foi_domain O m' p t y.

Theorem stratified_euler_rows_aggregate_all (hs tstart : F) (y0' : list F) (k : nat) :
  length y0' = length (m_comps m') ->
  Forall (Forall (fun v => fle O T (f0 O) v))
         (solve_fixed O (euler_step O) (fun t y => get_comp_rates O m' b' p t y) tstart hs y0' k) ->
  map (agg O (copy_positions m s0 m')) (solve_fixed O (euler_step O) (fun t y => get_comp_rates O m' b' p t y) tstart hs y0' k)
  = solve_fixed O (euler_step O) (fun t y => get_comp_rates O m b p t y) tstart hs (agg O (copy_positions m s0 m') y0') k.
Proof.
  intros Hlen HP.
  destruct (stratify_with_inv _ _ _ H) as [Ec _]. fold s in Ec.
  unfold solve_fixed in *.
  apply (euler_traj_agg_cond O T (copy_positions m s0 m') _ _ (length (m_comps m')) (Forall (fun v => fle O T (f0 O) v)));
    [intros; apply get_comp_rates_length | | exact Hlen | exact HP].
  intros t y Hy Py. rewrite (agg_is_aggx O m s0 m' y Ec).
  apply (nth_ext _ _ (f0 O) (f0 O)).
  - unfold agg, copy_positions. rewrite !map_length, get_comp_rates_length. reflexivity.
  - intros i Hi. unfold agg, copy_positions in Hi. rewrite !map_length in Hi.
    set (dflt := {| c_name := EmptyString; c_strata := [] |}).
    pose proof (stratified_comp_rates_aggregate_all O T t0 t1 h comps inf ops m s0 m' b b' Hb Hcs_nd H Hpb Hpb' Hst Hne Hns Hna
                  Hmix Hia Hfl Hmx p t y Hy Py (Hdom t _) (Hdom' t y) i dflt Hi) as Hagg.
    fold s in Hagg. fold s. rewrite <- Hagg. unfold agg, copy_positions. fold s. rewrite map_map.
    rewrite (nth_indep _ (f0 O) ((fun c => fsum O (gather (f0 O) (get_comp_rates O m' b' p t y) (map (comp_index (m_comps m')) (group s c)))) dflt))
      by (rewrite map_length; exact Hi).
    rewrite (map_nth (fun c => fsum O (gather (f0 O) (get_comp_rates O m' b' p t y) (map (comp_index (m_comps m')) (group s c))))).
    unfold gather. rewrite map_map. apply (fsum_map_ext O). intros c' Hc'.
    apply get_clamp_lt. rewrite get_comp_rates_length. apply comp_index_lt.
    intro E. rewrite Ec, stratify_comps_groups in E.
    assert (Hin : In c' (flat_map (group s) (m_comps m))) by (apply in_flat_map; exists (nth i (m_comps m) dflt); split; [apply nth_In; exact Hi | exact Hc']).
    rewrite E in Hin. destruct Hin.
Qed.

End ModelTrajInf.
