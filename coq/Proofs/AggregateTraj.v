(* C03 along Euler trajectories of models without infection flows: as long as the rows of the stratified run stay
   non-negative, summing each row over the copies of every compartment gives the row of the unstratified run started
   from the aggregated initial state. *)
From Coq Require Import QArith Field Ring List String Bool Arith Lia.
Import ListNotations.
From S2 Require Import Base.Num Base.Arr Model.Expr Model.Struct Model.Rates Model.Solvers Model.Program Spec.RatesSpec
     Proofs.ArrLemmas Proofs.NumLemmas Proofs.BuildProofs Proofs.RatesProofs Proofs.ConservationProofs Proofs.AggregateProofs
     Proofs.InvarianceProofs Proofs.Assembly Proofs.AggregateRates Proofs.AggregateModel Proofs.AggregateTotals Proofs.AggregateAll
     Proofs.RatesBridge Proofs.AggregateFinal.
Local Open Scope nat_scope.
Local Notation length := List.length.

Section CondTraj.
Variable O : NumOps.
Variable T : NumTheory O.
Notation F := (F O).

Variable groups : list (list nat).
Variables (f f' : rhs O) (n' : nat) (P : list F -> Prop).
Hypothesis f'_len : forall t y, length (f' t y) = n'.
Hypothesis intertwine : forall t y, length y = n' -> P y -> agg O groups (f' t y) = f t (agg O groups y).

Lemma euler_traj_agg_cond h : forall k t y, length y = n' ->
  Forall P (iterate_steps O (euler_step O f' h) h t y k) ->
  map (agg O groups) (iterate_steps O (euler_step O f' h) h t y k) = iterate_steps O (euler_step O f h) h t (agg O groups y) k.
Proof.
  induction k as [|k IH]; intros t y Hy HP; cbn [iterate_steps map] in *; [reflexivity|].
  inversion HP as [|? ? Py Prest].
  assert (L : length (euler_step O f' h t y) = n').
  { unfold euler_step. rewrite (vadd_length O), (vscale_length O), f'_len, Hy. apply Nat.min_id. }
  assert (A : agg O groups (euler_step O f' h t y) = euler_step O f h t (agg O groups y)).
  { unfold euler_step. rewrite (agg_vadd O T) by (rewrite (vscale_length O), f'_len; exact Hy).
    rewrite (agg_vscale O T), (intertwine t y Hy Py). reflexivity. }
  rewrite (IH _ _ L Prest), A. reflexivity.
Qed.

End CondTraj.

Section ModelTraj.
Variable O : NumOps.
Variable T : NumTheory O.
Notation F := (F O).

Variables (t0 t1 h : Q) (comps inf : list string) (ops : list op) (m : model) (s0 : strat) (m' : model) (b b' : backend).
Hypothesis Hb : build_ok t0 t1 h comps inf ops = Some m.
Hypothesis Hcs_nd : NoDup (m_comps m).
Hypothesis H : stratify_with m s0 = Ok m'.
Hypothesis Hpb : prepare_structural m = Ok b.
Hypothesis Hpb' : prepare_structural m' = Ok b'.
Let s := normalise_strat s0.
Hypothesis Hst : NoDup (s_strata s).
Hypothesis Hne : s_strata s <> [].
Hypothesis Hns : is_strain (s_kind s) = false.
Hypothesis Hna : s_fadj s = [].
Hypothesis Hage0 : is_age (s_kind s) = true -> length (filter (fun st => String.eqb st "0") (s_strata s)) = 1.
Hypothesis Hfl : forall f, In f (m_flows m) -> ni_flow f.
Variable p : env O.

(* positions of the copies of each compartment in the stratified model *)
Definition copy_positions : list (list nat) :=
  map (fun c => map (comp_index (m_comps m')) (group s c)) (m_comps m).

Lemma agg_is_aggx x' : m_comps m' = stratify_comps s (m_comps m) -> agg O copy_positions x' = aggx O s (m_comps m) x'.
Proof.
  intro Ec. unfold agg, copy_positions, aggx. rewrite map_map. apply map_ext. intro c.
  unfold gather. rewrite map_map. unfold pop'. rewrite Ec. reflexivity.
Qed.

Theorem stratified_euler_rows_aggregate (hs tstart : F) (y0' : list F) (k : nat) :
  length y0' = length (m_comps m') ->
  Forall (Forall (fun v => fle O T (f0 O) v))
         (solve_fixed O (euler_step O) (fun t y => get_comp_rates O m' b' p t y) tstart hs y0' k) ->
  map (agg O copy_positions) (solve_fixed O (euler_step O) (fun t y => get_comp_rates O m' b' p t y) tstart hs y0' k)
  = solve_fixed O (euler_step O) (fun t y => get_comp_rates O m b p t y) tstart hs (agg O copy_positions y0') k.
Proof.
  intros Hlen HP.
  destruct (stratify_with_inv _ _ _ H) as [Ec _]. fold s in Ec.
  unfold solve_fixed in *.
  apply (euler_traj_agg_cond O T copy_positions _ _ (length (m_comps m')) (Forall (fun v => fle O T (f0 O) v)));
    [intros; apply get_comp_rates_length | | exact Hlen | exact HP].
  intros t y Hy Py. rewrite (agg_is_aggx y Ec).
  apply (nth_ext _ _ (f0 O) (f0 O)).
  - unfold agg, copy_positions. rewrite !map_length, get_comp_rates_length. reflexivity.
  - intros i Hi. unfold agg, copy_positions in Hi. rewrite !map_length in Hi.
    set (dflt := {| c_name := EmptyString; c_strata := [] |}).
    pose proof (stratified_comp_rates_aggregate O T t0 t1 h comps inf ops m s0 m' b b' Hb Hcs_nd H Hpb Hpb' Hst Hne Hns Hna Hage0 Hfl p t y Hy Py i dflt Hi) as Hagg.
    fold s in Hagg. rewrite <- Hagg. unfold agg, copy_positions. rewrite map_map.
    rewrite (nth_indep _ (f0 O) ((fun c => fsum O (gather (f0 O) (get_comp_rates O m' b' p t y) (map (comp_index (m_comps m')) (group s c)))) dflt))
      by (rewrite map_length; exact Hi).
    rewrite (map_nth (fun c => fsum O (gather (f0 O) (get_comp_rates O m' b' p t y) (map (comp_index (m_comps m')) (group s c))))).
    unfold gather. rewrite map_map. apply (fsum_map_ext O). intros c' Hc'.
    apply get_clamp_lt. rewrite get_comp_rates_length. apply comp_index_lt.
    intro E. rewrite Ec, stratify_comps_groups in E.
    assert (In c' (flat_map (group s) (m_comps m))) by (apply in_flat_map; exists (nth i (m_comps m) dflt); split; [apply nth_In; exact Hi | exact Hc']).
    rewrite E in H0. destruct H0.
Qed.

End ModelTraj.
