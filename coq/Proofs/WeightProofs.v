(* Flow weights: the realised weight expression (Overwrite resets the factor list) evaluates
   to the left fold of the adjustments, and the key-sharing / static-vs-time-varying scatter of
   model_impl.py yields, for every flow, its own weight at the current time and state
   (used by C01, C04, C10). *)
From Coq Require Import QArith Field Ring List String Bool Arith Lia.
Import ListNotations.
From S2 Require Import Base.Num Base.Arr Model.Expr Model.Struct Model.Rates Spec.RatesSpec
     Proofs.ArrLemmas Proofs.NumLemmas Proofs.ExprLemmas.
Local Open Scope nat_scope.
Local Notation length := List.length.

Section Weights.
Variable O : NumOps.
Variable T : NumTheory O.
Notation F := (F O).
Notation env := (env O).
Add Field Fw : (Fth O T).

Variables (p : env) (t : F) (x : list F).

Definition eval_factors (l : list expr) : F :=
  match l with
  | [] => f1 O
  | e :: rest => fold_left (fun acc e' => fmul O acc (eval O p t x e')) rest (eval O p t x e)
  end.

Lemma eval_fold_EMul rest e :
  eval O p t x (fold_left EMul rest e)
  = fold_left (fun acc e' => fmul O acc (eval O p t x e')) rest (eval O p t x e).
Proof. revert e; induction rest as [|r rest IH]; intro e; cbn [fold_left]; [reflexivity|]. rewrite IH. reflexivity. Qed.

Lemma eval_factors_snoc l e : l <> [] ->
  eval_factors (l ++ [e]) = fmul O (eval_factors l) (eval O p t x e).
Proof.
  destruct l as [|h l]; [congruence|]. intros _. cbn [app eval_factors].
  rewrite fold_left_app. reflexivity.
Qed.

Definition factor_step (acc : list expr) (a : adj) : list expr :=
  match a with AOvr e => [e] | AMul e => acc ++ [e] end.

Lemma factor_step_nonempty acc a : acc <> [] -> factor_step acc a <> [].
Proof. destruct a; cbn; [|congruence]. intros H E. apply app_eq_nil in E. destruct E; congruence. Qed.

Lemma factors_fold adjs acc : acc <> [] ->
  fold_left factor_step adjs acc <> [] /\
  eval_factors (fold_left factor_step adjs acc) = fold_left (apply_adj O p t x) adjs (eval_factors acc).
Proof.
  revert acc; induction adjs as [|a adjs IH]; intros acc Hne; cbn [fold_left]; [auto|].
  destruct (IH (factor_step acc a) (factor_step_nonempty acc a Hne)) as [H1 H2].
  split; [exact H1|]. rewrite H2. f_equal.
  destruct a; cbn [factor_step apply_adj]; [apply eval_factors_snoc; exact Hne | reflexivity].
Qed.

(* overwrite_chain: the realised expression of map_flow_keys means the documented weight *)
Lemma eval_realised_expr (f : flow) :
  eval O p t x (realised_expr f) = weight_spec O p t x f.
Proof.
  unfold realised_expr, realised_factors, weight_spec.
  change (fun acc a => match a with AOvr e => [e] | AMul e => acc ++ [e] end) with factor_step.
  destruct (factors_fold (f_adjs f) [f_param f]) as [Hne Hev]; [congruence|].
  destruct (fold_left factor_step (f_adjs f) [f_param f]) as [|e rest] eqn:E; [congruence|].
  rewrite eval_fold_EMul. exact Hev.
Qed.

End Weights.

(* semantic equality of weight expressions: same value everywhere, same static/dynamic class *)
Definition expr_equiv (O : NumOps) (a b : expr) : Prop :=
  (forall (p : env O) t x, eval O p t x a = eval O p t x b) /\ mentions_mv a = mentions_mv b.

Section KeyMap.
Variable O : NumOps.
Variable T : NumTheory O.
Notation F := (F O).

Lemma expr_equiv_refl a : expr_equiv O a a.
Proof. split; reflexivity. Qed.

Lemma expr_equiv_trans a b c : expr_equiv O a b -> expr_equiv O b c -> expr_equiv O a c.
Proof. intros [A1 A2] [B1 B2]. split; [intros; rewrite A1; apply B1 | congruence]. Qed.

Lemma expr_equiv_sym a b : expr_equiv O a b -> expr_equiv O b a.
Proof. intros [A1 A2]. split; [intros; symmetry; apply A1 | congruence]. Qed.

(* invariant of the key map while flows 0..n-1 have been inserted *)
Definition km_inv (rexpr : nat -> expr) (km : list (expr * list nat)) (n : nat) : Prop :=
  (forall e is i, In (e, is) km -> In i is -> i < n /\ expr_equiv O (rexpr i) e)
  /\ (forall i, i < n -> exists e is, In (e, is) km /\ In i is).

Lemma add_to_keymap_sound rexpr n km :
  (forall e is i, In (e, is) km -> In i is -> i < n /\ expr_equiv O (rexpr i) e) ->
  forall e is i, In (e, is) (add_to_keymap km (rexpr n) n) -> In i is ->
                 i < S n /\ expr_equiv O (rexpr i) e.
Proof.
  induction km as [|[e0 is0] km IH0]; intros Ha0 e is i Hin Hi; cbn in Hin.
  - destruct Hin as [E|[]]. injection E as <- <-. destruct Hi as [<-|[]].
    split; [lia|apply expr_equiv_refl].
  - destruct (expr_eqb (rexpr n) e0) eqn:E0.
    + destruct Hin as [E|Hin].
      * injection E as <- <-. apply in_app_or in Hi. destruct Hi as [Hi|[<-|[]]].
        -- destruct (Ha0 e0 is0 i (or_introl eq_refl) Hi). split; [lia|assumption].
        -- split; [lia|]. apply (expr_eqb_sound O T). exact E0.
      * destruct (Ha0 e is i (or_intror Hin) Hi). split; [lia|assumption].
    + destruct Hin as [E|Hin].
      * injection E as <- <-. destruct (Ha0 e0 is0 i (or_introl eq_refl) Hi). split; [lia|assumption].
      * apply (IH0 (fun e is i H => Ha0 e is i (or_intror H)) e is i Hin Hi).
Qed.

Lemma add_to_keymap_has e n km :
  exists e' is, In (e', is) (add_to_keymap km e n) /\ In n is.
Proof.
  induction km as [|[e0 is0] km IH0]; cbn.
  - exists e, [n]. split; left; reflexivity.
  - destruct (expr_eqb e e0).
    + exists e0, (is0 ++ [n]). split; [left; reflexivity | apply in_or_app; right; left; reflexivity].
    + destruct IH0 as [e' [is [H1 H2]]]. exists e', is. split; [right; exact H1 | exact H2].
Qed.

Lemma add_to_keymap_keeps e0 n km e is :
  In (e, is) km -> exists is', In (e, is') (add_to_keymap km e0 n) /\ incl is is'.
Proof.
  induction km as [|[e1 is1] km IH0]; intros Hin; [destruct Hin|]. cbn.
  destruct Hin as [E|Hin].
  - injection E as <- <-. destruct (expr_eqb e0 e1).
    + exists (is1 ++ [n]). split; [left; reflexivity | apply incl_appl, incl_refl].
    + exists is1. split; [left; reflexivity | apply incl_refl].
  - destruct (expr_eqb e0 e1).
    + exists is. split; [right; exact Hin | apply incl_refl].
    + destruct (IH0 Hin) as [is' [H1 H2]]. exists is'. split; [right; exact H1 | exact H2].
Qed.

Lemma add_to_keymap_inv rexpr km n :
  km_inv rexpr km n -> km_inv rexpr (add_to_keymap km (rexpr n) n) (S n).
Proof.
  intros [Ha Hb]. split.
  - apply add_to_keymap_sound. exact Ha.
  - intros i Hi. destruct (Nat.eq_dec i n) as [->|Hne].
    + apply add_to_keymap_has.
    + destruct (Hb i) as [e [is [Hin Hi']]]; [lia|].
      destruct (add_to_keymap_keeps (rexpr n) n km e is Hin) as [is' [H1 H2]].
      exists e, is'. split; [exact H1 | apply H2, Hi'].
Qed.

(* the key map of a flow list groups every flow index with an equivalent expression *)
Lemma flow_key_map_inv (fl : list flow) :
  km_inv (fun i => realised_expr (nth i fl (Build_flow EmptyString KTrans None None (EConst 0) []))) (flow_key_map fl) (length fl).
Proof.
  set (dflt := Build_flow EmptyString KTrans None None (EConst 0) []).
  set (rexpr := fun i => realised_expr (nth i fl dflt)).
  unfold flow_key_map, enumerate.
  assert (G : forall suffix k km, k + length suffix = length fl ->
             (forall j, j < length suffix -> nth j suffix dflt = nth (k + j) fl dflt) ->
             km_inv rexpr km k ->
             km_inv rexpr (fold_left (fun km jf => add_to_keymap km (realised_expr (snd jf)) (fst jf))
                                     (enumerate_from k suffix) km) (length fl)).
  { induction suffix as [|f suffix IH]; intros k km Hlen Hnth Hinv; cbn [enumerate_from fold_left].
    - cbn in Hlen. rewrite Nat.add_0_r in Hlen. subst k. exact Hinv.
    - cbn [fst snd]. apply IH.
      + cbn in Hlen. lia.
      + intros j Hj. specialize (Hnth (S j)). cbn in Hnth. rewrite Hnth by (cbn; lia). f_equal. lia.
      + assert (E : realised_expr f = rexpr k).
        { unfold rexpr. specialize (Hnth 0). cbn in Hnth. rewrite Nat.add_0_r in Hnth.
          rewrite <- Hnth by lia. reflexivity. }
        rewrite E. apply add_to_keymap_inv. exact Hinv. }
  apply (G fl 0 []).
  - reflexivity.
  - intros; reflexivity.
  - split; [intros ? ? ? []| intros; lia].
Qed.

End KeyMap.

Section FlowWeights.
Variable O : NumOps.
Variable T : NumTheory O.
Notation F := (F O).
Notation env := (env O).

(* conditional scatter of per-key values: position i ends with the common value of the
   entries that contain it and write *)
Lemma fold_scatter_nth (c : expr -> bool) (g : expr -> F) (km : list (expr * list nat)) :
  forall (w0 : list F) i v d,
    i < length w0 ->
    (forall e is, In (e, is) km -> In i is -> c e = true -> g e = v) ->
    nth i (fold_left (fun w ke => if c (fst ke) then scatter_const w (snd ke) (g (fst ke)) else w) km w0) d
    = if existsb (fun ke => c (fst ke) && existsb (Nat.eqb i) (snd ke)) km then v else nth i w0 d.
Proof.
  induction km as [|[e is] km IH]; intros w0 i v d Hi Hv; cbn [fold_left existsb fst snd]; [reflexivity|].
  set (w1 := if c e then scatter_const w0 is (g e) else w0).
  assert (Hlen : length w1 = length w0) by (unfold w1; destruct (c e); [apply scatter_const_length|reflexivity]).
  rewrite (IH w1 i v d); [|lia|intros e' is' Hin; apply Hv; right; exact Hin].
  destruct (existsb (fun ke => c (fst ke) && existsb (Nat.eqb i) (snd ke)) km); [rewrite orb_true_r; reflexivity|].
  rewrite orb_false_r. unfold w1. destruct (c e) eqn:Ce; cbn [andb]; [|reflexivity].
  rewrite nth_scatter_const. apply Nat.ltb_lt in Hi. rewrite Hi, andb_true_r.
  destruct (existsb (Nat.eqb i) is) eqn:Ei; [|reflexivity].
  apply (Hv e is); [left; reflexivity| |exact Ce].
  apply existsb_exists in Ei. destruct Ei as [k [Hk Hik]]. apply Nat.eqb_eq in Hik. subst. exact Hk.
Qed.

Lemma fold_scatter_length (c : expr -> bool) (g : expr -> F) km (w0 : list F) :
  length (fold_left (fun w ke => if c (fst ke) then scatter_const w (snd ke) (g (fst ke)) else w) km w0) = length w0.
Proof.
  revert w0; induction km as [|[e is] km IH]; intro w0; cbn [fold_left fst snd]; [reflexivity|].
  rewrite IH. destruct (c e); [apply scatter_const_length|reflexivity].
Qed.

Definition dflow : flow := Build_flow EmptyString KTrans None None (EConst 0) [].

Lemma static_flow_weights_length (p : env) fl : length (static_flow_weights O p fl) = length fl.
Proof.
  unfold static_flow_weights.
  rewrite (fold_scatter_length (fun e => negb (mentions_mv e)) (fun e => eval O p (f0 O) [] e)) .
  - apply repeat_length.
Qed.

Lemma flow_weights_length (p : env) t x fl : length (flow_weights O p t x fl) = length fl.
Proof.
  unfold flow_weights.
  rewrite (fold_scatter_length mentions_mv (fun e => eval O p t x e)).
  apply static_flow_weights_length.
Qed.

(* key_sharing_sound: every flow receives its own documented weight, evaluated at the
   time and state of this evaluation, whatever the grouping into shared keys *)
Theorem flow_weights_nth (p : env) t x fl i :
  i < length fl ->
  nth i (flow_weights O p t x fl) (f0 O) = weight_spec O p t x (nth i fl dflow).
Proof.
  intro Hi.
  destruct (flow_key_map_inv O T fl) as [Ha Hb].
  destruct (Hb i Hi) as [e0 [is0 [Hin0 Hi0]]].
  set (ri := realised_expr (nth i fl dflow)) in *.
  assert (Hequiv : forall e is, In (e, is) (flow_key_map fl) -> In i is -> expr_equiv O ri e).
  { intros e is Hin Hii. apply (Ha e is i Hin Hii). }
  rewrite <- (eval_realised_expr O p t x). fold ri.
  unfold flow_weights.
  rewrite (fold_scatter_nth mentions_mv (fun e => eval O p t x e) (flow_key_map fl)
             (static_flow_weights O p fl) i (eval O p t x ri) (f0 O)).
  2: { rewrite static_flow_weights_length. exact Hi. }
  2: { intros e is Hin Hii _. destruct (Hequiv e is Hin Hii) as [He _]. symmetry. apply He. }
  destruct (mentions_mv ri) eqn:Mri.
  - (* time-varying key: written at this evaluation *)
    assert (E : existsb (fun ke => mentions_mv (fst ke) && existsb (Nat.eqb i) (snd ke)) (flow_key_map fl) = true).
    { apply existsb_exists. exists (e0, is0). split; [exact Hin0|]. cbn [fst snd].
      destruct (Hequiv e0 is0 Hin0 Hi0) as [_ Hm]. rewrite <- Hm, Mri. cbn [andb].
      apply existsb_exists. exists i. split; [exact Hi0 | apply Nat.eqb_refl]. }
    rewrite E. reflexivity.
  - (* static key: written once, never overwritten by the time-varying pass *)
    assert (E : existsb (fun ke => mentions_mv (fst ke) && existsb (Nat.eqb i) (snd ke)) (flow_key_map fl) = false).
    { destruct (existsb _ (flow_key_map fl)) eqn:E; [|reflexivity].
      apply existsb_exists in E. destruct E as [[e is] [Hin Hc]]. cbn [fst snd] in Hc.
      apply andb_true_iff in Hc. destruct Hc as [Hm Hx].
      apply existsb_exists in Hx. destruct Hx as [k [Hk Hik]]. apply Nat.eqb_eq in Hik. subst k.
      destruct (Hequiv e is Hin Hk) as [_ Hm']. congruence. }
    rewrite E. unfold static_flow_weights.
    rewrite (fold_scatter_nth (fun e => negb (mentions_mv e)) (fun e => eval O p (f0 O) [] e) (flow_key_map fl)
               (zeros O (length fl)) i (eval O p t x ri) (f0 O)).
    2: { unfold zeros. rewrite repeat_length. exact Hi. }
    2: { intros e is Hin Hii Hc. destruct (Hequiv e is Hin Hii) as [He Hm].
         rewrite (He p t x). apply eval_static. apply negb_true_iff. exact Hc. }
    assert (E2 : existsb (fun ke => negb (mentions_mv (fst ke)) && existsb (Nat.eqb i) (snd ke)) (flow_key_map fl) = true).
    { apply existsb_exists. exists (e0, is0). split; [exact Hin0|]. cbn [fst snd].
      destruct (Hequiv e0 is0 Hin0 Hi0) as [_ Hm]. rewrite <- Hm, Mri. cbn [negb andb].
      apply existsb_exists. exists i. split; [exact Hi0 | apply Nat.eqb_refl]. }
    rewrite E2. reflexivity.
Qed.

End FlowWeights.
