(* C14: the order in which independent derived-output requests are declared does not affect any
   value - two declaration orders of the same requests, each declaring sources before their users,
   evaluate every request to the same series. *)
From Coq Require Import QArith List String Bool Arith Lia.
Import ListNotations.
From S2 Require Import Base.Num Base.Arr Model.Expr Model.Struct Model.Derived Proofs.DerivedProofs.
Local Open Scope nat_scope.
Local Notation length := List.length.

Lemma NoDup_snoc {A} (l : list A) x : NoDup l -> ~ In x l -> NoDup (l ++ [x]).
Proof.
  induction l as [|h l IH]; intros Hl Hx; cbn; [constructor; [intros []|constructor]|].
  inversion Hl; subst. constructor.
  - intro Hin. apply in_app_or in Hin. destruct Hin as [Hin|[->|[]]]; [contradiction|]. apply Hx. left; reflexivity.
  - apply IH; [assumption|]. intro Hin. apply Hx. right; exact Hin.
Qed.

Lemma wo_nodup reqs : well_ordered reqs -> NoDup (req_names reqs).
Proof.
  induction 1 as [|pre name r save Hwo IH Hn Hs]; [constructor|].
  unfold req_names in *. rewrite map_app. cbn [map fst]. apply NoDup_snoc; assumption.
Qed.

Lemma split_snoc {A} (pre post pre0 : list A) x y :
  pre ++ x :: post = pre0 ++ [y] ->
  (post = [] /\ pre = pre0 /\ x = y) \/ (exists post', post = post' ++ [y] /\ pre ++ x :: post' = pre0).
Proof.
  intro E. destruct post as [|z post'] using rev_ind.
  - left. change (pre ++ [x]) with (pre ++ [x]) in E. apply app_inj_tail in E. destruct E; auto.
  - right. exists post'.
    rewrite app_comm_cons, app_assoc in E. apply app_inj_tail in E. destruct E as [E ->]. split; [reflexivity|exact E].
Qed.

(* the sources of a request are declared before it *)
Lemma wo_sources_declared reqs : well_ordered reqs ->
  forall pre name rq sv post, reqs = pre ++ (name, (rq, sv)) :: post ->
    forall s, In s (request_sources rq) -> In s (req_names pre).
Proof.
  induction 1 as [|pre0 name0 r0 save0 Hwo IH Hn Hs]; intros pre name rq sv post E s Hsrc.
  - destruct pre; discriminate.
  - symmetry in E. apply split_snoc in E. destruct E as [(-> & -> & Ex) | [post' [-> E]]].
    + injection Ex as -> -> ->. apply Hs. exact Hsrc.
    + apply (IH pre name rq sv post' (eq_sym E) s Hsrc).
Qed.

Lemma wo_sources_before reqs : well_ordered reqs ->
  forall pre name rq sv post, reqs = pre ++ (name, (rq, sv)) :: post ->
    forall s, In s (request_sources rq) -> ~ In s (req_names ((name, (rq, sv)) :: post)).
Proof.
  intros Hwo pre name rq sv post E s Hsrc Hin.
  pose proof (wo_sources_declared reqs Hwo pre name rq sv post E s Hsrc) as Hpre.
  pose proof (wo_nodup reqs Hwo) as Hnd. rewrite E in Hnd. unfold req_names in *. rewrite map_app in Hnd.
  revert Hnd Hpre Hin. generalize (map fst pre) (map fst ((name, (rq, sv)) :: post)). clear.
  intros l1 l2 Hnd H1 H2. induction l1 as [|h l1 IH]; [destruct H1|]. cbn in Hnd. inversion Hnd; subst.
  destruct H1 as [->|H1]; [apply H3; apply in_or_app; right; exact H2 | apply IH; assumption].
Qed.

Lemma mem_str_in x l : In x l -> mem_str x l = true.
Proof.
  intro H. unfold mem_str. apply existsb_exists. exists x. split; [exact H | apply String.eqb_refl].
Qed.

Section OrderIndep.
Variable O : NumOps.
Notation F := (F O).
Variables (m : model) (p : string -> F) (ntimes : nat) (outputs flows : list (list F)) (cvs : list (string * list F)).

Theorem declaration_order_irrelevant reqs1 reqs2 r1 r2 :
  well_ordered reqs1 -> well_ordered reqs2 ->
  (forall x, In x reqs1 <-> In x reqs2) ->
  eval_requests O m p ntimes outputs flows cvs (req_names reqs1) reqs1 [] = Ok r1 ->
  eval_requests O m p ntimes outputs flows cvs (req_names reqs2) reqs2 [] = Ok r2 ->
  forall name, In name (req_names reqs1) -> lookup_series O name r1 = lookup_series O name r2.
Proof.
  intros W1 W2 Hsame E1 E2.
  assert (Hpre : forall pre post, reqs1 = pre ++ post ->
                 forall n, In n (req_names pre) -> lookup_series O n r1 = lookup_series O n r2).
  { induction pre as [|[name [rq sv]] pre IH] using rev_ind; intros post Es n Hn; [destruct Hn|].
    unfold req_names in Hn. rewrite map_app in Hn. apply in_app_or in Hn. destruct Hn as [Hn|[<-|[]]].
    - apply (IH ((name, (rq, sv)) :: post)); [rewrite Es, <- app_assoc; reflexivity | exact Hn].
    - cbn [fst].
      assert (Esplit : reqs1 = pre ++ (name, (rq, sv)) :: post) by (rewrite Es, <- app_assoc; reflexivity).
      assert (Hin1 : In (name, (rq, sv)) reqs1) by (rewrite Esplit; apply in_or_app; right; left; reflexivity).
      assert (Hin2 : In (name, (rq, sv)) reqs2) by (apply Hsame; exact Hin1).
      destruct (defining_equation O m p ntimes outputs flows cvs (req_names reqs1) reqs1 [] r1
                  (fun _ _ => eq_refl) (wo_nodup _ W1) (wo_sources_before _ W1) E1 name rq sv Hin1
                  (mem_str_in _ _ (in_map fst _ _ Hin1))) as [v1 [A1 V1]].
      destruct (defining_equation O m p ntimes outputs flows cvs (req_names reqs2) reqs2 [] r2
                  (fun _ _ => eq_refl) (wo_nodup _ W2) (wo_sources_before _ W2) E2 name rq sv Hin2
                  (mem_str_in _ _ (in_map fst _ _ Hin2))) as [v2 [A2 V2]].
      assert (Hext : eval_request O m p ntimes outputs flows cvs r1 rq = eval_request O m p ntimes outputs flows cvs r2 rq).
      { apply eval_request_ext. intros s Hs. apply (IH ((name, (rq, sv)) :: post)); [exact Esplit|].
        apply (wo_sources_declared _ W1 pre name rq sv post Esplit s Hs). }
      rewrite V1, V2 in Hext. injection Hext as ->. unfold lookup_series. rewrite A1, A2. reflexivity. }
  intros name Hname. apply (Hpre reqs1 []); [rewrite app_nil_r; reflexivity | exact Hname].
Qed.

End OrderIndep.
