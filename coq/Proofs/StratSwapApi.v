(* C15: the compartments of a model do not depend on the order in which two stratifications are applied through the API. *)
From Coq Require Import List String Bool Arith Lia Permutation.
Import ListNotations.
From S2 Require Import Base.Num Base.Arr Model.Expr Model.Struct Proofs.BuildProofs Proofs.StratSwap.
Local Open Scope nat_scope.
Local Notation length := List.length.

Lemma mem_str_false_not_in x l : mem_str x l = false -> ~ In x l.
Proof.
  unfold mem_str. intros H Hin. assert (E : existsb (String.eqb x) l = true) by (apply existsb_exists; exists x; split; [exact Hin | apply String.eqb_refl]).
  rewrite E in H. discriminate.
Qed.

Theorem api_stratification_order m s1 s2 m1 m12 m2 m21 :
  stratify_with m s1 = Ok m1 -> stratify_with m1 s2 = Ok m12 ->
  stratify_with m s2 = Ok m2 -> stratify_with m2 s1 = Ok m21 ->
  length (m_comps m12) = length (m_comps m21)
  /\ (forall x, In x (m_comps m12) -> exists y, In y (m_comps m21) /\ comp_same x y)
  /\ (forall y, In y (m_comps m21) -> exists x, In x (m_comps m12) /\ comp_same y x).
Proof.
  intros H1 H12 H2 H21.
  destruct (stratify_with_inv _ _ _ H1) as (C1 & S1 & _). destruct (stratify_with_inv _ _ _ H12) as (C12 & _ & N12 & _).
  destruct (stratify_with_inv _ _ _ H2) as (C2 & _). destruct (stratify_with_inv _ _ _ H21) as (C21 & _).
  cbv zeta in *. rewrite C12, C1, C21, C2.
  assert (Hn : s_name (normalise_strat s1) <> s_name (normalise_strat s2)).
  { intro E. apply (mem_str_false_not_in _ _ N12). unfold strat_names. rewrite S1, map_app. apply in_or_app. right.
    cbn [map]. left. exact E. }
  destruct (stratifications_commute_on_compartments (normalise_strat s1) (normalise_strat s2) (m_comps m) Hn) as [L M].
  destruct (stratifications_commute_on_compartments (normalise_strat s2) (normalise_strat s1) (m_comps m) (fun E => Hn (eq_sym E))) as [_ M'].
  split; [exact L|]. split; [exact M | exact M'].
Qed.

(* listing the strata of an ordinary or strain stratification in another order (age strata are sorted by the library):
   the API produces a permutation of the compartments *)
Lemma normalise_plain s : s_kind s <> SAge -> normalise_strat s = s.
Proof. intro H. unfold normalise_strat. destruct (s_kind s); try reflexivity. contradiction. Qed.

Theorem api_strata_order m s s' m1 m1' :
  s_kind s <> SAge -> s_kind s' <> SAge ->
  s_name s' = s_name s -> s_comps s' = s_comps s -> Permutation (s_strata s) (s_strata s') ->
  stratify_with m s = Ok m1 -> stratify_with m s' = Ok m1' ->
  Permutation (m_comps m1) (m_comps m1').
Proof.
  intros Hk Hk' Hn Hc Hp H H'.
  destruct (stratify_with_inv _ _ _ H) as (C & _). destruct (stratify_with_inv _ _ _ H') as (C' & _). cbv zeta in *.
  rewrite C, C', (normalise_plain s Hk), (normalise_plain s' Hk').
  apply strata_order_permutes_compartments; assumption.
Qed.
