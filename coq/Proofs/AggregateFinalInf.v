(* C03 in terms of the functions the runner executes, infection flows included: the compartment rates get_comp_rates of
   the stratified model at a non-negative state, summed over the copies of a compartment, are the compartment rate of
   the unstratified model at the aggregated state - within the domain of C05's multiplier theorem for both models. *)
From Coq Require Import QArith Field Ring List String Bool Arith Lia.
Import ListNotations.
From S2 Require Import Base.Num Base.Arr Model.Expr Model.Struct Model.Rates Model.Program Spec.RatesSpec
     Proofs.ArrLemmas Proofs.NumLemmas Proofs.BuildProofs Proofs.RatesProofs Proofs.ConservationProofs Proofs.PositivityProofs
     Proofs.InvarianceProofs Proofs.Assembly Proofs.AgeAssembly Proofs.AggregateRates Proofs.AggregateModel Proofs.AggregateTotals Proofs.AggregateAll
     Proofs.RatesBridge Proofs.AggregateFinal Proofs.RunExt Proofs.Scaling Proofs.TimeShift Proofs.AggregateInf Proofs.RatesBridgeInf.
Local Open Scope nat_scope.
Local Notation length := List.length.

Section FinalInf.
Variable O : NumOps.
Variable T : NumTheory O.
Notation F := (F O).
Add Field Ffii : (Fth O T).

Variables (t0 t1 h : Q) (comps inf : list string) (ops : list op) (m : model) (s0 : strat) (m' : model) (b b' : backend).
Hypothesis Hb : build_ok t0 t1 h comps inf ops = Some m.
Hypothesis Hcs_nd : NoDup (m_comps m).
Hypothesis H : stratify_with m s0 = Ok m'.
Hypothesis Hpb : prepare_structural m = Ok b.
Hypothesis Hpb' : prepare_structural m' = Ok b'.
Let s := normalise_strat s0.
Hypothesis Hst : NoDup (s_strata s).
Hypothesis Hne : s_strata s <> [].
Hypothesis Hns : is_strain (s_kind s) = false.
Hypothesis Hna : s_fadj s = [].
Hypothesis Hmix : s_mix s = None.
Hypothesis Hia : s_iadj s = [].
Hypothesis Hfl : forall f, In f (m_flows m) -> all_flow f.
Hypothesis Hmx : forallb state_free (mix_exprs m) = true.
Variables (p : env O) (t : F) (x' : list F).
Hypothesis Hlen : length x' = length (m_comps m').
Hypothesis Hpos : Forall (fun v => fle O T (f0 O) v) x'.
Hypothesis Hdom : foi_domain O m p t (aggx O s (m_comps m) x').
Hypothesis Hdom' : foi_domain O m' p t x'.

Theorem stratified_comp_rates_aggregate_all i dflt : i < length (m_comps m) ->
  fsum O (map (fun c' => nth (comp_index (m_comps m') c') (get_comp_rates O m' b' p t x') (f0 O))
              (group s (nth i (m_comps m) dflt)))
  = nth i (get_comp_rates O m b p t (aggx O s (m_comps m) x')) (f0 O).
Proof.
  intro Hi.
  pose proof (wf_build _ _ _ _ _ _ _ Hb) as W.
  pose proof (wf_stratify m s0 m' W H) as W'.
  pose proof (stratify_with_nodup m s0 m' W Hcs_nd Hst H) as Hnd'.
  destruct (stratify_with_inv _ _ _ H) as [Ec _]. fold s in Ec.
  set (c := nth i (m_comps m) dflt).
  assert (Hc : In c (m_comps m)) by (apply nth_In; exact Hi).
  assert (Hposa : Forall (fun v => fle O T (f0 O) v) (aggx O s (m_comps m) x')).
  { unfold aggx. apply Forall_forall. intros v Hv. apply in_map_iff in Hv. destruct Hv as [c0 [<- _]].
    apply (fsum_map_nonneg O T). intros c' _. unfold pop', get_clamp.
    destruct (nth_in_or_default (Nat.min (comp_index (stratify_comps s (m_comps m)) c') (length x' - 1)) x' (f0 O)) as [Hin|Ed].
    - rewrite Forall_forall in Hpos. apply Hpos. exact Hin.
    - rewrite Ed. apply (fle_refl O T). }
  rewrite (comp_rates_are_net_rates_all O T m b p t _ Hpb W Hcs_nd
             Hdom i dflt Hi).
  rewrite (vclean_nonneg_id O T _ Hposa). fold c.
  pose proof (all_flows_model_aggregates O T t0 t1 h comps inf ops m s0 m' Hb Hcs_nd H Hst Hne Hns Hna Hmix Hia Hfl Hmx p t x' Hlen c Hc) as Hagg.
  fold s in Hagg. rewrite <- Hagg. apply (fsum_map_ext O). intros c' Hc'.
  assert (Hin' : In c' (m_comps m')).
  { rewrite Ec, stratify_comps_groups. apply in_flat_map. exists c. split; [exact Hc | exact Hc']. }
  assert (Hlt : comp_index (m_comps m') c' < length (m_comps m')).
  { apply comp_index_lt. intro E. rewrite E in Hin'. destruct Hin'. }
  rewrite (comp_rates_are_net_rates_all O T m' b' p t x' Hpb' W' Hnd'
             Hdom' _ c' Hlt).
  rewrite (comp_index_correct (m_comps m') c' c' Hin'), (vclean_nonneg_id O T _ Hpos). reflexivity.
Qed.

End FinalInf.
