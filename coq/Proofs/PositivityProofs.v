(* C18 on the model: with non-negative weights and multipliers and no absolute outflow, the rate of
   change of an empty (or marginally negative) compartment is never negative. *)
From Coq Require Import QArith Field Ring List String Bool Arith Lia.
Import ListNotations.
From S2 Require Import Base.Num Base.Arr Model.Expr Model.Struct Model.Rates Spec.RatesSpec
     Proofs.ArrLemmas Proofs.NumLemmas Proofs.OrderLemmas Proofs.WeightProofs Proofs.RatesProofs
     Proofs.BuildProofs Proofs.ConservationProofs.
Local Open Scope nat_scope.
Local Notation length := List.length.

Section Positivity.
Variable O : NumOps.
Variable T : NumTheory O.
Notation F := (F O).
Add Field Fp : (Fth O T).
Notation "x <= y" := (fle O T x y).
Notation "0" := (f0 O).

Lemma fclean_nonneg v : 0 <= fclean O v.
Proof.
  unfold fclean. destruct (fltb O v 0) eqn:E; [apply (fle_refl O T)|]. apply (fltb_false O T) in E. exact E.
Qed.

Lemma fclean_nonpos v : v <= 0 -> fclean O v = 0.
Proof.
  intro H. unfold fclean. destruct (fltb O v 0) eqn:E; [reflexivity|].
  apply (fltb_false O T) in E. apply (fle_antisym O T); assumption.
Qed.

Lemma fle_0_add a c : 0 <= a -> 0 <= c -> 0 <= fadd O a c.
Proof.
  intros Ha Hc. pose proof (fle_add2 O T 0 a 0 c Ha Hc) as H.
  replace (fadd O 0 0) with 0 in H by ring. exact H.
Qed.

Lemma fsum_nonneg (l : list F) : (forall v, In v l -> 0 <= v) -> 0 <= fsum O l.
Proof.
  induction l as [|a l IH]; intro H; [apply (fle_refl O T)|].
  rewrite (fsum_cons O). apply fle_0_add; [apply H; left; reflexivity|].
  apply IH. intros v Hv. apply H. right; exact Hv.
Qed.

Lemma fsum_map_nonneg {A} (g : A -> F) (l : list A) : (forall a, In a l -> 0 <= g a) -> 0 <= fsum O (map g l).
Proof. intro H. apply fsum_nonneg. intros v Hv. apply in_map_iff in Hv. destruct Hv as [a [<- Ha]]. apply H; exact Ha. Qed.

Lemma fsum_map_all_zero {A} (g : A -> F) (l : list A) : (forall a, In a l -> g a = 0) -> fsum O (map g l) = 0.
Proof.
  intro H. rewrite <- (fsum_map_zero O T l). apply (fsum_map_ext O). exact H.
Qed.

Lemma get_clamp_vclean_nonneg x0 i : 0 <= get_clamp 0 (vclean O x0) i.
Proof.
  unfold get_clamp, vclean. destruct (Nat.lt_ge_cases (Nat.min i (length (map (fclean O) x0) - 1)) (length (map (fclean O) x0))) as [Hlt|Hge].
  - rewrite (nth_indep _ 0 (fclean O 0)) by exact Hlt. rewrite map_nth. apply fclean_nonneg.
  - rewrite nth_overflow by exact Hge. apply (fle_refl O T).
Qed.

Lemma get_clamp_vclean_zero x0 s : s < length x0 -> nth s x0 0 <= 0 -> get_clamp 0 (vclean O x0) s = 0.
Proof.
  intros Hs Hx. unfold vclean. rewrite get_clamp_lt by (rewrite map_length; exact Hs).
  rewrite (nth_indep _ 0 (fclean O 0)) by (rewrite map_length; exact Hs). rewrite map_nth.
  apply fclean_nonpos. exact Hx.
Qed.

Lemma fclean_of_nonneg v : 0 <= v -> fclean O v = v.
Proof.
  intro H. unfold fclean. destruct (fltb O v 0) eqn:E; [|reflexivity].
  apply (fltb_true O T) in E. destruct E as [E1 E2]. elim E2. apply (fle_antisym O T); assumption.
Qed.

Lemma get_clamp_vclean_id x0 s : s < length x0 -> 0 <= nth s x0 0 -> get_clamp 0 (vclean O x0) s = nth s x0 0.
Proof.
  intros Hs Hx. unfold vclean. rewrite get_clamp_lt by (rewrite map_length; exact Hs).
  rewrite (nth_indep _ 0 (fclean O 0)) by (rewrite map_length; exact Hs). rewrite map_nth.
  apply fclean_of_nonneg. exact Hx.
Qed.

Variables (m : model) (b : backend) (p : env O) (t : F) (x0 : list F).
Hypothesis Hb : prepare_structural m = Ok b.
Let x := vclean O x0.
Let muls := muls_of O m b p t x0.

Hypothesis weights_nonneg : forall f, In f (m_flows m) -> 0 <= weight_spec O p t x f.
Hypothesis muls_nonneg : forall k, 0 <= nth k muls 0.
Hypothesis shapes : forall f, In f (m_flows m) -> flow_shape f.

Lemma total_deaths_nonneg : 0 <= total_deaths O m p t x.
Proof.
  unfold total_deaths. apply fsum_map_nonneg. intros f Hf. apply filter_In in Hf. destruct Hf as [Hf _].
  unfold base_rate. apply (fle_mul O T); [apply weights_nonneg; exact Hf | apply get_clamp_vclean_nonneg].
Qed.

Lemma flow_rate_nonneg i f : In f (m_flows m) -> 0 <= flow_rate_spec O m p t x muls i f.
Proof.
  intro Hf. unfold flow_rate_spec.
  pose proof (weights_nonneg f Hf) as Hw.
  pose proof (get_clamp_vclean_nonneg x0 (src_index (m_comps m) f)) as Hp. fold x in Hp.
  assert (Htot : 0 <= fsum O x).
  { apply fsum_nonneg. intros v Hv. unfold x, vclean in Hv. apply in_map_iff in Hv. destruct Hv as [a [<- _]]. apply fclean_nonneg. }
  destruct (f_kind f); cbn [flow_law]; repeat apply (fle_mul O T); auto using total_deaths_nonneg.
Qed.

(* C18: an empty (or marginally negative) compartment without absolute outflows has a non-negative
   rate of change, whatever the other compartments hold *)
Theorem quasi_positive s :
  s < length (m_comps m) -> length x0 = length (m_comps m) -> nth s x0 0 <= 0 ->
  (forall f c, In f (m_flows m) -> f_src f = Some c -> comp_index (m_comps m) c = s -> fkind_eqb (f_kind f) KAbs = false) ->
  0 <= nth s (get_comp_rates O m b p t x0) 0.
Proof.
  intros Hs Hlen Hx Hnoabs.
  unfold get_comp_rates.
  rewrite (comp_rates_spec O T m b _ Hb (get_flow_rates_length O m b p t x0 Hb)).
  rewrite (nth_indep _ 0 (comp_rate_spec O m (get_flow_rates O m b p t x0) 0)) by (rewrite map_length, seq_length; exact Hs).
  rewrite map_nth, seq_nth by exact Hs. cbn [Nat.add]. unfold comp_rate_spec.
  assert (Hrate : forall jf, In jf (enumerate (m_flows m)) ->
            nth (fst jf) (get_flow_rates O m b p t x0) 0 = flow_rate_spec O m p t x muls (fst jf) (snd jf) /\ In (snd jf) (m_flows m)).
  { intros jf Hin. unfold enumerate in Hin. apply in_enumerate_from in Hin. destruct Hin as [Hr Hn].
    rewrite Nat.sub_0_r in Hn. split; [|apply nth_error_In in Hn; exact Hn].
    rewrite (flow_rate_nth O T m b p t x0 Hb (fst jf)) by lia.
    rewrite (nth_error_nth _ _ dflow Hn). reflexivity. }
  (* outflows vanish *)
  assert (Hout : fsum O (map (fun jf => match f_src (snd jf) with
                            | Some c => if Nat.eqb (comp_index (m_comps m) c) s then nth (fst jf) (get_flow_rates O m b p t x0) 0 else 0
                            | None => 0 end) (enumerate (m_flows m))) = 0).
  { apply fsum_map_all_zero. intros jf Hin. destruct (Hrate jf Hin) as [Er Hf].
    destruct (f_src (snd jf)) as [c|] eqn:Esrc; [|reflexivity].
    destruct (Nat.eqb_spec (comp_index (m_comps m) c) s) as [Eidx|]; [|reflexivity].
    rewrite Er. unfold flow_rate_spec, src_index. rewrite Esrc, Eidx.
    assert (Ez : get_clamp 0 x s = 0) by (apply get_clamp_vclean_zero; [rewrite Hlen; exact Hs | exact Hx]).
    rewrite Ez. pose proof (Hnoabs (snd jf) c Hf Esrc Eidx) as Hk.
    destruct (shapes (snd jf) Hf) as [Hsh _].
    destruct (f_kind (snd jf)) eqn:Ek; cbn [flow_law fkind_eqb is_entry] in *; try ring;
      try (rewrite (Hsh eq_refl) in Esrc; discriminate); discriminate. }
  rewrite Hout.
  replace (fsub O (fsum O (map _ (enumerate (m_flows m)))) 0) with (fsum O (map (fun jf => match f_dst (snd jf) with
                            | Some d => if Nat.eqb (comp_index (m_comps m) d) s then nth (fst jf) (get_flow_rates O m b p t x0) 0 else 0
                            | None => 0 end) (enumerate (m_flows m)))) by ring.
  apply fsum_map_nonneg. intros jf Hin. destruct (Hrate jf Hin) as [Er Hf].
  destruct (f_dst (snd jf)); [|apply (fle_refl O T)].
  destruct (Nat.eqb _ s); [|apply (fle_refl O T)]. rewrite Er. apply flow_rate_nonneg. exact Hf.
Qed.

(* ----- discrete invariance: one Euler step keeps a non-negative compartment non-negative as long as
   step x (total rate coefficient with which the compartment is emptied) <= 1 ----- *)
Definition exit_coeff (s : nat) : F :=
  fsum O (map (fun jf => match f_src (snd jf) with
                         | Some c => if Nat.eqb (comp_index (m_comps m) c) s
                                     then match f_kind (snd jf) with
                                          | KInfFreq | KInfDens =>
                                              fmul O (weight_spec O p t x (snd jf)) (nth (infection_rank (m_flows m) (fst jf)) muls 0)
                                          | _ => weight_spec O p t x (snd jf)
                                          end
                                     else 0
                         | None => 0 end) (enumerate (m_flows m))).

Lemma fle_0_sub a c : a <= c -> 0 <= fsub O c a.
Proof.
  intro H. pose proof (fle_add O T a c (fopp O a) H) as H1.
  replace (fadd O a (fopp O a)) with 0 in H1 by ring. replace (fadd O c (fopp O a)) with (fsub O c a) in H1 by ring. exact H1.
Qed.

Theorem euler_keeps_nonneg s h :
  s < length (m_comps m) -> length x0 = length (m_comps m) -> 0 <= nth s x0 0 ->
  (forall f c, In f (m_flows m) -> f_src f = Some c -> comp_index (m_comps m) c = s -> fkind_eqb (f_kind f) KAbs = false) ->
  0 <= h -> fmul O h (exit_coeff s) <= f1 O ->
  0 <= fadd O (nth s x0 0) (fmul O h (nth s (get_comp_rates O m b p t x0) 0)).
Proof.
  intros Hs Hlen Hx Hnoabs Hh Hcfl.
  assert (Ecr : nth s (get_comp_rates O m b p t x0) 0 = comp_rate_spec O m (get_flow_rates O m b p t x0) s).
  { unfold get_comp_rates.
    rewrite (comp_rates_spec O T m b _ Hb (get_flow_rates_length O m b p t x0 Hb)).
    rewrite (nth_indep _ 0 (comp_rate_spec O m (get_flow_rates O m b p t x0) 0)) by (rewrite map_length, seq_length; exact Hs).
    rewrite map_nth, seq_nth by exact Hs. reflexivity. }
  rewrite Ecr. unfold comp_rate_spec.
  assert (Hrate : forall jf, In jf (enumerate (m_flows m)) ->
            nth (fst jf) (get_flow_rates O m b p t x0) 0 = flow_rate_spec O m p t x muls (fst jf) (snd jf) /\ In (snd jf) (m_flows m)).
  { intros jf Hin. unfold enumerate in Hin. apply in_enumerate_from in Hin. destruct Hin as [Hr Hn].
    rewrite Nat.sub_0_r in Hn. split; [|apply nth_error_In in Hn; exact Hn].
    rewrite (flow_rate_nth O T m b p t x0 Hb (fst jf)) by lia.
    rewrite (nth_error_nth _ _ dflow Hn). reflexivity. }
  assert (Exs : get_clamp 0 x s = nth s x0 0) by (apply get_clamp_vclean_id; [rewrite Hlen; exact Hs | exact Hx]).
  (* the outflow is x_s times the exit coefficient *)
  assert (Hout : fsum O (map (fun jf => match f_src (snd jf) with
                            | Some c => if Nat.eqb (comp_index (m_comps m) c) s then nth (fst jf) (get_flow_rates O m b p t x0) 0 else 0
                            | None => 0 end) (enumerate (m_flows m))) = fmul O (nth s x0 0) (exit_coeff s)).
  { unfold exit_coeff. rewrite <- (fsum_map_scale O T (nth s x0 0)). apply (fsum_map_ext O). intros jf Hin.
    destruct (Hrate jf Hin) as [Er Hf].
    destruct (f_src (snd jf)) as [c|] eqn:Esrc; [|ring].
    destruct (Nat.eqb_spec (comp_index (m_comps m) c) s) as [Eidx|]; [|ring].
    rewrite Er. unfold flow_rate_spec, src_index. rewrite Esrc, Eidx, Exs.
    pose proof (Hnoabs (snd jf) c Hf Esrc Eidx) as Hk.
    destruct (shapes (snd jf) Hf) as [Hsh _].
    destruct (f_kind (snd jf)) eqn:Ek; cbn [flow_law fkind_eqb is_entry] in *; try ring;
      try (rewrite (Hsh eq_refl) in Esrc; discriminate); discriminate. }
  rewrite Hout.
  set (IN := fsum O (map _ (enumerate (m_flows m)))).
  assert (Hin : 0 <= IN).
  { unfold IN. apply fsum_map_nonneg. intros jf Hin. destruct (Hrate jf Hin) as [Er Hf].
    destruct (f_dst (snd jf)); [|apply (fle_refl O T)].
    destruct (Nat.eqb _ s); [|apply (fle_refl O T)]. rewrite Er. apply flow_rate_nonneg. exact Hf. }
  replace (fadd O (nth s x0 0) (fmul O h (fsub O IN (fmul O (nth s x0 0) (exit_coeff s)))))
    with (fadd O (fmul O (nth s x0 0) (fsub O (f1 O) (fmul O h (exit_coeff s)))) (fmul O h IN)) by ring.
  apply fle_0_add; apply (fle_mul O T); try assumption. apply fle_0_sub. exact Hcfl.
Qed.

End Positivity.
