(* C03 on the model: summing over the new strata is a linear map that commutes with the fixed-step
   solvers whenever it intertwines the two right-hand sides; the per-flow cases that make it
   intertwine them for an unadjusted stratification. *)
From Coq Require Import QArith Field Ring List String Bool Arith Lia.
Import ListNotations.
From S2 Require Import Base.Num Base.Arr Model.Solvers
     Proofs.ArrLemmas Proofs.NumLemmas Proofs.SolversProofs.
Local Open Scope nat_scope.
Local Notation length := List.length.

Section Aggregate.
Variable O : NumOps.
Variable T : NumTheory O.
Notation F := (F O).
Add Field Fag : (Fth O T).

(* aggregation over groups of positions: component g of the result is the sum of the components
   of y listed in group g (the strata of one original compartment) *)
Definition agg (groups : list (list nat)) (y : list F) : list F :=
  map (fun g => fsum O (gather (f0 O) y g)) groups.

Lemma get_clamp_vadd (a b : list F) i : length a = length b ->
  get_clamp (f0 O) (vadd O a b) i = fadd O (get_clamp (f0 O) a i) (get_clamp (f0 O) b i).
Proof.
  intro H. unfold get_clamp. rewrite (vadd_length O), <- H, Nat.min_id.
  destruct (Nat.lt_ge_cases (Nat.min i (length a - 1)) (length a)) as [Hlt|Hge].
  - unfold vadd. rewrite (nth_zip_with (fadd O) a b _ (f0 O) (f0 O) (f0 O)); [reflexivity|exact Hlt|rewrite <- H; exact Hlt].
  - rewrite !nth_overflow; [ring| rewrite <- H; exact Hge | exact Hge | rewrite (vadd_length O), <- H, Nat.min_id; exact Hge].
Qed.

Lemma get_clamp_vscale k (a : list F) i :
  get_clamp (f0 O) (vscale O k a) i = fmul O k (get_clamp (f0 O) a i).
Proof.
  unfold get_clamp. rewrite (vscale_length O).
  destruct (Nat.lt_ge_cases (Nat.min i (length a - 1)) (length a)) as [Hlt|Hge].
  - unfold vscale. rewrite (nth_indep _ (f0 O) (fmul O k (f0 O))) by (rewrite map_length; exact Hlt). apply map_nth.
  - rewrite !nth_overflow; [ring| exact Hge | rewrite (vscale_length O); exact Hge].
Qed.

Lemma zip_with_map_same {A} (g1 g2 : A -> F) (l : list A) :
  zip_with (fadd O) (map g1 l) (map g2 l) = map (fun v => fadd O (g1 v) (g2 v)) l.
Proof. induction l as [|v l IH]; cbn; [reflexivity|]. rewrite IH. reflexivity. Qed.

Lemma agg_vadd groups a b : length a = length b -> agg groups (vadd O a b) = vadd O (agg groups a) (agg groups b).
Proof.
  intro H. unfold agg. unfold vadd at 2. rewrite zip_with_map_same. apply map_ext. intro g.
  unfold gather. rewrite <- (fsum_map_add O T). f_equal. apply map_ext. intro i. apply get_clamp_vadd. exact H.
Qed.

Lemma agg_vscale groups k a : agg groups (vscale O k a) = vscale O k (agg groups a).
Proof.
  unfold agg, vscale at 2. rewrite map_map. apply map_ext. intro g.
  unfold gather. rewrite <- (fsum_map_scale O T). f_equal. apply map_ext. intro i. apply get_clamp_vscale.
Qed.

Lemma agg_length groups y : length (agg groups y) = length groups.
Proof. apply map_length. Qed.

Variable groups : list (list nat).
Variables (f f' : rhs O).
Variable n' : nat.
Hypothesis f'_len : forall t y, length (f' t y) = n'.
(* the aggregate dynamics are unchanged: summing the stratified rates over the strata gives the
   unstratified rates of the summed state *)
Hypothesis intertwine : forall t y, length y = n' -> agg groups (f' t y) = f t (agg groups y).

Lemma euler_step_agg h t y : length y = n' ->
  length (euler_step O f' h t y) = n' /\ agg groups (euler_step O f' h t y) = euler_step O f h t (agg groups y).
Proof.
  intro Hy. unfold euler_step. split.
  - rewrite (vadd_length O), (vscale_length O), f'_len, Hy. apply Nat.min_id.
  - rewrite agg_vadd by (rewrite (vscale_length O), f'_len; exact Hy). rewrite agg_vscale, intertwine by exact Hy. reflexivity.
Qed.

Lemma rk4_step_agg h t y : length y = n' ->
  length (rk4_step O f' h t y) = n' /\ agg groups (rk4_step O f' h t y) = rk4_step O f h t (agg groups y).
Proof.
  intro Hy. unfold rk4_step.
  set (k1 := f' t y).
  assert (L1 : length k1 = n') by apply f'_len.
  assert (A1 : agg groups k1 = f t (agg groups y)) by (apply intertwine; exact Hy).
  set (y2 := vadd O y (vscale O (fdiv O h (two O)) k1)).
  assert (Ly2 : length y2 = n') by (unfold y2; rewrite (vadd_length O), (vscale_length O), L1, Hy; apply Nat.min_id).
  assert (Ay2 : agg groups y2 = vadd O (agg groups y) (vscale O (fdiv O h (two O)) (f t (agg groups y)))).
  { unfold y2. rewrite agg_vadd by (rewrite (vscale_length O), L1; exact Hy). rewrite agg_vscale, A1. reflexivity. }
  set (k2 := f' (fadd O t (fdiv O h (two O))) y2).
  assert (L2 : length k2 = n') by apply f'_len.
  assert (A2 : agg groups k2 = f (fadd O t (fdiv O h (two O))) (agg groups y2)) by (apply intertwine; exact Ly2).
  set (y3 := vadd O y (vscale O (fdiv O h (two O)) k2)).
  assert (Ly3 : length y3 = n') by (unfold y3; rewrite (vadd_length O), (vscale_length O), L2, Hy; apply Nat.min_id).
  assert (Ay3 : agg groups y3 = vadd O (agg groups y) (vscale O (fdiv O h (two O)) (agg groups k2))).
  { unfold y3. rewrite agg_vadd by (rewrite (vscale_length O), L2; exact Hy). rewrite agg_vscale. reflexivity. }
  set (k3 := f' (fadd O t (fdiv O h (two O))) y3).
  assert (L3 : length k3 = n') by apply f'_len.
  assert (A3 : agg groups k3 = f (fadd O t (fdiv O h (two O))) (agg groups y3)) by (apply intertwine; exact Ly3).
  set (y4 := vadd O y (vscale O h k3)).
  assert (Ly4 : length y4 = n') by (unfold y4; rewrite (vadd_length O), (vscale_length O), L3, Hy; apply Nat.min_id).
  assert (Ay4 : agg groups y4 = vadd O (agg groups y) (vscale O h (agg groups k3))).
  { unfold y4. rewrite agg_vadd by (rewrite (vscale_length O), L3; exact Hy). rewrite agg_vscale. reflexivity. }
  set (k4 := f' (fadd O t h) y4).
  assert (L4 : length k4 = n') by apply f'_len.
  assert (A4 : agg groups k4 = f (fadd O t h) (agg groups y4)) by (apply intertwine; exact Ly4).
  assert (Lsum : length (vadd O (vadd O (vadd O k1 (vscale O (two O) k2)) (vscale O (two O) k3)) k4) = n').
  { rewrite !(vadd_length O), !(vscale_length O), L1, L2, L3, L4, !Nat.min_id. reflexivity. }
  split.
  - rewrite (vadd_length O), (vscale_length O), Lsum, Hy. apply Nat.min_id.
  - rewrite agg_vadd by (rewrite (vscale_length O), Lsum; exact Hy). rewrite agg_vscale.
    rewrite agg_vadd by (rewrite !(vadd_length O), !(vscale_length O), L1, L2, L3, L4, !Nat.min_id; reflexivity).
    rewrite agg_vadd by (rewrite !(vadd_length O), !(vscale_length O), L1, L2, L3, !Nat.min_id; reflexivity).
    rewrite agg_vadd by (rewrite (vscale_length O), L1, L2; reflexivity).
    rewrite !agg_vscale, A1, A4, Ay4, A3, Ay3, A2, Ay2. reflexivity.
Qed.

(* along the whole trajectory, every step size, start time and number of steps *)
Lemma iterate_agg (step' step : F -> list F -> list F) h :
  (forall t y, length y = n' -> length (step' t y) = n' /\ agg groups (step' t y) = step t (agg groups y)) ->
  forall k t y, length y = n' ->
    map (agg groups) (iterate_steps O step' h t y k) = iterate_steps O step h t (agg groups y) k.
Proof.
  intros Hstep k. induction k as [|k IH]; intros t y Hy; cbn [iterate_steps map]; [reflexivity|].
  destruct (Hstep t y Hy) as [L A]. rewrite (IH _ _ L), A. reflexivity.
Qed.

Theorem euler_trajectory_aggregates h t0 y0 k : length y0 = n' ->
  map (agg groups) (solve_fixed O (euler_step O) f' t0 h y0 k) = solve_fixed O (euler_step O) f t0 h (agg groups y0) k.
Proof. intro Hy. unfold solve_fixed. apply iterate_agg; [|exact Hy]. intros; apply euler_step_agg; assumption. Qed.

Theorem rk4_trajectory_aggregates h t0 y0 k : length y0 = n' ->
  map (agg groups) (solve_fixed O (rk4_step O) f' t0 h y0 k) = solve_fixed O (rk4_step O) f t0 h (agg groups y0) k.
Proof. intro Hy. unfold solve_fixed. apply iterate_agg; [|exact Hy]. intros; apply rk4_step_agg; assumption. Qed.

(* ---------------------------------------------------------------- the per-flow cases *)
(* a flow whose source is stratified: the copies' rates w * x_k add up to w * (sum of the strata) *)
Lemma source_stratified_sum (w : F) (xs : list F) :
  fsum O (map (fun xk => fmul O w xk) xs) = fmul O w (fsum O xs).
Proof. rewrite (fsum_map_scale O T w (fun v => v)), map_id. reflexivity. Qed.

(* infection flows without a mixing matrix: one force of infection for all strata *)
Lemma infection_source_stratified_sum (w foi : F) (xs : list F) :
  fsum O (map (fun xk => fmul O (fmul O w xk) foi) xs) = fmul O (fmul O w (fsum O xs)) foi.
Proof.
  induction xs as [|v xs IH]; cbn [map]; rewrite ?(fsum_nil O), ?(fsum_cons O), ?IH; ring.
Qed.

(* flows divided among n copies (entry flows, destination-only stratified transitions, absolute
   flows): n copies of (w/n) * X add up to w * X *)
Lemma divided_copies_sum (w X : F) n : n <> 0 ->
  fsum O (repeat (fmul O (fmul O w (of_Q O (1 # Pos.of_nat n))) X) n) = fmul O w X.
Proof.
  intro Hn.
  assert (E : forall v k, fsum O (repeat v k) = fmul O (of_nat_F O k) v).
  { intros v k. induction k as [|k IH]; cbn [repeat].
    - unfold of_nat_F. change (fsum O []) with (f0 O). rewrite (of_Q_eq O T (inject_Z (Z.of_nat 0)) 0%Q) by reflexivity. rewrite (of_Q_0 O T). ring.
    - rewrite (fsum_cons O), IH. unfold of_nat_F.
      rewrite (of_Q_eq O T (inject_Z (Z.of_nat (S k))) (inject_Z (Z.of_nat k) + 1)%Q).
      + rewrite (of_Q_add O T), (of_Q_1 O T). ring.
      + rewrite Nat2Z.inj_succ. unfold Z.succ. rewrite inject_Z_plus. reflexivity. }
  rewrite E.
  assert (H1 : fmul O (of_nat_F O n) (of_Q O (1 # Pos.of_nat n)) = f1 O).
  { unfold of_nat_F. rewrite <- (of_Q_mul O T), <- (of_Q_1 O T). apply (of_Q_eq O T).
    assert (Ep : Z.pos (Pos.of_nat n) = Z.of_nat n).
    { rewrite <- (Nat2Pos.id n Hn) at 2. symmetry. apply positive_nat_Z. }
    unfold Qeq, Qmult, inject_Z. cbn [Qnum Qden]. rewrite Pos.mul_1_l, Ep. lia. }
  transitivity (fmul O (fmul O (of_nat_F O n) (of_Q O (1 # Pos.of_nat n))) (fmul O w X)); [ring|]. rewrite H1. ring.
Qed.

End Aggregate.
