(* C14 and C08 on the model: pruning the request graph never changes kept values; every derived
   output satisfies its defining equation over the final value map. *)
From Coq Require Import QArith Field Ring List String Bool Arith Lia.
Import ListNotations.
From S2 Require Import Base.Num Base.Arr Model.Expr Model.Struct Model.Derived Model.Program Gen.DerivedGen
     Proofs.ArrLemmas Proofs.NumLemmas Proofs.BuildProofs.
Local Open Scope nat_scope.
Local Notation length := List.length.

Definition req_names (reqs : list (string * (request * bool))) : list string := map fst reqs.

(* declared-before-use and distinct names: what request_output enforces *)
Inductive well_ordered : list (string * (request * bool)) -> Prop :=
| wo_nil : well_ordered []
| wo_snoc pre name r save :
    well_ordered pre -> ~ In name (req_names pre) ->
    (forall s, In s (request_sources r) -> In s (req_names pre)) ->
    well_ordered (pre ++ [(name, (r, save))]).

Definition source_closed (reqs : list (string * (request * bool))) (N : list string) : Prop :=
  forall name r save, In (name, (r, save)) reqs -> In name N -> forall s, In s (request_sources r) -> In s N.

Lemma assoc_snoc {A} k (acc : list (string * A)) name v :
  assoc k (acc ++ [(name, v)]) = match assoc k acc with Some a => Some a | None => if String.eqb k name then Some v else None end.
Proof.
  induction acc as [|[k' v'] acc IH]; cbn; [reflexivity|].
  destruct (String.eqb k k'); [reflexivity|exact IH].
Qed.

Section Derived.
Variable O : NumOps.
Notation F := (F O).
Variables (m : model) (p : string -> F) (ntimes : nat) (outputs flows : list (list F)) (cvs : list (string * list F)).

Lemma eval_request_ext acc1 acc2 r :
  (forall s, In s (request_sources r) -> lookup_series O s acc1 = lookup_series O s acc2) ->
  eval_request O m p ntimes outputs flows cvs acc1 r = eval_request O m p ntimes outputs flows cvs acc2 r.
Proof.
  intro H. destruct r as [fn sf df raw|names filt|srcs|s st|fn srcs ps|name]; cbn [eval_request request_sources] in *; try reflexivity.
  - f_equal. f_equal. apply map_ext_in. intros s Hs. apply H. exact Hs.
  - rewrite (H s (or_introl eq_refl)). reflexivity.
  - f_equal. f_equal. apply map_ext_in. intros s Hs. apply H. exact Hs.
Qed.

(* C14: evaluating only a source-closed set of requests gives, for every request of the set,
   the value it has when everything is evaluated *)
Lemma eval_requests_pruned N reqs : forall acc1 acc2 r1 r2,
  source_closed reqs N ->
  (forall k, In k N -> assoc k acc1 = assoc k acc2) ->
  eval_requests O m p ntimes outputs flows cvs (req_names reqs ++ N) reqs acc1 = Ok r1 ->
  eval_requests O m p ntimes outputs flows cvs N reqs acc2 = Ok r2 ->
  forall k, In k N -> assoc k r1 = assoc k r2.
Proof.
  induction reqs as [|[name [r save]] reqs IH]; intros acc1 acc2 r1 r2 Hcl Hacc E1 E2.
  - cbn in E1, E2. injection E1 as <-. injection E2 as <-. exact Hacc.
  - change (req_names ((name, (r, save)) :: reqs)) with (name :: req_names reqs) in E1.
    cbn [eval_requests fst snd] in E1, E2.
    assert (Hm1 : mem_str name ((name :: req_names reqs) ++ N) = true).
    { unfold mem_str. apply existsb_exists. exists name. split; [left; reflexivity|apply String.eqb_refl]. }
    rewrite Hm1 in E1. unfold bind in E1.
    destruct (eval_request O m p ntimes outputs flows cvs acc1 r) as [v1|] eqn:Ev1; [|discriminate].
    assert (Hcl' : source_closed reqs N).
    { intros n' r' s' Hin. apply (Hcl n' r' s'). right; exact Hin. }
    (* the needed-list of the full evaluation only has to contain every name: membership is what matters *)
    assert (Hfull : forall acc r0, eval_requests O m p ntimes outputs flows cvs ((name :: req_names reqs) ++ N) reqs acc = Ok r0 ->
                                   eval_requests O m p ntimes outputs flows cvs (req_names reqs ++ N) reqs acc = Ok r0).
    { clear. intros acc r0.
      assert (G : forall l acc0, (forall x, In x (req_names l) -> mem_str x ((name :: req_names reqs) ++ N) = true /\ mem_str x (req_names reqs ++ N) = true) ->
                  eval_requests O m p ntimes outputs flows cvs ((name :: req_names reqs) ++ N) l acc0
                  = eval_requests O m p ntimes outputs flows cvs (req_names reqs ++ N) l acc0).
      { induction l as [|[n0 [r0' s0]] l IHl]; intros acc0 Hl; cbn [eval_requests fst snd]; [reflexivity|].
        destruct (Hl n0 (or_introl eq_refl)) as [-> ->]. unfold bind.
        destruct (eval_request O m p ntimes outputs flows cvs acc0 r0'); [|reflexivity].
        apply IHl. intros x Hx. apply Hl. right; exact Hx. }
      intro E. rewrite <- G; [exact E|]. intros x Hx. split; unfold mem_str; apply existsb_exists; exists x;
        (split; [|apply String.eqb_refl]).
      - right. apply in_or_app. left; exact Hx.
      - apply in_or_app. left; exact Hx. }
    apply Hfull in E1.
    destruct (mem_str name N) eqn:HmN.
    + unfold bind in E2.
      assert (Ev : eval_request O m p ntimes outputs flows cvs acc2 r = Ok v1).
      { rewrite <- Ev1. symmetry. apply eval_request_ext. intros s Hs. unfold lookup_series.
        rewrite (Hacc s); [reflexivity|]. apply (Hcl name r save); [left; reflexivity | apply mem_str_true_in; exact HmN | exact Hs]. }
      rewrite Ev in E2.
      apply (IH (acc1 ++ [(name, v1)]) (acc2 ++ [(name, v1)]) r1 r2 Hcl'); [|exact E1|exact E2].
      intros k Hk. rewrite !assoc_snoc, (Hacc k Hk). reflexivity.
    + apply (IH (acc1 ++ [(name, v1)]) acc2 r1 r2 Hcl'); [|exact E1|exact E2].
      intros k Hk. rewrite assoc_snoc, (Hacc k Hk).
      destruct (assoc k acc2); [reflexivity|].
      destruct (String.eqb_spec k name) as [->|Hne]; [|reflexivity].
      apply mem_str_false_notin in HmN. contradiction.
Qed.

End Derived.

(* ------------------------------------------------------------ closure of the needed set *)
Lemma needed_rev_incl rev_reqs : forall N k, In k N -> In k (needed_rev rev_reqs N).
Proof.
  induction rev_reqs as [|[name [r save]] l IH]; intros N k Hk; cbn; [exact Hk|].
  destruct (mem_str name N); apply IH; [apply in_or_app; left|]; exact Hk.
Qed.

Lemma needed_rev_origin rev_reqs : forall N k,
  In k (needed_rev rev_reqs N) -> In k N \/ exists name r save, In (name, (r, save)) rev_reqs /\ In k (request_sources r).
Proof.
  induction rev_reqs as [|[name [r save]] l IH]; intros N k Hk; cbn in Hk; [left; exact Hk|].
  destruct (mem_str name N).
  - destruct (IH _ _ Hk) as [H|[n' [r' [s' [Hin Hs]]]]].
    + apply in_app_or in H. destruct H as [H|H]; [left; exact H|].
      right. exists name, r, save. split; [left; reflexivity|exact H].
    + right. exists n', r', s'. split; [right; exact Hin|exact Hs].
  - destruct (IH _ _ Hk) as [H|[n' [r' [s' [Hin Hs]]]]]; [left; exact H|].
    right. exists n', r', s'. split; [right; exact Hin|exact Hs].
Qed.

(* on a well-ordered request list, targets plus their ancestors is source-closed *)
Theorem needed_for_closed reqs T : well_ordered reqs -> source_closed reqs (needed_for reqs T).
Proof.
  unfold needed_for. intro Hwo. revert T. induction Hwo as [|pre name r save Hwo IH Hfresh Hsrc]; intro T.
  - intros n r s [].
  - rewrite rev_unit. cbn [needed_rev].
    assert (Hpre_src : forall n2 r2 s2 k, In (n2, (r2, s2)) pre -> In k (request_sources r2) -> In k (req_names pre)).
    { clear -Hwo. intros n2 r2 s2 k Hin2 Hs2.
      induction Hwo as [|pre0 n0 r0 s0 Hwo0 IH0 Hf0 Hs0]; [destruct Hin2|].
      unfold req_names in *. rewrite map_app. apply in_or_app.
      apply in_app_or in Hin2. destruct Hin2 as [Hin2|[E|[]]].
      - left. apply IH0. exact Hin2.
      - injection E as <- <- <-. left. apply Hs0. exact Hs2. }
    destruct (mem_str name T) eqn:Em.
    + intros n' r' s' Hin Hn' s Hs. apply in_app_or in Hin. destruct Hin as [Hin|[E|[]]].
      * apply (IH (T ++ request_sources r) n' r' s' Hin Hn' s Hs).
      * injection E as <- <- <-. apply needed_rev_incl. apply in_or_app. right; exact Hs.
    + intros n' r' s' Hin Hn' s Hs. apply in_app_or in Hin. destruct Hin as [Hin|[E|[]]].
      * apply (IH T n' r' s' Hin Hn' s Hs).
      * injection E as <- <- <-. exfalso.
        destruct (needed_rev_origin _ _ _ Hn') as [H|[n2 [r2 [s2 [Hin2 Hs2]]]]].
        -- apply mem_str_false_notin in Em. contradiction.
        -- apply Hfresh. apply in_rev in Hin2. apply (Hpre_src n2 r2 s2 name Hin2 Hs2).
Qed.

Section Derived2.
Variable O : NumOps.
Variable T : NumTheory O.
Notation F := (F O).
Add Field Fdo : (Fth O T).
Variables (m : model) (p : string -> F) (ntimes : nat) (outputs flows : list (list F)) (cvs : list (string * list F)).

(* the needed-list matters only through membership of the declared names *)
Lemma eval_requests_needed_ext N1 N2 reqs : forall acc,
  (forall x, In x (req_names reqs) -> mem_str x N1 = mem_str x N2) ->
  eval_requests O m p ntimes outputs flows cvs N1 reqs acc = eval_requests O m p ntimes outputs flows cvs N2 reqs acc.
Proof.
  induction reqs as [|[n0 [r0 s0]] l IH]; intros acc H; cbn [eval_requests fst snd]; [reflexivity|].
  rewrite (H n0 (or_introl eq_refl)). destruct (mem_str n0 N2).
  - unfold bind. destruct (eval_request O m p ntimes outputs flows cvs acc r0); [|reflexivity].
    apply IH. intros x Hx. apply H. right; exact Hx.
  - apply IH. intros x Hx. apply H. right; exact Hx.
Qed.

(* C14: with a whitelist, every output that is still returned has exactly the value it has when
   everything is computed - including outputs whose sources are pruned from the results *)
Theorem whitelist_preserves_values reqs wl acc_all acc_wl :
  well_ordered reqs ->
  eval_requests O m p ntimes outputs flows cvs (req_names reqs) reqs [] = Ok acc_all ->
  eval_requests O m p ntimes outputs flows cvs (needed_for reqs wl) reqs [] = Ok acc_wl ->
  forall k, In k wl -> lookup_series O k acc_wl = lookup_series O k acc_all.
Proof.
  intros Hwo Eall Ewl k Hk. unfold lookup_series.
  set (N := needed_for reqs wl).
  assert (E1 : eval_requests O m p ntimes outputs flows cvs (req_names reqs ++ N) reqs [] = Ok acc_all).
  { rewrite <- Eall. apply eval_requests_needed_ext. intros x Hx.
    assert (mem_str x (req_names reqs ++ N) = true) as ->.
    { unfold mem_str. apply existsb_exists. exists x. split; [apply in_or_app; left; exact Hx|apply String.eqb_refl]. }
    symmetry. unfold mem_str. apply existsb_exists. exists x. split; [exact Hx|apply String.eqb_refl]. }
  rewrite (eval_requests_pruned O m p ntimes outputs flows cvs N reqs [] [] acc_all acc_wl
             (needed_for_closed reqs wl Hwo) (fun _ _ => eq_refl) E1 Ewl k); [reflexivity|].
  unfold N, needed_for. apply needed_rev_incl. exact Hk.
Qed.

(* ---------------------------------------------------------------- C08: definitions *)
(* non-raw flow outputs: first raw value unchanged, then the mean of consecutive raw values *)
Lemma midpoints_nth prev l i : i < length l ->
  nth i (midpoints O prev l) (f0 O)
  = fmul O (fadd O (nth i l (f0 O)) (match i with 0 => prev | S j => nth j l (f0 O) end)) (half O).
Proof.
  revert prev i; induction l as [|v l IH]; intros prev i Hi; [cbn in Hi; lia|].
  destruct i as [|i]; cbn [midpoints nth]; [reflexivity|].
  rewrite IH by (cbn in Hi; lia). destruct i; reflexivity.
Qed.

Theorem midpoint_output_spec vals :
  nth 0 (midpoint_output O vals) (f0 O) = nth 0 vals (f0 O)
  /\ length (midpoint_output O vals) = length vals
  /\ forall i, S i < length vals ->
       nth (S i) (midpoint_output O vals) (f0 O)
       = fmul O (fadd O (nth (S i) vals (f0 O)) (nth i vals (f0 O))) (half O).
Proof.
  destruct vals as [|v l]; cbn [midpoint_output].
  - repeat split; intros; cbn in *; lia.
  - split; [reflexivity|]. split.
    + cbn [length]. f_equal. clear. revert v. induction l as [|a l IH]; intro v; cbn; [reflexivity|]. rewrite IH. reflexivity.
    + intros i Hi. cbn [nth]. rewrite midpoints_nth by (cbn in Hi; lia). destruct i; reflexivity.
Qed.

(* cumulative outputs: running sums *)
Lemma cumsum_from_nth acc l i : i < length l ->
  nth i (cumsum_from O acc l) (f0 O) = fadd O acc (fsum O (firstn (S i) l)).
Proof.
  revert acc i; induction l as [|v l IH]; intros acc i Hi; [cbn in Hi; lia|].
  destruct i as [|i]; cbn [cumsum_from nth].
  - cbn. ring.
  - rewrite IH by (cbn in Hi; lia). cbn [firstn]. rewrite !(fsum_cons O). ring.
Qed.

Theorem cumsum_spec l i : i < length l -> nth i (cumsum O l) (f0 O) = fsum O (firstn (S i) l).
Proof. intro Hi. unfold cumsum. rewrite cumsum_from_nth by exact Hi. ring. Qed.

Lemma cumsum_from_length acc l : length (cumsum_from O acc l) = length l.
Proof. revert acc; induction l as [|v l IH]; intro acc; cbn; [reflexivity|]. rewrite IH. reflexivity. Qed.

(* zero before the start index, running sum of the source from it *)
Theorem indexed_cumsum_spec start l i : start <= length l -> i < length l ->
  nth i (indexed_cumsum O start l) (f0 O)
  = if i <? start then f0 O else fsum O (firstn (S (i - start)) (skipn start l)).
Proof.
  intros Hs Hi. unfold indexed_cumsum. rewrite Nat.min_l by exact Hs.
  destruct (Nat.ltb_spec i start) as [Hlt|Hge].
  - rewrite app_nth1 by (rewrite repeat_length; exact Hlt). apply nth_repeat.
  - rewrite app_nth2 by (rewrite repeat_length; exact Hge). rewrite repeat_length.
    apply cumsum_spec. rewrite skipn_length. lia.
Qed.

(* the defining equation: in the final value map every evaluated request equals its definition
   applied to the final values of its sources (chained to any depth) *)
Lemma eval_requests_extends N reqs : forall acc r,
  eval_requests O m p ntimes outputs flows cvs N reqs acc = Ok r ->
  forall k v, assoc k acc = Some v -> assoc k r = Some v.
Proof.
  induction reqs as [|[n0 [r0 s0]] l IH]; intros acc r E k v Hk; cbn [eval_requests fst snd] in E.
  - injection E as <-. exact Hk.
  - destruct (mem_str n0 N).
    + unfold bind in E. destruct (eval_request O m p ntimes outputs flows cvs acc r0) as [v0|]; [|discriminate].
      apply (IH _ _ E). rewrite assoc_snoc, Hk. reflexivity.
    + apply (IH _ _ E). exact Hk.
Qed.

Theorem defining_equation N reqs : forall acc r,
  (forall k, In k (req_names reqs) -> assoc k acc = None) ->
  NoDup (req_names reqs) ->
  (* sources are declared earlier, or are already in the accumulator *)
  (forall pre name rq sv post, reqs = pre ++ (name, (rq, sv)) :: post ->
      forall s, In s (request_sources rq) -> ~ In s (req_names ((name, (rq, sv)) :: post))) ->
  eval_requests O m p ntimes outputs flows cvs N reqs acc = Ok r ->
  forall name rq sv, In (name, (rq, sv)) reqs -> mem_str name N = true ->
    exists v, assoc name r = Some v /\ eval_request O m p ntimes outputs flows cvs r rq = Ok v.
Proof.
  induction reqs as [|[n0 [r0 s0]] l IH]; intros acc r Hfresh Hnd Hsrc E name rq sv Hin Hm; [destruct Hin|].
  cbn [eval_requests fst snd] in E. cbn [req_names map fst] in Hnd. inversion Hnd as [|? ? Hn0 Hnd']; subst.
  assert (Hsrc' : forall pre name rq sv post, l = pre ++ (name, (rq, sv)) :: post ->
            forall s, In s (request_sources rq) -> ~ In s (req_names ((name, (rq, sv)) :: post))).
  { intros pre n1 r1 s1 post El. apply (Hsrc ((n0, (r0, s0)) :: pre) n1 r1 s1 post). rewrite El. reflexivity. }
  destruct Hin as [Ein|Hin].
  - injection Ein as -> -> ->. rewrite Hm in E. unfold bind in E.
    destruct (eval_request O m p ntimes outputs flows cvs acc rq) as [v|] eqn:Ev; [|discriminate].
    exists v. split.
    + apply (eval_requests_extends _ _ _ _ E). rewrite assoc_snoc.
      rewrite (Hfresh name (or_introl eq_refl)), String.eqb_refl. reflexivity.
    + rewrite <- Ev. apply eval_request_ext. intros s Hs. unfold lookup_series.
      (* a source is not declared at or after its user, so its entry (if any) is already final *)
      pose proof (Hsrc [] name rq sv l eq_refl s Hs) as Hnot.
      destruct (assoc s acc) as [vs|] eqn:Es.
      * rewrite (eval_requests_extends _ _ _ _ E s vs); [reflexivity|]. rewrite assoc_snoc, Es. reflexivity.
      * (* never evaluated: absent from the final map as well *)
        assert (G : forall reqs0 acc0 r0', eval_requests O m p ntimes outputs flows cvs N reqs0 acc0 = Ok r0' ->
                     assoc s acc0 = None -> ~ In s (req_names reqs0) -> assoc s r0' = None).
        { clear. induction reqs0 as [|[n1 [r1 s1]] l0 IH0]; intros acc0 r0' E0 Ha Hn; cbn [eval_requests fst snd] in E0.
          - injection E0 as <-. exact Ha.
          - destruct (mem_str n1 N).
            + unfold bind in E0. destruct (eval_request O m p ntimes outputs flows cvs acc0 r1) as [v1|]; [|discriminate].
              apply (IH0 _ _ E0); [|intro; apply Hn; right; assumption].
              rewrite assoc_snoc, Ha. destruct (String.eqb_spec s n1) as [->|]; [|reflexivity].
              elim Hn. left; reflexivity.
            + apply (IH0 _ _ E0 Ha). intro; apply Hn; right; assumption. }
        rewrite (G l (acc ++ [(name, v)]) r E); [reflexivity| |].
        -- rewrite assoc_snoc, Es. destruct (String.eqb_spec s name) as [->|]; [|reflexivity].
           elim Hnot. left; reflexivity.
        -- intro Hin'. apply Hnot. right. exact Hin'.
  - destruct (mem_str n0 N).
    + unfold bind in E. destruct (eval_request O m p ntimes outputs flows cvs acc r0) as [v0|]; [|discriminate].
      assert (H1 : forall k, In k (req_names l) -> assoc k (acc ++ [(n0, v0)]) = None).
      { intros k Hk. rewrite assoc_snoc, (Hfresh k (or_intror Hk)).
        destruct (String.eqb_spec k n0) as [->|]; [contradiction|reflexivity]. }
      exact (IH (acc ++ [(n0, v0)]) r H1 Hnd' Hsrc' E name rq sv Hin Hm).
    + assert (H1 : forall k, In k (req_names l) -> assoc k acc = None) by (intros k Hk; apply Hfresh; right; exact Hk).
      exact (IH acc r H1 Hnd' Hsrc' E name rq sv Hin Hm).
Qed.

End Derived2.

Lemma has_request_spec m n : has_request m n = true <-> In n (req_names (m_requests m)).
Proof.
  unfold has_request, req_names. rewrite existsb_exists, in_map_iff. split.
  - intros [x [Hx E]]. apply String.eqb_eq in E. exists x. auto.
  - intros [x [E Hx]]. exists x. split; [exact Hx|]. apply String.eqb_eq. exact E.
Qed.

(* the request list of every model the API builds is well ordered *)
Lemma request_output_wo m name r save m' :
  well_ordered (m_requests m) -> request_output m name r save = Ok m' -> well_ordered (m_requests m').
Proof.
  intros Hwo H. unfold request_output, not_finalized, bind in H. inv_guard H.
  assert (Hfresh : ~ In name (req_names (m_requests m))).
  { intro Hin. apply has_request_spec in Hin. apply negb_true_iff in Heqb0. congruence. }
  assert (Hall : forall srcs, forallb (has_request m) srcs = true -> forall s, In s srcs -> In s (req_names (m_requests m))).
  { intros srcs Hf s Hs. rewrite forallb_forall in Hf. apply has_request_spec. exact (Hf s Hs). }
  destruct r as [fn sf df raw|names filt|srcs|src st|fn srcs ps|cv]; inv_guard H; injection H as <-;
    cbn [m_requests add_request]; apply wo_snoc; try assumption; cbn [request_sources].
  - intros s [].
  - intros s [].
  - apply Hall. assumption.
  - intros s [<-|[]]. apply has_request_spec. assumption.
  - apply Hall. assumption.
  - intros s [].
Qed.

Lemma wo_apply_op m o m' : well_ordered (m_requests m) -> apply_op m o = Ok m' -> well_ordered (m_requests m').
Proof.
  intros W H. destruct o; cbn [apply_op] in H.
  - unfold set_initial_population, not_finalized, bind in H. inv_guard H. injection H as <-. exact W.
  - unfold init_population_with_graphobject, not_finalized, bind in H. inv_guard H. injection H as <-. exact W.
  - destruct (add_flow_frame _ _ _ H) as [fl ->]. exact W.
  - destruct (add_universal_death_new _ _ _ _ H) as [new [-> _]]. exact W.
  - destruct (stratify_with_inv _ _ _ H) as (_ & _ & _ & _ & _ & _ & _ & E). rewrite E. exact W.
  - unfold adjust_population_split, not_finalized, bind in H. inv_guard H.
    destruct (find _ (m_strats m)); [|discriminate]. inv_guard H. injection H as <-. exact W.
  - eapply request_output_wo; eassumption.
  - injection H as <-. exact W.
  - unfold add_computed_value, bind in H. inv_guard H. injection H as <-. exact W.
  - unfold finalize, bind in H. inv_guard H. injection H as <-. exact W.
  - injection H as <-. exact W.
  - unfold add_flow_dyn, bind in H.
    assert (exists fs', add_flow m fs' = Ok m') as [fs' H'].
    { destruct (fs_kind fs); try (destruct (validate_flowparam v); [|discriminate]); eexists; exact H. }
    clear H. rename H' into H. destruct (add_flow_frame _ _ _ H) as [fl ->]. exact W.
  - unfold add_universal_death_dyn, bind in H. destruct (validate_flowparam v) as [param|]; [|discriminate]. destruct (add_universal_death_new _ _ _ _ H) as [new [-> _]]. exact W.
Qed.

Theorem wo_build t0 t1 h comps inf ops m : build_ok t0 t1 h comps inf ops = Some m -> well_ordered (m_requests m).
Proof.
  unfold build_ok, build. destruct (new_model t0 t1 h comps inf) as [m0|] eqn:E0; [|discriminate].
  destruct (apply_ops m0 ops 1) as [m1 e] eqn:E1. destruct e; [discriminate|]. intro H. injection H as <-.
  assert (W0 : well_ordered (m_requests m0)).
  { unfold new_model, bind in E0. inv_guard E0. injection E0 as <-. constructor. }
  clear E0. revert m0 W0 E1. generalize 1. induction ops as [|o ops IH]; intros k m0 W0 E1; cbn in E1.
  - injection E1 as <-. exact W0.
  - destruct (apply_op m0 o) as [m2|w] eqn:E; [|discriminate].
    apply (IH (S k) m2); [eapply wo_apply_op; eassumption | exact E1].
Qed.
