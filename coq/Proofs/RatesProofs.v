(* C01 on the model: the gather/scatter right-hand side of model_impl.py computes, for every
   flow, the documented law of its kind, and the application-matrix product is "inflow minus
   outflow".  Consequences for C02 (conservation) are in ConservationProofs.v. *)
From Coq Require Import QArith Field Ring List String Bool Arith Lia.
Import ListNotations.
From S2 Require Import Base.Num Base.Arr Model.Expr Model.Struct Model.Rates Spec.RatesSpec
     Proofs.ArrLemmas Proofs.NumLemmas Proofs.ExprLemmas Proofs.WeightProofs.
Local Open Scope nat_scope.
Local Notation length := List.length.

Lemma collect_singleton_length {A B} (f : A -> result (list B)) l r :
  (forall a r', f a = Ok r' -> length r' = 1) -> collect f l = Ok r -> length r = length l.
Proof.
  intro Hf. revert r; induction l as [|a l IH]; intros r E; cbn in E.
  - injection E as <-. reflexivity.
  - unfold bind in E. destruct (f a) as [ra|] eqn:Ea; [|discriminate].
    destruct (collect f l) as [rl|] eqn:El; [|discriminate]. injection E as <-.
    rewrite app_length, (Hf a ra Ea), (IH rl eq_refl). reflexivity.
Qed.

Lemma no_infection_existsb (fl : list flow) (k : fkind) :
  forallb (fun f => negb (is_infection (f_kind f))) fl = true -> is_infection k = true ->
  existsb (fun f => fkind_eqb (f_kind f) k) fl = false.
Proof.
  intros Hall Hk. destruct (existsb _ fl) eqn:E; [|reflexivity]. apply existsb_exists in E.
  destruct E as [f [Hf Hfk]]. rewrite forallb_forall in Hall. specialize (Hall f Hf).
  destruct (f_kind f), k; cbn in *; congruence.
Qed.

Definition is_non_pop (k : fkind) : bool := match k with KRepl | KImport | KAbs => true | _ => false end.

Lemma prepare_structural_fields m b :
  prepare_structural m = Ok b ->
  b_population_idx b = map (src_index (m_comps m)) (m_flows m)
  /\ b_non_pop_idx b = kind_indices is_non_pop (m_flows m)
  /\ b_crude_idx b = kind_indices (fun k => fkind_eqb k KCrude) (m_flows m)
  /\ b_repl_idx b = kind_indices (fun k => fkind_eqb k KRepl) (m_flows m)
  /\ b_death_idx b = kind_indices (fun k => fkind_eqb k KDeath) (m_flows m)
  /\ b_infectious_flow_idx b = kind_indices is_infection (m_flows m)
  /\ length (b_infect_strain_lookup b) = length (kind_indices is_infection (m_flows m))
  /\ length (b_infect_cat_lookup b) = length (kind_indices is_infection (m_flows m))
  /\ (b_process b = None <-> forallb (fun f => negb (is_infection (f_kind f))) (m_flows m) = true)
  /\ b_pos_map b = flat_map (fun jf => match f_dst (snd jf) with
                                       | Some d => [(fst jf, comp_index (m_comps m) d)] | None => [] end) (enumerate (m_flows m))
  /\ b_neg_map b = flat_map (fun jf => match f_src (snd jf) with
                                       | Some s => [(fst jf, comp_index (m_comps m) s)] | None => [] end) (enumerate (m_flows m)).
Proof.
  unfold prepare_structural. intro H.
  repeat match type of H with
         | context [guard ?c _] => destruct c eqn:?; cbn [guard bind] in H; [|discriminate]
         end.
  unfold bind at 1 in H.
  match type of H with context [collect ?f ?l] => destruct (collect f l) as [sl|] eqn:Ecol; [|discriminate] end.
  repeat match type of H with
         | context [guard ?c _] => destruct c eqn:?; cbn [guard bind] in H; [|discriminate]
         end.
  injection H as <-. cbn.
  repeat split; try reflexivity.
  - eapply collect_singleton_length; [|exact Ecol].
    intros i r'. cbn beta. destruct (nth_error (m_flows m) i); [|intro; discriminate].
    destruct (index_of _ _); [|intro; discriminate]. intro E; injection E as <-. reflexivity.
  - apply map_length.
  - intro Hn.
    destruct (existsb (fun f => fkind_eqb (f_kind f) KInfFreq) (m_flows m)) eqn:E1; [discriminate|].
    destruct (existsb (fun f => fkind_eqb (f_kind f) KInfDens) (m_flows m)) eqn:E2; [discriminate|].
    apply forallb_forall. intros f Hf.
    assert (A1 : fkind_eqb (f_kind f) KInfFreq = false).
    { destruct (fkind_eqb (f_kind f) KInfFreq) eqn:E; [|reflexivity].
      assert (existsb (fun f => fkind_eqb (f_kind f) KInfFreq) (m_flows m) = true) by (apply existsb_exists; eauto). congruence. }
    assert (A2 : fkind_eqb (f_kind f) KInfDens = false).
    { destruct (fkind_eqb (f_kind f) KInfDens) eqn:E; [|reflexivity].
      assert (existsb (fun f => fkind_eqb (f_kind f) KInfDens) (m_flows m) = true) by (apply existsb_exists; eauto). congruence. }
    destruct (f_kind f); cbn in *; congruence.
  - intro Hall.
    rewrite (no_infection_existsb _ KInfFreq Hall eq_refl), (no_infection_existsb _ KInfDens Hall eq_refl).
    reflexivity.
Qed.

Section FlowRates.
Variable O : NumOps.
Variable T : NumTheory O.
Notation F := (F O).
Notation env := (env O).
Add Field Fr : (Fth O T).

Variables (m : model) (b : backend) (p : env) (t : F) (x0 : list F).
Hypothesis Hb : prepare_structural m = Ok b.

Let fl := m_flows m.
Let x := vclean O x0.
Let n := length fl.

Definition muls_of : list F :=
  match b_process b with
  | Some freq => infectious_multipliers O m b freq p t x
  | None => []
  end.

Let kind_at i := f_kind (nth i fl dflow).

(* stage 1: populations seen by each flow *)
Let pops0 := gather (f0 O) x (b_population_idx b).
Let pops2 := flow_populations O b x.

Lemma pops0_length : length pops0 = n.
Proof.
  destruct (prepare_structural_fields m b Hb) as [E _].
  unfold pops0. rewrite gather_length, E. apply map_length.
Qed.

Lemma pops0_nth i : i < n ->
  nth i pops0 (f0 O) = get_clamp (f0 O) x (src_index (m_comps m) (nth i fl dflow)).
Proof.
  intro Hi. destruct (prepare_structural_fields m b Hb) as [E _].
  unfold pops0. rewrite nth_gather by (rewrite E, map_length; exact Hi).
  rewrite E. f_equal.
  rewrite (nth_indep _ 0 (src_index (m_comps m) dflow)) by (rewrite map_length; exact Hi).
  apply (map_nth (src_index (m_comps m))).
Qed.

Lemma pops2_nth i : i < n ->
  nth i pops2 (f0 O) =
  if fkind_eqb (kind_at i) KCrude then fsum O x
  else if is_non_pop (kind_at i) then f1 O
  else get_clamp (f0 O) x (src_index (m_comps m) (nth i fl dflow)).
Proof.
  intro Hi. destruct (prepare_structural_fields m b Hb) as [_ [E1 [E2 _]]].
  unfold pops2, flow_populations. fold pops0. rewrite !nth_scatter_const, scatter_const_length, pops0_length.
  assert (i <? n = true) as -> by (apply Nat.ltb_lt; exact Hi). rewrite !andb_true_r.
  rewrite E1, E2. unfold kind_indices.
  rewrite !(existsb_find_indices _ fl i dflow Hi). fold (kind_at i).
  rewrite pops0_nth by exact Hi. reflexivity.
Qed.

Lemma pops2_length : length pops2 = n.
Proof. unfold pops2, flow_populations. rewrite !scatter_const_length. apply pops0_length. Qed.

(* stage 2: weight times population *)
Let rates0 := vmul O (flow_weights O p t x fl) pops2.

Lemma rates0_length : length rates0 = n.
Proof. unfold rates0, vmul. rewrite zip_with_length, flow_weights_length, pops2_length. apply Nat.min_id. Qed.

Lemma rates0_nth i : i < n ->
  nth i rates0 (f0 O) = fmul O (weight_spec O p t x (nth i fl dflow)) (nth i pops2 (f0 O)).
Proof.
  intro Hi. unfold rates0, vmul.
  rewrite (nth_zip_with (fmul O) _ _ i (f0 O) (f0 O) (f0 O))
    by (rewrite ?flow_weights_length, ?pops2_length; exact Hi).
  rewrite (flow_weights_nth O T p t x fl i Hi). reflexivity.
Qed.

(* stage 3: force of infection on the infection flows *)
Let rates1 := apply_infection O m b p t x rates0.

Lemma muls_length freq :
  length (infectious_multipliers O m b freq p t x) = length (kind_indices is_infection fl).
Proof.
  destruct (prepare_structural_fields m b Hb) as [_ [_ [_ [_ [_ [_ [L1 [L2 _]]]]]]]].
  unfold infectious_multipliers. rewrite zip_with_length, L1, L2. apply Nat.min_id.
Qed.

Lemma rates1_length : length rates1 = n.
Proof. unfold rates1, apply_infection. destruct (b_process b); [rewrite scatter_set_length|]; apply rates0_length. Qed.

Lemma rates1_nth i : i < n ->
  nth i rates1 (f0 O) =
  if is_infection (kind_at i)
  then fmul O (nth i rates0 (f0 O)) (nth (infection_rank fl i) muls_of (f0 O))
  else nth i rates0 (f0 O).
Proof.
  intro Hi.
  destruct (prepare_structural_fields m b Hb) as [_ [_ [_ [_ [_ [EI [_ [_ [[HP1 HP2] _]]]]]]]]].
  unfold rates1, apply_infection, muls_of. destruct (b_process b) as [freq|] eqn:Eproc.
  - rewrite nth_scatter_set_nodup.
    2: { rewrite EI. apply find_indices_nodup. }
    2: { unfold vmul. rewrite zip_with_length, gather_length, muls_length, EI. apply Nat.min_id. }
    2: { intros j Hj. rewrite EI in Hj. apply find_indices_lt in Hj. rewrite rates0_length. exact Hj. }
    rewrite EI. unfold kind_indices. fold fl.
    destruct (is_infection (kind_at i)) eqn:Ek.
    + rewrite (index_of_find_indices (fun f => is_infection (f_kind f)) fl dflow i Hi Ek).
      destruct (nth_find_indices_rank (fun f => is_infection (f_kind f)) fl dflow i Hi Ek) as [Hlt Hnth].
      fold (infection_rank fl i) in *.
      unfold vmul. rewrite (nth_zip_with (fmul O) _ _ _ (f0 O) (f0 O) (f0 O)).
      2: { rewrite gather_length. exact Hlt. }
      2: { rewrite muls_length. exact Hlt. }
      rewrite nth_gather by exact Hlt. rewrite Hnth.
      rewrite get_clamp_lt by (rewrite rates0_length; exact Hi). reflexivity.
    + rewrite index_of_notin; [reflexivity|]. apply (not_in_find_indices (fun f => is_infection (f_kind f)) fl dflow). exact Ek.
  - assert (Hall := HP1 eq_refl). rewrite forallb_forall in Hall.
    specialize (Hall (nth i fl dflow) (nth_In fl dflow Hi)). fold (kind_at i) in Hall.
    apply negb_true_iff in Hall. rewrite Hall. reflexivity.
Qed.

(* stage 4: replacement births scaled by the total death rate *)
Let deaths := fsum O (gather (f0 O) rates1 (b_death_idx b)).

Lemma deaths_spec : deaths = total_deaths O m p t x.
Proof.
  destruct (prepare_structural_fields m b Hb) as [_ [_ [_ [_ [ED _]]]]].
  unfold deaths, total_deaths. rewrite ED. unfold kind_indices. f_equal.
  apply (gather_find_indices (fun f => fkind_eqb (f_kind f) KDeath) (base_rate O m p t x) fl rates1 dflow (f0 O)).
  - apply rates1_length.
  - intros j Hj Hq. fold (kind_at j) in Hq.
    rewrite rates1_nth, rates0_nth, pops2_nth by exact Hj.
    destruct (kind_at j) eqn:Ek; cbn in Hq; try discriminate. cbn. reflexivity.
Qed.

Lemma apply_replacement_unfold (rates : list F) :
  apply_replacement O b rates
  = scatter_set rates (b_repl_idx b)
      (map (fun r => fmul O r (fsum O (gather (f0 O) rates (b_death_idx b))))
           (gather (f0 O) rates (b_repl_idx b))).
Proof. unfold apply_replacement. destruct (b_repl_idx b); reflexivity. Qed.

Lemma rates_final_nth i : i < n ->
  nth i (get_flow_rates O m b p t x0) (f0 O) =
  if fkind_eqb (kind_at i) KRepl then fmul O (nth i rates1 (f0 O)) deaths else nth i rates1 (f0 O).
Proof.
  intro Hi. destruct (prepare_structural_fields m b Hb) as [_ [_ [_ [ER _]]]].
  change (get_flow_rates O m b p t x0) with (apply_replacement O b rates1).
  rewrite apply_replacement_unfold. fold deaths.
  rewrite nth_scatter_set_nodup.
  2: { rewrite ER. apply find_indices_nodup. }
  2: { rewrite map_length, gather_length. reflexivity. }
  2: { intros j Hj. rewrite ER in Hj. apply find_indices_lt in Hj. rewrite rates1_length. exact Hj. }
  rewrite ER. unfold kind_indices. fold fl.
  destruct (fkind_eqb (kind_at i) KRepl) eqn:Ek.
  - rewrite (index_of_find_indices (fun f => fkind_eqb (f_kind f) KRepl) fl dflow i Hi Ek).
    destruct (nth_find_indices_rank (fun f => fkind_eqb (f_kind f) KRepl) fl dflow i Hi Ek) as [Hlt Hnth].
    set (k := length (filter (fun f => fkind_eqb (f_kind f) KRepl) (firstn i fl))) in *.
    rewrite (nth_indep _ (f0 O) (fmul O (f0 O) deaths)) by (rewrite map_length, gather_length; exact Hlt).
    rewrite (map_nth (fun r => fmul O r deaths)).
    rewrite nth_gather by exact Hlt. rewrite Hnth.
    rewrite get_clamp_lt by (rewrite rates1_length; exact Hi). reflexivity.
  - rewrite index_of_notin; [reflexivity|].
    apply (not_in_find_indices (fun f => fkind_eqb (f_kind f) KRepl) fl dflow). exact Ek.
Qed.

Lemma get_flow_rates_length : length (get_flow_rates O m b p t x0) = n.
Proof.
  change (get_flow_rates O m b p t x0) with (apply_replacement O b rates1).
  rewrite apply_replacement_unfold, scatter_set_length. apply rates1_length.
Qed.

(* C01, flow by flow: the rate of every flow is the documented law of its kind *)
Theorem flow_rate_nth i : i < n ->
  nth i (get_flow_rates O m b p t x0) (f0 O)
  = flow_rate_spec O m p t x muls_of i (nth i fl dflow).
Proof.
  intro Hi. rewrite rates_final_nth, rates1_nth, rates0_nth, pops2_nth, deaths_spec by exact Hi.
  unfold flow_rate_spec. fold fl (kind_at i).
  destruct (kind_at i); cbn [fkind_eqb is_infection is_non_pop flow_law]; try reflexivity; ring.
Qed.

Theorem flow_rates_spec :
  get_flow_rates O m b p t x0
  = map (fun jf => flow_rate_spec O m p t x muls_of (fst jf) (snd jf)) (enumerate fl).
Proof.
  apply (nth_ext _ _ (f0 O) (f0 O)).
  - rewrite get_flow_rates_length, map_length. unfold enumerate. rewrite enumerate_from_length. reflexivity.
  - intros i Hi. rewrite get_flow_rates_length in Hi. rewrite flow_rate_nth by exact Hi.
    rewrite (nth_indep _ (f0 O) ((fun jf => flow_rate_spec O m p t x muls_of (fst jf) (snd jf)) (0, dflow)))
      by (rewrite map_length; unfold enumerate; rewrite enumerate_from_length; exact Hi).
    rewrite (map_nth (fun jf => flow_rate_spec O m p t x muls_of (fst jf) (snd jf))).
    unfold enumerate. rewrite nth_enumerate_from by exact Hi. reflexivity.
Qed.

End FlowRates.

Lemma in_enumerate_from {A} (l : list A) k (jf : nat * A) :
  In jf (enumerate_from k l) -> k <= fst jf < k + length l /\ nth_error l (fst jf - k) = Some (snd jf).
Proof.
  revert k; induction l as [|a l IH]; intros k Hin; cbn in Hin; [destruct Hin|].
  destruct Hin as [<-|Hin]; cbn [fst snd length].
  - rewrite Nat.sub_diag. split; [lia|reflexivity].
  - destruct (IH (S k) Hin) as [H1 H2]. split; [lia|].
    replace (fst jf - k) with (S (fst jf - S k)) by lia. exact H2.
Qed.

Section CompRates.
Variable O : NumOps.
Variable T : NumTheory O.
Notation F := (F O).
Add Field Fc : (Fth O T).

Lemma fsum_flat_map {A B} (h : B -> F) (g : A -> list B) (l : list A) :
  fsum O (map h (flat_map g l)) = fsum O (map (fun a => fsum O (map h (g a))) l).
Proof.
  induction l as [|a l IH]; cbn [flat_map map]; [reflexivity|].
  rewrite map_app, (fsum_app O T), fsum_cons, IH. reflexivity.
Qed.

(* "inflow minus outflow": the application-matrix product of build_get_compartment_rates *)
Theorem comp_rates_spec (m : model) (b : backend) (rates : list F) :
  prepare_structural m = Ok b -> length rates = length (m_flows m) ->
  get_comp_rates_of O (length (m_comps m)) b rates
  = map (comp_rate_spec O m rates) (seq 0 (length (m_comps m))).
Proof.
  intros Hb Hlen.
  destruct (prepare_structural_fields m b Hb) as [_ [_ [_ [_ [_ [_ [_ [_ [_ [EP EN]]]]]]]]]].
  unfold get_comp_rates_of, comp_rate_spec. apply map_ext. intro s. rewrite EP, EN.
  rewrite !fsum_flat_map. f_equal.
  - apply (fsum_map_ext O). intros jf Hin. unfold enumerate in Hin.
    apply in_enumerate_from in Hin. destruct Hin as [Hr _].
    destruct (f_dst (snd jf)); cbn [map fst snd]; rewrite ?fsum_cons, ?fsum_nil.
    + rewrite get_clamp_lt by lia. ring.
    + reflexivity.
  - apply (fsum_map_ext O). intros jf Hin. unfold enumerate in Hin.
    apply in_enumerate_from in Hin. destruct Hin as [Hr _].
    destruct (f_src (snd jf)); cbn [map fst snd]; rewrite ?fsum_cons, ?fsum_nil.
    + rewrite get_clamp_lt by lia. ring.
    + reflexivity.
Qed.

End CompRates.
