(* C03, infection clause, on built models: for a stratification that is not a strain stratification, has no mixing
   matrix and no infectiousness adjustments, the ingredients of the force of infection of the stratified model
   (category populations N_j, infectiousness-weighted infectious populations P_j(s), and with them C05's foi_spec for
   any matrix) at a state x' are those of the unstratified model at the aggregated state. *)
From Coq Require Import QArith Field Ring List String Bool Arith Lia Permutation.
Import ListNotations.
From S2 Require Import Base.Num Base.Arr Model.Expr Model.Struct Model.Rates Model.Program
     Proofs.ArrLemmas Proofs.NumLemmas Proofs.BuildProofs Proofs.RatesProofs Proofs.ConservationProofs Proofs.FoiProofs
     Proofs.InfectiousnessProofs Proofs.AggregateProofs Proofs.Assembly Proofs.AggregateTotals Proofs.FoiAggregate
     Proofs.FoiBridge Proofs.FlowOrder Proofs.AggregateTraj.
Local Open Scope nat_scope.
Local Notation length := List.length.

(* ---------------------------------------------------------------- copies keep the strata of other stratifications *)
Lemma strata_get_set_other l k v k' : k' <> k -> strata_get (strata_set l k v) k' = strata_get l k'.
Proof.
  intro Hne. induction l as [|[k0 v0] l IH]; cbn [strata_set strata_get].
  - destruct (String.eqb_spec k' k); [contradiction|reflexivity].
  - destruct (String.eqb_spec k k0) as [->|Hk]; cbn [strata_get].
    + destruct (String.eqb_spec k' k0); [contradiction|reflexivity].
    + rewrite IH. reflexivity.
Qed.

Lemma in_group s c c' : In c' (group s c) -> c' = c \/ exists st, c' = stratify_comp c (s_name s) st.
Proof.
  unfold group. destruct (has_name_in_list c (s_comps s)); intro H.
  - apply in_map_iff in H. destruct H as [st [<- _]]. right. exists st. reflexivity.
  - destruct H as [<-|[]]. left. reflexivity.
Qed.

Lemma group_name s c c' : In c' (group s c) -> c_name c' = c_name c.
Proof. intro H. destruct (in_group s c c' H) as [->|[st ->]]; reflexivity. Qed.

Lemma group_strata_get s c c' k : In c' (group s c) -> k <> s_name s -> strata_get (c_strata c') k = strata_get (c_strata c) k.
Proof.
  intros H Hk. destruct (in_group s c c' H) as [->|[st ->]]; [reflexivity|]. cbn [stratify_comp c_strata].
  apply strata_get_set_other. exact Hk.
Qed.

Lemma group_has_stratum s c c' k v : In c' (group s c) -> k <> s_name s -> has_stratum c' k v = has_stratum c k v.
Proof. intros H Hk. unfold has_stratum. rewrite (group_strata_get s c c' k H Hk). reflexivity. Qed.

Lemma group_query_match s c c' filt : In c' (group s c) -> (forall kv, In kv filt -> fst kv <> s_name s) ->
  query_match c' filt = query_match c filt.
Proof.
  intros H Hf. unfold query_match. induction filt as [|kv filt IH]; [reflexivity|]. cbn [forallb].
  rewrite (group_strata_get s c c' (fst kv) H (Hf kv (or_introl eq_refl))). f_equal.
  apply IH. intros kv' Hkv'. apply Hf. right; exact Hkv'.
Qed.

Lemma group_forallb_has_stratum s c c' cat : In c' (group s c) -> (forall kv, In kv cat -> fst kv <> s_name s) ->
  forallb (fun kv => has_stratum c' (fst kv) (snd kv)) cat = forallb (fun kv => has_stratum c (fst kv) (snd kv)) cat.
Proof.
  intros H Hk. induction cat as [|kv cat IH]; [reflexivity|]. cbn [forallb].
  rewrite (group_has_stratum s c c' (fst kv) (snd kv) H (Hk kv (or_introl eq_refl))). f_equal.
  apply IH. intros kv' Hkv'. apply Hk. right; exact Hkv'.
Qed.

Lemma fold_left_ext_in {A B} (f g : A -> B -> A) (l : list B) : (forall a b, In b l -> f a b = g a b) ->
  forall a, fold_left f l a = fold_left g l a.
Proof.
  induction l as [|b l IH]; intros Hfg a; [reflexivity|]. cbn [fold_left].
  rewrite (Hfg a b (or_introl eq_refl)). apply IH. intros a' b' Hb'. apply Hfg. right; exact Hb'.
Qed.

(* ---------------------------------------------------------------- what a stratification without mixing matrix keeps *)
Lemma stratify_with_foi_fields m s0 m' :
  stratify_with m s0 = Ok m' ->
  s_mix (normalise_strat s0) = None -> is_strain (s_kind (normalise_strat s0)) = false ->
  m_mixcats m' = m_mixcats m /\ m_strains m' = m_strains m.
Proof.
  unfold stratify_with, not_finalized. intros H Hmix Hstr. cbn zeta in H.
  unfold bind at 1 in H. destruct (validate_strat_object s0); [|discriminate].
  inv_guard H. rewrite Hmix, Hstr in H. cbn [bind] in H. inv_guard H.
  unfold bind at 1 in H.
  match type of H with context [collect ?f ?l] => destruct (collect f l) as [fl0|] eqn:Ecol; [|discriminate] end.
  destruct (is_age (s_kind (normalise_strat s0))) eqn:Eage; cbn [bind] in H; inv_guard H.
  - match type of H with context [fold_left ?f ?l ?a] => destruct (fold_left f l a) as [m2|] eqn:Efold; [|discriminate] end.
    apply add_flows_frame in Efold. destruct Efold as [fl ->]. injection H as <-. split; reflexivity.
  - injection H as <-. split; reflexivity.
Qed.

(* ---------------------------------------------------------------- the mixing categories only mention applied stratifications *)
Lemma stratify_with_mixcats m s0 m' :
  stratify_with m s0 = Ok m' ->
  let s := normalise_strat s0 in
  m_mixcats m' = match s_mix s with
                 | Some _ => flat_map (fun mc => map (fun st => mc ++ [(s_name s, st)]) (s_strata s)) (m_mixcats m)
                 | None => m_mixcats m end.
Proof.
  unfold stratify_with, not_finalized. intro H. cbn zeta in H.
  unfold bind at 1 in H. destruct (validate_strat_object s0); [|discriminate].
  inv_guard H.
  repeat match type of H with
         | context [match s_mix ?s with _ => _ end] => destruct (s_mix s) eqn:?; cbn [bind] in H; inv_guard H
         | context [if is_strain ?k then _ else _] => destruct (is_strain k) eqn:?; cbn [bind] in H; inv_guard H
         end;
  (unfold bind at 1 in H;
   match type of H with context [collect ?f ?l] => destruct (collect f l) as [fl0|] eqn:Ecol; [|discriminate] end;
   destruct (is_age (s_kind (normalise_strat s0))) eqn:Eage; cbn [bind] in H; inv_guard H;
   [ match type of H with context [fold_left ?f ?l ?a] => destruct (fold_left f l a) as [m2|] eqn:Efold; [|discriminate] end;
     apply add_flows_frame in Efold; destruct Efold as [fl ->]; injection H as <-
   | injection H as <- ];
   reflexivity).
Qed.

Definition mixcats_known (m : model) : Prop :=
  forall cat kv, In cat (m_mixcats m) -> In kv cat -> In (fst kv) (strat_names m).

Lemma mixcats_known_apply_op m o m' : mixcats_known m -> Model.Program.apply_op m o = Ok m' -> mixcats_known m'.
Proof.
  unfold mixcats_known. intros W H. destruct o; cbn [Model.Program.apply_op] in H.
  - unfold set_initial_population, not_finalized, bind in H. inv_guard H. injection H as <-. exact W.
  - unfold init_population_with_graphobject, not_finalized, bind in H. inv_guard H. injection H as <-. exact W.
  - destruct (add_flow_frame _ _ _ H) as [fl ->]. exact W.
  - destruct (add_universal_death_new _ _ _ _ H) as [new [-> _]]. exact W.
  - destruct (stratify_with_inv _ _ _ H) as (_ & Es & _). cbn zeta in Es.
    pose proof (stratify_with_mixcats _ _ _ H) as Em. cbn zeta in Em.
    intros cat kv Hcat Hkv. unfold strat_names. rewrite Es, map_app. apply in_or_app.
    rewrite Em in Hcat. destruct (s_mix (normalise_strat s)).
    + apply in_flat_map in Hcat. destruct Hcat as [mc [Hmc Hcat]]. apply in_map_iff in Hcat. destruct Hcat as [st [<- _]].
      apply in_app_or in Hkv. destruct Hkv as [Hkv|[<-|[]]]; [left; exact (W mc kv Hmc Hkv) | right; left; reflexivity].
    + left. exact (W cat kv Hcat Hkv).
  - unfold adjust_population_split, not_finalized, bind in H. inv_guard H.
    destruct (find _ (m_strats m)); [|discriminate]. inv_guard H. injection H as <-. exact W.
  - unfold request_output, not_finalized, bind in H. inv_guard H.
    destruct r; inv_guard H; injection H as <-; exact W.
  - injection H as <-. exact W.
  - unfold add_computed_value, bind in H. inv_guard H. injection H as <-. exact W.
  - unfold finalize, bind in H. inv_guard H. injection H as <-. exact W.
  - injection H as <-. exact W.
  - unfold Model.Program.add_flow_dyn, bind in H.
    assert (exists fs', add_flow m fs' = Ok m') as [fs' H'].
    { destruct (Model.Program.fs_kind fs); try (destruct (Model.Program.validate_flowparam v); [|discriminate]); eexists; exact H. }
    clear H. rename H' into H. destruct (add_flow_frame _ _ _ H) as [fl ->]. exact W.
  - unfold Model.Program.add_universal_death_dyn, bind in H. destruct (Model.Program.validate_flowparam v) as [param|]; [|discriminate].
    destruct (add_universal_death_new _ _ _ _ H) as [new [-> _]]. exact W.
Qed.

Theorem mixcats_known_build t0 t1 h comps inf ops m : Model.Program.build_ok t0 t1 h comps inf ops = Some m -> mixcats_known m.
Proof.
  unfold Model.Program.build_ok, Model.Program.build. destruct (new_model t0 t1 h comps inf) as [m0|] eqn:E0; [|discriminate].
  assert (W0 : mixcats_known m0).
  { unfold new_model, bind in E0. repeat (inv_guard E0). injection E0 as <-. intros cat kv [<-|[]] []. }
  destruct (Model.Program.apply_ops m0 ops 1) as [m1 e] eqn:E1. destruct e; [discriminate|]. intro H. injection H as <-.
  clear E0. revert m0 W0 E1. generalize 1. induction ops as [|o ops IH]; intros k m0 W0 E1; cbn in E1.
  - injection E1 as <-. exact W0.
  - destruct (Model.Program.apply_op m0 o) as [m2|w] eqn:E; [|discriminate].
    apply (IH (S k) m2); [eapply mixcats_known_apply_op; eassumption | exact E1].
Qed.

(* length of the infectiousness vector (of a model with at least one compartment) *)
Lemma compartment_infectiousness_length_pos (O : NumOps) (p : env O) (m : model) i :
  i < length (m_comps m) -> length (compartment_infectiousness O m p) = length (m_comps m).
Proof.
  intro Hi. unfold compartment_infectiousness, ones.
  assert (G : forall strats inf, length inf = length (m_comps m) ->
     length (fold_left (fun inf s => fold_left (apply_iadj O m p (s_name s)) (s_iadj s) inf) strats inf) = length (m_comps m)).
  { induction strats as [|s strats IHs]; intros inf HL; cbn [fold_left]; [exact HL|]. apply IHs.
    generalize dependent inf. induction (s_iadj s) as [|ce ces IHc]; intros inf HL; cbn [fold_left]; [exact HL|].
    apply IHc. destruct (apply_iadj_spec O p m (s_name s) ce inf i HL Hi) as [L _]. congruence. }
  apply G. apply repeat_length.
Qed.

Section FoiModel.
Variable O : NumOps.
Variable T : NumTheory O.
Notation F := (F O).
Add Field Ffm : (Fth O T).

(* ---------------------------------------------------------------- sums do not depend on the order of the index lists *)
Lemma P_spec_perm (x infness : list F) inf1 inf2 cat1 cat2 :
  Permutation cat1 cat2 -> (forall c, In c inf1 <-> In c inf2) ->
  P_spec O x infness inf1 cat1 = P_spec O x infness inf2 cat2.
Proof.
  intros Hp Hi. unfold P_spec.
  assert (E : forall l, filter (fun c => existsb (Nat.eqb c) inf1) l = filter (fun c => existsb (Nat.eqb c) inf2) l).
  { intro l. apply filter_ext. intro c. destruct (existsb (Nat.eqb c) inf1) eqn:E1, (existsb (Nat.eqb c) inf2) eqn:E2; try reflexivity.
    - apply existsb_eqb_in in E1. apply Hi in E1. apply existsb_eqb_in in E1. congruence.
    - apply existsb_eqb_in in E2. apply Hi in E2. apply existsb_eqb_in in E2. congruence. }
  rewrite E. apply (fsum_perm O T). apply Permutation_map. apply filter_perm. exact Hp.
Qed.

Lemma N_spec_perm (x : list F) cat1 cat2 : Permutation cat1 cat2 -> N_spec O x cat1 = N_spec O x cat2.
Proof. intro Hp. unfold N_spec, gather. apply (fsum_perm O T). apply Permutation_map. exact Hp. Qed.

Variables (t0 t1 h : Q) (comps inf : list string) (ops : list Model.Program.op) (m : model) (s0 : strat) (m' : model).
Hypothesis Hb : Model.Program.build_ok t0 t1 h comps inf ops = Some m.
Hypothesis Hcs_nd : NoDup (m_comps m).
Hypothesis H : stratify_with m s0 = Ok m'.
Let s := normalise_strat s0.
Hypothesis Hst : NoDup (s_strata s).
Hypothesis Hns : is_strain (s_kind s) = false.
Hypothesis Hmix : s_mix s = None.
Hypothesis Hia : s_iadj s = [].

Let cs := m_comps m.
Let groups := pos_groups cs (group s).

Let W : wf m := wf_build _ _ _ _ _ _ _ Hb.

Lemma fm_inv : m_comps m' = flat_map (group s) cs /\ m_strats m' = m_strats m ++ [s]
               /\ ~ In (s_name s) (strat_names m) /\ m_infectious m' = m_infectious m.
Proof.
  destruct (stratify_with_inv _ _ _ H) as (Ec & Es & Hfresh & _ & Einf & _). cbn zeta in Ec, Es, Hfresh.
  repeat split; try assumption. apply mem_str_false_notin. exact Hfresh.
Qed.

Lemma fm_fresh c : In c cs -> ~ In (s_name s) (keys_of c).
Proof. intros Hc Hk. destruct fm_inv as (_ & _ & Hf & _). apply Hf. apply (wf_known_keys m W c); assumption. Qed.

Lemma fm_nodup' : NoDup (flat_map (group s) cs).
Proof. destruct fm_inv as (Ec & _). rewrite <- Ec. exact (stratify_with_nodup m s0 m' W Hcs_nd Hst H). Qed.

Lemma fm_disjoint a a' b : In a cs -> In a' cs -> In b (group s a) -> In b (group s a') -> a = a'.
Proof. apply group_disjoint. exact fm_fresh. Qed.

Lemma fm_group_nodup c : In c cs -> NoDup (group s c).
Proof. intro Hc. apply group_nodup; [exact Hst | apply fm_fresh; exact Hc]. Qed.

Lemma fm_lift (P P' : comp -> bool) :
  (forall c c', In c cs -> In c' (group s c) -> P' c' = P c) ->
  Permutation (find_indices P' (m_comps m')) (lift groups (find_indices P cs)).
Proof.
  intro Hinh. destruct fm_inv as (Ec & _). rewrite Ec.
  exact (find_indices_lift cs (group s) Hcs_nd fm_nodup' fm_disjoint P P' Hinh fm_group_nodup).
Qed.

(* the members of a mixing category *)
Lemma cat_members_lift cat : In cat (m_mixcats m) -> Permutation (cat_members m' cat) (lift groups (cat_members m cat)).
Proof.
  intro Hcat. unfold cat_members. apply fm_lift. intros c c' Hc Hc'.
  assert (Hk : forall kv, In kv cat -> fst kv <> s_name s).
  { intros kv Hkv E. destruct fm_inv as (_ & _ & Hf & _). apply Hf. rewrite <- E.
    exact (mixcats_known_build _ _ _ _ _ _ _ Hb cat kv Hcat Hkv). }
  exact (group_forallb_has_stratum s c c' cat Hc' Hk).
Qed.

(* the strain's infectious compartments *)
Lemma strain_name_kept : strain_strat_name m' = strain_strat_name m.
Proof.
  destruct fm_inv as (_ & Es & _). unfold strain_strat_name. rewrite Es, filter_app. cbn [filter]. fold s. rewrite Hns, app_nil_r.
  reflexivity.
Qed.

Lemma strain_infectious_lift strain :
  Permutation (strain_infectious_comps m' strain) (lift groups (strain_infectious_comps m strain)).
Proof.
  unfold strain_infectious_comps. rewrite strain_name_kept. apply fm_lift. intros c c' Hc Hc'.
  destruct fm_inv as (_ & _ & Hf & Einf).
  unfold is_infectious_comp, has_name_in_list. rewrite Einf, (group_name s c c' Hc'). f_equal.
  apply (group_query_match s c c' _ Hc'). intros kv Hkv E.
  unfold strain_strat_name in Hkv. destruct (filter (fun s1 => is_strain (s_kind s1)) (m_strats m)) as [|s1 rest] eqn:Ef; [destruct Hkv|].
  destruct Hkv as [<-|[]]. cbn [fst] in E. apply Hf. rewrite <- E. unfold strat_names. apply in_map.
  assert (Hin : In s1 (filter (fun s1 => is_strain (s_kind s1)) (m_strats m))) by (rewrite Ef; left; reflexivity).
  apply filter_In in Hin. apply Hin.
Qed.

(* copies share their compartment's infectiousness *)
Lemma inf_spec_copy (p : env O) c c' : In c cs -> In c' (group s c) -> inf_spec O p m' c' = inf_spec O p m c.
Proof.
  intros Hc Hc'. destruct fm_inv as (_ & Es & Hf & _). unfold inf_spec. rewrite Es, fold_left_app. cbn [fold_left]. fold s. rewrite Hia.
  cbn [fold_left]. apply fold_left_ext_in. intros v s1 Hs1.
  apply fold_left_ext_in. intros v1 ce _. apply fold_left_ext_in. intros v2 sa _.
  unfold inf_step. destruct (snd sa); [|reflexivity]. rewrite (group_name s c c' Hc').
  rewrite (group_query_match s c c' [(s_name s1, fst sa)] Hc'); [reflexivity|].
  intros kv [<-|[]] E. cbn [fst] in E. apply Hf. rewrite <- E. unfold strat_names. apply in_map. exact Hs1.
Qed.

Lemma infectiousness_copy (p : env O) c q : c < length groups -> In q (G groups c) ->
  get_clamp (f0 O) (compartment_infectiousness O m' p) q = get_clamp (f0 O) (compartment_infectiousness O m p) c.
Proof.
  intros Hc Hq. unfold groups in Hc. rewrite pos_groups_length in Hc.
  unfold groups in Hq. rewrite (G_pos cs (group s) c dcomp Hc) in Hq. unfold positions in Hq.
  apply in_map_iff in Hq. destruct Hq as [c' [<- Hc']].
  assert (Hin : In (nth c cs dcomp) cs) by (apply nth_In; exact Hc).
  destruct (comp_index_in cs (group s) fm_nodup' c' (in_cs' cs (group s) _ c' Hin Hc')) as [Hl En].
  destruct fm_inv as (Ec & _).
  assert (Hl' : comp_index (flat_map (group s) cs) c' < length (m_comps m')) by (rewrite Ec; exact Hl).
  rewrite (get_clamp_lt (f0 O) (compartment_infectiousness O m' p) _)
    by (rewrite (compartment_infectiousness_length_pos O p m' _ Hl'); exact Hl').
  rewrite (get_clamp_lt (f0 O) (compartment_infectiousness O m p) c)
    by (rewrite (compartment_infectiousness_length_pos O p m c Hc); exact Hc).
  rewrite (compartment_infectiousness_spec O p m c Hc).
  rewrite (compartment_infectiousness_spec O p m' _ Hl').
  rewrite Ec, En. apply inf_spec_copy; assumption.
Qed.

(* the ingredients and the force of infection itself *)
Theorem category_population_aggregates (x' : list F) cat : In cat (m_mixcats m) ->
  N_spec O x' (cat_members m' cat) = N_spec O (agg O groups x') (cat_members m cat).
Proof.
  intro Hcat. rewrite (N_spec_perm x' _ _ (cat_members_lift cat Hcat)).
  apply (N_spec_aggregates O T). intros c Hc. unfold groups. rewrite pos_groups_length. apply (find_indices_lt _ _ _ Hc).
Qed.

Theorem infectious_population_aggregates (p : env O) (x' : list F) strain cat : In cat (m_mixcats m) ->
  P_spec O x' (compartment_infectiousness O m' p) (strain_infectious_comps m' strain) (cat_members m' cat)
  = P_spec O (agg O groups x') (compartment_infectiousness O m p) (strain_infectious_comps m strain) (cat_members m cat).
Proof.
  intro Hcat.
  rewrite (P_spec_perm x' _ _ (lift groups (strain_infectious_comps m strain)) _ _ (cat_members_lift cat Hcat))
    by (intro c; split; apply Permutation_in; [|apply Permutation_sym]; apply strain_infectious_lift).
  apply (P_spec_aggregates O T groups (pos_disjoint_all cs (group s) Hcs_nd fm_nodup' fm_disjoint) x' _ _ (infectiousness_copy p)).
  intros c Hc. unfold groups. rewrite pos_groups_length. apply (find_indices_lt _ _ _ Hc).
Qed.

Theorem force_of_infection_aggregates (p : env O) (x' : list F) (freq : bool) (mix : list (list F)) strain i :
  foi_spec O freq mix x' (compartment_infectiousness O m' p) (map (cat_members m') (m_mixcats m'))
           (strain_infectious_comps m' strain) i
  = foi_spec O freq mix (agg O groups x') (compartment_infectiousness O m p) (map (cat_members m) (m_mixcats m))
             (strain_infectious_comps m strain) i.
Proof.
  destruct (stratify_with_foi_fields m s0 m' H Hmix Hns) as [Emc _]. unfold foi_spec. f_equal. rewrite Emc, !map_map.
  apply map_ext_in. intros cat Hcat.
  rewrite (infectious_population_aggregates p x' strain cat Hcat), (category_population_aggregates x' cat Hcat). reflexivity.
Qed.

Lemma groups_are_copy_positions : groups = copy_positions m s0 m'.
Proof. destruct fm_inv as (Ec & _). unfold groups, copy_positions, pos_groups, positions. rewrite Ec. reflexivity. Qed.

(* with the groups written as in C03_euler_rows_aggregate *)
Theorem force_of_infection_aggregates_built (p : env O) (x' : list F) (freq : bool) (mix : list (list F)) strain i :
  foi_spec O freq mix x' (compartment_infectiousness O m' p) (map (cat_members m') (m_mixcats m'))
           (strain_infectious_comps m' strain) i
  = foi_spec O freq mix (agg O (copy_positions m s0 m') x') (compartment_infectiousness O m p)
             (map (cat_members m) (m_mixcats m)) (strain_infectious_comps m strain) i.
Proof. rewrite <- groups_are_copy_positions. apply force_of_infection_aggregates. Qed.

(* the mixing matrix and the strains are those of the unstratified model *)
Lemma mixing_matrix_kept (p : env O) (t : F) (x : list F) : mixing_matrix O m' p t x = mixing_matrix O m p t x.
Proof.
  destruct fm_inv as (_ & Es & _). unfold mixing_matrix. rewrite Es, flat_map_app. cbn [flat_map]. fold s. rewrite Hmix.
  cbn [opt_to_list]. rewrite !app_nil_r. reflexivity.
Qed.

Lemma strains_kept : m_strains m' = m_strains m /\ m_mixcats m' = m_mixcats m.
Proof. destruct (stratify_with_foi_fields m s0 m' H Hmix Hns) as [A B]. split; assumption. Qed.

End FoiModel.
