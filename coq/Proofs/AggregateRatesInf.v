(* C03, the per-flow identity for infection flows, at a fixed force-of-infection multiplier: weight x source population
   of the copies of an infection flow under an unadjusted non-strain stratification add up to weight x source population
   of the flow at the aggregated state (the copy structure of infection flows is that of transitions). *)
From Coq Require Import QArith Field Ring List String Bool Arith Lia.
Import ListNotations.
From S2 Require Import Base.Num Base.Arr Model.Expr Model.Struct Model.Rates Spec.RatesSpec
     Proofs.ArrLemmas Proofs.NumLemmas Proofs.BuildProofs Proofs.ConservationProofs Proofs.CopiesProofs Proofs.AggregateProofs
     Proofs.InvarianceProofs Proofs.TimeShift Proofs.Scaling Proofs.Assembly Proofs.AggregateRates.
Local Open Scope nat_scope.
Local Notation length := List.length.

Section AggRatesInf.
Variable O : NumOps.
Variable T : NumTheory O.
Notation F := (F O).
Add Field Fari : (Fth O T).
Notation "0" := (f0 O).

Variables (p : env O) (t : F) (s : strat) (cs : list comp) (x' : list F).
Let cs' := stratify_comps s cs.
Hypothesis Hne : cs <> [].

Notation pop' := (pop' O s cs x').
Notation aggx := (aggx O s cs x').
Notation frac_rate := (frac_rate O p t).

Variable f : flow.
Hypothesis Hkind : f_kind f = KInfFreq \/ f_kind f = KInfDens.
Hypothesis Hsrc : exists c, f_src f = Some c /\ In c cs.
Hypothesis Hsf : forallb state_free (flow_exprs f) = true.
Hypothesis Hnostrain : is_strain (s_kind s) = false.
Hypothesis Hnoadj : get_flow_adjustment s f = Ok None.
Hypothesis Hstrata_nonempty : length (s_strata s) <> Datatypes.O.

Lemma kind_not_entry_inf : is_entry (f_kind f) = false.
Proof. destruct Hkind as [-> | ->]; reflexivity. Qed.

Theorem inf_copies_rate_sum fl :
  stratify_flow s f = Ok fl ->
  fsum O (map (frac_rate cs' x') fl) = frac_rate cs aggx f.
Proof.
  intro H. destruct Hsrc as [c [Ec Hc]].
  pose proof (copies_exact s f fl H) as Ex.
  unfold AggregateRates.frac_rate at 2. unfold src_index at 1. rewrite Ec, (aggx_at O s cs x' Hne c Hc).
  destruct (affected s f) eqn:Ea.
  - (* one copy per stratum *)
    assert (Hstrata : copy_strata s f = s_strata s) by (unfold copy_strata; rewrite kind_not_entry_inf; reflexivity).
    rewrite Hstrata in Ex.
    assert (Hsrcs : map f_src fl = map (fun st => opt_strat (f_src f) (s_name s) st (opt_in_list (f_src f) (s_comps s))) (s_strata s)).
    { transitivity (map (fun sg : string * fkind * option comp * option comp * expr => snd (fst (fst sg))) (map flow_sig fl)).
      - rewrite map_map. reflexivity.
      - rewrite Ex, map_map. reflexivity. }
    pose proof (default_weights O s f fl p t x' H Hnoadj Ea) as Hw.
    (* the weight of every copy *)
    set (w := weight_spec O p t aggx f).
    assert (Hwx : weight_spec O p t x' f = w) by (apply (weight_state_free O p t x' aggx f Hsf)).
    destruct (opt_in_list (f_src f) (s_comps s)) eqn:Es.
    + (* the source is stratified: the copies keep the weight, their sources are the copies of the source *)
      assert (Hdf : default_factor s f = None).
      { unfold default_factor. rewrite kind_not_entry_inf, Es. cbn [negb andb].
        destruct Hkind as [-> | ->]; cbn; rewrite ?andb_false_r; reflexivity. }
      rewrite Hdf in Hw.
      rewrite (fsum_map_ext O _ (fun g => fmul O w (match f_src g with Some c1 => pop' c1 | None => get_clamp 0 x' Datatypes.O end))).
      2: { intros g Hg. unfold AggregateRates.frac_rate, src_index, AggregateRates.pop'. rewrite (Hw g Hg), Hwx. destruct (f_src g); reflexivity. }
      rewrite (fsum_map_scale O T w (fun g => match f_src g with Some c1 => pop' c1 | None => get_clamp 0 x' Datatypes.O end)).
      f_equal.
      transitivity (fsum O (map (fun o : option comp => match o with Some c1 => pop' c1 | None => get_clamp 0 x' Datatypes.O end) (map f_src fl))); [rewrite map_map; reflexivity|].
      rewrite Hsrcs, Ec, map_map. cbn [opt_strat].
      unfold group. cbn [opt_in_list] in Es. rewrite Ec in Es. cbn [opt_in_list] in Es. rewrite Es. rewrite map_map. reflexivity.
    + (* only the destination is stratified: n copies of weight w / n out of the same source *)
      assert (Ed : opt_in_list (f_dst f) (s_comps s) = true).
      { unfold affected in Ea. destruct Hkind as [K|K]; rewrite K in Ea; cbn in Ea; rewrite Es in Ea; exact Ea. }
      assert (Hdf : default_factor s f = Some (length (s_strata s))).
      { unfold default_factor. rewrite Es, Ed, Hnostrain. destruct Hkind as [-> | ->]; reflexivity. }
      rewrite Hdf in Hw.
      assert (Hgrp : group s c = [c]).
      { unfold group. rewrite Ec in Es. cbn [opt_in_list] in Es. rewrite Es. reflexivity. }
      rewrite Hgrp. cbn [map]. rewrite (fsum_cons O), (fsum_nil O).
      rewrite (fsum_map_ext O _ (fun _ => fmul O (fmul O w (of_Q O (1 # Pos.of_nat (length (s_strata s))))) (pop' c))).
      2: { intros g Hg. unfold AggregateRates.frac_rate, src_index. rewrite (Hw g Hg), Hwx.
           assert (Hg_src : f_src g = Some c).
           { assert (In (f_src g) (map f_src fl)) by (apply in_map; exact Hg). rewrite Hsrcs in H0.
             apply in_map_iff in H0. destruct H0 as [st [E _]]. rewrite Ec in E. cbn [opt_strat] in E. symmetry. exact E. }
           rewrite Hg_src. reflexivity. }
      assert (Hlen : length fl = length (s_strata s)).
      { transitivity (length (map flow_sig fl)); [rewrite map_length; reflexivity|]. rewrite Ex, map_length. reflexivity. }
      assert (Er : forall (v : F) (l : list flow), map (fun _ => v) l = repeat v (length l))
        by (intros v l; induction l as [|a l IH]; cbn; [reflexivity | rewrite IH; reflexivity]).
      rewrite Er, Hlen.
      rewrite (divided_copies_sum O T w (pop' c) (length (s_strata s)) Hstrata_nonempty). ring.
  - (* not affected: the flow is kept, its source is not stratified *)
    subst fl. cbn [map]. rewrite (fsum_cons O), (fsum_nil O).
    assert (Es : has_name_in_list c (s_comps s) = false).
    { unfold affected in Ea. rewrite kind_not_entry_inf in Ea. rewrite Ec in Ea. cbn [opt_in_list] in Ea.
      destruct Hkind as [K|K]; rewrite K in Ea; cbn in Ea; apply orb_false_iff in Ea; tauto. }
    assert (Hgrp : group s c = [c]) by (unfold group; rewrite Es; reflexivity).
    rewrite Hgrp. cbn [map]. rewrite (fsum_cons O), (fsum_nil O).
    unfold AggregateRates.frac_rate, src_index, AggregateRates.pop'. rewrite Ec, (weight_state_free O p t x' aggx f Hsf). unfold cs'. ring.
Qed.

End AggRatesInf.
