(* The index arithmetic of get_comp_rates for models WITH infection flows is "inflow minus outflow" of the documented laws
   (all_rate: C01's laws, with C05's force of infection for the infection flows) over compartment identities. *)
From Coq Require Import QArith Field Ring List String Bool Arith Lia.
Import ListNotations.
From S2 Require Import Base.Num Base.Arr Model.Expr Model.Struct Model.Rates Model.Program Spec.RatesSpec
     Proofs.ArrLemmas Proofs.NumLemmas Proofs.BuildProofs Proofs.WeightProofs Proofs.RatesProofs Proofs.ConservationProofs
     Proofs.FoiProofs Proofs.InvarianceProofs Proofs.AggregateRates Proofs.AggregateTotals Proofs.AggregateAll
     Proofs.RatesBridge Proofs.AggregateInf.
Local Open Scope nat_scope.
Local Notation length := List.length.

Lemma collect_singleton_nth {A B} (g : A -> result (list B)) l r i d db :
  (forall a r', g a = Ok r' -> length r' = 1) -> collect g l = Ok r -> i < length l ->
  g (nth i l d) = Ok [nth i r db].
Proof.
  intro Hg. revert r i; induction l as [|a l IH]; intros r i E Hi; [cbn in Hi; lia|].
  cbn in E. unfold bind in E. destruct (g a) as [ra|] eqn:Ea; [|discriminate].
  destruct (collect g l) as [rl|] eqn:El; [|discriminate]. injection E as <-.
  pose proof (Hg a ra Ea) as L. destruct ra as [|b0 [|? ?]]; cbn in L; try lia.
  destruct i as [|i]; cbn [nth app]; [exact Ea|]. apply (IH rl i eq_refl). cbn in Hi. lia.
Qed.

Lemma index_of_from_some {A} (q : A -> bool) (l : list A) d : forall base k,
  index_of_from q l base = Some k -> base <= k /\ k - base < length l /\ q (nth (k - base) l d) = true.
Proof.
  induction l as [|a l IH]; intros base k E; cbn in E; [discriminate|].
  destruct (q a) eqn:Qa.
  - injection E as <-. rewrite Nat.sub_diag. cbn. repeat split; [lia|lia|exact Qa].
  - destruct (IH (S base) k E) as [H1 [H2 H3]]. replace (k - base) with (S (k - S base)) by lia.
    cbn [nth length]. repeat split; [lia|lia|exact H3].
Qed.

Lemma index_of_some {A} (q : A -> bool) (l : list A) d k :
  index_of q l = Some k -> k < length l /\ q (nth k l d) = true.
Proof.
  unfold index_of. intro E. destruct (index_of_from_some q l d 0 k E) as [_ [H2 H3]]. rewrite Nat.sub_0_r in *. auto.
Qed.

Definition strain_lookup_fn (m : model) (i : nat) : result (list nat) :=
  match nth_error (m_flows m) i with
  | Some f => match index_of (String.eqb (strain_of_dest m f)) (m_strains m) with
              | Some k => Ok [k]
              | None => Err "ValueError: strain is not in list"
              end
  | None => Err "internal" end.

Lemma strain_lookup_fn_singleton m a r' : strain_lookup_fn m a = Ok r' -> length r' = 1.
Proof.
  unfold strain_lookup_fn. intro E. destruct (nth_error (m_flows m) a); [|discriminate].
  destruct (index_of _ (m_strains m)); [|discriminate]. injection E as <-. reflexivity.
Qed.

(* what prepare_structural records about the infection flows *)
Lemma prepare_structural_inf_fields m b :
  prepare_structural m = Ok b ->
  collect (strain_lookup_fn m) (kind_indices is_infection (m_flows m)) = Ok (b_infect_strain_lookup b)
  /\ (existsb (fun f => fkind_eqb (f_kind f) KInfFreq) (m_flows m) && existsb (fun f => fkind_eqb (f_kind f) KInfDens) (m_flows m)) = false
  /\ b_process b = (if existsb (fun f => fkind_eqb (f_kind f) KInfFreq) (m_flows m) then Some true
                    else if existsb (fun f => fkind_eqb (f_kind f) KInfDens) (m_flows m) then Some false else None).
Proof.
  unfold prepare_structural. intro H.
  repeat match type of H with
         | context [guard ?c _] => destruct c eqn:?; cbn [guard bind] in H; [|discriminate]
         end.
  unfold bind at 1 in H.
  match type of H with context [collect ?f ?l] => destruct (collect f l) as [sl|] eqn:Ecol; [|discriminate] end.
  repeat match type of H with
         | context [guard ?c _] => destruct c eqn:?; cbn [guard bind] in H; [|discriminate]
         end.
  injection H as <-. cbn. repeat split; try reflexivity; [exact Ecol|].
  match goal with Hg : negb _ = true |- _ => apply negb_true_iff in Hg; exact Hg end.
Qed.

Section BridgeInf.
Variable O : NumOps.
Variable T : NumTheory O.
Notation F := (F O).
Add Field Fbri : (Fth O T).

Variables (M : model) (b : backend) (p : env O) (t : F) (x0 : list F).
Hypothesis Hb : prepare_structural M = Ok b.
Hypothesis W : wf M.
Hypothesis Hnd : NoDup (m_comps M).

(* the domain of C05's multiplier theorem: every category holds the same number k >= 1 of each strain's infectious
   compartments (what numpy's reshape needs), and the category of the source of every infection flow indexes a row of the
   mixing matrix *)
Definition foi_domain : Prop :=
  m_mixcats M <> []
  /\ (forall strain, In strain (m_strains M) -> exists k, 0 < k /\ forall cat, In cat (m_mixcats M) ->
        length (filter (fun c => existsb (Nat.eqb c) (strain_infectious_comps M strain)) (cat_members M cat)) = k)
  /\ (forall f, In f (m_flows M) -> is_infection (f_kind f) = true ->
        match f_src f with Some c => category_of M c | None => 0 end < length (mixing_matrix O M p t (vclean O x0))).
Hypothesis Hdom : foi_domain.

Let fl := m_flows M.

(* C05 applied to the j-th flow: the multiplier the runner uses for it is the force of infection of the law *)
Lemma inf_multiplier j : j < length fl -> is_infection (f_kind (nth j fl dflow)) = true ->
  nth (infection_rank fl j) (muls_of O M b p t x0) (f0 O) = mult_of O M p t (vclean O x0) (nth j fl dflow).
Proof.
  intros Hj Hq. set (f := nth j fl dflow) in *. destruct Hdom as (Hne & Hk & Hck).
  destruct (prepare_structural_inf_fields M b Hb) as (Ecol & Hexcl & Eproc).
  destruct (prepare_structural_foi_fields M b Hb) as (_ & _ & _ & Ecat).
  destruct (nth_find_indices_rank (fun g => is_infection (f_kind g)) fl dflow j Hj Hq) as [Hr Er].
  fold (kind_indices is_infection fl) in Hr, Er. fold (infection_rank fl j) in Hr, Er. set (r := infection_rank fl j) in *.
  (* strain lookup *)
  pose proof (collect_singleton_nth _ _ _ r 0 0 (strain_lookup_fn_singleton M) Ecol Hr) as Esk.
  fold fl in Esk. rewrite Er in Esk. unfold strain_lookup_fn in Esk. fold fl in Esk. rewrite (nth_error_nth' fl dflow Hj) in Esk. fold f in Esk.
  destruct (index_of (String.eqb (strain_of_dest M f)) (m_strains M)) as [sk|] eqn:Eidx; [|discriminate].
  injection Esk as Esk.
  destruct (index_of_some _ _ EmptyString sk Eidx) as [Hsk Hsn]. apply String.eqb_eq in Hsn.
  assert (Hlen_sl : length (b_infect_strain_lookup b) = length (kind_indices is_infection fl)).
  { apply (collect_singleton_length _ _ _ (strain_lookup_fn_singleton M) Ecol). }
  assert (Nsk : nth_error (b_infect_strain_lookup b) r = Some sk).
  { rewrite Esk. apply nth_error_nth'. rewrite Hlen_sl. exact Hr. }
  (* category lookup *)
  assert (Nck : nth_error (b_infect_cat_lookup b) r = Some (match f_src f with Some c => category_of M c | None => 0 end)).
  { rewrite Ecat. fold fl.
    rewrite (nth_error_nth' _ ((fun i => match nth_error fl i with
                                          | Some f0 => match f_src f0 with Some s => category_of M s | None => 0 end
                                          | None => 0 end) 0)) by (rewrite map_length; exact Hr).
    rewrite (map_nth (fun i => match nth_error fl i with
                               | Some f0 => match f_src f0 with Some s => category_of M s | None => 0 end
                               | None => 0 end)), Er, (nth_error_nth' fl dflow Hj). reflexivity. }
  destruct (Hk (nth sk (m_strains M) EmptyString) (nth_In _ _ Hsk)) as [k [Hk0 Huni]].
  assert (Hf : In f fl) by (apply nth_In; exact Hj).
  (* the process flag *)
  assert (Eflag : b_process b = Some (fkind_eqb (f_kind f) KInfFreq)).
  { rewrite Eproc. fold fl. fold fl in Hexcl.
    assert (Hex : forall k0, f_kind f = k0 -> existsb (fun g => fkind_eqb (f_kind g) k0) fl = true).
    { intros k0 Ek0. apply existsb_exists. exists f. split; [exact Hf|]. rewrite Ek0. destruct k0; reflexivity. }
    destruct (f_kind f) eqn:Kf; cbn in Hq; try discriminate.
    - rewrite (Hex KInfFreq eq_refl). reflexivity.
    - rewrite (Hex KInfDens eq_refl) in *. rewrite andb_true_r in Hexcl. rewrite Hexcl. reflexivity. }
  unfold muls_of. rewrite Eflag.
  rewrite (infectious_multiplier_spec O M b _ p t (vclean O x0) r sk _ k Hb Nsk Nck Hsk (Hck f Hf Hq) Hk0 Hne Huni).
  unfold mult_of. rewrite <- Hsn. reflexivity.
Qed.

Theorem comp_rates_are_net_rates_all s dflt : s < length (m_comps M) ->
  nth s (get_comp_rates O M b p t x0) (f0 O)
  = net_rate O (all_rate O p t M (vclean O x0)) (m_flows M) (nth s (m_comps M) dflt).
Proof.
  intro Hs. unfold get_comp_rates.
  rewrite (comp_rates_spec O T M b _ Hb (get_flow_rates_length O M b p t x0 Hb)).
  rewrite (nth_indep _ (f0 O) (comp_rate_spec O M (get_flow_rates O M b p t x0) 0)) by (rewrite map_length, seq_length; exact Hs).
  rewrite (map_nth (comp_rate_spec O M (get_flow_rates O M b p t x0))), seq_nth by exact Hs. cbn [Nat.add].
  unfold comp_rate_spec, net_rate.
  assert (Hrate : forall j, j < length (m_flows M) ->
             nth j (get_flow_rates O M b p t x0) (f0 O) = all_rate O p t M (vclean O x0) (nth j (m_flows M) dflow)).
  { intros j Hj. rewrite (flow_rate_nth O T M b p t x0 Hb j Hj).
    destruct (is_infection (f_kind (nth j (m_flows M) dflow))) eqn:Hq.
    - unfold flow_rate_spec. pose proof (inf_multiplier j Hj Hq) as Hm. unfold fl in Hm. rewrite Hm.
      unfold all_rate, frac_rate, flow_law.
      destruct (f_kind (nth j (m_flows M) dflow)); cbn in Hq; try discriminate; reflexivity.
    - rewrite (ni_rate_is_law O M p t x0 _ j _ Hq). unfold all_rate.
      destruct (f_kind (nth j (m_flows M) dflow)); cbn in Hq; try discriminate; reflexivity. }
  f_equal; f_equal; apply (map_enumerate _ _ _ dflow); intros j Hj; cbn [fst snd].
  - destruct (f_dst (nth j (m_flows M) dflow)) as [d|] eqn:Ed; [|reflexivity].
    rewrite (comp_index_eqb (m_comps M) d s dflt Hnd) by
      (try exact Hs; apply (proj1 (wf_flows M W (nth j (m_flows M) dflow) (nth_In _ _ Hj))); right; exact Ed).
    rewrite (Hrate j Hj). reflexivity.
  - destruct (f_src (nth j (m_flows M) dflow)) as [d|] eqn:Ed; [|reflexivity].
    rewrite (comp_index_eqb (m_comps M) d s dflt Hnd) by
      (try exact Hs; apply (proj1 (wf_flows M W (nth j (m_flows M) dflow) (nth_In _ _ Hj))); left; exact Ed).
    rewrite (Hrate j Hj). reflexivity.
Qed.

End BridgeInf.

(* a boolean test of the domain, for concrete models *)
Definition foi_domain_b (O : NumOps) (M : model) (p : env O) (t : F O) (x0 : list (F O)) : bool :=
  let count strain cat := length (filter (fun c => existsb (Nat.eqb c) (strain_infectious_comps M strain)) (cat_members M cat)) in
  match m_mixcats M with
  | [] => false
  | cat0 :: _ =>
      forallb (fun strain => (0 <? count strain cat0) && forallb (fun cat => Nat.eqb (count strain cat) (count strain cat0)) (m_mixcats M))
              (m_strains M)
      && forallb (fun f => negb (is_infection (f_kind f))
                           || (match f_src f with Some c => category_of M c | None => 0 end
                               <? length (mixing_matrix O M p t (vclean O x0)))) (m_flows M)
  end.

Lemma foi_domain_b_sound (O : NumOps) (M : model) (p : env O) (t : F O) (x0 : list (F O)) :
  foi_domain_b O M p t x0 = true -> foi_domain O M p t x0.
Proof.
  unfold foi_domain_b, foi_domain. destruct (m_mixcats M) as [|cat0 rest] eqn:Em; [discriminate|]. intro Hb.
  apply andb_true_iff in Hb. destruct Hb as [Hs Hf]. rewrite forallb_forall in Hs, Hf.
  split; [discriminate|]. split.
  - intros strain Hin. specialize (Hs strain Hin). apply andb_true_iff in Hs. destruct Hs as [H0 Hall].
    apply Nat.ltb_lt in H0. rewrite forallb_forall in Hall. eexists. split; [exact H0|].
    intros cat Hc. apply Nat.eqb_eq. apply Hall. exact Hc.
  - intros f Hin Hk. specialize (Hf f Hin). rewrite Hk in Hf. cbn [negb orb] in Hf. apply Nat.ltb_lt in Hf. exact Hf.
Qed.
