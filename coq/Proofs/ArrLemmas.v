(* Lemmas about lists used as arrays (gather / scatter / index search). *)
From Coq Require Import List Arith Bool Lia Permutation.
Import ListNotations.
From S2 Require Import Base.Num Base.Arr.
Local Open Scope nat_scope.

Section ArrLemmas.
Context {A : Type}.
Implicit Types (l : list A) (d v : A) (i j k : nat).

Lemma set_nth_length l i v : length (set_nth l i v) = length l.
Proof. revert i; induction l as [|h t IH]; intros [|i]; cbn; auto. Qed.

Lemma nth_set_nth l i j v d :
  nth j (set_nth l i v) d = if Nat.eqb j i && (i <? length l) then v else nth j l d.
Proof.
  revert i j; induction l as [|h t IH]; intros i j; cbn [set_nth length].
  - destruct i, j; cbn; rewrite ?andb_false_r; reflexivity.
  - destruct i as [|i], j as [|j]; cbn [nth]; try reflexivity.
    rewrite IH. cbn [Nat.eqb]. replace (S i <? S (length t)) with (i <? length t); [reflexivity|].
    destruct (Nat.ltb_spec i (length t)), (Nat.ltb_spec (S i) (S (length t))); auto; lia.
Qed.

Lemma scatter_const_length l idx v : length (scatter_const l idx v) = length l.
Proof.
  unfold scatter_const. revert l; induction idx as [|i idx IH]; intro l; cbn [fold_left]; auto.
  rewrite IH. apply set_nth_length.
Qed.

Lemma nth_scatter_const l idx v j d :
  nth j (scatter_const l idx v) d
  = if existsb (Nat.eqb j) idx && (j <? length l) then v else nth j l d.
Proof.
  unfold scatter_const. revert l; induction idx as [|i idx IH]; intro l; cbn [fold_left existsb].
  - reflexivity.
  - rewrite IH, set_nth_length, nth_set_nth.
    destruct (Nat.eqb_spec j i) as [->|Hne]; cbn [orb andb].
    + destruct (existsb (Nat.eqb i) idx); cbn [andb]; destruct (i <? length l); reflexivity.
    + reflexivity.
Qed.

Lemma scatter_set_length l idx vals : length (scatter_set l idx vals) = length l.
Proof.
  revert l vals; induction idx as [|i idx IH]; intros l [|v vals]; cbn [scatter_set]; auto.
  rewrite IH. apply set_nth_length.
Qed.

Lemma index_of_from_ge (p : A -> bool) l base k :
  index_of_from p l base = Some k -> base <= k.
Proof.
  revert base k; induction l as [|a l IH]; intros base k E; cbn in E; [discriminate|].
  destruct (p a); [injection E; lia|]. apply IH in E. lia.
Qed.

Lemma index_of_from_shift (p : A -> bool) l base :
  index_of_from p l (S base) = option_map S (index_of_from p l base).
Proof.
  revert base; induction l as [|a l IH]; intro base; cbn; [reflexivity|].
  destruct (p a); [reflexivity|]. apply IH.
Qed.

End ArrLemmas.

Lemma index_of_from_none_notin (j : nat) idx base :
  ~ In j idx -> index_of_from (Nat.eqb j) idx base = None.
Proof.
  revert base; induction idx as [|a idx IH]; intros base Hni; cbn; [reflexivity|].
  destruct (Nat.eqb_spec j a); [subst; elim Hni; left; reflexivity|].
  apply IH. intro; apply Hni; right; assumption.
Qed.

Section ArrLemmas2.
Context {A : Type}.
Implicit Types (l : list A) (d v : A) (i j k : nat).

(* scatter with pairwise distinct indices: position idx[k] receives vals[k] *)
Lemma nth_scatter_set_from l idx vals j d base :
  NoDup idx -> length vals = length idx -> (forall i, In i idx -> i < length l) ->
  nth j (scatter_set l idx vals) d
  = match index_of_from (Nat.eqb j) idx base with
    | Some k => nth (k - base) vals d | None => nth j l d end.
Proof.
  revert vals l base. induction idx as [|i idx IH]; intros vals l base Hnd Hlen Hin.
  - reflexivity.
  - destruct vals as [|v vals]; [discriminate|]. cbn [scatter_set index_of_from].
    inversion Hnd as [|? ? Hni Hnd']; subst.
    rewrite (IH vals (set_nth l i v) (S base)); auto.
    + destruct (Nat.eqb_spec j i) as [->|Hne].
      * rewrite (index_of_from_none_notin i idx (S base) Hni), Nat.sub_diag. cbn [nth].
        rewrite nth_set_nth, Nat.eqb_refl.
        assert (i <? length l = true) as -> by (apply Nat.ltb_lt, Hin; left; reflexivity).
        reflexivity.
      * destruct (index_of_from (Nat.eqb j) idx (S base)) as [k|] eqn:E.
        -- apply index_of_from_ge in E.
           replace (k - base) with (S (k - S base)) by lia. reflexivity.
        -- rewrite nth_set_nth. apply Nat.eqb_neq in Hne. rewrite Hne. reflexivity.
    + intros a Ha. rewrite set_nth_length. apply Hin. right; exact Ha.
Qed.

Lemma nth_scatter_set_nodup l idx vals j d :
  NoDup idx -> length vals = length idx -> (forall i, In i idx -> i < length l) ->
  nth j (scatter_set l idx vals) d
  = match index_of (Nat.eqb j) idx with Some k => nth k vals d | None => nth j l d end.
Proof.
  intros H1 H2 H3. unfold index_of. rewrite (nth_scatter_set_from l idx vals j d 0 H1 H2 H3).
  destruct (index_of_from (Nat.eqb j) idx 0); [rewrite Nat.sub_0_r|]; reflexivity.
Qed.

(* ---------------------------------------------------------------- find_indices *)
Lemma find_indices_from_spec (p : A -> bool) l base i :
  In i (find_indices_from p l base) <-> (base <= i < base + length l /\ exists a, nth_error l (i - base) = Some a /\ p a = true).
Proof.
  revert base; induction l as [|h t IH]; intro base; cbn [find_indices_from length].
  - split; [intros []|intros [? _]; lia].
  - destruct (p h) eqn:Ph; cbn [In]; rewrite ?IH; split.
    + intros [<-|[Hr [a [Ha Pa]]]].
      * split; [lia|]. rewrite Nat.sub_diag. exists h; auto.
      * split; [lia|]. replace (i - base) with (S (i - S base)) by lia. exists a; auto.
    + intros [Hr [a [Ha Pa]]]. destruct (Nat.eq_dec base i) as [->|Hne]; [left; reflexivity|right].
      split; [lia|]. replace (i - base) with (S (i - S base)) in Ha by lia. exists a; auto.
    + intros [Hr [a [Ha Pa]]]. split; [lia|].
      replace (i - base) with (S (i - S base)) by lia. exists a; auto.
    + intros [Hr [a [Ha Pa]]]. destruct (Nat.eq_dec base i) as [->|Hne].
      * rewrite Nat.sub_diag in Ha. cbn in Ha. injection Ha as ->. congruence.
      * split; [lia|]. replace (i - base) with (S (i - S base)) in Ha by lia. exists a; auto.
Qed.

Lemma find_indices_spec (p : A -> bool) l i :
  In i (find_indices p l) <-> exists a, nth_error l i = Some a /\ p a = true.
Proof.
  unfold find_indices. rewrite find_indices_from_spec, Nat.sub_0_r. split.
  - intros [_ H]; exact H.
  - intros [a [Ha Pa]]. split; [|exists a; auto].
    split; [lia|]. apply nth_error_Some. congruence.
Qed.

Lemma find_indices_from_sorted (p : A -> bool) l base :
  NoDup (find_indices_from p l base) /\ forall i, In i (find_indices_from p l base) -> base <= i.
Proof.
  revert base; induction l as [|h t IH]; intro base; cbn [find_indices_from].
  - split; [constructor|intros ? []].
  - destruct (IH (S base)) as [Hnd Hge]. destruct (p h).
    + split.
      * constructor; [|exact Hnd]. intro Hin. apply Hge in Hin. lia.
      * intros i [<-|Hi]; [lia|]. apply Hge in Hi. lia.
    + split; [exact Hnd|]. intros i Hi. apply Hge in Hi. lia.
Qed.

Lemma find_indices_nodup (p : A -> bool) l : NoDup (find_indices p l).
Proof. apply find_indices_from_sorted. Qed.

Lemma find_indices_lt (p : A -> bool) l i : In i (find_indices p l) -> i < length l.
Proof.
  rewrite find_indices_spec. intros [a [Ha _]]. apply nth_error_Some. congruence.
Qed.

Lemma existsb_find_indices (p : A -> bool) l i d :
  i < length l -> existsb (Nat.eqb i) (find_indices p l) = p (nth i l d).
Proof.
  intro Hi. destruct (p (nth i l d)) eqn:E.
  - apply existsb_exists. exists i. split; [|apply Nat.eqb_refl].
    apply find_indices_spec. exists (nth i l d). split; [|exact E].
    apply nth_error_nth'. exact Hi.
  - destruct (existsb (Nat.eqb i) (find_indices p l)) eqn:E2; [|reflexivity].
    apply existsb_exists in E2. destruct E2 as [k [Hk Hik]]. apply Nat.eqb_eq in Hik. subst k.
    apply find_indices_spec in Hk. destruct Hk as [a [Ha Pa]].
    rewrite (nth_error_nth _ _ d Ha) in E. congruence.
Qed.

(* ---------------------------------------------------------------- gather *)
Lemma gather_length d l idx : length (gather d l idx) = length idx.
Proof. unfold gather. apply map_length. Qed.

Lemma get_clamp_lt d l i : i < length l -> get_clamp d l i = nth i l d.
Proof. intro H. unfold get_clamp. rewrite Nat.min_l by lia. reflexivity. Qed.

Lemma nth_gather d l idx k :
  k < length idx -> nth k (gather d l idx) d = get_clamp d l (nth k idx 0).
Proof.
  intro Hk. unfold gather.
  rewrite (nth_indep _ d (get_clamp d l 0)) by (rewrite map_length; exact Hk).
  apply (map_nth (get_clamp d l)).
Qed.

Lemma zip_with_length {B C} (f : A -> B -> C) (l1 : list A) (l2 : list B) :
  length (zip_with f l1 l2) = Nat.min (length l1) (length l2).
Proof. revert l2; induction l1 as [|a l1 IH]; intros [|b l2]; cbn; auto. Qed.

Lemma nth_zip_with {B C} (f : A -> B -> C) (l1 : list A) (l2 : list B) k da (db : B) (dc : C) :
  k < length l1 -> k < length l2 ->
  nth k (zip_with f l1 l2) dc = f (nth k l1 da) (nth k l2 db).
Proof.
  revert l2 k; induction l1 as [|a l1 IH]; intros [|b l2] [|k] H1 H2; cbn in *; try lia; auto.
  apply IH; lia.
Qed.

End ArrLemmas2.

Lemma enumerate_from_length {A} k (l : list A) : length (enumerate_from k l) = length l.
Proof. revert k; induction l as [|a l IH]; intro k; cbn; auto. Qed.

Lemma nth_enumerate_from {A} k (l : list A) i d :
  i < length l -> nth i (enumerate_from k l) (0, d) = (k + i, nth i l d).
Proof.
  revert k i; induction l as [|a l IH]; intros k [|i] Hi; cbn in *; try lia.
  - f_equal; lia.
  - rewrite IH by lia. f_equal; lia.
Qed.

Lemma index_of_find_indices_rank {A} (p : A -> bool) (l : list A) i :
  In i (find_indices p l) ->
  exists k, index_of (Nat.eqb i) (find_indices p l) = Some k /\ k < length (find_indices p l)
            /\ nth k (find_indices p l) 0 = i.
Proof.
  generalize (find_indices p l) as idx. unfold index_of. intros idx.
  assert (G : forall idx base, In i idx ->
     exists k, index_of_from (Nat.eqb i) idx base = Some (base + k) /\ k < length idx /\ nth k idx 0 = i).
  { induction idx0 as [|a idx0 IH]; intros base [].
    - subst. exists 0. cbn. rewrite Nat.eqb_refl, Nat.add_0_r. repeat split; lia.
    - cbn. destruct (Nat.eqb_spec i a) as [->|Hne].
      + exists 0. rewrite Nat.add_0_r. repeat split; lia.
      + destruct (IH (S base) H) as [k [E [Hk Hn]]]. exists (S k).
        rewrite E. repeat split; [f_equal; lia|lia|exact Hn]. }
  intro Hin. destruct (G idx 0 Hin) as [k [E H]]. exists k. rewrite E. auto.
Qed.

(* rank of a selected index among the selected indices *)
Lemma index_of_find_indices_from {A} (q : A -> bool) (l : list A) d :
  forall base k0 i, i < length l -> q (nth i l d) = true ->
    index_of_from (Nat.eqb (base + i)) (find_indices_from q l base) k0
    = Some (k0 + length (filter q (firstn i l))).
Proof.
  induction l as [|h t IH]; intros base k0 i Hi Hq; [cbn in Hi; lia|].
  cbn [find_indices_from]. destruct i as [|i].
  - cbn in Hq. rewrite Hq. cbn [index_of_from firstn filter length]. rewrite !Nat.add_0_r, Nat.eqb_refl. reflexivity.
  - cbn [nth] in Hq. cbn [firstn filter]. destruct (q h) eqn:Qh.
    + cbn [index_of_from length]. destruct (Nat.eqb_spec (base + S i) base); [lia|].
      replace (base + S i) with (S base + i) by lia. rewrite (IH (S base) (S k0) i); [|cbn in Hi; lia|exact Hq].
      f_equal. lia.
    + replace (base + S i) with (S base + i) by lia. apply IH; [cbn in Hi; lia|exact Hq].
Qed.

Lemma index_of_find_indices {A} (q : A -> bool) (l : list A) d i :
  i < length l -> q (nth i l d) = true ->
  index_of (Nat.eqb i) (find_indices q l) = Some (length (filter q (firstn i l))).
Proof.
  intros Hi Hq. unfold index_of, find_indices.
  apply (index_of_find_indices_from q l d 0 0 i Hi Hq).
Qed.

Lemma index_of_notin (j : nat) idx : ~ In j idx -> index_of (Nat.eqb j) idx = None.
Proof. apply index_of_from_none_notin. Qed.

Lemma not_in_find_indices {A} (q : A -> bool) (l : list A) d i :
  q (nth i l d) = false -> ~ In i (find_indices q l).
Proof.
  intros Hq Hin. apply find_indices_spec in Hin. destruct Hin as [a [Ha Pa]].
  rewrite (nth_error_nth _ _ d Ha) in Hq. congruence.
Qed.

Lemma nth_find_indices_rank {A} (q : A -> bool) (l : list A) d i :
  i < length l -> q (nth i l d) = true ->
  length (filter q (firstn i l)) < length (find_indices q l)
  /\ nth (length (filter q (firstn i l))) (find_indices q l) 0 = i.
Proof.
  intros Hi Hq.
  assert (Hin : In i (find_indices q l)).
  { apply find_indices_spec. exists (nth i l d). split; [apply nth_error_nth'; exact Hi|exact Hq]. }
  destruct (index_of_find_indices_rank q l i Hin) as [k [E [Hk Hn]]].
  rewrite (index_of_find_indices q l d i Hi Hq) in E. injection E as <-. auto.
Qed.

(* gathering at the selected indices = mapping over the selected elements *)
Lemma gather_find_indices_from {A B} (q : A -> bool) (g : A -> B) (l : list A) (r : list B) d db :
  forall base, (forall j, j < length l -> q (nth j l d) = true -> get_clamp db r (base + j) = g (nth j l d)) ->
  map (get_clamp db r) (find_indices_from q l base) = map g (filter q l).
Proof.
  induction l as [|h t IH]; intros base H; cbn [find_indices_from filter]; [reflexivity|].
  assert (Ht : map (get_clamp db r) (find_indices_from q t (S base)) = map g (filter q t)).
  { apply IH. intros j Hj Hq. specialize (H (S j)). cbn [nth length] in H.
    replace (S base + j) with (base + S j) by lia. apply H; [lia|exact Hq]. }
  destruct (q h) eqn:Qh; cbn [map]; rewrite Ht; [|reflexivity].
  f_equal. specialize (H 0). cbn [nth] in H. rewrite Nat.add_0_r in H. apply H; [cbn; lia|exact Qh].
Qed.

Lemma gather_find_indices {A B} (q : A -> bool) (g : A -> B) (l : list A) (r : list B) d db :
  length r = length l ->
  (forall j, j < length l -> q (nth j l d) = true -> nth j r db = g (nth j l d)) ->
  gather db r (find_indices q l) = map g (filter q l).
Proof.
  intros Hlen H. unfold gather, find_indices. apply (gather_find_indices_from q g l r d db 0).
  intros j Hj Hq. cbn [Nat.add]. rewrite get_clamp_lt by lia. apply H; assumption.
Qed.

Lemma filter_length_le {A} (p : A -> bool) (l : list A) : length (filter p l) <= length l.
Proof. induction l as [|a l IH]; cbn; [lia|]. destruct (p a); cbn; lia. Qed.
