(* C04 on the model: the copies made by flow.stratify, which adjustment applies, and the
   effective weight of each copy. *)
From Coq Require Import QArith Field Ring List String Bool Arith Lia.
Import ListNotations.
From S2 Require Import Base.Num Base.Arr Model.Expr Model.Struct Model.Rates Spec.RatesSpec
     Proofs.ArrLemmas Proofs.NumLemmas Proofs.BuildProofs.
Local Open Scope nat_scope.
Local Notation length := List.length.

(* ---------------------------------------------------------------- which adjustment applies *)
Definition last_opt {A} (l : list A) : option A := last_some (map Some l).

Lemma last_some_filter {A B} (p : A -> bool) (g : A -> B) (l : list A) :
  last_some (map (fun e => if p e then Some (g e) else None) l) = option_map g (last_opt (filter p l)).
Proof.
  unfold last_opt. induction l as [|a l IH]; cbn [map last_some filter]; [reflexivity|].
  rewrite IH. destruct (p a) eqn:Pa; cbn [map last_some].
  - destruct (last_some (map Some (filter p l))); reflexivity.
  - destruct (last_some (map Some (filter p l))); reflexivity.
Qed.

(* within one stratification the most recently declared adjustment whose source/destination
   filters match the flow wins *)
Theorem last_match_wins s f r :
  get_flow_adjustment s f = Ok r ->
  r = option_map (fun e => fst (fst e)) (last_opt (filter (fadj_applies f) (declared_for s (f_name f)))).
Proof.
  unfold get_flow_adjustment. destruct (existsb (fadj_invalid f) _); [discriminate|].
  intro E. injection E as <-. apply (last_some_filter (fadj_applies f) (fun e => fst (fst e))).
Qed.

Section Weights.
Variable O : NumOps.
Variable T : NumTheory O.
Notation F := (F O).
Add Field Fcp : (Fth O T).
Variables (p : env O) (t : F) (x : list F).

Definition with_adjs (f : flow) (extra : list adj) : flow :=
  {| f_name := f_name f; f_kind := f_kind f; f_src := f_src f; f_dst := f_dst f;
     f_param := f_param f; f_adjs := f_adjs f ++ extra |}.

(* Multiply scales, Overwrite replaces everything accumulated before it, None leaves unchanged *)
Lemma weight_app f extra g :
  f_param g = f_param f -> f_adjs g = f_adjs f ++ extra ->
  weight_spec O p t x g = fold_left (apply_adj O p t x) extra (weight_spec O p t x f).
Proof. intros Hp Ha. unfold weight_spec. rewrite Hp, Ha, fold_left_app. reflexivity. Qed.

Lemma weight_mul f g e :
  f_param g = f_param f -> f_adjs g = f_adjs f ++ [AMul e] ->
  weight_spec O p t x g = fmul O (weight_spec O p t x f) (eval O p t x e).
Proof. intros Hp Ha. rewrite (weight_app f [AMul e] g Hp Ha). reflexivity. Qed.

Lemma weight_ovr f g e :
  f_param g = f_param f -> f_adjs g = f_adjs f ++ [AOvr e] ->
  weight_spec O p t x g = eval O p t x e.
Proof. intros Hp Ha. rewrite (weight_app f [AOvr e] g Hp Ha). reflexivity. Qed.

Lemma weight_none f g :
  f_param g = f_param f -> f_adjs g = f_adjs f ++ [] -> weight_spec O p t x g = weight_spec O p t x f.
Proof. intros Hp Ha. rewrite (weight_app f [] g Hp Ha). reflexivity. Qed.

Lemma of_Q_inv_count n : n <> 0 -> fmul O (of_nat_F O n) (eval O p t x (inv_count n)) = f1 O.
Proof.
  intro Hn. unfold inv_count, of_nat_F. cbn [eval]. rewrite <- (of_Q_mul O T), <- (of_Q_1 O T).
  apply (of_Q_eq O T).
  assert (E : Z.pos (Pos.of_nat n) = Z.of_nat n).
  { rewrite <- (Nat2Pos.id n Hn) at 2. symmetry. apply positive_nat_Z. }
  unfold Qeq, Qmult, inject_Z. cbn [Qnum Qden]. rewrite Pos.mul_1_l, E. lia.
Qed.

End Weights.

(* ---------------------------------------------------------------- the copies *)
Definition flow_sig (g : flow) := (f_name g, f_kind g, f_src g, f_dst g, f_param g).

Definition copy_ends (s : strat) (f : flow) (st : string) :=
  (f_name f, f_kind f,
   opt_strat (f_src f) (s_name s) st (opt_in_list (f_src f) (s_comps s)),
   opt_strat (f_dst f) (s_name s) st (opt_in_list (f_dst f) (s_comps s)),
   f_param f).

Definition affected (s : strat) (f : flow) : bool :=
  if is_entry (f_kind f) then opt_in_list (f_dst f) (s_comps s)
  else if is_exit (f_kind f) then opt_in_list (f_src f) (s_comps s)
  else opt_in_list (f_src f) (s_comps s) || opt_in_list (f_dst f) (s_comps s).

Definition copy_strata (s : strat) (f : flow) : list string :=
  if is_entry (f_kind f) && is_birth (f_kind f) && is_age (s_kind s)
  then filter (fun st => String.eqb st "0") (s_strata s) else s_strata s.

(* exactly the prescribed copies: an unaffected flow is kept; otherwise one copy per stratum in
   declaration order (only the age-0 copy for births under an age stratification), each with the
   affected ends moved to that stratum, same name, kind and base parameter - none lost or duplicated *)
Theorem copies_exact s f fl :
  stratify_flow s f = Ok fl ->
  if affected s f then map flow_sig fl = map (copy_ends s f) (copy_strata s f)
  else fl = [f].
Proof.
  unfold stratify_flow, affected, copy_strata. cbv zeta. intro H.
  destruct (is_entry (f_kind f)) eqn:Ke.
  - destruct (opt_in_list (f_dst f) (s_comps s)) eqn:Ed; cbn [negb andb] in *.
    + unfold bind in H. destruct (get_flow_adjustment s f) as [fa|]; [|discriminate].
      destruct fa as [a|]; destruct (is_birth (f_kind f) && is_age (s_kind s)) eqn:Eb; try discriminate;
        injection H as <-; rewrite map_map; apply map_ext; intro st; unfold copy_ends, flow_sig; cbn [f_name f_kind f_src f_dst f_param]; rewrite ?Ed; reflexivity.
    + injection H as <-. reflexivity.
  - destruct (is_exit (f_kind f)) eqn:Kx.
    + destruct (opt_in_list (f_src f) (s_comps s)) eqn:Ed; cbn [negb andb] in *.
      * unfold bind in H. destruct (get_flow_adjustment s f) as [fa|]; [|discriminate].
        injection H as <-. rewrite map_map. apply map_ext. intro st. unfold copy_ends, flow_sig. cbn [f_name f_kind f_src f_dst f_param]. rewrite ?Ed. reflexivity.
      * injection H as <-. reflexivity.
    + destruct (opt_in_list (f_src f) (s_comps s) || opt_in_list (f_dst f) (s_comps s)) eqn:Eany; cbn [negb andb] in *.
      * unfold bind in H. destruct (get_flow_adjustment s f) as [fa|]; [|discriminate].
        rewrite (match_kabs (f_kind f)) in H.
        destruct (fkind_eqb (f_kind f) KAbs);
          [match type of H with context [if ?c then _ else _] => destruct c end|];
          injection H as <-; rewrite ?map_map; apply map_ext; intro st; unfold copy_ends, flow_sig; cbn [f_name f_kind f_src f_dst f_param]; rewrite ?Ed; reflexivity.
      * injection H as <-. reflexivity.
Qed.

(* ---------------------------------------------------------------- default weights *)
(* Some n: the copy's weight is the parent's divided by n; None: the copy keeps the parent's weight *)
Definition default_factor (s : strat) (f : flow) : option nat :=
  let n := length (s_strata s) in
  let src_s := opt_in_list (f_src f) (s_comps s) in
  let dst_s := opt_in_list (f_dst f) (s_comps s) in
  if is_entry (f_kind f) then (if is_birth (f_kind f) && is_age (s_kind s) then None else Some n)
  else if is_exit (f_kind f) then None
  else
    let conserve := (dst_s && negb src_s) && negb (is_strain (s_kind s)) in
    if fkind_eqb (f_kind f) KAbs then (if conserve then Some n else if 1 <? n then Some n else None)
    else if conserve then Some n else None.

(* without a user adjustment: entry flows and transition-type flows whose destination alone is
   newly stratified (except under a strain stratification) are divided evenly, an absolute flow is
   shared among its copies exactly once in every endpoint pattern, every other copy keeps the
   parent's weight *)
Theorem default_copies s f fl :
  stratify_flow s f = Ok fl -> get_flow_adjustment s f = Ok None -> affected s f = true ->
  forall g, In g fl ->
    f_param g = f_param f
    /\ f_adjs g = f_adjs f ++ match default_factor s f with Some n => [AMul (inv_count n)] | None => [] end.
Proof.
  unfold stratify_flow, affected, default_factor. cbv zeta. intros H Hfa Haff g Hg. rewrite Hfa in H. cbn [bind] in H.
  destruct (is_entry (f_kind f)) eqn:Ke.
  - rewrite Haff in H. cbn [negb] in H.
    destruct (is_birth (f_kind f) && is_age (s_kind s)); injection H as <-;
      apply in_map_iff in Hg; destruct Hg as [st [<- _]]; cbn; auto.
  - destruct (is_exit (f_kind f)) eqn:Kx.
    + rewrite Haff in H. cbn [negb] in H. injection H as <-.
      apply in_map_iff in Hg. destruct Hg as [st [<- _]]. cbn. auto.
    + rewrite Haff in H. cbn [negb] in H. rewrite (match_kabs (f_kind f)) in H.
      set (conserve := (opt_in_list (f_dst f) (s_comps s) && negb (opt_in_list (f_src f) (s_comps s)))
                       && negb (is_strain (s_kind s))) in *.
      rewrite andb_true_r in H.
      destruct (fkind_eqb (f_kind f) KAbs).
      * rewrite map_length in H. destruct conserve; cbn [negb andb] in H.
        -- rewrite andb_false_r in H. injection H as <-.
           apply in_map_iff in Hg. destruct Hg as [st [<- _]]. cbn. auto.
        -- rewrite andb_true_r in H. destruct (1 <? length (s_strata s)); injection H as <-.
           ++ apply in_map_iff in Hg. destruct Hg as [g0 [<- Hg0]].
              apply in_map_iff in Hg0. destruct Hg0 as [st [<- _]]. cbn. rewrite app_nil_r. auto.
           ++ apply in_map_iff in Hg. destruct Hg as [st [<- _]]. cbn. auto.
      * injection H as <-. apply in_map_iff in Hg. destruct Hg as [st [<- _]]. cbn.
        destruct conserve; auto.
Qed.

Section DefaultWeights.
Variable O : NumOps.
Variable T : NumTheory O.
Add Field Fdw : (Fth O T).

(* ... in terms of effective weights, for every parameter environment, time and state *)
Theorem default_weights s f fl (p : env O) t x :
  stratify_flow s f = Ok fl -> get_flow_adjustment s f = Ok None -> affected s f = true ->
  forall g, In g fl ->
    weight_spec O p t x g
    = match default_factor s f with
      | Some n => fmul O (weight_spec O p t x f) (of_Q O (1 # Pos.of_nat n))
      | None => weight_spec O p t x f
      end.
Proof.
  intros H Hfa Haff g Hg. destruct (default_copies s f fl H Hfa Haff g Hg) as [Hp Ha].
  destruct (default_factor s f) as [n|].
  - apply (weight_mul O p t x f g _ Hp Ha).
  - apply (weight_none O p t x f g Hp Ha).
Qed.

(* the copies of a divided flow add up to the parent: n copies of weight w/n *)
Lemma n_copies_sum (w : F O) n : n <> 0 ->
  fmul O (of_nat_F O n) (fmul O w (of_Q O (1 # Pos.of_nat n))) = w.
Proof.
  intro Hn. pose proof (of_Q_inv_count O T (fun _ => f0 O) (f0 O) [] n Hn) as H. cbn [inv_count eval] in H.
  transitivity (fmul O w (fmul O (of_nat_F O n) (of_Q O (1 # Pos.of_nat n)))); [ring|]. rewrite H. ring.
Qed.

End DefaultWeights.
