(* C16 on the kernels translated from functions/util.py and functions/interpolate.py:
   the binary search counts the breakpoints <= x and terminates, the piecewise function
   returns values[k], the linear interpolator is the piecewise-linear interpolant. *)
From Coq Require Import QArith ZArith Field Ring List Bool Arith Lia.
Import ListNotations.
From S2 Require Import Base.Num Base.Arr Base.ZArr Model.Expr Gen.UtilGen Gen.InterpolateGen
     Proofs.ArrLemmas Proofs.NumLemmas Proofs.OrderLemmas.
Local Open Scope nat_scope.

Section BinarySearch.
Variable O : NumOps.
Variable T : NumTheory O.
Notation F := (F O).
Notation "x <= y" := (fle O T x y).
Notation "x < y" := (flt O T x y).

Variable pts : list F.
Variable x : F.
Let n := length pts.
Let pt (i : nat) : F := nth i pts (f0 O).

(* weakly increasing breakpoints *)
Definition sorted : Prop := forall i j, (i <= j)%nat -> (j < n)%nat -> pt i <= pt j.

Lemma zget_nat (i : nat) : (i < n)%nat -> zget O pts (Z.of_nat i) = pt i.
Proof.
  intro Hi. unfold zget. assert (Z.ltb (Z.of_nat i) 0 = false) as -> by (apply Z.ltb_ge; lia).
  rewrite Z.max_r by lia. rewrite Nat2Z.id. apply get_clamp_lt. exact Hi.
Qed.

(* count of breakpoints <= x, characterised on a sorted list *)
Lemma count_le_sorted_aux (l : list F) k :
  (k <= length l)%nat ->
  (forall i, (i < k)%nat -> nth i l (f0 O) <= x) ->
  (forall i, (k <= i)%nat -> (i < length l)%nat -> x < nth i l (f0 O)) ->
  count_le O x l = k.
Proof.
  revert k; induction l as [|a l IH]; intros k Hk Hlo Hhi; cbn in Hk.
  - unfold count_le. cbn. lia.
  - unfold count_le in *. cbn [filter]. destruct k as [|k].
    + assert (E : fleb O a x = false) by (apply (fleb_false O T); apply (Hhi 0%nat); cbn; lia).
      rewrite E. apply (IH 0%nat); [lia | intros; lia |].
      intros i _ Hi. apply (Hhi (S i)); cbn; lia.
    + assert (E : fleb O a x = true) by (apply (fleb_true O T); apply (Hlo 0%nat); lia).
      rewrite E. cbn [length]. f_equal. apply IH; [lia | |].
      * intros i Hi. apply (Hlo (S i)). lia.
      * intros i Hi1 Hi2. apply (Hhi (S i)); cbn; lia.
Qed.

Hypothesis Hsorted : sorted.

Lemma le_down j i : (i <= j)%nat -> (j < n)%nat -> pt j <= x -> pt i <= x.
Proof. intros H1 H2 H3. apply (fle_trans O T _ (pt j)); [apply Hsorted; assumption|exact H3]. Qed.

Lemma lt_up j i : (j <= i)%nat -> (i < n)%nat -> x < pt j -> x < pt i.
Proof. intros H1 H2 H3. apply (flt_le_trans O T _ (pt j)); [exact H3|apply Hsorted; assumption]. Qed.

(* loop invariant of binary_search_sum_ge *)
Definition inv (lo hi : Z) : Prop :=
  (-1 <= lo)%Z /\ (lo < hi)%Z /\ (hi <= Z.of_nat n - 1)%Z
  /\ ((0 <= lo)%Z -> pt (Z.to_nat lo) <= x)
  /\ ((hi < Z.of_nat n - 1)%Z -> x < pt (Z.to_nat hi)).

Lemma body_inv lo hi :
  inv lo hi -> gen_bs_cond lo hi = true ->
  let '(lo', hi') := gen_bs_body O x pts lo hi in
  inv lo' hi' /\ (hi' - lo' < hi - lo)%Z.
Proof.
  intros (H1 & H2 & H3 & H4 & H5) Hc. unfold gen_bs_cond in Hc. apply Z.ltb_lt in Hc.
  unfold gen_bs_body. cbv zeta.
  assert (Hsum : (0 <= lo + hi)%Z) by lia.
  set (mid := Z.quot (lo + hi) 2).
  assert (Hmid : (lo < mid < hi)%Z).
  { unfold mid. rewrite Z.quot_div_nonneg by lia.
    pose proof (Z.div_mod (lo + hi) 2 ltac:(lia)). pose proof (Z.mod_pos_bound (lo + hi) 2 ltac:(lia)). lia. }
  assert (Hm0 : (0 <= mid)%Z) by lia.
  assert (Hmn : (Z.to_nat mid < n)%nat) by lia.
  assert (Eget : zget O pts mid = pt (Z.to_nat mid)).
  { rewrite <- (Z2Nat.id mid) at 1 by lia. apply zget_nat. exact Hmn. }
  rewrite Eget. destruct (fltb O x (pt (Z.to_nat mid))) eqn:E.
  - apply (fltb_true O T) in E. split; [|lia].
    unfold inv. split; [lia|]. split; [lia|]. split; [lia|]. split; [exact H4 | intros _; exact E].
  - apply (fltb_false O T) in E. split; [|lia].
    unfold inv. split; [lia|]. split; [lia|]. split; [lia|]. split; [intros _; exact E | exact H5].
Qed.

Lemma zwhile_inv fuel : forall lo hi,
  inv lo hi -> (hi - lo - 1 < Z.of_nat fuel)%Z ->
  let '(lo', hi') := zwhile fuel (fun st => gen_bs_cond (fst st) (snd st))
                             (fun st => gen_bs_body O x pts (fst st) (snd st)) (lo, hi) in
  inv lo' hi' /\ gen_bs_cond lo' hi' = false.
Proof.
  induction fuel as [|fuel IH]; intros lo hi Hinv Hm.
  - destruct Hinv as (H1 & H2 & _). lia.
  - cbn [zwhile fst snd]. destruct (gen_bs_cond lo hi) eqn:Ec.
    + pose proof (body_inv lo hi Hinv Ec) as Hb. destruct (gen_bs_body O x pts lo hi) as [lo' hi'].
      destruct Hb as [Hinv' Hdec]. apply IH; [exact Hinv'|lia].
    + auto.
Qed.

(* the binary search returns the number of breakpoints <= x (= (x >= points).sum()), and the
   fuel len(points) always suffices: the loop terminates *)
Theorem binary_search_correct :
  (1 <= n)%nat -> gen_binary_search_sum_ge O x pts = Z.of_nat (count_le O x pts).
Proof.
  intro Hn. unfold gen_binary_search_sum_ge. fold n.
  assert (Hinit : inv (-1) (Z.of_nat n - 1)).
  { unfold inv. split; [lia|]. split; [lia|]. split; [lia|]. split; intro; lia. }
  pose proof (zwhile_inv n (-1)%Z (Z.of_nat n - 1)%Z Hinit ltac:(lia)) as Hw.
  destruct (zwhile n _ _ (_, _)) as [lo hi]. destruct Hw as [(H1 & H2 & H3 & H4 & H5) Hc].
  unfold gen_bs_cond in Hc. apply Z.ltb_ge in Hc. assert (Ehi : hi = (lo + 1)%Z) by lia. subst hi.
  unfold gen_bs_final.
  assert (Hhn : (Z.to_nat (lo + 1) < n)%nat) by lia.
  assert (Eget : zget O pts (lo + 1) = pt (Z.to_nat (lo + 1))).
  { rewrite <- (Z2Nat.id (lo + 1)) at 1 by lia. apply zget_nat. exact Hhn. }
  rewrite Eget. destruct (fltb O x (pt (Z.to_nat (lo + 1)))) eqn:E.
  - (* x < pts[lo+1]: count = lo + 1 *)
    apply (fltb_true O T) in E.
    rewrite (count_le_sorted_aux pts (Z.to_nat (lo + 1))); [lia|unfold n in *; lia| |].
    + intros i Hi. fold (pt i). apply (le_down (Z.to_nat lo)); [lia|lia|apply H4; lia].
    + intros i Hi1 Hi2. fold (pt i). apply (lt_up (Z.to_nat (lo + 1))); [lia|exact Hi2|exact E].
  - (* pts[lo+1] <= x: only possible when hi was never moved, i.e. hi = n-1: count = n *)
    apply (fltb_false O T) in E.
    assert (Hlast : (lo + 1 = Z.of_nat n - 1)%Z).
    { destruct (Z.eq_dec (lo + 1) (Z.of_nat n - 1)) as [e|ne]; [exact e|].
      exfalso. apply (flt_not_le O T _ _ (H5 ltac:(lia))). exact E. }
    rewrite (count_le_sorted_aux pts n); [lia|unfold n in *; lia| |intros; unfold n in *; lia].
    intros i Hi. fold (pt i). apply (le_down (Z.to_nat (lo + 1))); [lia|lia|exact E].
Qed.

End BinarySearch.

Section Interp.
Variable O : NumOps.
Variable T : NumTheory O.
Notation F := (F O).
Add Field Fi : (Fth O T).
Notation "x <= y" := (fle O T x y).
Notation "x < y" := (flt O T x y).

Lemma zget_of_nat (l : list F) k : zget O l (Z.of_nat k) = get_clamp (f0 O) l k.
Proof.
  unfold zget. assert (Z.ltb (Z.of_nat k) 0 = false) as -> by (apply Z.ltb_ge; lia).
  rewrite Z.max_r by lia. rewrite Nat2Z.id. reflexivity.
Qed.

Lemma zget_zero (l : list F) : zget O l 0 = get_clamp (f0 O) l 0.
Proof. exact (zget_of_nat l 0). Qed.

Lemma zget_last (l : list F) : (1 <= length l)%nat -> zget O l (-1) = nth (length l - 1) l (f0 O).
Proof.
  intro H. unfold zget. change (Z.ltb (-1) 0) with true. cbv iota.
  assert (E : Z.to_nat (Z.max 0 (-1 + Z.of_nat (length l))) = (length l - 1)%nat) by lia.
  rewrite E. apply get_clamp_lt. lia.
Qed.

Lemma nth_zdiff (l : list F) i : (S i < length l)%nat ->
  nth i (zdiff O l) (f0 O) = fsub O (nth (S i) l (f0 O)) (nth i l (f0 O)).
Proof.
  revert i; induction l as [|a l IH]; intros i Hi; [cbn in Hi; lia|].
  destruct l as [|b l]; [cbn in Hi; lia|]. destruct i as [|i]; [reflexivity|].
  unfold zdiff in *. cbn [tl zip_with nth]. apply (IH i). cbn in *. lia.
Qed.

Lemma zdiff_length (l : list F) : length (zdiff O l) = (length l - 1)%nat.
Proof.
  unfold zdiff. rewrite zip_with_length. destruct l as [|a l]; [reflexivity|].
  cbn [tl length]. rewrite Nat.min_r by lia. lia.
Qed.

(* piecewise function: values[k], k = number of breakpoints <= x (left-closed intervals) *)
Theorem piecewise_correct (x : F) (bps vals : list F) :
  sorted O T bps -> (1 <= length bps)%nat ->
  gen_piecewise_constant O x bps vals = get_clamp (f0 O) vals (count_le O x bps).
Proof.
  intros Hs Hn. unfold gen_piecewise_constant.
  rewrite (binary_search_correct O T bps x Hs Hn). apply zget_of_nat.
Qed.

Lemma count_le_bound (x : F) (l : list F) : (count_le O x l <= length l)%nat.
Proof. unfold count_le. apply filter_length_le. Qed.

Lemma count_le_first (x : F) (l : list F) : (1 <= length l)%nat -> nth 0 l (f0 O) <= x -> (1 <= count_le O x l)%nat.
Proof.
  destruct l as [|a l]; [cbn; lia|]. intros _ H. unfold count_le. cbn [filter nth] in *.
  apply (fleb_true O T) in H. rewrite H. cbn. lia.
Qed.

Lemma count_le_not_all (x : F) (l : list F) i :
  (i < length l)%nat -> x < nth i l (f0 O) -> (count_le O x l < length l)%nat.
Proof.
  revert i; induction l as [|a l IH]; intros i Hi Hx; [cbn in Hi; lia|].
  unfold count_le in *. cbn [filter length]. destruct i as [|i].
  - cbn [nth] in Hx. apply (fleb_false O T) in Hx. rewrite Hx.
    pose proof (filter_length_le (fun p => fleb O p x) l). lia.
  - cbn [nth] in Hx. specialize (IH i ltac:(cbn in Hi; lia) Hx).
    destruct (fleb O a x); cbn [length]; lia.
Qed.

Definition strictly_sorted (xs : list F) : Prop :=
  forall i j, (i < j)%nat -> (j < length xs)%nat -> nth i xs (f0 O) < nth j xs (f0 O).

Lemma strictly_sorted_sorted xs : strictly_sorted xs -> sorted O T xs.
Proof.
  intros H i j Hij Hj. destruct (Nat.eq_dec i j) as [->|Hne]; [apply (fle_refl O T)|].
  apply (flt_le O T). apply H; lia.
Qed.

(* linear interpolation function = the documented piecewise-linear interpolant (Expr.interp_linear),
   including at the last point, where the code relies on the clamped gather of ranges[len-1] *)
Theorem linear_correct (t : F) (xs ys : list F) :
  strictly_sorted xs -> (2 <= length xs)%nat -> length ys = length xs ->
  gen_interpolate_linear O t xs ys = interp_linear O t xs ys.
Proof.
  intros Hss Hn Hy. pose proof (strictly_sorted_sorted xs Hss) as Hs.
  set (n := length xs) in *. set (d := f0 O).
  unfold gen_interpolate_linear, gen_bounds_state, interp_linear. fold d. fold n.
  rewrite (zget_zero xs), (zget_last xs) by (unfold n in *; lia). fold n. fold d.
  rewrite (zget_zero ys), (zget_last ys) by (unfold n in *; lia). rewrite Hy. fold n.
  rewrite !get_clamp_lt by (unfold n in *; lia). fold d.
  assert (H0l : nth 0 xs d < nth (n - 1) xs d) by (apply Hss; unfold n in *; lia).
  destruct (fltb O (nth 0 xs d) t) eqn:E0.
  - (* x0 < t *)
    apply (fltb_true O T) in E0.
    assert (fleb O t (nth 0 xs d) = false) as -> by (apply (fleb_false O T); exact E0).
    destruct (fltb O (nth (n - 1) xs d) t) eqn:El; cbn [Nat.add].
    + (* beyond the last point *)
      apply (fltb_true O T) in El.
      assert (fltb O t (nth (n - 1) xs d) = false) as -> by (apply (fltb_false O T); apply (flt_le O T); exact El).
      reflexivity.
    + apply (fltb_false O T) in El. unfold gen_linear_curve_at_x. cbv zeta.
      rewrite (binary_search_correct O T xs t Hs) by (unfold n in *; lia).
      set (k := count_le O t xs).
      assert (Hk1 : (1 <= k)%nat) by (apply count_le_first; [unfold n in *; lia | apply (flt_le O T); exact E0]).
      assert (Hkn : (k <= n)%nat) by apply count_le_bound.
      replace (Z.of_nat k - 1)%Z with (Z.of_nat (k - 1)) by lia.
      rewrite !zget_of_nat.
      destruct (fltb O t (nth (n - 1) xs d)) eqn:Et; cbn [negb].
      * (* strictly inside: the segment formula *)
        apply (fltb_true O T) in Et.
        assert (Hk : (k < n)%nat) by (apply (count_le_not_all t xs (n - 1)); [unfold n in *; lia | exact Et]).
        rewrite !get_clamp_lt by (rewrite ?zdiff_length; unfold n in *; lia).
        rewrite !nth_zdiff by (unfold n in *; lia).
        replace (S (k - 1)) with k by lia. fold d. reflexivity.
      * (* exactly the last point *)
        apply (fltb_false O T) in Et.
        assert (Et2 : t = nth (n - 1) xs d) by (apply (fle_antisym O T); assumption).
        assert (Hkk : k = n).
        { unfold k. apply (count_le_sorted_aux O T xs t xs n); [unfold n; lia| |intros; unfold n in *; lia].
          intros i Hi. apply (fle_trans O T _ (nth (n - 1) xs d)); [apply Hs; unfold n in *; lia | exact Et]. }
        rewrite Hkk. rewrite (get_clamp_lt _ xs (n - 1)) by (unfold n in *; lia).
        rewrite (get_clamp_lt _ ys (n - 1)) by (unfold n in *; lia). fold d. rewrite <- Et2.
        rewrite !(Fdiv_def (Fth O T)). ring.
  - (* t <= x0 *)
    apply (fltb_false O T) in E0.
    assert (fleb O t (nth 0 xs d) = true) as -> by (apply (fleb_true O T); exact E0).
    assert (fltb O (nth (n - 1) xs d) t = false) as ->.
    { apply (fltb_false O T). apply (fle_trans O T _ (nth 0 xs d)); [exact E0 | apply (flt_le O T); exact H0l]. }
    reflexivity.
Qed.

(* the interpolators on a segment x_i <= t < x_(i+1), generic in the shape function
   (identity: linear; the normalised sigmoid: sigmoidal) *)
Theorem sigmoidal_segment (sig : F -> F) (t : F) (xs ys : list F) (i : nat) :
  strictly_sorted xs -> (S i < length xs)%nat -> length ys = length xs ->
  nth 0 xs (f0 O) < t -> nth i xs (f0 O) <= t -> t < nth (S i) xs (f0 O) ->
  gen_interpolate_sigmoidal O sig t xs ys
  = fadd O (nth i ys (f0 O))
           (fmul O (sig (fdiv O (fsub O t (nth i xs (f0 O))) (fsub O (nth (S i) xs (f0 O)) (nth i xs (f0 O)))))
                   (fsub O (nth (S i) ys (f0 O)) (nth i ys (f0 O)))).
Proof.
  intros Hss Hi Hy H0 Hlo Hhi. pose proof (strictly_sorted_sorted xs Hss) as Hs.
  set (n := length xs) in *. set (d := f0 O) in *.
  unfold gen_interpolate_sigmoidal, gen_bounds_state.
  rewrite (zget_zero xs), (zget_last xs) by (unfold n in *; lia). fold n. fold d.
  rewrite !get_clamp_lt by (unfold n in *; lia). fold d.
  assert (fltb O (nth 0 xs d) t = true) as -> by (apply (fltb_true O T); exact H0).
  assert (fltb O (nth (n - 1) xs d) t = false) as ->.
  { apply (fltb_false O T). apply (flt_le O T). apply (flt_le_trans O T _ (nth (S i) xs d)); [exact Hhi|].
    apply Hs; unfold n in *; lia. }
  cbn [Nat.add]. unfold gen_sigmoidal_curve_at_x. cbv zeta.
  rewrite (binary_search_correct O T xs t Hs) by (unfold n in *; lia).
  assert (Hk : count_le O t xs = S i).
  { apply (count_le_sorted_aux O T xs t xs (S i)); [unfold n in *; lia| |].
    - intros j Hj. apply (fle_trans O T _ (nth i xs d)); [apply Hs; unfold n in *; lia | exact Hlo].
    - intros j Hj1 Hj2. apply (flt_le_trans O T _ (nth (S i) xs d)); [exact Hhi | apply Hs; unfold n in *; lia]. }
  rewrite Hk. replace (Z.of_nat (S i) - 1)%Z with (Z.of_nat i) by lia.
  rewrite !zget_of_nat. rewrite !get_clamp_lt by (rewrite ?zdiff_length; unfold n in *; lia).
  rewrite !nth_zdiff by (unfold n in *; lia). reflexivity.
Qed.

(* constant outside the points *)
Theorem sigmoidal_outside (sig : F -> F) (t : F) (xs ys : list F) :
  strictly_sorted xs -> (2 <= length xs)%nat -> length ys = length xs ->
  (t <= nth 0 xs (f0 O) -> gen_interpolate_sigmoidal O sig t xs ys = nth 0 ys (f0 O))
  /\ (nth (length xs - 1) xs (f0 O) < t -> gen_interpolate_sigmoidal O sig t xs ys = nth (length xs - 1) ys (f0 O)).
Proof.
  intros Hss Hn Hy. pose proof (strictly_sorted_sorted xs Hss) as Hs.
  set (n := length xs) in *. set (d := f0 O) in *.
  assert (H0l : nth 0 xs d < nth (n - 1) xs d) by (apply Hss; unfold n in *; lia).
  unfold gen_interpolate_sigmoidal, gen_bounds_state.
  rewrite (zget_zero xs), (zget_last xs) by (unfold n in *; lia). fold n. fold d.
  rewrite (zget_zero ys), (zget_last ys) by (unfold n in *; lia). rewrite Hy. fold n.
  rewrite !get_clamp_lt by (unfold n in *; lia). fold d. split; intro H.
  - assert (fltb O (nth 0 xs d) t = false) as -> by (apply (fltb_false O T); exact H).
    assert (fltb O (nth (n - 1) xs d) t = false) as ->.
    { apply (fltb_false O T). apply (fle_trans O T _ (nth 0 xs d)); [exact H | apply (flt_le O T); exact H0l]. }
    reflexivity.
  - assert (fltb O (nth (n - 1) xs d) t = true) as -> by (apply (fltb_true O T); exact H).
    assert (fltb O (nth 0 xs d) t = true) as ->.
    { apply (fltb_true O T). apply (flt_le_trans O T _ (nth (n - 1) xs d)); [exact H0l | apply (flt_le O T); exact H]. }
    reflexivity.
Qed.

(* the curve passes through every interior point whenever sig 0 = 0 *)
Theorem sigmoidal_through_points (sig : F -> F) (xs ys : list F) (k : nat) :
  sig (f0 O) = f0 O ->
  strictly_sorted xs -> (S k < length xs)%nat -> (1 <= k)%nat -> length ys = length xs ->
  gen_interpolate_sigmoidal O sig (nth k xs (f0 O)) xs ys = nth k ys (f0 O).
Proof.
  intros Hsig Hss Hk Hk1 Hy.
  rewrite (sigmoidal_segment sig _ xs ys k Hss Hk Hy).
  - replace (fdiv O (fsub O (nth k xs (f0 O)) (nth k xs (f0 O))) (fsub O (nth (S k) xs (f0 O)) (nth k xs (f0 O))))
      with (f0 O) by (rewrite (Fdiv_def (Fth O T)); ring).
    rewrite Hsig. ring.
  - apply Hss; lia.
  - apply (fle_refl O T).
  - apply Hss; lia.
Qed.

(* on a segment the value is y_i + s (y_(i+1) - y_i) with s = sig(relative position): if sig maps
   into [0,1] the curve stays within the two neighbouring values *)
Lemma convex_between (a b s : F) :
  f0 O <= s -> s <= f1 O -> a <= b ->
  a <= fadd O a (fmul O s (fsub O b a)) /\ fadd O a (fmul O s (fsub O b a)) <= b.
Proof.
  intros Hs0 Hs1 Hab.
  assert (Hd : f0 O <= fsub O b a).
  { pose proof (fle_add O T a b (fopp O a) Hab) as H. replace (fadd O a (fopp O a)) with (f0 O) in H by ring.
    replace (fadd O b (fopp O a)) with (fsub O b a) in H by ring. exact H. }
  split.
  - pose proof (fle_mul O T _ _ Hs0 Hd) as H. pose proof (fle_add O T _ _ a H) as H'.
    replace (fadd O (f0 O) a) with a in H' by ring.
    replace (fadd O (fmul O s (fsub O b a)) a) with (fadd O a (fmul O s (fsub O b a))) in H' by ring. exact H'.
  - assert (H1 : f0 O <= fsub O (f1 O) s).
    { pose proof (fle_add O T s (f1 O) (fopp O s) Hs1) as H. replace (fadd O s (fopp O s)) with (f0 O) in H by ring.
      replace (fadd O (f1 O) (fopp O s)) with (fsub O (f1 O) s) in H by ring. exact H. }
    pose proof (fle_mul O T _ _ H1 Hd) as H. pose proof (fle_add O T _ _ (fadd O a (fmul O s (fsub O b a))) H) as H'.
    replace (fadd O (f0 O) (fadd O a (fmul O s (fsub O b a)))) with (fadd O a (fmul O s (fsub O b a))) in H' by ring.
    replace (fadd O (fmul O (fsub O (f1 O) s) (fsub O b a)) (fadd O a (fmul O s (fsub O b a)))) with b in H' by ring.
    exact H'.
Qed.

(* the linear interpolator is the sigmoidal skeleton with the identity shape *)
Theorem linear_is_identity_shape (t : F) (xs ys : list F) :
  gen_interpolate_linear O t xs ys = gen_interpolate_sigmoidal O (fun r => r) t xs ys.
Proof. reflexivity. Qed.

(* the normalised sigmoid of make_norm_sigmoid satisfies sig 0 = 0 for every curvature, and
   sig 1 = 1 whenever the exponential satisfies exp(-a) = 1/exp(a) (and the scale is defined) *)
Theorem norm_sigmoid_0 (fexp : F -> F) (c : F) :
  gen_norm_sigmoid O fexp c (f0 O) = f0 O.
Proof.
  unfold gen_norm_sigmoid. cbv zeta. rewrite (Fdiv_def (Fth O T)). ring.
Qed.

End Interp.
