(* C19 on the tracing model: the binding-time check excludes concretisation errors, and the traced
   program - obtained without access to the run-time inputs - computes what the eager program
   computes, for every value of those inputs. *)
From Coq Require Import QArith ZArith List String Bool Arith Lia.
Import ListNotations.
From S2 Require Import Model.Trace.
Local Open Scope nat_scope.
Local Notation length := List.length.

(* ------------------------------------------------------------------ binding-time soundness *)
Definition known (tv : tval) : Prop := exists v, tv = Known v.

Definition agrees (g : benv) (r : tenv) : Prop :=
  forall x t, lookup x g = Some t -> exists tv, lookup x r = Some tv /\ (t = St -> known tv).

Definition ok_for (t : bt) (o : outcome) : Prop :=
  match o with
  | Ok tv => t = St -> known tv
  | Conc _ => False
  | Other _ => True
  end.

Lemma agrees_cons g r x t tv : agrees g r -> (t = St -> known tv) -> agrees ((x, t) :: g) ((x, tv) :: r).
Proof.
  intros H Hk y ty. cbn [lookup]. destruct (String.eqb y x).
  - intro E. injection E as <-. exists tv. split; [reflexivity|exact Hk].
  - apply H.
Qed.

Lemma bjoin_st a b : bjoin a b = St -> a = St /\ b = St.
Proof. destruct a, b; cbn; intro H; try discriminate; split; reflexivity. Qed.

Lemma ok_for_weaken t t' o : ok_for t' o -> (t = St -> t' = St) -> ok_for t o.
Proof. destruct o; cbn; auto. Qed.

Lemma ok_for_dy o : (forall w, o <> Conc w) -> ok_for Dy o.
Proof. destruct o; cbn; intro H; [discriminate | exact (H what eq_refl) | exact I]. Qed.

Section Proofs.
Variable ext : string -> val -> option val.
Variable fuel : nat.
Notation pe := (pe ext fuel).
Notation ev := (ev ext fuel).

Ltac sub IH g r Hag E name :=
  let H := fresh "H" name in
  pose proof (IH g r _ Hag E) as H;
  let tv := fresh "tv" name in
  destruct (pe r _) as [tv|?|?] in H |- *; cbn [bindo]; [| exact H | exact I].

Theorem bt_sound : forall e g r t, agrees g r -> bt_check g e = Some t -> ok_for t (pe r e).
Proof.
  induction e as [x | v | op a IHa | op a IHa b IHb | op a IHa b IHb c IHc | a IHa | x a IHa body IHb
                  | a IHa b IHb | a IHa | a IHa | c IHc a IHa b IHb | a IHa | n IHn | c IHc a IHa b IHb
                  | a IHa | x c IHc body IHb init IHi | f sh a IHa];
    intros g r t Hag E; cbn [bt_check] in E; cbn [Trace.pe].
  - destruct (Hag x t E) as [tv [-> Hk]]. exact Hk.
  - injection E as <-. intros _. exists v. reflexivity.
  - pose proof (IHa g r t Hag E) as Ha. destruct (pe r a) as [ta|w|w]; cbn [bindo]; [|exact Ha|exact I].
    destruct ta as [v|sh f].
    + destruct (sem1 op v); cbn; [intros _; eexists; reflexivity|exact I].
    + destruct (shape1 op sh); cbn; [|exact I]. intro Hs. destruct (Ha Hs) as [v Hv]. discriminate.
  - destruct (bt_check g a) as [ta'|] eqn:Ea; [|discriminate]. destruct (bt_check g b) as [tb'|] eqn:Eb; [|discriminate].
    injection E as <-.
    pose proof (IHa g r _ Hag Ea) as Ha. destruct (pe r a) as [ta|w|w]; cbn [bindo]; [|exact Ha|exact I].
    pose proof (IHb g r _ Hag Eb) as Hb. destruct (pe r b) as [tb|w|w]; cbn [bindo]; [|exact Hb|exact I].
    cbn in Ha, Hb.
    destruct ta as [x|sa fa], tb as [y|sb fb];
      try (destruct (shape2 op _ _); cbn; [|exact I]; intro Hs; destruct (bjoin_st _ _ Hs) as [H1 H2];
           first [destruct (Ha H1) as [? ?]; discriminate | destruct (Hb H2) as [? ?]; discriminate]).
    destruct (sem2 op x y); cbn; [intros _; eexists; reflexivity|exact I].
  - destruct (bt_check g a) as [ta'|] eqn:Ea; [|discriminate]. destruct (bt_check g b) as [tb'|] eqn:Eb; [|discriminate].
    destruct (bt_check g c) as [tc'|] eqn:Ec; [|discriminate]. injection E as <-.
    pose proof (IHa g r _ Hag Ea) as Ha. destruct (pe r a) as [ta|w|w]; cbn [bindo]; [|exact Ha|exact I].
    pose proof (IHb g r _ Hag Eb) as Hb. destruct (pe r b) as [tb|w|w]; cbn [bindo]; [|exact Hb|exact I].
    pose proof (IHc g r _ Hag Ec) as Hc. destruct (pe r c) as [tc|w|w]; cbn [bindo]; [|exact Hc|exact I].
    cbn in Ha, Hb, Hc.
    destruct ta as [x|sa fa], tb as [y|sb fb], tc as [z|sc fc];
      try (destruct (shape3 op _ _ _); cbn; [|exact I]; intro Hs; destruct (bjoin_st _ _ Hs) as [H1 H23];
           destruct (bjoin_st _ _ H23) as [H2 H3];
           first [destruct (Ha H1) as [? ?]; discriminate | destruct (Hb H2) as [? ?]; discriminate
                 | destruct (Hc H3) as [? ?]; discriminate]).
    destruct (sem3 op x y z); cbn; [intros _; eexists; reflexivity|exact I].
  - destruct (bt_check g a) as [ta'|] eqn:Ea; [|discriminate]. injection E as <-.
    pose proof (IHa g r _ Hag Ea) as Ha. destruct (pe r a) as [ta|w|w]; cbn [bindo]; [|exact Ha|exact I].
    destruct (tshape ta); cbn; try exact I. intros _. eexists; reflexivity.
  - destruct (bt_check g a) as [ta'|] eqn:Ea; [|discriminate].
    pose proof (IHa g r _ Hag Ea) as Ha. destruct (pe r a) as [ta|w|w]; cbn [bindo]; [|exact Ha|exact I].
    apply (IHb ((x, ta') :: g) ((x, ta) :: r) t); [apply agrees_cons; assumption | exact E].
  - destruct (bt_check g a) as [ta'|] eqn:Ea; [|discriminate]. destruct (bt_check g b) as [tb'|] eqn:Eb; [|discriminate].
    injection E as <-.
    pose proof (IHa g r _ Hag Ea) as Ha. destruct (pe r a) as [ta|w|w]; cbn [bindo]; [|exact Ha|exact I].
    pose proof (IHb g r _ Hag Eb) as Hb. destruct (pe r b) as [tb|w|w]; cbn [bindo]; [|exact Hb|exact I].
    cbn in Ha, Hb.
    destruct ta as [x|sa fa], tb as [y|sb fb]; cbn;
      try (intro Hs; destruct (bjoin_st _ _ Hs) as [H1 H2];
           first [destruct (Ha H1) as [? ?]; discriminate | destruct (Hb H2) as [? ?]; discriminate]).
    intros _; eexists; reflexivity.
  - pose proof (IHa g r t Hag E) as Ha. destruct (pe r a) as [ta|w|w]; cbn [bindo]; [|exact Ha|exact I].
    destruct ta as [[q|l|x y]|[|n|sa sb] f]; cbn; try exact I.
    + intros _; eexists; reflexivity.
    + intro Hs. destruct (Ha Hs) as [? ?]. discriminate.
  - pose proof (IHa g r t Hag E) as Ha. destruct (pe r a) as [ta|w|w]; cbn [bindo]; [|exact Ha|exact I].
    destruct ta as [[q|l|x y]|[|n|sa sb] f]; cbn; try exact I.
    + intros _; eexists; reflexivity.
    + intro Hs. destruct (Ha Hs) as [? ?]. discriminate.
  - destruct (bt_check g c) as [[|]|] eqn:Ec; try discriminate.
    destruct (bt_check g a) as [ta'|] eqn:Ea; [|discriminate]. destruct (bt_check g b) as [tb'|] eqn:Eb; [|discriminate].
    injection E as <-.
    pose proof (IHc g r _ Hag Ec) as Hc. destruct (pe r c) as [tc|w|w]; cbn [bindo]; [|exact Hc|exact I].
    cbn in Hc. destruct (Hc eq_refl) as [vc ->]. destruct vc as [q|l|x y]; try exact I.
    destruct (qtrue q).
    + eapply ok_for_weaken; [apply (IHa g r _ Hag Ea)|]. intro Hs. apply (bjoin_st _ _ Hs).
    + eapply ok_for_weaken; [apply (IHb g r _ Hag Eb)|]. intro Hs. apply (bjoin_st _ _ Hs).
  - destruct (bt_check g a) as [[|]|] eqn:Ea; try discriminate. injection E as <-.
    pose proof (IHa g r _ Hag Ea) as Ha. destruct (pe r a) as [ta|w|w]; cbn [bindo]; [|exact Ha|exact I].
    cbn in Ha. destruct (Ha eq_refl) as [va ->]. destruct va; cbn; try exact I. intros _; eexists; reflexivity.
  - destruct (bt_check g n) as [[|]|] eqn:En; try discriminate. injection E as <-.
    pose proof (IHn g r _ Hag En) as Hn. destruct (pe r n) as [tn|w|w]; cbn [bindo]; [|exact Hn|exact I].
    cbn in Hn. destruct (Hn eq_refl) as [vn ->]. destruct vn; cbn; try exact I. intros _; eexists; reflexivity.
  - destruct (bt_check g c) as [tc'|] eqn:Ec; [|discriminate]. destruct (bt_check g a) as [ta'|] eqn:Ea; [|discriminate].
    destruct (bt_check g b) as [tb'|] eqn:Eb; [|discriminate]. injection E as <-.
    pose proof (IHc g r _ Hag Ec) as Hc. destruct (pe r c) as [tc|w|w]; cbn [bindo]; [|exact Hc|exact I].
    pose proof (IHa g r _ Hag Ea) as Ha. destruct (pe r a) as [ta|w|w]; cbn [bindo]; [|exact Ha|exact I].
    pose proof (IHb g r _ Hag Eb) as Hb. destruct (pe r b) as [tb|w|w]; cbn [bindo]; [|exact Hb|exact I].
    apply ok_for_dy. intros w. destruct (tshape tc); try discriminate. destruct (shape_eqb _ _); discriminate.
  - destruct (bt_check g a) as [ta'|] eqn:Ea; [|discriminate]. injection E as <-.
    pose proof (IHa g r _ Hag Ea) as Ha. destruct (pe r a) as [ta|w|w]; cbn [bindo]; [|exact Ha|exact I].
    cbn. discriminate.
  - destruct (bt_check g init) as [ti'|] eqn:Ei; [|discriminate].
    destruct (bt_check ((x, Dy) :: g) c) as [tc'|] eqn:Ec; [|discriminate].
    destruct (bt_check ((x, Dy) :: g) body) as [tb'|] eqn:Eb; [|discriminate]. injection E as <-.
    pose proof (IHi g r _ Hag Ei) as Hi. destruct (pe r init) as [ti|w|w]; cbn [bindo]; [|exact Hi|exact I].
    cbn zeta.
    assert (Hag' : agrees ((x, Dy) :: g) ((x, Traced (tshape ti) (fun _ => None)) :: r))
      by (apply agrees_cons; [exact Hag | discriminate]).
    pose proof (IHc _ _ _ Hag' Ec) as Hc. destruct (pe _ c) as [tc|w|w]; cbn [bindo]; [|exact Hc|exact I].
    pose proof (IHb _ _ _ Hag' Eb) as Hb. destruct (pe _ body) as [tb|w|w]; cbn [bindo]; [|exact Hb|exact I].
    apply ok_for_dy. intros w. destruct (shape_eqb _ _); [|discriminate]. destruct (tshape tc); discriminate.
  - destruct (bt_check g a) as [ta'|] eqn:Ea; [|discriminate]. injection E as <-.
    pose proof (IHa g r _ Hag Ea) as Ha. destruct (pe r a) as [ta|w|w]; cbn [bindo]; [|exact Ha|exact I].
    cbn. discriminate.
Qed.

(* a kernel that passes the check can be traced whatever the shapes and values of its dynamic inputs *)
Corollary checked_never_concretizes g e t r :
  bt_check g e = Some t -> agrees g r -> forall w, pe r e <> Conc w.
Proof.
  intros E Hag w Hw. pose proof (bt_sound e g r t Hag E) as H. rewrite Hw in H. exact H.
Qed.

End Proofs.

(* ------------------------------------------------------------------ the traced program is right *)
Definition wf_t (tv : tval) : Prop := forall s v, force tv s = Some v -> shape_of v = tshape tv.
Definition wf_env (r : tenv) : Prop := forall x tv, lookup x r = Some tv -> wf_t tv.

Lemma wf_known v : wf_t (Known v).
Proof. intros s w H. cbn in H. injection H as <-. reflexivity. Qed.

Lemma wf_env_cons r x tv : wf_env r -> wf_t tv -> wf_env ((x, tv) :: r).
Proof.
  intros H Ht y t. cbn [lookup]. destruct (String.eqb y x); [intro E; injection E as <-; exact Ht | apply H].
Qed.

Lemma shape_eqb_eq a : forall b, shape_eqb a b = true -> a = b.
Proof.
  induction a as [|n|a1 IH1 a2 IH2]; intros [|m|b1 b2]; cbn; intro H; try discriminate; try reflexivity.
  - apply Nat.eqb_eq in H. subst; reflexivity.
  - apply andb_true_iff in H as [H1 H2]. rewrite (IH1 _ H1), (IH2 _ H2). reflexivity.
Qed.

Lemma zip_with_length {A B C} (f : A -> B -> C) a : forall b, length a = length b -> length (zip_with f a b) = length a.
Proof. induction a as [|x a IH]; intros [|y b]; cbn; intro H; try discriminate; [reflexivity|]. rewrite IH; [reflexivity|lia]. Qed.

Lemma set_nth_length l : forall i v, length (set_nth l i v) = length l.
Proof. induction l as [|h t IH]; intros [|i] v; cbn; try reflexivity. rewrite IH. reflexivity. Qed.

Lemma sem1_shape op v w : sem1 op v = Some w -> shape1 op (shape_of v) = Some (shape_of w).
Proof.
  destruct op, v; cbn; intro H; try discriminate; injection H as <-; cbn; rewrite ?map_length; reflexivity.
Qed.

Lemma sem2_shape op a b w : sem2 op a b = Some w -> shape2 op (shape_of a) (shape_of b) = Some (shape_of w).
Proof.
  destruct op, a as [x|l1|a1 a2], b as [y|l2|b1 b2]; cbn; intro H; try discriminate;
    try (injection H as <-; cbn; rewrite ?map_length; reflexivity);
    destruct (Nat.eqb (length l1) (length l2)) eqn:E; try discriminate; injection H as <-; cbn;
    apply Nat.eqb_eq in E; rewrite zip_with_length by exact E; reflexivity.
Qed.

Lemma sem3_shape op a b c w : sem3 op a b c = Some w -> shape3 op (shape_of a) (shape_of b) (shape_of c) = Some (shape_of w).
Proof.
  destruct op, a as [p|p|a1 a2], b as [x|x|b1 b2], c as [y|y|c1 c2]; cbn; intro H; try discriminate;
    try (injection H as <-; cbn; rewrite ?map_length; reflexivity).
  - destruct (Nat.eqb (length p) (length y)) eqn:E; [|discriminate]. injection H as <-. cbn.
    apply Nat.eqb_eq in E. rewrite zip_with_length by exact E. reflexivity.
  - destruct (Nat.eqb (length p) (length x)) eqn:E; [|discriminate]. injection H as <-. cbn.
    apply Nat.eqb_eq in E. rewrite zip_with_length by exact E. reflexivity.
  - destruct (Nat.eqb (length p) (length x)) eqn:E1; [|discriminate].
    destruct (Nat.eqb (length p) (length y)) eqn:E2; [|discriminate]. cbn in H. injection H as <-. cbn.
    apply Nat.eqb_eq in E1. apply Nat.eqb_eq in E2.
    rewrite zip_with_length; [reflexivity|]. rewrite zip_with_length; congruence.
  - destruct (_ && _)%bool; injection H as <-; cbn; rewrite ?set_nth_length; reflexivity.
Qed.

Lemma inst_lookup r s : forall re x tv, inst r s = Some re -> lookup x r = Some tv ->
  exists v, force tv s = Some v /\ lookup x re = Some v.
Proof.
  induction r as [|[y t] r IH]; intros re x tv Hi Hl; cbn in *; [discriminate|].
  destruct (force t s) as [v|] eqn:Ef; [|discriminate]. destruct (inst r s) as [re'|] eqn:Ei; [|discriminate].
  injection Hi as <-. cbn [lookup]. destruct (String.eqb x y).
  - injection Hl as <-. exists v. split; [exact Ef|reflexivity].
  - apply (IH re' x tv eq_refl Hl).
Qed.

Section Correct.
Variable ext : string -> val -> option val.
Variable fuel : nat.
Notation pe := (pe ext fuel).
Notation ev := (ev ext fuel).

Lemma iter_while_shape n c b : forall v w, iter_while n c b v = Some w -> shape_of w = shape_of v.
Proof.
  induction n as [|k IH]; intros v w H; cbn in H; [discriminate|].
  destruct (c v) as [[q|l|x y]|]; try discriminate. destruct (qtrue q).
  - destruct (b v) as [v'|]; [|discriminate]. destruct (shape_eqb (shape_of v') (shape_of v)) eqn:E; [|discriminate].
    rewrite (IH _ _ H). apply shape_eqb_eq. exact E.
  - injection H as <-. reflexivity.
Qed.

Definition correct (r : tenv) (e : exp) (tv : tval) : Prop :=
  wf_t tv /\ forall s re v, inst r s = Some re -> ev re e = Some v -> force tv s = Some v.

Theorem pe_correct : forall e r tv, wf_env r -> pe r e = Ok tv -> correct r e tv.
Proof.
  induction e as [x | v | op a IHa | op a IHa b IHb | op a IHa b IHb c IHc | a IHa | x a IHa body IHb
                  | a IHa b IHb | a IHa | a IHa | c IHc a IHa b IHb | a IHa | n IHn | c IHc a IHa b IHb
                  | a IHa | x c IHc body IHb init IHi | f sh a IHa];
    intros r tv W E; cbn [Trace.pe] in E.
  - destruct (lookup x r) as [t|] eqn:El; [|discriminate]. injection E as <-. split; [apply (W x t El)|].
    intros s re v Hi Hv. cbn in Hv. destruct (inst_lookup r s re x t Hi El) as [v' [Hf Hl]]. congruence.
  - injection E as <-. split; [apply wf_known|]. intros s re w _ Hv. cbn in Hv. exact Hv.
  - destruct (pe r a) as [ta|w|w] eqn:Ea; cbn [bindo] in E; try discriminate.
    destruct (IHa r ta W Ea) as [Wa Ca]. destruct ta as [v|sh f].
    + destruct (sem1 op v) as [w|] eqn:Es; [|discriminate]. injection E as <-. split; [apply wf_known|].
      intros s re v' Hi Hv. cbn in Hv. destruct (Trace.ev ext fuel re a) as [va|] eqn:Eva; [|discriminate].
      pose proof (Ca s re va Hi Eva) as Hf. cbn in Hf. injection Hf as <-. cbn. congruence.
    + destruct (shape1 op sh) as [sh'|] eqn:Es; [|discriminate]. injection E as <-. split.
      * intros s v Hv. cbn in Hv. destruct (f s) as [va|] eqn:Ef; [|discriminate].
        pose proof (Wa s va Ef) as Hsh. cbn in Hsh. pose proof (sem1_shape _ _ _ Hv) as H1. rewrite Hsh in H1. cbn. congruence.
      * intros s re v' Hi Hv. cbn in Hv. destruct (Trace.ev ext fuel re a) as [va|] eqn:Eva; [|discriminate].
        pose proof (Ca s re va Hi Eva) as Hf. cbn in Hf. cbn. rewrite Hf. exact Hv.
  - destruct (pe r a) as [ta|w|w] eqn:Ea; cbn [bindo] in E; try discriminate.
    destruct (pe r b) as [tb|w|w] eqn:Eb; cbn [bindo] in E; try discriminate.
    destruct (IHa r ta W Ea) as [Wa Ca]. destruct (IHb r tb W Eb) as [Wb Cb].
    assert (Gen : forall sh', shape2 op (tshape ta) (tshape tb) = Some sh' ->
              correct r (EP2 op a b) (Traced sh' (fun s => match force ta s, force tb s with
                                                         | Some x, Some y => sem2 op x y | _, _ => None end))).
    { intros sh' Es. split.
      - intros s v Hv. cbn in Hv. destruct (force ta s) as [x|] eqn:Efa; [|discriminate].
        destruct (force tb s) as [y|] eqn:Efb; [|discriminate].
        pose proof (sem2_shape _ _ _ _ Hv) as H1. rewrite (Wa s x Efa), (Wb s y Efb) in H1. cbn. congruence.
      - intros s re v' Hi Hv. cbn in Hv. destruct (Trace.ev ext fuel re a) as [va|] eqn:Eva; [|discriminate].
        destruct (Trace.ev ext fuel re b) as [vb|] eqn:Evb; [|discriminate].
        cbn. rewrite (Ca s re va Hi Eva), (Cb s re vb Hi Evb). exact Hv. }
    destruct ta as [x|sa fa], tb as [y|sb fb].
    2: { destruct (shape2 op _ _) as [sh'|] eqn:Es; [|discriminate]. injection E as <-. apply Gen; first [exact Es | reflexivity]. }
    2: { destruct (shape2 op _ _) as [sh'|] eqn:Es; [|discriminate]. injection E as <-. apply Gen; first [exact Es | reflexivity]. }
    2: { destruct (shape2 op _ _) as [sh'|] eqn:Es; [|discriminate]. injection E as <-. apply Gen; first [exact Es | reflexivity]. }
    destruct (sem2 op x y) as [w|] eqn:Es; [|discriminate]. injection E as <-. split; [apply wf_known|].
    intros s re v' Hi Hv. cbn in Hv. destruct (Trace.ev ext fuel re a) as [va|] eqn:Eva; [|discriminate].
    destruct (Trace.ev ext fuel re b) as [vb|] eqn:Evb; [|discriminate].
    pose proof (Ca s re va Hi Eva) as H1. pose proof (Cb s re vb Hi Evb) as H2. cbn in H1, H2.
    injection H1 as <-. injection H2 as <-. cbn. congruence.
  - destruct (pe r a) as [ta|w|w] eqn:Ea; cbn [bindo] in E; try discriminate.
    destruct (pe r b) as [tb|w|w] eqn:Eb; cbn [bindo] in E; try discriminate.
    destruct (pe r c) as [tc|w|w] eqn:Ec; cbn [bindo] in E; try discriminate.
    destruct (IHa r ta W Ea) as [Wa Ca]. destruct (IHb r tb W Eb) as [Wb Cb]. destruct (IHc r tc W Ec) as [Wc Cc].
    assert (Gen : forall sh', shape3 op (tshape ta) (tshape tb) (tshape tc) = Some sh' ->
              correct r (EP3 op a b c) (Traced sh' (fun s => match force ta s, force tb s, force tc s with
                                                         | Some x, Some y, Some z => sem3 op x y z | _, _, _ => None end))).
    { intros sh' Es. split.
      - intros s v Hv. cbn in Hv. destruct (force ta s) as [x|] eqn:Efa; [|discriminate].
        destruct (force tb s) as [y|] eqn:Efb; [|discriminate]. destruct (force tc s) as [z|] eqn:Efc; [|discriminate].
        pose proof (sem3_shape _ _ _ _ _ Hv) as H1. rewrite (Wa s x Efa), (Wb s y Efb), (Wc s z Efc) in H1. cbn. congruence.
      - intros s re v' Hi Hv. cbn in Hv. destruct (Trace.ev ext fuel re a) as [va|] eqn:Eva; [|discriminate].
        destruct (Trace.ev ext fuel re b) as [vb|] eqn:Evb; [|discriminate].
        destruct (Trace.ev ext fuel re c) as [vc|] eqn:Evc; [|discriminate].
        cbn. rewrite (Ca s re va Hi Eva), (Cb s re vb Hi Evb), (Cc s re vc Hi Evc). exact Hv. }
    destruct ta as [x|sa fa], tb as [y|sb fb], tc as [z|sc fc];
      try (destruct (shape3 op _ _ _) as [sh'|] eqn:Es; [|discriminate]; injection E as <-; apply Gen; first [exact Es | reflexivity]).
    destruct (sem3 op x y z) as [w|] eqn:Es; [|discriminate]. injection E as <-. split; [apply wf_known|].
    intros s re v' Hi Hv. cbn in Hv. destruct (Trace.ev ext fuel re a) as [va|] eqn:Eva; [|discriminate].
    destruct (Trace.ev ext fuel re b) as [vb|] eqn:Evb; [|discriminate].
    destruct (Trace.ev ext fuel re c) as [vc|] eqn:Evc; [|discriminate].
    pose proof (Ca s re va Hi Eva) as H1. pose proof (Cb s re vb Hi Evb) as H2. pose proof (Cc s re vc Hi Evc) as H3.
    cbn in H1, H2, H3. injection H1 as <-. injection H2 as <-. injection H3 as <-. cbn. congruence.
  - destruct (pe r a) as [ta|w|w] eqn:Ea; cbn [bindo] in E; try discriminate.
    destruct (IHa r ta W Ea) as [Wa Ca]. destruct (tshape ta) as [|n|] eqn:Esh; try discriminate.
    injection E as <-. split; [apply wf_known|].
    intros s re v Hi Hv. cbn in Hv. destruct (Trace.ev ext fuel re a) as [[q|l|x y]|] eqn:Eva; try discriminate.
    pose proof (Wa s _ (Ca s re _ Hi Eva)) as Hs. rewrite Esh in Hs. cbn in Hs. injection Hs as Hs. injection Hv as <-.
    cbn. rewrite Hs. reflexivity.
  - destruct (pe r a) as [ta|w|w] eqn:Ea; cbn [bindo] in E; try discriminate.
    destruct (IHa r ta W Ea) as [Wa Ca].
    destruct (IHb ((x, ta) :: r) tv (wf_env_cons _ _ _ W Wa) E) as [Wb Cb]. split; [exact Wb|].
    intros s re v Hi Hv. cbn in Hv. destruct (Trace.ev ext fuel re a) as [va|] eqn:Eva; [|discriminate].
    apply (Cb s ((x, va) :: re) v); [|exact Hv]. cbn [inst]. rewrite (Ca s re va Hi Eva), Hi. reflexivity.
  - destruct (pe r a) as [ta|w|w] eqn:Ea; cbn [bindo] in E; try discriminate.
    destruct (pe r b) as [tb|w|w] eqn:Eb; cbn [bindo] in E; try discriminate.
    destruct (IHa r ta W Ea) as [Wa Ca]. destruct (IHb r tb W Eb) as [Wb Cb].
    assert (Gen : correct r (EPair a b) (Traced (ShP (tshape ta) (tshape tb))
                     (fun s => match force ta s, force tb s with Some x, Some y => Some (VP x y) | _, _ => None end))).
    { split.
      - intros s v Hv. cbn in Hv. destruct (force ta s) as [x|] eqn:Efa; [|discriminate].
        destruct (force tb s) as [y|] eqn:Efb; [|discriminate]. injection Hv as <-. cbn.
        rewrite (Wa s x Efa), (Wb s y Efb). reflexivity.
      - intros s re v' Hi Hv. cbn in Hv. destruct (Trace.ev ext fuel re a) as [va|] eqn:Eva; [|discriminate].
        destruct (Trace.ev ext fuel re b) as [vb|] eqn:Evb; [|discriminate].
        cbn. rewrite (Ca s re va Hi Eva), (Cb s re vb Hi Evb). exact Hv. }
    destruct ta as [x|sa fa], tb as [y|sb fb]; cbn iota in E.
    2: { injection E as <-; exact Gen. }
    2: { injection E as <-; exact Gen. }
    2: { injection E as <-; exact Gen. }
    injection E as <-. split; [apply wf_known|].
    intros s re v' Hi Hv. cbn in Hv. destruct (Trace.ev ext fuel re a) as [va|] eqn:Eva; [|discriminate].
    destruct (Trace.ev ext fuel re b) as [vb|] eqn:Evb; [|discriminate].
    pose proof (Ca s re va Hi Eva) as H1. pose proof (Cb s re vb Hi Evb) as H2. cbn in H1, H2.
    injection H1 as <-. injection H2 as <-. cbn. exact Hv.
  - destruct (pe r a) as [ta|w|w] eqn:Ea; cbn [bindo] in E; try discriminate.
    destruct (IHa r ta W Ea) as [Wa Ca]. destruct ta as [[q|l|x y]|[|n|sa sb] f]; try discriminate; injection E as <-.
    + split; [apply wf_known|]. intros s re v Hi Hv. cbn in Hv.
      destruct (Trace.ev ext fuel re a) as [[q|l|x' y']|] eqn:Eva; try discriminate.
      pose proof (Ca s re _ Hi Eva) as H1. cbn in H1. injection H1 as <- <-. cbn. exact Hv.
    + split.
      * intros s v Hv. cbn in Hv. destruct (f s) as [[q|l|x y]|] eqn:Ef; try discriminate. injection Hv as <-.
        pose proof (Wa s _ Ef) as Hs. cbn in Hs. injection Hs as Hs _. exact Hs.
      * intros s re v Hi Hv. cbn in Hv. destruct (Trace.ev ext fuel re a) as [[q|l|x y]|] eqn:Eva; try discriminate.
        pose proof (Ca s re _ Hi Eva) as H1. cbn in H1. cbn. rewrite H1. exact Hv.
  - destruct (pe r a) as [ta|w|w] eqn:Ea; cbn [bindo] in E; try discriminate.
    destruct (IHa r ta W Ea) as [Wa Ca]. destruct ta as [[q|l|x y]|[|n|sa sb] f]; try discriminate; injection E as <-.
    + split; [apply wf_known|]. intros s re v Hi Hv. cbn in Hv.
      destruct (Trace.ev ext fuel re a) as [[q|l|x' y']|] eqn:Eva; try discriminate.
      pose proof (Ca s re _ Hi Eva) as H1. cbn in H1. injection H1 as <- <-. cbn. exact Hv.
    + split.
      * intros s v Hv. cbn in Hv. destruct (f s) as [[q|l|x y]|] eqn:Ef; try discriminate. injection Hv as <-.
        pose proof (Wa s _ Ef) as Hs. cbn in Hs. injection Hs as _ Hs. exact Hs.
      * intros s re v Hi Hv. cbn in Hv. destruct (Trace.ev ext fuel re a) as [[q|l|x y]|] eqn:Eva; try discriminate.
        pose proof (Ca s re _ Hi Eva) as H1. cbn in H1. cbn. rewrite H1. exact Hv.
  - destruct (pe r c) as [tc|w|w] eqn:Ec; cbn [bindo] in E; try discriminate.
    destruct (IHc r tc W Ec) as [Wc Cc]. destruct tc as [[q|l|x y]|sh f]; try discriminate.
    destruct (qtrue q) eqn:Eq.
    + destruct (IHa r tv W E) as [Wa Ca]. split; [exact Wa|]. intros s re v Hi Hv. cbn in Hv.
      destruct (Trace.ev ext fuel re c) as [[q'|l|x y]|] eqn:Evc; try discriminate.
      pose proof (Cc s re _ Hi Evc) as H1. cbn in H1. injection H1 as <-. rewrite Eq in Hv. apply (Ca s re v Hi Hv).
    + destruct (IHb r tv W E) as [Wb Cb]. split; [exact Wb|]. intros s re v Hi Hv. cbn in Hv.
      destruct (Trace.ev ext fuel re c) as [[q'|l|x y]|] eqn:Evc; try discriminate.
      pose proof (Cc s re _ Hi Evc) as H1. cbn in H1. injection H1 as <-. rewrite Eq in Hv. apply (Cb s re v Hi Hv).
  - destruct (pe r a) as [ta|w|w] eqn:Ea; cbn [bindo] in E; try discriminate.
    destruct (IHa r ta W Ea) as [Wa Ca]. destruct ta as [[q|l|x y]|sh f]; try discriminate. injection E as <-.
    split; [apply wf_known|]. intros s re v Hi Hv. cbn in Hv.
    destruct (Trace.ev ext fuel re a) as [[q'|l|x y]|] eqn:Eva; try discriminate.
    pose proof (Ca s re _ Hi Eva) as H1. cbn in H1. injection H1 as <-. cbn. exact Hv.
  - destruct (pe r n) as [tn|w|w] eqn:En; cbn [bindo] in E; try discriminate.
    destruct (IHn r tn W En) as [Wn Cn]. destruct tn as [[q|l|x y]|sh f]; try discriminate. injection E as <-.
    split; [apply wf_known|]. intros s re v Hi Hv. cbn in Hv.
    destruct (Trace.ev ext fuel re n) as [[q'|l|x y]|] eqn:Evn; try discriminate.
    pose proof (Cn s re _ Hi Evn) as H1. cbn in H1. injection H1 as <-. cbn. exact Hv.
  - destruct (pe r c) as [tc|w|w] eqn:Ec; cbn [bindo] in E; try discriminate.
    destruct (pe r a) as [ta|w|w] eqn:Ea; cbn [bindo] in E; try discriminate.
    destruct (pe r b) as [tb|w|w] eqn:Eb; cbn [bindo] in E; try discriminate.
    destruct (IHc r tc W Ec) as [Wc Cc]. destruct (IHa r ta W Ea) as [Wa Ca]. destruct (IHb r tb W Eb) as [Wb Cb].
    destruct (tshape tc) eqn:Esc; try discriminate.
    destruct (shape_eqb (tshape ta) (tshape tb)) eqn:Esh; [|discriminate]. injection E as <-.
    apply shape_eqb_eq in Esh. split.
    + intros s v Hv. cbn in Hv. destruct (force tc s) as [[q|l|x y]|]; try discriminate.
      destruct (qtrue q); cbn; [apply (Wa s v Hv) | rewrite Esh; apply (Wb s v Hv)].
    + intros s re v Hi Hv. cbn in Hv. destruct (Trace.ev ext fuel re c) as [[q|l|x y]|] eqn:Evc; try discriminate.
      cbn. rewrite (Cc s re _ Hi Evc). destruct (qtrue q); [apply (Ca s re v Hi Hv) | apply (Cb s re v Hi Hv)].
  - destruct (pe r a) as [ta|w|w] eqn:Ea; cbn [bindo] in E; try discriminate.
    destruct (IHa r ta W Ea) as [Wa Ca]. injection E as <-. split.
    + intros s v Hv. cbn in Hv. cbn. apply (Wa s v Hv).
    + intros s re v Hi Hv. cbn in Hv. cbn. apply (Ca s re v Hi Hv).
  - destruct (pe r init) as [ti|w|w] eqn:Ei; cbn [bindo] in E; try discriminate. cbn zeta in E.
    destruct (IHi r ti W Ei) as [Wi Ci].
    destruct (pe ((x, Traced (tshape ti) (fun _ => None)) :: r) c) as [tc|w|w] eqn:Ec; cbn [bindo] in E; try discriminate.
    destruct (pe ((x, Traced (tshape ti) (fun _ => None)) :: r) body) as [tb|w|w] eqn:Eb; cbn [bindo] in E; try discriminate.
    destruct (shape_eqb (tshape tb) (tshape ti)); [|discriminate]. destruct (tshape tc); try discriminate.
    injection E as <-. split.
    + intros s v Hv. cbn in Hv. destruct (force ti s) as [v0|] eqn:Ef; [|discriminate].
      destruct (inst r s) as [re|]; [|discriminate]. cbn. rewrite (iter_while_shape _ _ _ _ _ Hv). apply (Wi s v0 Ef).
    + intros s re v Hi Hv. cbn in Hv. destruct (Trace.ev ext fuel re init) as [v0|] eqn:Evi; [|discriminate].
      cbn. rewrite (Ci s re v0 Hi Evi), Hi. exact Hv.
  - destruct (pe r a) as [ta|w|w] eqn:Ea; cbn [bindo] in E; try discriminate.
    destruct (IHa r ta W Ea) as [Wa Ca]. injection E as <-. split.
    + intros s v Hv. cbn in Hv. destruct (force ta s) as [va|]; [|discriminate]. destruct (ext f va) as [w|]; [|discriminate].
      destruct (shape_eqb (shape_of w) sh) eqn:Es; [|discriminate]. injection Hv as <-. cbn. apply shape_eqb_eq. exact Es.
    + intros s re v Hi Hv. cbn in Hv. destruct (Trace.ev ext fuel re a) as [va|] eqn:Eva; [|discriminate].
      cbn. rewrite (Ca s re va Hi Eva). exact Hv.
Qed.

End Correct.
