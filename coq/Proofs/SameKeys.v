(* C06: in every model the build API produces, compartments of one name carry the same stratifications, and therefore
   a compartment lies in exactly one group of a population-split adjustment. *)
From Coq Require Import QArith List String Bool Arith Lia.
Import ListNotations.
From S2 Require Import Base.Num Base.Arr Model.Expr Model.Struct Model.InitPop Model.Program
     Proofs.ArrLemmas Proofs.BuildProofs Proofs.RebalanceProofs.
Local Open Scope nat_scope.
Local Notation length := List.length.

Definition same_keys (cs : list comp) : Prop :=
  forall c c', In c cs -> In c' cs -> c_name c = c_name c' -> keys_of c = keys_of c'.

Lemma same_keys_stratify s cs :
  same_keys cs -> (forall c, In c cs -> ~ In (s_name s) (keys_of c)) -> same_keys (stratify_comps s cs).
Proof.
  intros H Hfresh a a' Ha Ha' En.
  apply in_stratify_comps in Ha. apply in_stratify_comps in Ha'.
  destruct Ha as [c [Hc Hca]], Ha' as [c' [Hc' Hca']].
  assert (Names : forall x y st, y = stratify_comp x (s_name s) st -> c_name y = c_name x) by (intros x y st ->; reflexivity).
  destruct Hca as [[Hn [st [_ ->]]]|[Hn ->]], Hca' as [[Hn' [st' [_ ->]]]|[Hn' ->]].
  - cbn [stratify_comp c_name] in En. rewrite !stratify_comp_keys by (apply Hfresh; assumption). f_equal. apply H; assumption.
  - cbn [stratify_comp c_name] in En. unfold has_name_in_list in Hn, Hn'. rewrite En in Hn. congruence.
  - cbn [stratify_comp c_name] in En. unfold has_name_in_list in Hn, Hn'. rewrite En in Hn. congruence.
  - apply H; assumption.
Qed.

Lemma same_keys_apply_op m o m' : wf m -> same_keys (m_comps m) -> apply_op m o = Ok m' -> same_keys (m_comps m').
Proof.
  intros W S H.
  assert (K : m_comps m' = m_comps m \/ exists s0, o = OpStrat s0).
  { destruct o; cbn [apply_op] in H.
    - left. unfold set_initial_population, not_finalized, bind in H. inv_guard H. injection H as <-. reflexivity.
    - left. unfold init_population_with_graphobject, not_finalized, bind in H. inv_guard H. injection H as <-. reflexivity.
    - left. destruct (add_flow_frame _ _ _ H) as [fl ->]. reflexivity.
    - left. destruct (add_universal_death_new _ _ _ _ H) as [new [-> _]]. reflexivity.
    - right. eexists; reflexivity.
    - left. unfold adjust_population_split, not_finalized, bind in H. inv_guard H.
      destruct (find _ (m_strats m)); [|discriminate]. inv_guard H. injection H as <-. reflexivity.
    - left. unfold request_output, not_finalized, bind in H. inv_guard H. destruct r; inv_guard H; injection H as <-; reflexivity.
    - left. injection H as <-. reflexivity.
    - left. unfold add_computed_value, bind in H. inv_guard H. injection H as <-. reflexivity.
    - left. unfold finalize, bind in H. inv_guard H. injection H as <-. reflexivity.
    - left. injection H as <-. reflexivity.
    - left. unfold add_flow_dyn, bind in H.
      assert (exists fs', add_flow m fs' = Ok m') as [fs' H'].
      { destruct (fs_kind fs); try (destruct (validate_flowparam v); [|discriminate]); eexists; exact H. }
      destruct (add_flow_frame _ _ _ H') as [fl ->]. reflexivity.
    - left. unfold add_universal_death_dyn, bind in H. destruct (validate_flowparam v) as [param|]; [|discriminate].
      destruct (add_universal_death_new _ _ _ _ H) as [new [-> _]]. reflexivity. }
  destruct K as [->|[s0 ->]]; [exact S|]. cbn [apply_op] in H.
  destruct (stratify_with_inv _ _ _ H) as [Ec [_ [Hfresh _]]]. rewrite Ec.
  apply same_keys_stratify; [exact S|].
  intros c Hc Hin. apply (mem_str_false_notin _ _ Hfresh). apply (wf_known_keys m W c _ Hc Hin).
Qed.

Theorem same_keys_build t0 t1 h comps inf ops m : build_ok t0 t1 h comps inf ops = Some m -> same_keys (m_comps m).
Proof.
  unfold build_ok, build. destruct (new_model t0 t1 h comps inf) as [m0|] eqn:E0; [|discriminate].
  assert (W0 : wf m0) by (eapply wf_new; exact E0).
  assert (S0 : same_keys (m_comps m0)).
  { unfold new_model, bind in E0. repeat (inv_guard E0). injection E0 as <-. cbn [m_comps].
    intros c c' Hc Hc' _. apply in_map_iff in Hc, Hc'. destruct Hc as [n [<- _]], Hc' as [n' [<- _]]. reflexivity. }
  destruct (apply_ops m0 ops 1) as [m1 e] eqn:E1. destruct e; [discriminate|]. intro H. injection H as <-.
  clear E0. revert m0 W0 S0 E1. generalize 1. induction ops as [|o ops IH]; intros k m0 W0 S0 E1; cbn in E1.
  - injection E1 as <-. exact S0.
  - destruct (apply_op m0 o) as [m2|w] eqn:E; [|discriminate].
    apply (IH (S k) m2); [eapply wf_apply_op; eassumption | eapply same_keys_apply_op; eassumption | exact E1].
Qed.

(* ---------------------------------------------------------------- one group per compartment *)
From S2 Require Import Proofs.SelectProofs.

Lemma has_pair_in s kv : has_pair s kv = true <-> In kv s.
Proof.
  unfold has_pair. rewrite existsb_exists. split.
  - intros [x [Hx E]]. apply pair_eqb_spec in E. subst. exact Hx.
  - intro H. exists kv. split; [exact H | apply pair_eqb_spec; reflexivity].
Qed.

(* two strata lists with the same keys (distinct), the second containing every pair of the first whose key is not k:
   the same list once k is removed *)
Lemma strata_remove_agree k (l1 l2 : strata) :
  map fst l1 = map fst l2 -> NoDup (map fst l2) ->
  (forall kv, In kv (strata_remove l1 k) -> In kv l2) ->
  strata_remove l1 k = strata_remove l2 k.
Proof.
  revert l2. induction l1 as [|[k1 v1] t1 IH]; intros [|[k2 v2] t2] Hk Hnd Hsub; cbn in Hk; try discriminate; [reflexivity|].
  injection Hk as -> Hk. cbn [map fst] in Hnd. inversion Hnd as [|? ? Hnot Hnd']; subst.
  cbn [strata_remove filter fst] in *.
  destruct (String.eqb k2 k) eqn:E; cbn [negb] in *.
  - apply IH; [exact Hk | exact Hnd' |]. intros kv Hkv.
    destruct (Hsub kv Hkv) as [Eq|Hin]; [|exact Hin]. exfalso. subst kv.
    apply filter_In in Hkv. destruct Hkv as [Hin _]. apply Hnot. rewrite <- Hk. apply (in_map fst) in Hin. exact Hin.
  - f_equal.
    + destruct (Hsub (k2, v1) (or_introl eq_refl)) as [Eq|Hin]; [congruence|].
      exfalso. apply Hnot. apply (in_map fst) in Hin. exact Hin.
    + apply IH; [exact Hk | exact Hnd' |]. intros kv Hkv.
      destruct (Hsub kv (or_intror Hkv)) as [Eq|Hin]; [|exact Hin]. exfalso. subst kv.
      apply filter_In in Hkv. destruct Hkv as [Hin _]. apply Hnot. rewrite <- Hk. apply (in_map fst) in Hin. exact Hin.
Qed.

Lemma in_dedup_groups g l : In g (dedup_groups l) -> In g l.
Proof.
  revert g. induction l as [|a l IH]; intros g H; cbn in H; [exact H|].
  destruct H as [<-|H]; [left; reflexivity|]. right. apply filter_In in H. apply IH. apply H.
Qed.

Section OneGroup.
Variables (m : model) (sname : string) (filt : strata).
Hypothesis W : wf m.
Hypothesis SK : same_keys (m_comps m).

Lemma group_of_member g j cj :
  In g (rb_groups m sname filt) -> nth_error (m_comps m) j = Some cj -> existsb (Nat.eqb j) (members m g) = true ->
  g = (c_name cj, strata_remove (c_strata cj) sname).
Proof.
  intros Hg Hj Hm.
  apply in_dedup_groups in Hg. apply in_map_iff in Hg. destruct Hg as [c [<- Hc]].
  apply filter_In in Hc. destruct Hc as [Hc _].
  apply existsb_exists in Hm. destruct Hm as [j' [Hin E]]. apply Nat.eqb_eq in E. subst j'.
  apply find_indices_spec in Hin. destruct Hin as [a [Ha Pa]]. rewrite Hj in Ha. injection Ha as <-.
  cbn [fst snd] in Pa. apply andb_true_iff in Pa. destruct Pa as [En Hs]. apply String.eqb_eq in En.
  assert (Hcj : In cj (m_comps m)) by (eapply nth_error_In; exact Hj).
  f_equal; [exact En|].
  apply strata_remove_agree.
  - apply (SK c cj Hc Hcj En).
  - apply (wf_nodup_keys m W cj Hcj).
  - intros kv Hkv. unfold has_strata in Hs. rewrite forallb_forall in Hs. apply has_pair_in. apply Hs. exact Hkv.
Qed.

(* every group that has the compartment at j among its members is the same group *)
Theorem one_group g g' j :
  j < length (m_comps m) ->
  In g (rb_groups m sname filt) -> In g' (rb_groups m sname filt) ->
  existsb (Nat.eqb j) (members m g) = true -> existsb (Nat.eqb j) (members m g') = true -> g' = g.
Proof.
  intros Hj Hg Hg' Hm Hm'.
  destruct (nth_error (m_comps m) j) as [cj|] eqn:E; [|apply nth_error_None in E; lia].
  rewrite (group_of_member g j cj Hg E Hm), (group_of_member g' j cj Hg' E Hm'). reflexivity.
Qed.

End OneGroup.

(* ---------------------------------------------------------------- the adjustment on built models, without side conditions *)
Section Built.
Variable O : NumOps.
Variable T : NumTheory O.

Theorem rebalance_built t0 t1 h comps inf ops m (p : env O) (pop : list (F O)) sname filt props :
  build_ok t0 t1 h comps inf ops = Some m -> length pop = length (m_comps m) ->
  (forall g j pr, In g (rb_groups m sname filt) -> existsb (Nat.eqb j) (members m g) = true ->
                  new_prop O p m sname props j = Some pr ->
                  nth j (rebalance O p m pop sname filt props) (f0 O) = fmul O (group_total O m pop g) pr)
  /\ (forall g prs, In g (rb_groups m sname filt) ->
                    map (new_prop O p m sname props) (members m g) = map Some prs -> fsum O prs = f1 O ->
                    fsum O (gather (f0 O) (rebalance O p m pop sname filt props) (members m g)) = group_total O m pop g).
Proof.
  intros Hb Hlen.
  pose proof (wf_build _ _ _ _ _ _ _ Hb) as W. pose proof (same_keys_build _ _ _ _ _ _ _ Hb) as SK.
  assert (Hlt : forall g j, In j (members m g) -> j < length pop).
  { intros g j Hj. rewrite Hlen. apply (find_indices_lt _ _ _ Hj). }
  assert (Hin : forall g j, existsb (Nat.eqb j) (members m g) = true -> In j (members m g)).
  { intros g j H. apply existsb_exists in H. destruct H as [j' [H E]]. apply Nat.eqb_eq in E. subst. exact H. }
  split.
  - intros g j pr Hg Hm Hp.
    apply (rebalance_member O p m pop sname filt props g j pr (Hlt g j (Hin g j Hm)) Hg Hm Hp).
    intros g' Hg' Hm'. rewrite (one_group m sname filt W SK g g' j); try assumption; [reflexivity|].
    rewrite <- Hlen. apply (Hlt g j (Hin g j Hm)).
  - intros g prs Hg Hp H1.
    apply (rebalance_group_total O T p m pop sname filt props g prs Hg (Hlt g) Hp); [|exact H1].
    intros j g' Hj Hg' Hm'.
    assert (Hm : existsb (Nat.eqb j) (members m g) = true) by (apply existsb_exists; exists j; split; [exact Hj | apply Nat.eqb_refl]).
    rewrite (one_group m sname filt W SK g g' j); try assumption; [reflexivity|]. rewrite <- Hlen. apply (Hlt g j Hj).
Qed.

End Built.
