(* C06: what a population-split adjustment does to the values (population.get_rebalanced_population), index by index. *)
From Coq Require Import QArith Field Ring List String Bool Arith Lia.
Import ListNotations.
From S2 Require Import Base.Num Base.Arr Model.Expr Model.Struct Model.InitPop
     Proofs.ArrLemmas Proofs.NumLemmas.
Local Open Scope nat_scope.
Local Notation length := List.length.

Lemma fold_left_ext_gen {A B} (f g : A -> B -> A) : (forall a b, f a b = g a b) -> forall l a0, fold_left f l a0 = fold_left g l a0.
Proof. intros H l. induction l as [|b l IH]; intro a0; cbn; [reflexivity|]. rewrite H. apply IH. Qed.

Section Rebalance.
Variable O : NumOps.
Variable T : NumTheory O.
Notation F := (F O).
Notation env := (env O).
Add Field Frb : (Fth O T).
Notation "0" := (f0 O).

Variables (p : env) (m : model) (pop : list F) (sname : string) (filt : strata) (props : list (string * expr)).

(* the groups of the adjustment: (name, the other strata) of every compartment that carries the stratification and
   matches the filter; the members of a group: every compartment with that name and those other strata *)
Definition rb_groups : list (string * strata) :=
  dedup_groups (map (fun c => (c_name c, strata_remove (c_strata c) sname))
                    (filter (fun c => match strata_get (c_strata c) sname with Some _ => true | None => false end
                                      && has_strata c filt) (m_comps m))).

Definition members (g : string * strata) : list nat :=
  find_indices (fun c => String.eqb (fst g) (c_name c) && has_strata c (snd g)) (m_comps m).

Definition group_total (g : string * strata) : F := fsum O (gather 0 pop (members g)).

(* the new proportion of the compartment at position i, if the adjustment names its stratum *)
Definition new_prop (i : nat) : option F :=
  match nth_error (m_comps m) i with
  | Some c => match strata_get (c_strata c) sname with
              | Some k => match assoc k props with Some e => Some (static_eval O p e) | None => None end
              | None => None
              end
  | None => None
  end.

Definition write (g : string * strata) (out : list F) (i : nat) : list F :=
  match new_prop i with Some pr => set_nth out i (fmul O (group_total g) pr) | None => out end.

Lemma rebalance_unfold :
  rebalance O p m pop sname filt props = fold_left (fun out g => fold_left (write g) (members g) out) rb_groups pop.
Proof.
  unfold rebalance, rb_groups. apply fold_left_ext_gen. intros out g. unfold members. apply fold_left_ext_gen.
  intros out' i. unfold write, new_prop, group_total, members.
  destruct (nth_error (m_comps m) i) as [c|]; [|reflexivity].
  destruct (strata_get (c_strata c) sname) as [k|]; [|reflexivity].
  destruct (assoc k props); reflexivity.
Qed.


(* ---- one group: every member whose stratum is named receives total x proportion, nothing else changes *)
Lemma write_length g out i : length (write g out i) = length out.
Proof. unfold write. destruct (new_prop i); [apply set_nth_length|reflexivity]. Qed.

Lemma fold_write_length g idx out : length (fold_left (write g) idx out) = length out.
Proof. revert out. induction idx as [|i idx IH]; intro out; cbn; [reflexivity|]. rewrite IH. apply write_length. Qed.

Lemma fold_write_nth g idx : forall out j, j < length out ->
  nth j (fold_left (write g) idx out) 0
  = if existsb (Nat.eqb j) idx then match new_prop j with Some pr => fmul O (group_total g) pr | None => nth j out 0 end
    else nth j out 0.
Proof.
  induction idx as [|i idx IH]; intros out j Hj; cbn [fold_left existsb]; [reflexivity|].
  rewrite IH by (rewrite write_length; exact Hj).
  unfold write at 1 2. destruct (Nat.eqb j i) eqn:E.
  - apply Nat.eqb_eq in E. subst i. cbn [orb].
    destruct (new_prop j) as [pr|] eqn:Ep.
    + destruct (existsb (Nat.eqb j) idx); [reflexivity|].
      rewrite nth_set_nth, Nat.eqb_refl. cbn [andb]. destruct (Nat.ltb_spec j (length out)); [reflexivity|lia].
    + destruct (existsb (Nat.eqb j) idx); reflexivity.
  - cbn [orb]. destruct (new_prop i) as [pr|].
    + rewrite nth_set_nth, E. cbn [andb]. reflexivity.
    + reflexivity.
Qed.

(* ---- all groups in order: the value at j is decided by the last group that has j among its members and whose
   adjustment names j's stratum; the totals are those of the population BEFORE the adjustment *)
Fixpoint decided (groups : list (string * strata)) (j : nat) (acc : F) : F :=
  match groups with
  | [] => acc
  | g :: t => decided t j (if existsb (Nat.eqb j) (members g)
                           then match new_prop j with Some pr => fmul O (group_total g) pr | None => acc end
                           else acc)
  end.

Lemma groups_length groups : forall out, length (fold_left (fun out g => fold_left (write g) (members g) out) groups out) = length out.
Proof. induction groups as [|g t IH]; intro out; cbn; [reflexivity|]. rewrite IH. apply fold_write_length. Qed.

Lemma groups_nth groups : forall out j, j < length out ->
  nth j (fold_left (fun out g => fold_left (write g) (members g) out) groups out) 0 = decided groups j (nth j out 0).
Proof.
  induction groups as [|g t IH]; intros out j Hj; cbn [fold_left decided]; [reflexivity|].
  rewrite IH by (rewrite fold_write_length; exact Hj). rewrite fold_write_nth by exact Hj. reflexivity.
Qed.

Theorem rebalance_nth j : j < length pop ->
  nth j (rebalance O p m pop sname filt props) 0 = decided rb_groups j (nth j pop 0).
Proof. intro Hj. rewrite rebalance_unfold. apply groups_nth. exact Hj. Qed.

(* a compartment that belongs to no group, or whose stratum the adjustment does not name, keeps its value *)
Lemma decided_frame groups j acc :
  (forall g, In g groups -> existsb (Nat.eqb j) (members g) = false \/ new_prop j = None) -> decided groups j acc = acc.
Proof.
  revert acc. induction groups as [|g t IH]; intros acc H; cbn [decided]; [reflexivity|].
  rewrite IH by (intros g' Hg'; apply H; right; exact Hg').
  destruct (H g (or_introl eq_refl)) as [E|E]; rewrite E; [reflexivity|]. destruct (existsb _ _); reflexivity.
Qed.

Theorem rebalance_frame j : j < length pop ->
  (forall g, In g rb_groups -> existsb (Nat.eqb j) (members g) = false \/ new_prop j = None) ->
  nth j (rebalance O p m pop sname filt props) 0 = nth j pop 0.
Proof. intros Hj H. rewrite rebalance_nth by exact Hj. apply decided_frame. exact H. Qed.

(* a compartment that belongs to exactly one group g and whose stratum has the new proportion pr holds
   (total of g before the adjustment) x pr *)
Lemma decided_unique groups g j pr acc :
  In g groups -> existsb (Nat.eqb j) (members g) = true -> new_prop j = Some pr ->
  (forall g', In g' groups -> existsb (Nat.eqb j) (members g') = true -> group_total g' = group_total g) ->
  decided groups j acc = fmul O (group_total g) pr.
Proof.
  intros Hg Hm Hp. revert acc. induction groups as [|g0 t IH]; intros acc Hu; [destruct Hg|]. cbn [decided]. rewrite Hp.
  destruct Hg as [->|Hg].
  - rewrite Hm.
    (* later groups that contain j write the same value *)
    assert (K : forall l a, (forall g', In g' l -> existsb (Nat.eqb j) (members g') = true -> group_total g' = group_total g) ->
                            a = fmul O (group_total g) pr -> decided l j a = fmul O (group_total g) pr).
    { induction l as [|g1 l IHl]; intros a Hl Ha; cbn [decided]; [exact Ha|]. apply IHl; [intros; apply Hl; [right|]; assumption|].
      rewrite Hp. destruct (existsb (Nat.eqb j) (members g1)) eqn:E1; [rewrite (Hl g1 (or_introl eq_refl) E1); reflexivity | exact Ha]. }
    apply K; [intros g' Hg' E'; apply Hu; [right; exact Hg' | exact E'] | reflexivity].
  - apply IH; [exact Hg|]. intros g' Hg' E'. apply Hu; [right; exact Hg' | exact E'].
Qed.

Theorem rebalance_member g j pr : j < length pop ->
  In g rb_groups -> existsb (Nat.eqb j) (members g) = true -> new_prop j = Some pr ->
  (forall g', In g' rb_groups -> existsb (Nat.eqb j) (members g') = true -> group_total g' = group_total g) ->
  nth j (rebalance O p m pop sname filt props) 0 = fmul O (group_total g) pr.
Proof. intros Hj Hg Hm Hp Hu. rewrite rebalance_nth by exact Hj. apply (decided_unique rb_groups g j pr); assumption. Qed.

(* hence the group keeps its total when the new proportions of its members add up to one *)
Theorem rebalance_group_total g (prs : list F) :
  In g rb_groups -> (forall j, In j (members g) -> j < length pop) ->
  map new_prop (members g) = map Some prs ->
  (forall j g', In j (members g) -> In g' rb_groups -> existsb (Nat.eqb j) (members g') = true -> group_total g' = group_total g) ->
  fsum O prs = f1 O ->
  fsum O (gather 0 (rebalance O p m pop sname filt props) (members g)) = group_total g.
Proof.
  intros Hg Hlt Hprs Hu Hone.
  assert (Hlen : length (rebalance O p m pop sname filt props) = length pop) by (rewrite rebalance_unfold; apply groups_length).
  assert (E0 : forall l prs0, (forall j, In j l -> In j (members g)) -> map new_prop l = map Some prs0 ->
                map (get_clamp 0 (rebalance O p m pop sname filt props)) l = map (fun pr => fmul O (group_total g) pr) prs0).
  { induction l as [|j l IH]; intros [|pr prs0] Hsub Hp0; cbn in Hp0; try discriminate; [reflexivity|].
    injection Hp0 as Hj Hrest. cbn [map].
    assert (Hjm : In j (members g)) by (apply Hsub; left; reflexivity).
    pose proof (Hlt j Hjm) as Hjl.
    f_equal.
    - unfold get_clamp. rewrite Hlen. replace (Nat.min j (length pop - 1)) with j by lia.
      apply (rebalance_member g j pr Hjl Hg); [apply existsb_exists; exists j; split; [exact Hjm | apply Nat.eqb_refl] | exact Hj |].
      intros g' Hg' E'. apply (Hu j g' Hjm Hg' E').
    - apply IH; [intros j' Hj'; apply Hsub; right; exact Hj' | exact Hrest]. }
  pose proof (E0 (members g) prs (fun j Hj => Hj) Hprs) as E.
  unfold gather. rewrite E. rewrite (fsum_map_scale O T (group_total g) (fun pr => pr)), map_id, Hone. ring.
Qed.

End Rebalance.
