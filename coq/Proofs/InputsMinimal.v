(* C09: "the reported set of input parameters is exactly the set that is needed and able to influence the results".
   Soundness and sufficiency are Proofs/RunExt.v.  MINIMALITY IS FALSE of the faithful model (and of the library,
   known_findings.json: superseded-infectiousness-parameter): every infectiousness adjustment is registered, also one
   that the Overwrites of a later stratification replace for every compartment.  This file proves the refutation with
   a witness: a model whose reported parameter "m" cannot influence any run. *)
From Coq Require Import QArith Qcanon List String Bool Arith Lia.
Import ListNotations.
From S2 Require Import Base.Num Base.Arr Model.Expr Model.Struct Model.Rates Model.InitPop Model.Solvers
     Model.Derived Model.Run Model.Program Model.Api Spec.RatesSpec Gen.SolversGen
     Proofs.ArrLemmas Proofs.ExprLemmas Proofs.WeightProofs Proofs.ParamProofs Proofs.RunExt.
Local Open Scope nat_scope.
Local Notation length := List.length.

Section Core.
Variable O : NumOps.
Variable T : NumTheory O.
Notation F := (F O).
Notation env := (env O).

(* the parameters of the rates other than those of the infectiousness adjustments *)
Definition rate_exprs_but_infectiousness (m : model) : list string :=
  flat_map flow_params (m_flows m) ++ flat_map params_of (mix_exprs m).

Lemma get_flow_rates_ext_inf m b p q t x :
  agree O (rate_exprs_but_infectiousness m) p q ->
  compartment_infectiousness O m p = compartment_infectiousness O m q ->
  get_flow_rates O m b p t x = get_flow_rates O m b q t x.
Proof.
  intros H Hinf. unfold get_flow_rates, apply_infection, infectious_multipliers.
  rewrite (flow_weights_ext O T p q) by (eapply agree_incl; [|exact H]; unfold rate_exprs_but_infectiousness; apply incl_appl, incl_refl).
  rewrite (mixing_matrix_ext O m p q)
    by (eapply agree_incl; [|exact H]; unfold rate_exprs_but_infectiousness; apply incl_appr, incl_refl).
  rewrite Hinf. reflexivity.
Qed.

(* a run depends on the environment through the infectiousness adjustments only by the vector they evaluate to *)
Theorem run_model_ext_inf (m : model) (s : solver) (p q : env) :
  agree O (rate_exprs_but_infectiousness m) p q ->
  compartment_infectiousness O m p = compartment_infectiousness O m q ->
  agree O (flat_map params_of (init_exprs m)) p q ->
  agree O (flat_map params_of (map snd (m_cvs m))) p q ->
  agree O (flat_map params_of (request_param_exprs m)) p q ->
  run_model O m s p = run_model O m s q.
Proof.
  intros Hr Hinf Hi Hc Hd. unfold run_model, run_model_gen.
  destruct (prepare_structural m) as [b|w]; cbn [bind]; [|reflexivity].
  destruct (m_times m) as [[t0 t1] h].
  assert (Hfr : forall t x, get_flow_rates O m b p t x = get_flow_rates O m b q t x)
    by (intros t x; apply get_flow_rates_ext_inf; assumption).
  cbv zeta. rewrite (initial_population_ext O m p q Hi).
  set (sol_p := solve_fixed O _ (fun t y => get_comp_rates O m b p t y) _ _ _ _).
  set (sol_q := solve_fixed O _ (fun t y => get_comp_rates O m b q t y) _ _ _ _).
  assert (Hsol : sol_p = sol_q).
  { unfold sol_p, sol_q, solve_fixed. apply iterate_steps_ext. intros t y. apply gen_steps_ext.
    intros t' y'. unfold get_comp_rates. rewrite Hfr. reflexivity. }
  clearbody sol_p. subst sol_p. set (outputs := sol_q). clearbody outputs. clear sol_q.
  assert (Hfl : forall ts, zip_with (fun t y => get_flow_rates O m b p t y) ts outputs
                         = zip_with (fun t y => get_flow_rates O m b q t y) ts outputs).
  { intro ts. generalize outputs. induction ts as [|t ts IH]; intros [|y ys]; cbn; try reflexivity.
    rewrite Hfr, IH. reflexivity. }
  rewrite Hfl.
  assert (Hcv : map (fun ke => (fst ke, zip_with (fun t y => eval O p t (vclean O y) (snd ke)) (times_F O m) outputs)) (m_cvs m)
              = map (fun ke => (fst ke, zip_with (fun t y => eval O q t (vclean O y) (snd ke)) (times_F O m) outputs)) (m_cvs m)).
  { apply map_ext_in. intros ke Hke. f_equal.
    assert (Ek : agree O (params_of (snd ke)) p q) by (eapply agree_exprs; [exact Hc|]; apply in_map; exact Hke).
    generalize outputs. induction (times_F O m) as [|t ts IH]; intros [|y ys]; cbn; try reflexivity.
    rewrite (eval_agree O p q (snd ke) t (vclean O y) Ek), IH. reflexivity. }
  rewrite Hcv.
  rewrite (derived_outputs_ext O m p q _ _ _ _ Hd). reflexivity.
Qed.

End Core.

(* ---------------------------------------------------------------- the witness *)
Local Open Scope string_scope.

(* SIR, infection at 1/2 and recovery at 1/5; stratification "age" multiplies the infectiousness of its young I by the
   parameter "m"; stratification "loc" then overwrites the infectiousness of I in both of its strata *)
Definition sup_age : strat :=
  {| s_name := "age"; s_kind := SPlain; s_strata := ["y"; "o"]; s_comps := ["S"; "I"; "R"]; s_split := []; s_fadj := [];
     s_iadj := [("I", [("y", Some (AMul (EParam "m"))); ("o", None)])]; s_mix := None |}.
Definition sup_loc : strat :=
  {| s_name := "loc"; s_kind := SPlain; s_strata := ["u"; "r"]; s_comps := ["S"; "I"; "R"]; s_split := []; s_fadj := [];
     s_iadj := [("I", [("u", Some (AOvr (EConst (3#10)))); ("r", Some (AOvr (EConst (3#5))))])]; s_mix := None |}.
Definition sup_ops : list op :=
  [ OpPop [("S", EConst 990); ("I", EConst 10)];
    OpFlow (FlowSpec KInfFreq "infection" (EConst (1#2)) "S" "I" [] [] None false);
    OpFlow (FlowSpec KTrans "rec" (EConst (1#5)) "I" "R" [] [] None false);
    OpStrat sup_age; OpStrat sup_loc ].
Definition sup_model : option model := build_ok 0 5 1 ["S"; "I"; "R"] ["I"] sup_ops.

Definition sup_m : model := match sup_model with Some m => m | None => Build_model (0, 1, 1)%Q [] [] [] [] [] [[]] [] [] None None [] [] [] [] false end.
Lemma sup_model_ok : build_ok 0 5 1 ["S"; "I"; "R"] ["I"] sup_ops = Some sup_m.
Proof. vm_compute. reflexivity. Qed.

Lemma sup_reported : forall k, In k (input_parameters sup_m) <-> k = "m".
Proof.
  assert (E : input_parameters sup_m = ["m"; "m"]) by (vm_compute; reflexivity). rewrite E. intro k. cbn [In].
  split; [intros [H|[H|[]]]; symmetry; exact H | intro H; left; symmetry; exact H].
Qed.

(* every I compartment is overwritten after the multiplication: the infectiousness vector is the same for every
   environment, in every arithmetic *)
Lemma sup_infectiousness (O : NumOps) (p q : env O) :
  compartment_infectiousness O sup_m p = compartment_infectiousness O sup_m q.
Proof. vm_compute. reflexivity. Qed.

Lemma sup_no_other_site :
  rate_exprs_but_infectiousness sup_m = [] /\ flat_map params_of (init_exprs sup_m) = []
  /\ flat_map params_of (map snd (m_cvs sup_m)) = [] /\ flat_map params_of (request_param_exprs sup_m) = [].
Proof. vm_compute. repeat split; reflexivity. Qed.

(* the refutation: a model the API builds, whose reported input parameters are exactly {"m"}, and whose runs - every
   solver, every arithmetic - are the same for ALL pairs of environments, whatever they give for "m" or anything else *)
Theorem inputs_minimal_refuted :
  exists comps inf ops m,
    build_ok 0 5 1 comps inf ops = Some m /\ (forall k, In k (input_parameters m) <-> k = "m")
    /\ forall (O : NumOps) (T : NumTheory O) (s : solver) (p q : env O), run_model O m s p = run_model O m s q.
Proof.
  exists ["S"; "I"; "R"], ["I"], sup_ops, sup_m. split; [exact sup_model_ok|]. split; [exact sup_reported|].
  intros O T s p q. destruct sup_no_other_site as (E1 & E2 & E3 & E4).
  apply run_model_ext_inf; try exact T.
  - rewrite E1. intros k [].
  - apply sup_infectiousness.
  - rewrite E2. intros k [].
  - rewrite E3. intros k [].
  - rewrite E4. intros k [].
Qed.

(* ... and the run is not a failed one: over the rationals it succeeds and moves people *)
Lemma sup_runs : exists rr, run_model QcOps sup_m Euler (fun _ => Q2Qc 7) = Ok rr /\ List.length (rr_outputs QcOps rr) = 6.
Proof. eexists. split; [vm_compute; reflexivity|]. reflexivity. Qed.
