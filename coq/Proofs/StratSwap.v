(* C15: two stratifications with different names commute on the compartments - applied in either order they produce the
   same compartments (same name, same stratum for every stratification) and as many of them. *)
From Coq Require Import List String Bool Arith Lia Permutation.
Import ListNotations.
From S2 Require Import Base.Num Base.Arr Model.Expr Model.Struct Proofs.FlowOrder.
Local Open Scope nat_scope.
Local Notation length := List.length.

(* a compartment is its name and its strata as a map (the order in which stratifications were applied is presentation) *)
Definition comp_same (c c' : comp) : Prop :=
  c_name c = c_name c' /\ forall k, strata_get (c_strata c) k = strata_get (c_strata c') k.

Lemma strata_get_set l k v k' :
  strata_get (strata_set l k v) k' = if String.eqb k' k then Some v else strata_get l k'.
Proof.
  induction l as [|[k0 v0] l IH]; cbn [strata_set strata_get].
  - destruct (String.eqb k' k); reflexivity.
  - destruct (String.eqb k k0) eqn:E; cbn [strata_get].
    + apply String.eqb_eq in E. subst k0. destruct (String.eqb k' k); reflexivity.
    + rewrite IH. destruct (String.eqb k' k0) eqn:E'; [|reflexivity].
      apply String.eqb_eq in E'. subst k0. rewrite String.eqb_sym in E. rewrite E. reflexivity.
Qed.

Lemma stratify_comp_swap c n1 a n2 b :
  n1 <> n2 -> comp_same (stratify_comp (stratify_comp c n1 a) n2 b) (stratify_comp (stratify_comp c n2 b) n1 a).
Proof.
  intro Hn. split; [reflexivity|]. intro k. cbn [stratify_comp c_strata]. rewrite !strata_get_set.
  destruct (String.eqb k n2) eqn:E2, (String.eqb k n1) eqn:E1; try reflexivity.
  apply String.eqb_eq in E1, E2. subst. contradiction.
Qed.

Lemma stratify_comps_one s c :
  stratify_comps s [c] = if has_name_in_list c (s_comps s) then map (stratify_comp c (s_name s)) (s_strata s) else [c].
Proof. unfold stratify_comps. cbn [flat_map]. rewrite app_nil_r. reflexivity. Qed.

Lemma stratify_comps_app s l1 l2 : stratify_comps s (l1 ++ l2) = stratify_comps s l1 ++ stratify_comps s l2.
Proof. unfold stratify_comps. apply flat_map_app. Qed.

Lemma has_name_stratify_comp c n a names : has_name_in_list (stratify_comp c n a) names = has_name_in_list c names.
Proof. reflexivity. Qed.

Lemma stratify_comps_map_other s c n (l : list string) :
  stratify_comps s (map (stratify_comp c n) l)
  = if has_name_in_list c (s_comps s)
    then flat_map (fun a => map (stratify_comp (stratify_comp c n a) (s_name s)) (s_strata s)) l
    else map (stratify_comp c n) l.
Proof.
  induction l as [|a l IH]; [destruct (has_name_in_list c (s_comps s)); reflexivity|].
  cbn [map]. change (stratify_comp c n a :: map (stratify_comp c n) l) with ([stratify_comp c n a] ++ map (stratify_comp c n) l).
  rewrite stratify_comps_app, IH, stratify_comps_one, has_name_stratify_comp.
  destruct (has_name_in_list c (s_comps s)); reflexivity.
Qed.

(* membership in the doubly stratified list of one compartment *)
Lemma in_double c n1 l1 n2 l2 x :
  In x (flat_map (fun a => map (stratify_comp (stratify_comp c n1 a) n2) l2) l1)
  <-> exists a b, In a l1 /\ In b l2 /\ x = stratify_comp (stratify_comp c n1 a) n2 b.
Proof.
  rewrite in_flat_map. split.
  - intros [a [Ha Hx]]. apply in_map_iff in Hx. destruct Hx as [b [<- Hb]]. exists a, b. repeat split; assumption.
  - intros [a [b [Ha [Hb ->]]]]. exists a. split; [exact Ha|]. apply in_map. exact Hb.
Qed.

Lemma length_double c n1 l1 n2 l2 :
  length (flat_map (fun a => map (stratify_comp (stratify_comp c n1 a) n2) l2) l1) = length l1 * length l2.
Proof. induction l1 as [|a l1 IH]; [reflexivity|]. cbn [flat_map]. rewrite app_length, map_length, IH. cbn. reflexivity. Qed.

(* one compartment: both orders give the same compartments *)
Lemma swap_one s1 s2 c x :
  s_name s1 <> s_name s2 ->
  In x (stratify_comps s2 (stratify_comps s1 [c])) ->
  exists y, In y (stratify_comps s1 (stratify_comps s2 [c])) /\ comp_same x y.
Proof.
  intros Hn. rewrite !stratify_comps_one.
  destruct (has_name_in_list c (s_comps s1)) eqn:E1, (has_name_in_list c (s_comps s2)) eqn:E2.
  - rewrite !stratify_comps_map_other, E1, E2. intro Hx. apply in_double in Hx. destruct Hx as [a [b [Ha [Hb ->]]]].
    exists (stratify_comp (stratify_comp c (s_name s2) b) (s_name s1) a). split.
    + apply in_double. exists b, a. repeat split; assumption.
    + apply stratify_comp_swap. exact Hn.
  - rewrite stratify_comps_map_other, E2, stratify_comps_one, E1. intro Hx. exists x. split; [exact Hx|]. split; reflexivity.
  - rewrite stratify_comps_one, E2, stratify_comps_map_other, E1. intro Hx. exists x. split; [exact Hx|]. split; reflexivity.
  - rewrite !stratify_comps_one, E1, E2. intro Hx. exists x. split; [exact Hx|]. split; reflexivity.
Qed.

Lemma swap_one_length s1 s2 c :
  length (stratify_comps s2 (stratify_comps s1 [c])) = length (stratify_comps s1 (stratify_comps s2 [c])).
Proof.
  rewrite !stratify_comps_one.
  destruct (has_name_in_list c (s_comps s1)) eqn:E1, (has_name_in_list c (s_comps s2)) eqn:E2;
    rewrite ?stratify_comps_map_other, ?stratify_comps_one, ?E1, ?E2, ?length_double, ?map_length; try reflexivity. lia.
Qed.

(* the whole compartment list *)
Theorem stratifications_commute_on_compartments s1 s2 cs :
  s_name s1 <> s_name s2 ->
  length (stratify_comps s2 (stratify_comps s1 cs)) = length (stratify_comps s1 (stratify_comps s2 cs))
  /\ (forall x, In x (stratify_comps s2 (stratify_comps s1 cs)) ->
                exists y, In y (stratify_comps s1 (stratify_comps s2 cs)) /\ comp_same x y).
Proof.
  intro Hn. induction cs as [|c cs [IHl IHm]]; [split; [reflexivity | intros x []]|].
  change (c :: cs) with ([c] ++ cs). rewrite !stratify_comps_app. split.
  - rewrite !app_length, IHl, (swap_one_length s1 s2 c). reflexivity.
  - intros x Hx. apply in_app_or in Hx. destruct Hx as [Hx|Hx].
    + destruct (swap_one s1 s2 c x Hn Hx) as [y [Hy Hs]]. exists y. split; [apply in_or_app; left; exact Hy | exact Hs].
    + destruct (IHm x Hx) as [y [Hy Hs]]. exists y. split; [apply in_or_app; right; exact Hy | exact Hs].
Qed.

(* ---------------------------------------------------------------- the order in which a stratification lists its strata *)
(* listing the strata of a stratification in another order permutes the compartments it produces, and nothing else *)
Theorem strata_order_permutes_compartments s s' cs :
  s_name s' = s_name s -> s_comps s' = s_comps s -> Permutation (s_strata s) (s_strata s') ->
  Permutation (stratify_comps s cs) (stratify_comps s' cs).
Proof.
  intros Hn Hc Hp. unfold stratify_comps. induction cs as [|c cs IH]; [constructor|].
  cbn [flat_map]. apply Permutation_app; [|exact IH]. rewrite Hn, Hc.
  destruct (has_name_in_list c (s_comps s)); [apply Permutation_map; exact Hp | apply Permutation_refl].
Qed.

(* ---------------------------------------------------------------- renaming *)
(* an injective renaming of the compartment names commutes with a stratification *)
Definition rename_comp (f : string -> string) (c : comp) : comp := {| c_name := f (c_name c); c_strata := c_strata c |}.

Lemma mem_str_rename f x l : (forall a b, f a = f b -> a = b) -> mem_str (f x) (map f l) = mem_str x l.
Proof.
  intro Hinj. unfold mem_str. induction l as [|y l IH]; [reflexivity|]. cbn [map existsb]. rewrite IH. f_equal.
  destruct (String.eqb x y) eqn:E.
  - apply String.eqb_eq in E. subst. apply String.eqb_refl.
  - apply String.eqb_neq in E. apply String.eqb_neq. intro H. apply E. apply Hinj. exact H.
Qed.

Theorem renaming_commutes_with_stratification f s s' cs :
  (forall a b, f a = f b -> a = b) ->
  s_name s' = s_name s -> s_strata s' = s_strata s -> s_comps s' = map f (s_comps s) ->
  stratify_comps s' (map (rename_comp f) cs) = map (rename_comp f) (stratify_comps s cs).
Proof.
  intros Hinj Hn Hs Hc. unfold stratify_comps. induction cs as [|c cs IH]; [reflexivity|].
  cbn [map flat_map]. rewrite map_app, IH. f_equal.
  unfold has_name_in_list. cbn [rename_comp c_name]. rewrite Hc, (mem_str_rename f _ _ Hinj), Hn, Hs.
  destruct (mem_str (c_name c) (s_comps s)); [|reflexivity].
  rewrite map_map. apply map_ext. intro a. reflexivity.
Qed.

(* ---------------------------------------------------------------- ... and the flows *)
(* the copies of a flow: listing the strata in another order permutes them, with the same adjustments each *)
Theorem strata_order_permutes_flow_copies nm k l l' cmps sp fa ia mx f fl :
  Permutation l l' ->
  stratify_flow {| s_name := nm; s_kind := k; s_strata := l; s_comps := cmps; s_split := sp; s_fadj := fa; s_iadj := ia; s_mix := mx |} f = Ok fl ->
  exists fl', stratify_flow {| s_name := nm; s_kind := k; s_strata := l'; s_comps := cmps; s_split := sp; s_fadj := fa; s_iadj := ia; s_mix := mx |} f = Ok fl'
              /\ Permutation fl fl'.
Proof.
  intros Hp. pose proof (Permutation_length Hp) as Hl.
  unfold stratify_flow, get_flow_adjustment, declared_for. cbn [s_name s_kind s_strata s_comps s_fadj]. rewrite <- Hl.
  destruct (is_entry (f_kind f)).
  { destruct (negb (opt_in_list (f_dst f) cmps)); [intro H; injection H as <-; eexists; split; [reflexivity|apply Permutation_refl]|].
    destruct (existsb _ _); cbn [bind]; [discriminate|].
    destruct (last_some _) as [a|].
    - destruct (is_birth (f_kind f) && is_age k); [discriminate|]. intro H. injection H as <-. eexists. split; [reflexivity|].
      apply Permutation_map. exact Hp.
    - destruct (is_birth (f_kind f) && is_age k); intro H; injection H as <-; eexists; (split; [reflexivity|]).
      + apply Permutation_map. apply filter_perm. exact Hp.
      + apply Permutation_map. exact Hp. }
  destruct (is_exit (f_kind f)).
  { destruct (negb (opt_in_list (f_src f) cmps)); [intro H; injection H as <-; eexists; split; [reflexivity|apply Permutation_refl]|].
    destruct (existsb _ _); cbn [bind]; [discriminate|]. intro H. injection H as <-. eexists. split; [reflexivity|].
    apply Permutation_map. exact Hp. }
  destruct (negb (opt_in_list (f_src f) cmps || opt_in_list (f_dst f) cmps)); [intro H; injection H as <-; eexists; split; [reflexivity|apply Permutation_refl]|].
  destruct (existsb _ _); cbn [bind]; [discriminate|].
  rewrite !map_length, <- Hl.
  destruct (f_kind f); try (intro H; injection H as <-; eexists; split; [reflexivity|apply Permutation_map; exact Hp]).
  destruct (_ && _); intro H; injection H as <-; eexists; (split; [reflexivity|]).
  - apply Permutation_map. apply Permutation_map. exact Hp.
  - apply Permutation_map. exact Hp.
Qed.
