(* C01, last clause: negative compartment values count as zero when rates are computed - the rates at a state are the
   rates at the state with its negative entries replaced by zero. *)
From Coq Require Import QArith List String Bool Arith Lia.
Import ListNotations.
From S2 Require Import Base.Num Base.Arr Model.Expr Model.Struct Model.Rates
     Proofs.ArrLemmas Proofs.NumLemmas Proofs.PositivityProofs.
Local Open Scope nat_scope.

Section Clean.
Variable O : NumOps.
Variable T : NumTheory O.
Notation F := (F O).

Lemma vclean_idem (x : list F) : vclean O (vclean O x) = vclean O x.
Proof.
  unfold vclean. rewrite map_map. apply map_ext. intro v.
  apply (fclean_of_nonneg O T). apply (fclean_nonneg O T).
Qed.

Theorem flow_rates_clean (m : model) (b : backend) (p : env O) (t : F) (x0 : list F) :
  get_flow_rates O m b p t x0 = get_flow_rates O m b p t (vclean O x0).
Proof. unfold get_flow_rates. rewrite vclean_idem. reflexivity. Qed.

Theorem comp_rates_clean (m : model) (b : backend) (p : env O) (t : F) (x0 : list F) :
  get_comp_rates O m b p t x0 = get_comp_rates O m b p t (vclean O x0).
Proof. unfold get_comp_rates. rewrite <- flow_rates_clean. reflexivity. Qed.

(* entries of the cleaned state: zero where the entry was negative, the entry itself otherwise *)
Lemma vclean_nth (x : list F) i : i < List.length x ->
  nth i (vclean O x) (f0 O) = if fltb O (nth i x (f0 O)) (f0 O) then f0 O else nth i x (f0 O).
Proof.
  intro Hi. unfold vclean. rewrite (nth_indep _ (f0 O) (fclean O (f0 O))) by (rewrite map_length; exact Hi).
  rewrite map_nth. reflexivity.
Qed.

End Clean.
