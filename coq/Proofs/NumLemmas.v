(* Generic algebra over the numeric interface: ring/field tactics, sums, vectors, order. *)
From Coq Require Import QArith Field Ring List Bool Arith Lia Permutation.
Import ListNotations.
From S2 Require Import Base.Num Base.Arr.
Local Open Scope nat_scope.

Section NumLemmas.
Variable O : NumOps.
Variable T : NumTheory O.
Notation F := (F O).

Add Field Ff : (Fth O T).

Notation "0" := (f0 O).
Notation "1" := (f1 O).
Infix "+" := (fadd O).
Infix "*" := (fmul O).
Infix "-" := (fsub O).
Infix "/" := (fdiv O).
Notation "x <= y" := (fle O T x y).

Lemma fadd_0_l x : 0 + x = x. Proof. ring. Qed.
Lemma fadd_0_r x : x + 0 = x. Proof. ring. Qed.
Lemma fmul_0_l x : 0 * x = 0. Proof. ring. Qed.
Lemma fmul_0_r x : x * 0 = 0. Proof. ring. Qed.
Lemma fmul_1_l x : 1 * x = x. Proof. ring. Qed.
Lemma fmul_1_r x : x * 1 = x. Proof. ring. Qed.
Lemma fsub_diag x : x - x = 0. Proof. ring. Qed.

(* ------------------------------------------------------------------ sums *)
Lemma fsum_nil : fsum O [] = 0. Proof. reflexivity. Qed.
Lemma fsum_cons x l : fsum O (x :: l) = x + fsum O l. Proof. reflexivity. Qed.

Lemma fsum_app l1 l2 : fsum O (l1 ++ l2) = fsum O l1 + fsum O l2.
Proof. induction l1 as [|x l1 IH]; cbn [app]; rewrite ?fsum_nil, ?fsum_cons, ?IH; ring. Qed.

Lemma fsum_perm l1 l2 : Permutation l1 l2 -> fsum O l1 = fsum O l2.
Proof.
  induction 1 as [| x l l' _ IH | x y l | l l' l'' _ IH1 _ IH2]; rewrite ?fsum_cons.
  - reflexivity.
  - now rewrite IH.
  - ring.
  - now rewrite IH1.
Qed.

Lemma fsum_map_add {A} (f g : A -> F) l :
  fsum O (map (fun a => f a + g a) l) = fsum O (map f l) + fsum O (map g l).
Proof. induction l as [|a l IH]; cbn [map]; rewrite ?fsum_nil, ?fsum_cons, ?IH; ring. Qed.

Lemma fsum_map_sub {A} (f g : A -> F) l :
  fsum O (map (fun a => f a - g a) l) = fsum O (map f l) - fsum O (map g l).
Proof. induction l as [|a l IH]; cbn [map]; rewrite ?fsum_nil, ?fsum_cons, ?IH; ring. Qed.

Lemma fsum_map_scale {A} (k : F) (f : A -> F) l :
  fsum O (map (fun a => k * f a) l) = k * fsum O (map f l).
Proof. induction l as [|a l IH]; cbn [map]; rewrite ?fsum_nil, ?fsum_cons, ?IH; ring. Qed.

Lemma fsum_map_zero {A} (l : list A) : fsum O (map (fun _ => 0) l) = 0.
Proof. induction l as [|a l IH]; cbn [map]; rewrite ?fsum_nil, ?fsum_cons, ?IH; ring. Qed.

Lemma fsum_map_ext {A} (f g : A -> F) l :
  (forall a, In a l -> f a = g a) -> fsum O (map f l) = fsum O (map g l).
Proof.
  induction l as [|a l IH]; intro H; cbn [map]; [reflexivity|].
  rewrite !fsum_cons, H by (left; reflexivity). rewrite IH; [reflexivity|].
  intros b Hb; apply H; right; exact Hb.
Qed.

(* exchanging two finite sums *)
Lemma fsum_swap {A B} (f : A -> B -> F) (la : list A) (lb : list B) :
  fsum O (map (fun a => fsum O (map (fun b => f a b) lb)) la)
  = fsum O (map (fun b => fsum O (map (fun a => f a b) la)) lb).
Proof.
  induction la as [|a la IH]; cbn [map].
  - rewrite fsum_nil. symmetry. apply fsum_map_zero.
  - rewrite fsum_cons, IH. rewrite <- fsum_map_add. reflexivity.
Qed.

Lemma fsum_repeat_zero n : fsum O (repeat 0 n) = 0.
Proof. induction n as [|n IH]; cbn [repeat]; rewrite ?fsum_nil, ?fsum_cons, ?IH; ring. Qed.


End NumLemmas.
