(* Generic algebra over the numeric interface: ring/field tactics, sums, vectors, order. *)
From Coq Require Import QArith Field Ring List Bool Arith Lia Permutation.
Import ListNotations.
From S2 Require Import Base.Num Base.Arr.
Local Open Scope nat_scope.

Section NumLemmas.
Variable O : NumOps.
Variable T : NumTheory O.
Notation F := (F O).

Add Field Ff : (Fth O T).

Notation "0" := (f0 O).
Notation "1" := (f1 O).
Infix "+" := (fadd O).
Infix "*" := (fmul O).
Infix "-" := (fsub O).
Infix "/" := (fdiv O).
Notation "x <= y" := (fle O T x y).

Lemma fadd_0_l x : 0 + x = x. Proof. ring. Qed.
Lemma fadd_0_r x : x + 0 = x. Proof. ring. Qed.
Lemma fmul_0_l x : 0 * x = 0. Proof. ring. Qed.
Lemma fmul_0_r x : x * 0 = 0. Proof. ring. Qed.
Lemma fmul_1_l x : 1 * x = x. Proof. ring. Qed.
Lemma fmul_1_r x : x * 1 = x. Proof. ring. Qed.
Lemma fsub_diag x : x - x = 0. Proof. ring. Qed.

(* ------------------------------------------------------------------ sums *)
Lemma fsum_nil : fsum O [] = 0. Proof. reflexivity. Qed.
Lemma fsum_cons x l : fsum O (x :: l) = x + fsum O l. Proof. reflexivity. Qed.

Lemma fsum_app l1 l2 : fsum O (l1 ++ l2) = fsum O l1 + fsum O l2.
Proof. induction l1 as [|x l1 IH]; cbn [app]; rewrite ?fsum_nil, ?fsum_cons, ?IH; ring. Qed.

Lemma fsum_perm l1 l2 : Permutation l1 l2 -> fsum O l1 = fsum O l2.
Proof.
  induction 1 as [| x l l' _ IH | x y l | l l' l'' _ IH1 _ IH2]; rewrite ?fsum_cons.
  - reflexivity.
  - now rewrite IH.
  - ring.
  - now rewrite IH1.
Qed.

Lemma fsum_map_add {A} (f g : A -> F) l :
  fsum O (map (fun a => f a + g a) l) = fsum O (map f l) + fsum O (map g l).
Proof. induction l as [|a l IH]; cbn [map]; rewrite ?fsum_nil, ?fsum_cons, ?IH; ring. Qed.

Lemma fsum_map_sub {A} (f g : A -> F) l :
  fsum O (map (fun a => f a - g a) l) = fsum O (map f l) - fsum O (map g l).
Proof. induction l as [|a l IH]; cbn [map]; rewrite ?fsum_nil, ?fsum_cons, ?IH; ring. Qed.

Lemma fsum_map_scale {A} (k : F) (f : A -> F) l :
  fsum O (map (fun a => k * f a) l) = k * fsum O (map f l).
Proof. induction l as [|a l IH]; cbn [map]; rewrite ?fsum_nil, ?fsum_cons, ?IH; ring. Qed.

Lemma fsum_map_zero {A} (l : list A) : fsum O (map (fun _ => 0) l) = 0.
Proof. induction l as [|a l IH]; cbn [map]; rewrite ?fsum_nil, ?fsum_cons, ?IH; ring. Qed.

Lemma fsum_map_ext {A} (f g : A -> F) l :
  (forall a, In a l -> f a = g a) -> fsum O (map f l) = fsum O (map g l).
Proof.
  induction l as [|a l IH]; intro H; cbn [map]; [reflexivity|].
  rewrite !fsum_cons, H by (left; reflexivity). rewrite IH; [reflexivity|].
  intros b Hb; apply H; right; exact Hb.
Qed.

(* exchanging two finite sums *)
Lemma fsum_swap {A B} (f : A -> B -> F) (la : list A) (lb : list B) :
  fsum O (map (fun a => fsum O (map (fun b => f a b) lb)) la)
  = fsum O (map (fun b => fsum O (map (fun a => f a b) la)) lb).
Proof.
  induction la as [|a la IH]; cbn [map].
  - rewrite fsum_nil. symmetry. apply fsum_map_zero.
  - rewrite fsum_cons, IH. rewrite <- fsum_map_add. reflexivity.
Qed.

Lemma fsum_repeat_zero n : fsum O (repeat 0 n) = 0.
Proof. induction n as [|n IH]; cbn [repeat]; rewrite ?fsum_nil, ?fsum_cons, ?IH; ring. Qed.


(* ------------------------------------------------------------------ strict positivity *)
Definition fpos (x : F) : Prop := 0 <= x /\ x <> 0.

Lemma fle_0_1 : 0 <= 1.
Proof.
  destruct (fle_total O T 0 1) as [H|H]; [exact H|].
  (* 1 <= 0: then 0 <= -1 and 0 <= (-1)*(-1) = 1 *)
  assert (H1 : 0 <= fopp O 1).
  { pose proof (fle_add O T 1 0 (fopp O 1) H) as H'. replace (1 + fopp O 1) with 0 in H' by ring.
    replace (0 + fopp O 1) with (fopp O 1) in H' by ring. exact H'. }
  pose proof (fle_mul O T _ _ H1 H1) as H2. replace (fopp O 1 * fopp O 1) with 1 in H2 by ring. exact H2.
Qed.

Lemma fpos_1 : fpos 1.
Proof. split; [exact fle_0_1|]. intro E. apply (F_1_neq_0 (Fth O T)). exact E. Qed.

Lemma fle_add2 a b c d : a <= b -> c <= d -> a + c <= b + d.
Proof.
  intros H1 H2. apply (fle_trans O T _ (b + c)).
  - apply (fle_add O T). exact H1.
  - replace (b + c) with (c + b) by ring. replace (b + d) with (d + b) by ring. apply (fle_add O T). exact H2.
Qed.

Lemma fpos_add x y : fpos x -> fpos y -> fpos (x + y).
Proof.
  intros [Hx Nx] [Hy Ny]. split.
  - replace 0 with (0 + 0) by ring. apply fle_add2; assumption.
  - intro E. apply Nx. apply (fle_antisym O T); [|exact Hx].
    (* x = -y <= 0 *)
    replace x with (x + y + fopp O y) by ring. rewrite E.
    pose proof (fle_add O T 0 y (fopp O y) Hy) as H'. replace (y + fopp O y) with 0 in H' by ring. exact H'.
Qed.

Lemma fpos_mul x y : fpos x -> fpos y -> fpos (x * y).
Proof.
  intros [Hx Nx] [Hy Ny]. split; [apply (fle_mul O T); assumption|].
  intro E. apply Ny.
  transitivity (finv O x * (x * y)); [field; exact Nx | rewrite E; ring].
Qed.

Lemma fpos_neq_0 x : fpos x -> x <> 0.
Proof. intros [_ H]; exact H. Qed.

(* a sum over 0..n-1 with a single selected index *)
Lemma fsum_indicator_from (k m j : nat) (v : F) :
  fsum O (map (fun s => if Nat.eqb j s then v else 0) (seq k m))
  = if (k <=? j) && (j <? k + m) then v else 0.
Proof.
  revert k; induction m as [|m IH]; intro k; cbn [seq map].
  - rewrite fsum_nil. destruct (k <=? j) eqn:E1; cbn [andb]; [|reflexivity].
    destruct (Nat.ltb_spec j (k + 0)); [apply Nat.leb_le in E1; lia|reflexivity].
  - rewrite fsum_cons, IH. destruct (Nat.eqb_spec j k) as [->|Hne].
    + assert (S k <=? k = false) as -> by (apply Nat.leb_gt; lia). cbn [andb].
      rewrite Nat.leb_refl. assert (k <? k + S m = true) as -> by (apply Nat.ltb_lt; lia). cbn [andb]. ring.
    + destruct (Nat.leb_spec (S k) j), (Nat.leb_spec k j); try lia; cbn [andb].
      * destruct (Nat.ltb_spec j (S k + m)), (Nat.ltb_spec j (k + S m)); try lia; ring.
      * ring.
Qed.

Lemma fsum_indicator (n j : nat) (v : F) :
  j < n -> fsum O (map (fun s => if Nat.eqb j s then v else 0) (seq 0 n)) = v.
Proof.
  intro H. rewrite fsum_indicator_from. cbn [Nat.leb andb].
  assert (j <? 0 + n = true) as -> by (apply Nat.ltb_lt; lia). reflexivity.
Qed.

(* ------------------------------------------------------------------ vectors *)
Lemma fsum_vadd a b : length a = length b -> fsum O (vadd O a b) = fsum O a + fsum O b.
Proof.
  revert b; induction a as [|x a IH]; intros [|y b] H; cbn in H; try discriminate; cbn [vadd zip_with].
  - rewrite fsum_nil. ring.
  - change (zip_with (fadd O) a b) with (vadd O a b). rewrite !fsum_cons, IH by lia. ring.
Qed.

Lemma fsum_vscale k a : fsum O (vscale O k a) = k * fsum O a.
Proof. unfold vscale. rewrite (fsum_map_scale k (fun x => x)), map_id. reflexivity. Qed.

Lemma vadd_length a b : length (vadd O a b) = Nat.min (length a) (length b).
Proof.
  unfold vadd. revert b; induction a as [|x a IH]; intros [|y b]; cbn [zip_with length Nat.min]; auto.
Qed.

Lemma vscale_length k a : length (vscale O k a) = length a.
Proof. apply map_length. Qed.

End NumLemmas.
