(* C15: a stratification uses the list of the compartments it stratifies only as a set - compartments, flow copies, layout
   indices of the initial population and the "full stratification" tests are the same for any list with the same members
   (so the order in which a stratification lists its compartments, relative to the model's declaration, is irrelevant). *)
From Coq Require Import QArith List String Bool Arith Lia.
Import ListNotations.
From S2 Require Import Base.Num Base.Arr Model.Expr Model.Struct Model.InitPop Proofs.BuildProofs.
Local Open Scope nat_scope.

Definition set_comps (s : strat) (l : list string) : strat :=
  {| s_name := s_name s; s_kind := s_kind s; s_strata := s_strata s; s_comps := l; s_split := s_split s;
     s_fadj := s_fadj s; s_iadj := s_iadj s; s_mix := s_mix s |}.

Definition same_members (l l' : list string) : Prop := forall x, mem_str x l = mem_str x l'.

Lemma mem_str_in x l : mem_str x l = true <-> In x l.
Proof.
  unfold mem_str. rewrite existsb_exists. split.
  - intros [y [Hy E]]. apply String.eqb_eq in E. subst. exact Hy.
  - intro H. exists x. split; [exact H | apply String.eqb_refl].
Qed.

Lemma forallb_same_members (P : string -> bool) l l' : same_members l l' -> forallb P l = forallb P l'.
Proof.
  intro H.
  assert (G : forall a b, (forall x, mem_str x a = true -> mem_str x b = true) -> forallb P b = true -> forallb P a = true).
  { intros a b Hab Hb. rewrite forallb_forall in *. intros x Hx. apply Hb. apply mem_str_in. apply Hab. apply mem_str_in. exact Hx. }
  destruct (forallb P l) eqn:E, (forallb P l') eqn:E'; try reflexivity.
  - rewrite (G l' l) in E'; [discriminate | intros x Hx; rewrite H; exact Hx | exact E].
  - rewrite (G l l') in E; [discriminate | intros x Hx; rewrite <- H; exact Hx | exact E'].
Qed.

Section Order.
Variables (s : strat) (l' : list string).
Hypothesis Hm : same_members (s_comps s) l'.
Let s' := set_comps s l'.

Lemma has_name_same c : has_name_in_list c (s_comps s') = has_name_in_list c (s_comps s).
Proof. unfold has_name_in_list. cbn [s' set_comps s_comps]. symmetry. apply Hm. Qed.

Lemma opt_in_list_same oc : opt_in_list oc (s_comps s') = opt_in_list oc (s_comps s).
Proof. destruct oc as [c|]; [apply has_name_same | reflexivity]. Qed.

Theorem stratify_comps_same cs : stratify_comps s' cs = stratify_comps s cs.
Proof.
  unfold stratify_comps. apply flat_map_ext. intro c. rewrite has_name_same. reflexivity.
Qed.

Theorem stratify_flow_same f : stratify_flow s' f = stratify_flow s f.
Proof.
  unfold stratify_flow. rewrite !opt_in_list_same. reflexivity.
Qed.

Theorem full_test_same orig : set_eq_str (s_comps s') orig = set_eq_str (s_comps s) orig.
Proof.
  unfold set_eq_str. cbn [s' set_comps s_comps]. f_equal.
  - symmetry. apply forallb_same_members. exact Hm.
  - induction orig as [|x orig IH]; [reflexivity|]. cbn [forallb]. rewrite IH. f_equal. symmetry. apply Hm.
Qed.

Theorem known_test_same orig :
  forallb (fun c => mem_str c orig) (s_comps s') = forallb (fun c => mem_str c orig) (s_comps s).
Proof. cbn [s' set_comps s_comps]. symmetry. apply forallb_same_members. exact Hm. Qed.

Lemma strat_indices_from_same cs : forall base idx acc,
  strat_indices_from s' cs base idx acc = strat_indices_from s cs base idx acc.
Proof.
  induction cs as [|c cs IH]; intros base idx acc; cbn [strat_indices_from]; [reflexivity|].
  rewrite has_name_same. cbn [s' set_comps s_strata]. destruct (has_name_in_list c (s_comps s)); apply IH.
Qed.

Theorem strat_indices_same cs : strat_indices s' cs = strat_indices s cs.
Proof. unfold strat_indices. cbn [s' set_comps s_strata]. apply strat_indices_from_same. Qed.

End Order.
