(* C15, population scale, on whole models: multiplying every compartment by k > 0 multiplies the rate of every
   flow by k (frequency-dependent transmission; by k * k for density-dependent transmission, i.e. by k once the
   contact rate is divided by k), leaves absolute inflows as they are (they scale with their own parameter),
   and hence multiplies every compartment's rate of change by k in a model without absolute inflows. *)
From Coq Require Import QArith Field Ring List String Bool Arith Lia.
Import ListNotations.
From S2 Require Import Base.Num Base.Arr Model.Expr Model.Struct Model.Rates Model.Solvers Spec.RatesSpec
     Proofs.ArrLemmas Proofs.NumLemmas Proofs.ExprLemmas Proofs.WeightProofs Proofs.RatesProofs Proofs.PositivityProofs
     Proofs.InvarianceProofs Proofs.RunExt Proofs.TimeShift Gen.SolversGen.
Local Open Scope nat_scope.
Local Notation length := List.length.

(* no explicit dependence on the compartment values *)
Fixpoint state_free (e : expr) : bool :=
  match e with
  | EComp _ => false
  | EConst _ | EParam _ | ETime => true
  | EAdd a b | ESub a b | EMul a b | EDiv a b => state_free a && state_free b
  | EPiecewise x bps vals => state_free x && forallb state_free bps && forallb state_free vals
  | ELinear x xs ys => state_free x && forallb state_free xs && forallb state_free ys
  end.

Definition model_state_free (m : model) : bool := forallb state_free (rate_inputs m).

Section Scaling.
Variable O : NumOps.
Variable T : NumTheory O.
Notation F := (F O).
Notation env := (env O).
Add Field Fsc : (Fth O T).
Notation "0" := (f0 O).
Infix "*" := (fmul O).

Lemma map_ext_forallb_sf (g1 g2 : expr -> F) (P : expr -> Prop) l :
  Forall P l -> forallb state_free l = true -> (forall a, P a -> state_free a = true -> g1 a = g2 a) -> map g1 l = map g2 l.
Proof.
  induction 1 as [|a l Ha _ IH]; intros Hf H; cbn in *; [reflexivity|].
  apply andb_true_iff in Hf. destruct Hf as [H1 H2]. rewrite (H a Ha H1), IH; auto.
Qed.

Theorem eval_state_free (p : env) (e : expr) :
  state_free e = true -> forall t x x', eval O p t x e = eval O p t x' e.
Proof.
  induction e using expr_ind2; cbn [state_free eval]; intros Hf t x x'; try reflexivity; try discriminate.
  1-4: apply andb_true_iff in Hf; destruct Hf as [Ha Hb]; rewrite (IHe1 Ha t x x'), (IHe2 Hb t x x'); reflexivity.
  - apply andb_true_iff in Hf; destruct Hf as [Hf Hv]. apply andb_true_iff in Hf; destruct Hf as [Hx Hb].
    rewrite (IHe Hx t x x').
    rewrite (map_ext_forallb_sf (eval O p t x) (eval O p t x') _ bps H Hb (fun a Ha Hta => Ha Hta t x x')).
    rewrite (map_ext_forallb_sf (eval O p t x) (eval O p t x') _ vals H0 Hv (fun a Ha Hta => Ha Hta t x x')). reflexivity.
  - apply andb_true_iff in Hf; destruct Hf as [Hf Hv]. apply andb_true_iff in Hf; destruct Hf as [Hx Hb].
    rewrite (IHe Hx t x x').
    rewrite (map_ext_forallb_sf (eval O p t x) (eval O p t x') _ xs H Hb (fun a Ha Hta => Ha Hta t x x')).
    rewrite (map_ext_forallb_sf (eval O p t x) (eval O p t x') _ ys H0 Hv (fun a Ha Hta => Ha Hta t x x')). reflexivity.
Qed.

Lemma weight_state_free (p : env) t x x' f :
  forallb state_free (flow_exprs f) = true -> weight_spec O p t x f = weight_spec O p t x' f.
Proof.
  unfold flow_exprs, weight_spec. cbn [forallb]. intro H. apply andb_true_iff in H. destruct H as [Hp Ha].
  rewrite (eval_state_free p (f_param f) Hp t x x').
  generalize (eval O p t x' (f_param f)) as w0.
  induction (f_adjs f) as [|a l IH]; intro w0; cbn [fold_left]; [reflexivity|].
  cbn [map forallb] in Ha. apply andb_true_iff in Ha. destruct Ha as [Ha Hl].
  rewrite (IH Hl). f_equal.
  destruct a; cbn [apply_adj adj_expr] in *; rewrite (eval_state_free p _ Ha t x x'); reflexivity.
Qed.

Lemma eval_matrix_state_free (p : env) t x x' mm :
  forallb state_free (List.concat mm) = true -> eval_matrix O p t x mm = eval_matrix O p t x' mm.
Proof.
  intro H. unfold eval_matrix. apply map_ext_in. intros row Hrow. apply map_ext_in. intros e He.
  apply eval_state_free. rewrite forallb_forall in H. apply H. apply in_concat. exists row. split; assumption.
Qed.

Lemma mixing_matrix_state_free m (p : env) t x x' :
  forallb state_free (mix_exprs m) = true -> mixing_matrix O m p t x = mixing_matrix O m p t x'.
Proof.
  intro H. unfold mixing_matrix.
  assert (HL : forall mm, In mm (flat_map (fun s => opt_to_list (s_mix s)) (m_strats m)) ->
                          forallb state_free (List.concat mm) = true).
  { intros mm Hmm. rewrite forallb_forall in *. intros e He. apply H.
    apply in_flat_map in Hmm. destruct Hmm as [s [Hs Hm]].
    unfold mix_exprs. apply in_flat_map. exists s. split; [exact Hs|].
    unfold opt_to_list in Hm. destruct (s_mix s) as [mm'|]; [|destruct Hm]. destruct Hm as [<-|[]]. exact He. }
  destruct (flat_map _ (m_strats m)) as [|m0 rest]; [reflexivity|].
  rewrite (eval_matrix_state_free p t x x' m0) by (apply HL; left; reflexivity).
  apply fold_left_ext_in. intros acc mm Hmm. rewrite (eval_matrix_state_free p t x x' mm); [reflexivity|].
  apply HL. right; exact Hmm.
Qed.

(* ---------------------------------------------------------------- arrays *)
Lemma get_clamp_vscale k (l : list F) i : get_clamp 0 (vscale O k l) i = k * get_clamp 0 l i.
Proof.
  unfold get_clamp, vscale. rewrite map_length. destruct l as [|a l]; [cbn; destruct (Nat.min i 0); cbn; ring|].
  set (j := Nat.min i (length (a :: l) - 1)).
  assert (Hj : j < length (a :: l)) by (unfold j; cbn [length]; lia).
  rewrite (nth_indep _ 0 (k * 0)) by (rewrite map_length; exact Hj).
  apply (map_nth (fmul O k)).
Qed.

Lemma gather_vscale k (l : list F) idx : gather 0 (vscale O k l) idx = vscale O k (gather 0 l idx).
Proof. unfold gather, vscale at 2. rewrite map_map. apply map_ext. intro i. apply get_clamp_vscale. Qed.

Lemma vclean_vscale k (x : list F) : fpos O T k -> vclean O (vscale O k x) = vscale O k (vclean O x).
Proof. intro Hk. unfold vclean, vscale. rewrite !map_map. apply map_ext. intro v. apply (fclean_scale O T); exact Hk. Qed.

Lemma vmul_vscale_l k (a c : list F) : vmul O (vscale O k a) c = vscale O k (vmul O a c).
Proof.
  unfold vmul, vscale. revert c. induction a as [|x a IH]; intros [|y c]; cbn; try reflexivity.
  rewrite IH. f_equal. ring.
Qed.

Lemma vdiv_vscale k (a c : list F) : k <> 0 -> Forall (fun v => v <> 0) c ->
  vdiv O (vscale O k a) (vscale O k c) = vdiv O a c.
Proof.
  intros Hk Hc. unfold vdiv, vscale. revert a. induction Hc as [|y c Hy _ IH]; intros [|x a]; cbn; try reflexivity.
  rewrite IH. f_equal. field. split; assumption.
Qed.

Lemma matvec_vscale k (mm : list (list F)) v : matvec O mm (vscale O k v) = vscale O k (matvec O mm v).
Proof.
  unfold matvec, vscale at 2. rewrite map_map. apply map_ext. intro row. unfold dot.
  replace (vmul O row (vscale O k v)) with (vscale O k (vmul O row v)); [apply (fsum_vscale O T)|].
  unfold vmul, vscale. revert v. induction row as [|x row IH]; intros [|y v]; cbn; try reflexivity.
  rewrite IH. f_equal. ring.
Qed.

(* ---------------------------------------------------------------- force of infection *)
Definition foi_factor (b : backend) (k : F) : F := match b_process b with Some false => k | _ => f1 O end.

Definition categories_nonempty (b : backend) (x : list F) : Prop :=
  Forall (fun v => v <> 0) (map (fun row => fsum O (gather 0 x row)) (b_pop_cat_indexer b)).

Lemma cat_pops_vscale k (x : list F) (rows : list (list nat)) :
  map (fun row => fsum O (gather 0 (vscale O k x) row)) rows = vscale O k (map (fun row => fsum O (gather 0 x row)) rows).
Proof.
  unfold vscale at 2. rewrite map_map. apply map_ext. intro row. rewrite gather_vscale. apply (fsum_vscale O T).
Qed.

Lemma force_of_infection_vscale freq k (iv infness : list F) cat_idx mix (cp : list F) :
  k <> 0 -> (freq = true -> Forall (fun v => v <> 0) cp) ->
  force_of_infection O freq (vscale O k iv) infness cat_idx mix (vscale O k cp)
  = vscale O (if freq then f1 O else k) (force_of_infection O freq iv infness cat_idx mix cp).
Proof.
  intros Hk Hcp. unfold force_of_infection. rewrite vmul_vscale_l, cat_pops_vscale.
  destruct freq.
  - rewrite vdiv_vscale by (auto). unfold vscale. rewrite <- (map_id (matvec O mix _)) at 1.
    apply map_ext. intro v. ring.
  - apply matvec_vscale.
Qed.

Lemma nth_map_vscale kk (ps : list (list F)) sk : nth sk (map (vscale O kk) ps) [] = vscale O kk (nth sk ps []).
Proof. exact (map_nth (vscale O kk) ps [] sk). Qed.

Lemma infectious_multipliers_vscale m b freq (p : env) t k (x : list F) :
  k <> 0 -> forallb state_free (mix_exprs m) = true -> (freq = true -> categories_nonempty b x) ->
  infectious_multipliers O m b freq p t (vscale O k x)
  = vscale O (if freq then f1 O else k) (infectious_multipliers O m b freq p t x).
Proof.
  intros Hk Hm Hc. unfold infectious_multipliers.
  rewrite (mixing_matrix_state_free m p t (vscale O k x) x Hm), cat_pops_vscale.
  set (kk := if freq then f1 O else k).
  set (ps := map _ (seq 0 (length (m_strains m)))).
  set (ps' := map _ (seq 0 (length (m_strains m)))).
  assert (E : ps = map (vscale O kk) ps').
  { unfold ps, ps'. rewrite map_map. apply map_ext. intro s. rewrite gather_vscale.
    apply force_of_infection_vscale; [exact Hk | exact Hc]. }
  rewrite E. clear E. clearbody ps'. clear ps.
  unfold vscale at 2.
  generalize (b_infect_cat_lookup b). induction (b_infect_strain_lookup b) as [|sk l IH]; intros [|ck l']; cbn; try reflexivity.
  rewrite IH. f_equal.
  rewrite nth_map_vscale. apply get_clamp_vscale.
Qed.


(* ---------------------------------------------------------------- per-flow rates *)
Lemma muls_of_vscale m b (p : env) t k (x0 : list F) :
  fpos O T k -> forallb state_free (mix_exprs m) = true ->
  (b_process b = Some true -> categories_nonempty b (vclean O x0)) ->
  muls_of O m b p t (vscale O k x0) = vscale O (foi_factor b k) (muls_of O m b p t x0).
Proof.
  intros Hk Hm Hc. unfold muls_of, foi_factor. destruct (b_process b) as [freq|]; [|reflexivity].
  rewrite (vclean_vscale k x0 Hk).
  rewrite (infectious_multipliers_vscale m b freq p t k (vclean O x0) (fpos_neq_0 O T k Hk) Hm).
  - destruct freq; reflexivity.
  - intro E. apply Hc. rewrite E. reflexivity.
Qed.

Lemma base_rate_vscale m (p : env) t k (x : list F) f :
  forallb state_free (flow_exprs f) = true ->
  base_rate O m p t (vscale O k x) f = k * base_rate O m p t x f.
Proof.
  intro H. unfold base_rate. rewrite (weight_state_free p t (vscale O k x) x f H), get_clamp_vscale. ring.
Qed.

Lemma flows_state_free m f : model_state_free m = true -> In f (m_flows m) -> forallb state_free (flow_exprs f) = true.
Proof.
  unfold model_state_free, rate_inputs. rewrite forallb_app. intros H Hf. apply andb_true_iff in H. destruct H as [H _].
  rewrite forallb_forall in *. intros e He. apply H. apply in_flat_map. exists f. split; assumption.
Qed.

Lemma total_deaths_vscale m (p : env) t k (x : list F) :
  model_state_free m = true -> total_deaths O m p t (vscale O k x) = k * total_deaths O m p t x.
Proof.
  intro H. unfold total_deaths.
  rewrite <- (fsum_map_scale O T k (base_rate O m p t x)).
  f_equal. apply map_ext_in. intros f Hf. apply base_rate_vscale. apply (flows_state_free m f H).
  apply filter_In in Hf. tauto.
Qed.

(* how the rate of the flow at position i answers to a population k times as large *)
Definition flow_scale_factor (b : backend) (k : F) (kind : fkind) : F :=
  match kind with
  | KImport | KAbs => f1 O                                   (* absolute inflows: scaled through their own parameter *)
  | KInfFreq | KInfDens => k * foi_factor b k                (* k for frequency-, k * k for density-dependent transmission *)
  | KTrans | KDeath | KCrude | KRepl => k
  end.

Theorem flow_rate_scaling m b (p : env) t k (x0 : list F) i :
  prepare_structural m = Ok b -> fpos O T k -> model_state_free m = true ->
  (b_process b = Some true -> categories_nonempty b (vclean O x0)) ->
  i < length (m_flows m) ->
  nth i (get_flow_rates O m b p t (vscale O k x0)) 0
  = flow_scale_factor b k (f_kind (nth i (m_flows m) dflow)) * nth i (get_flow_rates O m b p t x0) 0.
Proof.
  intros Hb Hk Hsf Hc Hi.
  rewrite !(flow_rate_nth O T m b p t _ Hb i Hi).
  assert (Hmix : forallb state_free (mix_exprs m) = true).
  { unfold model_state_free, rate_inputs in Hsf. rewrite forallb_app in Hsf. apply andb_true_iff in Hsf. tauto. }
  rewrite (muls_of_vscale m b p t k x0 Hk Hmix Hc), (vclean_vscale k x0 Hk).
  set (f := nth i (m_flows m) dflow). set (x := vclean O x0).
  assert (Hf : forallb state_free (flow_exprs f) = true) by (apply (flows_state_free m f Hsf); apply nth_In; exact Hi).
  unfold flow_rate_spec.
  rewrite (weight_state_free p t (vscale O k x) x f Hf), get_clamp_vscale, (fsum_vscale O T), (total_deaths_vscale m p t k x Hsf).
  set (r := infection_rank (m_flows m) i).
  assert (En : nth r (vscale O (foi_factor b k) (muls_of O m b p t x0)) 0 = foi_factor b k * nth r (muls_of O m b p t x0) 0).
  { unfold vscale. destruct (Nat.lt_ge_cases r (length (muls_of O m b p t x0))) as [Hr|Hr].
    - rewrite (nth_indep _ 0 (foi_factor b k * 0)) by (rewrite map_length; exact Hr). apply (map_nth (fmul O (foi_factor b k))).
    - rewrite !nth_overflow by (rewrite ?map_length; exact Hr). ring. }
  rewrite En.
  unfold flow_scale_factor, flow_law. destruct (f_kind f); ring.
Qed.

(* every compartment's rate of change: k times as large, in a model without absolute inflows and with
   frequency-dependent (or no) transmission *)
Definition homogeneous_kinds (m : model) : bool :=
  forallb (fun f => match f_kind f with KImport | KAbs | KInfDens => false | _ => true end) (m_flows m).

Lemma get_comp_rates_of_vscale n b k (rates : list F) :
  get_comp_rates_of O n b (vscale O k rates) = vscale O k (get_comp_rates_of O n b rates).
Proof.
  unfold get_comp_rates_of, vscale at 3. rewrite map_map. apply map_ext. intro s.
  assert (E : forall l : list (nat * nat),
             fsum O (map (fun ft => if Nat.eqb (snd ft) s then get_clamp 0 (vscale O k rates) (fst ft) else 0) l)
             = k * fsum O (map (fun ft => if Nat.eqb (snd ft) s then get_clamp 0 rates (fst ft) else 0) l)).
  { intro l. rewrite <- (fsum_map_scale O T k). f_equal. apply map_ext. intro ft.
    destruct (Nat.eqb (snd ft) s); [apply get_clamp_vscale | ring]. }
  rewrite !E. ring.
Qed.

Theorem comp_rates_scaling m b (p : env) t k (x0 : list F) :
  prepare_structural m = Ok b -> fpos O T k -> model_state_free m = true -> homogeneous_kinds m = true ->
  b_process b <> Some false ->
  (b_process b = Some true -> categories_nonempty b (vclean O x0)) ->
  get_comp_rates O m b p t (vscale O k x0) = vscale O k (get_comp_rates O m b p t x0).
Proof.
  intros Hb Hk Hsf Hh Hnd Hc. unfold get_comp_rates.
  rewrite <- get_comp_rates_of_vscale. f_equal.
  apply (nth_ext _ _ 0 0).
  - unfold vscale. rewrite map_length, !(get_flow_rates_length O m b p t _ Hb). reflexivity.
  - intros i Hi. rewrite (get_flow_rates_length O m b p t _ Hb) in Hi.
    rewrite (flow_rate_scaling m b p t k x0 i Hb Hk Hsf Hc Hi).
    unfold vscale. rewrite (nth_indep (map (fmul O k) (get_flow_rates O m b p t x0)) 0 (k * 0)) by (rewrite map_length, (get_flow_rates_length O m b p t _ Hb); exact Hi).
    rewrite (map_nth (fmul O k)). f_equal.
    unfold homogeneous_kinds in Hh. rewrite forallb_forall in Hh.
    specialize (Hh (nth i (m_flows m) dflow) (nth_In _ _ Hi)).
    unfold flow_scale_factor, foi_factor.
    destruct (f_kind (nth i (m_flows m) dflow)); try discriminate; try reflexivity.
    destruct (b_process b) as [[|]|]; try congruence; ring.
Qed.


(* ---------------------------------------------------------------- trajectories *)
Lemma vscale_vadd k (a c : list F) : vscale O k (vadd O a c) = vadd O (vscale O k a) (vscale O k c).
Proof.
  unfold vscale, vadd. revert c. induction a as [|x a IH]; intros [|y c]; cbn; try reflexivity.
  rewrite IH. f_equal. ring.
Qed.

Lemma vscale_vscale h k (v : list F) : vscale O h (vscale O k v) = vscale O k (vscale O h v).
Proof. unfold vscale. rewrite !map_map. apply map_ext. intro a. ring. Qed.

Lemma vdivs_vscale k d (v : list F) : vdivs O (vscale O k v) d = vscale O k (vdivs O v d).
Proof. unfold vdivs, vscale. rewrite !map_map. apply map_ext. intro a. unfold fdiv. rewrite !(Fdiv_def (Fth O T)). ring. Qed.

(* an Euler trajectory started from k * y0 is k times the trajectory started from y0, provided the right-hand side
   is homogeneous at the states the trajectory visits *)
Theorem euler_trajectory_scaling (f : rhs O) k h (P : list F -> Prop) :
  (forall t y, P y -> f t (vscale O k y) = vscale O k (f t y)) ->
  forall n t y,
    Forall P (solve_fixed O (gen_euler_step O) f t h y n) ->
    solve_fixed O (gen_euler_step O) f t h (vscale O k y) n
    = map (vscale O k) (solve_fixed O (gen_euler_step O) f t h y n).
Proof.
  intros Hf n. unfold solve_fixed. induction n as [|n IH]; intros t y HP; cbn [iterate_steps map] in *; [reflexivity|].
  inversion HP as [|? ? Hy Hrest]; subst. f_equal.
  replace (gen_euler_step O f h t (vscale O k y)) with (vscale O k (gen_euler_step O f h t y)); [apply IH; exact Hrest|].
  unfold gen_euler_step. rewrite (Hf t y Hy), vscale_vadd, vscale_vscale. reflexivity.
Qed.

Lemma stage_full k h (y v : list F) : vadd O (vscale O k y) (vscale O h (vscale O k v)) = vscale O k (vadd O y (vscale O h v)).
Proof. rewrite vscale_vscale, vscale_vadd. reflexivity. Qed.

Lemma stage_half k h d (y v : list F) :
  vadd O (vscale O k y) (vdivs O (vscale O h (vscale O k v)) d) = vscale O k (vadd O y (vdivs O (vscale O h v) d)).
Proof. rewrite vscale_vscale, vdivs_vscale, vscale_vadd. reflexivity. Qed.

(* for a right-hand side that is homogeneous everywhere, the same holds for RK4 *)
Theorem rk4_trajectory_scaling (f : rhs O) k h :
  (forall t y, f t (vscale O k y) = vscale O k (f t y)) ->
  forall n t y,
    solve_fixed O (gen_rk4_step O) f t h (vscale O k y) n
    = map (vscale O k) (solve_fixed O (gen_rk4_step O) f t h y n).
Proof.
  intros Hf n. unfold solve_fixed. induction n as [|n IH]; intros t y; cbn [iterate_steps map] in *; [reflexivity|].
  f_equal.
  replace (gen_rk4_step O f h t (vscale O k y)) with (vscale O k (gen_rk4_step O f h t y)); [apply IH|].
  unfold gen_rk4_step. cbv zeta.
  rewrite (Hf t y), stage_half.
  rewrite (Hf (fadd O t (fdiv O h (of_Q O (2 # 1))))), stage_half.
  rewrite (Hf (fadd O t (fdiv O h (of_Q O (2 # 1))))), !stage_full.
  rewrite (Hf (fadd O t h)).
  rewrite ?(vscale_vscale (of_Q O (2 # 1)) k), <- !vscale_vadd, stage_full. reflexivity.
Qed.

(* whole models, Euler: every row of the run started from k times the population is k times the row *)
Theorem model_euler_scaling m b (p : env) k t0 h y0 n :
  prepare_structural m = Ok b -> fpos O T k -> model_state_free m = true -> homogeneous_kinds m = true ->
  b_process b <> Some false ->
  Forall (fun row => b_process b = Some true -> categories_nonempty b (vclean O row))
         (solve_fixed O (gen_euler_step O) (fun t y => get_comp_rates O m b p t y) t0 h y0 n) ->
  solve_fixed O (gen_euler_step O) (fun t y => get_comp_rates O m b p t y) t0 h (vscale O k y0) n
  = map (vscale O k) (solve_fixed O (gen_euler_step O) (fun t y => get_comp_rates O m b p t y) t0 h y0 n).
Proof.
  intros Hb Hk Hsf Hh Hnd HP.
  apply (euler_trajectory_scaling (fun t y => get_comp_rates O m b p t y) k h
           (fun row => b_process b = Some true -> categories_nonempty b (vclean O row))); [|exact HP].
  intros t y Hy. apply comp_rates_scaling; assumption.
Qed.

(* whole models without infection flows: both fixed-step solvers, unconditionally *)
Theorem model_linear_scaling m b (p : env) k t0 h y0 n (s : bool) :
  prepare_structural m = Ok b -> fpos O T k -> model_state_free m = true -> homogeneous_kinds m = true ->
  b_process b = None ->
  solve_fixed O (if s then gen_euler_step O else gen_rk4_step O) (fun t y => get_comp_rates O m b p t y) t0 h (vscale O k y0) n
  = map (vscale O k) (solve_fixed O (if s then gen_euler_step O else gen_rk4_step O) (fun t y => get_comp_rates O m b p t y) t0 h y0 n).
Proof.
  intros Hb Hk Hsf Hh Hn.
  assert (Hf : forall t y, get_comp_rates O m b p t (vscale O k y) = vscale O k (get_comp_rates O m b p t y)).
  { intros t y. apply comp_rates_scaling; try assumption; rewrite Hn; congruence. }
  destruct s.
  - apply (euler_trajectory_scaling _ k h (fun _ => True)); [intros; apply Hf|].
    apply Forall_forall. intros; exact I.
  - apply rk4_trajectory_scaling. exact Hf.
Qed.

End Scaling.
