(* C02 on the model: the total rate of change is entry minus exit; transition-type flows cancel;
   closed models keep their total along every Euler / RK4 trajectory, exactly, for any step. *)
From Coq Require Import QArith Field Ring List String Bool Arith Lia.
Import ListNotations.
From S2 Require Import Base.Num Base.Arr Model.Expr Model.Struct Model.Rates Model.Solvers Spec.RatesSpec
     Proofs.ArrLemmas Proofs.NumLemmas Proofs.ExprLemmas Proofs.WeightProofs Proofs.RatesProofs.
Local Open Scope nat_scope.
Local Notation length := List.length.

Lemma index_of_from_lt {A} (p : A -> bool) l k i : index_of_from p l k = Some i -> i < k + length l.
Proof.
  revert k i; induction l as [|a l IH]; intros k i E; cbn in E; [discriminate|].
  destruct (p a); [injection E as <-; cbn; lia|]. apply IH in E. cbn. lia.
Qed.

Lemma comp_index_lt cs c : cs <> [] -> comp_index cs c < length cs.
Proof.
  intro Hne. unfold comp_index, index_of. destruct (index_of_from (comp_eqb c) cs 0) eqn:E.
  - apply index_of_from_lt in E. lia.
  - destruct cs; [congruence|cbn; lia].
Qed.

Definition has_src (f : flow) : bool := match f_src f with Some _ => true | None => false end.
Definition has_dst (f : flow) : bool := match f_dst f with Some _ => true | None => false end.
Definition entry_flow (f : flow) : bool := has_dst f && negb (has_src f).
Definition exit_flow (f : flow) : bool := has_src f && negb (has_dst f).

Section Conservation.
Variable O : NumOps.
Variable T : NumTheory O.
Notation F := (F O).
Add Field Fcons : (Fth O T).

(* sum of the rates of the flows selected by q *)
Definition rate_sum (q : flow -> bool) (m : model) (rates : list F) : F :=
  fsum O (map (fun jf => if q (snd jf) then nth (fst jf) rates (f0 O) else f0 O) (enumerate (m_flows m))).

Lemma comp_rate_total (m : model) (rates : list F) :
  m_comps m <> [] ->
  fsum O (map (comp_rate_spec O m rates) (seq 0 (length (m_comps m))))
  = fsub O (rate_sum has_dst m rates) (rate_sum has_src m rates).
Proof.
  intro Hne. unfold comp_rate_spec. rewrite (fsum_map_sub O T). f_equal.
  - rewrite (fsum_swap O T). unfold rate_sum. apply (fsum_map_ext O). intros jf _.
    unfold has_dst. destruct (f_dst (snd jf)) as [d|].
    + apply (fsum_indicator O T). apply comp_index_lt. exact Hne.
    + apply (fsum_map_zero O T).
  - rewrite (fsum_swap O T). unfold rate_sum. apply (fsum_map_ext O). intros jf _.
    unfold has_src. destruct (f_src (snd jf)) as [d|].
    + apply (fsum_indicator O T). apply comp_index_lt. exact Hne.
    + apply (fsum_map_zero O T).
Qed.

(* transition-type flows (both ends) cancel: what remains is entry minus exit *)
Lemma dst_minus_src (m : model) (rates : list F) :
  fsub O (rate_sum has_dst m rates) (rate_sum has_src m rates)
  = fsub O (rate_sum entry_flow m rates) (rate_sum exit_flow m rates).
Proof.
  unfold rate_sum. rewrite <- !(fsum_map_sub O T). apply (fsum_map_ext O). intros jf _.
  unfold entry_flow, exit_flow. destruct (has_dst (snd jf)), (has_src (snd jf)); cbn [andb negb]; ring.
Qed.

Theorem total_rate_entry_minus_exit (m : model) (b : backend) (p : env O) (t : F) (x0 : list F) :
  prepare_structural m = Ok b -> m_comps m <> [] ->
  fsum O (get_comp_rates O m b p t x0)
  = fsub O (rate_sum entry_flow m (get_flow_rates O m b p t x0))
           (rate_sum exit_flow m (get_flow_rates O m b p t x0)).
Proof.
  intros Hb Hne. unfold get_comp_rates.
  rewrite (comp_rates_spec O T m b _ Hb (get_flow_rates_length O m b p t x0 Hb)).
  rewrite comp_rate_total by exact Hne. apply dst_minus_src.
Qed.

Lemma rate_sum_none (q : flow -> bool) (m : model) (rates : list F) :
  (forall f, In f (m_flows m) -> q f = false) -> rate_sum q m rates = f0 O.
Proof.
  intro H. unfold rate_sum.
  transitivity (fsum O (map (fun _ : nat * flow => f0 O) (enumerate (m_flows m)))); [|apply (fsum_map_zero O T)].
  apply (fsum_map_ext O). intros jf Hin. unfold enumerate in Hin. apply in_enumerate_from in Hin.
  destruct Hin as [_ Hn]. apply nth_error_In in Hn. rewrite (H _ Hn). reflexivity.
Qed.

Definition closed_model (m : model) : Prop :=
  forall f, In f (m_flows m) -> has_src f = true /\ has_dst f = true.

Theorem closed_total_rate_zero (m : model) (b : backend) (p : env O) (t : F) (x0 : list F) :
  prepare_structural m = Ok b -> m_comps m <> [] -> closed_model m ->
  fsum O (get_comp_rates O m b p t x0) = f0 O.
Proof.
  intros Hb Hne Hc. rewrite total_rate_entry_minus_exit by assumption.
  rewrite !rate_sum_none; [ring| |].
  - intros f Hf. destruct (Hc f Hf) as [H1 H2]. unfold exit_flow. rewrite H1, H2. reflexivity.
  - intros f Hf. destruct (Hc f Hf) as [H1 H2]. unfold entry_flow. rewrite H1, H2. reflexivity.
Qed.

(* sums over the flow list with an indicator = sums over the filtered list *)
Lemma fsum_enum_filter_from (q : flow -> bool) (g : nat -> flow -> F) (l : list flow) k :
  fsum O (map (fun jf => if q (snd jf) then g (fst jf) (snd jf) else f0 O) (enumerate_from k l))
  = fsum O (map (fun jf => g (fst jf) (snd jf)) (filter (fun jf => q (snd jf)) (enumerate_from k l))).
Proof.
  revert k; induction l as [|a l IH]; intro k; cbn [enumerate_from map filter]; [reflexivity|].
  cbn [fst snd]. destruct (q a); cbn [map]; rewrite ?fsum_cons, IH; cbn [fst snd]; ring.
Qed.

(* replacement births: when the only entry flows are replacement births whose weights sum to
   one and the only exit flows are deaths, births replace deaths exactly *)
Theorem replacement_total_zero (m : model) (b : backend) (p : env O) (t : F) (x0 : list F) :
  prepare_structural m = Ok b -> m_comps m <> [] ->
  (forall f, In f (m_flows m) -> entry_flow f = fkind_eqb (f_kind f) KRepl) ->
  (forall f, In f (m_flows m) -> exit_flow f = fkind_eqb (f_kind f) KDeath) ->
  fsum O (map (weight_spec O p t (vclean O x0)) (filter (fun f => fkind_eqb (f_kind f) KRepl) (m_flows m))) = f1 O ->
  fsum O (get_comp_rates O m b p t x0) = f0 O.
Proof.
  intros Hb Hne Hentry Hexit Hw.
  rewrite total_rate_entry_minus_exit by assumption.
  set (x := vclean O x0). set (D := total_deaths O m p t x).
  assert (Hrate : forall jf, In jf (enumerate (m_flows m)) ->
            nth (fst jf) (get_flow_rates O m b p t x0) (f0 O)
            = flow_rate_spec O m p t x (muls_of O m b p t x0) (fst jf) (snd jf)).
  { intros jf Hin. unfold enumerate in Hin. apply in_enumerate_from in Hin. destruct Hin as [Hr Hn].
    rewrite Nat.sub_0_r in Hn.
    rewrite (flow_rate_nth O T m b p t x0 Hb (fst jf)) by lia.
    rewrite (nth_error_nth _ _ dflow Hn). reflexivity. }
  assert (E1 : rate_sum entry_flow m (get_flow_rates O m b p t x0)
               = fmul O D (fsum O (map (weight_spec O p t x) (filter (fun f => fkind_eqb (f_kind f) KRepl) (m_flows m))))).
  { unfold rate_sum.
    transitivity (fsum O (map (fun jf => fmul O D (if fkind_eqb (f_kind (snd jf)) KRepl then weight_spec O p t x (snd jf) else f0 O))
                              (enumerate (m_flows m)))).
    - apply (fsum_map_ext O). intros jf Hin.
      assert (Hf : In (snd jf) (m_flows m)).
      { unfold enumerate in Hin. apply in_enumerate_from in Hin. destruct Hin as [_ Hn]. apply nth_error_In in Hn. exact Hn. }
      rewrite (Hentry _ Hf), (Hrate jf Hin). unfold flow_rate_spec.
      destruct (f_kind (snd jf)); cbn [fkind_eqb flow_law]; fold x; fold D; ring.
    - rewrite (fsum_map_scale O T). f_equal.
      clear -T. unfold enumerate. generalize 0 as k. induction (m_flows m) as [|a l IH]; intro k; cbn [enumerate_from map filter]; [reflexivity|].
      cbn [snd]. destruct (fkind_eqb (f_kind a) KRepl); cbn [map]; rewrite ?fsum_cons, IH; [reflexivity|ring]. }
  assert (E2 : rate_sum exit_flow m (get_flow_rates O m b p t x0) = D).
  { unfold rate_sum, D, total_deaths.
    transitivity (fsum O (map (fun jf => if fkind_eqb (f_kind (snd jf)) KDeath then base_rate O m p t x (snd jf) else f0 O)
                              (enumerate (m_flows m)))).
    - apply (fsum_map_ext O). intros jf Hin.
      assert (Hf : In (snd jf) (m_flows m)).
      { unfold enumerate in Hin. apply in_enumerate_from in Hin. destruct Hin as [_ Hn]. apply nth_error_In in Hn. exact Hn. }
      rewrite (Hexit _ Hf), (Hrate jf Hin). unfold flow_rate_spec, base_rate.
      destruct (f_kind (snd jf)); cbn [fkind_eqb flow_law]; reflexivity.
    - clear -T. unfold enumerate. generalize 0 as k. induction (m_flows m) as [|a l IH]; intro k; cbn [enumerate_from map filter]; [reflexivity|].
      cbn [snd]. destruct (fkind_eqb (f_kind a) KDeath); cbn [map]; rewrite ?fsum_cons, IH; [reflexivity|ring]. }
  rewrite E1, E2. fold x in Hw. rewrite Hw. ring.
Qed.

(* ------------------------------------------------------------ trajectories *)
Lemma get_comp_rates_length (m : model) (b : backend) (p : env O) (t : F) (x0 : list F) :
  length (get_comp_rates O m b p t x0) = length (m_comps m).
Proof. unfold get_comp_rates, get_comp_rates_of. rewrite map_length, seq_length. reflexivity. Qed.

Variable n : nat.
Variable f : rhs O.
Hypothesis f_len : forall t y, length (f t y) = n.
Hypothesis f_sum : forall t y, fsum O (f t y) = f0 O.

Lemma euler_step_total h t y : length y = n ->
  length (euler_step O f h t y) = n /\ fsum O (euler_step O f h t y) = fsum O y.
Proof.
  intro Hy. unfold euler_step. split.
  - rewrite (vadd_length O), (vscale_length O), f_len, Hy. apply Nat.min_id.
  - rewrite (fsum_vadd O T) by (rewrite (vscale_length O), f_len; exact Hy).
    rewrite (fsum_vscale O T), f_sum. ring.
Qed.

Lemma rk4_step_total h t y : length y = n ->
  length (rk4_step O f h t y) = n /\ fsum O (rk4_step O f h t y) = fsum O y.
Proof.
  intro Hy. unfold rk4_step.
  set (k1 := f t y).
  set (k2 := f _ (vadd O y (vscale O _ k1))).
  set (k3 := f _ (vadd O y (vscale O _ k2))).
  set (k4 := f _ (vadd O y (vscale O h k3))).
  assert (L1 : length k1 = n) by apply f_len. assert (L2 : length k2 = n) by apply f_len.
  assert (L3 : length k3 = n) by apply f_len. assert (L4 : length k4 = n) by apply f_len.
  assert (S1 : fsum O k1 = f0 O) by apply f_sum. assert (S2 : fsum O k2 = f0 O) by apply f_sum.
  assert (S3 : fsum O k3 = f0 O) by apply f_sum. assert (S4 : fsum O k4 = f0 O) by apply f_sum.
  assert (Lsum : length (vadd O (vadd O (vadd O k1 (vscale O (two O) k2)) (vscale O (two O) k3)) k4) = n).
  { rewrite !(vadd_length O), !(vscale_length O), L1, L2, L3, L4, !Nat.min_id. reflexivity. }
  split.
  - rewrite (vadd_length O), (vscale_length O), Lsum, Hy. apply Nat.min_id.
  - rewrite (fsum_vadd O T) by (rewrite (vscale_length O), Lsum; exact Hy).
    rewrite (fsum_vscale O T).
    rewrite (fsum_vadd O T) by (rewrite !(vadd_length O), !(vscale_length O), L1, L2, L3, L4, !Nat.min_id; reflexivity).
    rewrite (fsum_vadd O T) by (rewrite !(vadd_length O), !(vscale_length O), L1, L2, L3, !Nat.min_id; reflexivity).
    rewrite (fsum_vadd O T) by (rewrite (vscale_length O), L1, L2; reflexivity).
    rewrite !(fsum_vscale O T), S1, S2, S3, S4. ring.
Qed.

(* every row of a fixed-step solve has the total of the initial state: any step size, any number
   of steps, any start time *)
Lemma iterate_total (step : F -> list F -> list F) h :
  (forall t y, length y = n -> length (step t y) = n /\ fsum O (step t y) = fsum O y) ->
  forall k t y, length y = n ->
    Forall (fun row => fsum O row = fsum O y) (iterate_steps O step h t y k).
Proof.
  intros Hstep k. induction k as [|k IH]; intros t y Hy; cbn [iterate_steps].
  - constructor; [reflexivity|constructor].
  - constructor; [reflexivity|]. destruct (Hstep t y Hy) as [L S].
    specialize (IH (fadd O t h) (step t y) L). rewrite S in IH. exact IH.
Qed.

Theorem euler_conserves h t0 y0 k : length y0 = n ->
  Forall (fun row => fsum O row = fsum O y0) (solve_fixed O (euler_step O) f t0 h y0 k).
Proof. intro Hy. unfold solve_fixed. apply iterate_total; [|exact Hy]. intros; apply euler_step_total; assumption. Qed.

Theorem rk4_conserves h t0 y0 k : length y0 = n ->
  Forall (fun row => fsum O row = fsum O y0) (solve_fixed O (rk4_step O) f t0 h y0 k).
Proof. intro Hy. unfold solve_fixed. apply iterate_total; [|exact Hy]. intros; apply rk4_step_total; assumption. Qed.

End Conservation.
