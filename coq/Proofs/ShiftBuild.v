(* C15: the build API never reads the time span after the constructor: every operation commutes with replacing it. *)
From Coq Require Import QArith List String Bool Arith Lia.
Import ListNotations.
From S2 Require Import Base.Num Base.Arr Model.Expr Model.Struct Model.Program Proofs.BuildProofs Proofs.TimeShift.
Local Open Scope nat_scope.

Definition rmap {A B} (g : A -> B) (r : result A) : result B := match r with Ok a => Ok (g a) | Err w => Err w end.

Definition set_times (m : model) (tt : Q * Q * Q) : model :=
  {| m_times := tt; m_comps := m_comps m; m_orig := m_orig m; m_infectious := m_infectious m;
     m_flows := m_flows m; m_strats := m_strats m; m_mixcats := m_mixcats m; m_strains := m_strains m;
     m_actions := m_actions m; m_initpop := m_initpop m; m_arraypop := m_arraypop m;
     m_requests := m_requests m; m_whitelist := m_whitelist m; m_cvs := m_cvs m;
     m_defaults := m_defaults m; m_finalized := m_finalized m |}.

Ltac proj := cbn [set_times m_times m_comps m_orig m_infectious m_flows m_strats m_mixcats m_strains m_actions m_initpop
                       m_arraypop m_requests m_whitelist m_cvs m_defaults m_finalized].
Ltac guards := repeat match goal with |- context [guard ?b ?w] => destruct (guard b w); cbn [bind rmap]; [|reflexivity] end.

Lemma st_set_pop m tt dist : set_initial_population (set_times m tt) dist = rmap (fun m' => set_times m' tt) (set_initial_population m dist).
Proof. unfold set_initial_population, not_finalized, bind. proj. guards. reflexivity. Qed.

Lemma st_array_pop m tt arr : init_population_with_graphobject (set_times m tt) arr = rmap (fun m' => set_times m' tt) (init_population_with_graphobject m arr).
Proof. unfold init_population_with_graphobject, not_finalized, bind. proj. guards. reflexivity. Qed.

Ltac step :=
  match goal with
  | |- context [guard ?b ?w] => destruct (guard b w); cbn [bind rmap]; [|reflexivity]
  | |- context [check_count ?e ?n] => destruct (check_count e n); cbn [bind rmap]; [|reflexivity]
  | |- context [matching_comps ?m ?a ?b] =>
      lazymatch m with context [set_times] => fail | _ => destruct (matching_comps m a b); cbn [bind rmap]; [|reflexivity] end
  end.

Lemma st_matching m tt name filt : matching_comps (set_times m tt) name filt = matching_comps m name filt.
Proof. reflexivity. Qed.

Lemma st_entry m tt k name param dst dst_f expected adjs :
  add_entry_flow (set_times m tt) k name param dst dst_f expected adjs
  = rmap (fun m' => set_times m' tt) (add_entry_flow m k name param dst dst_f expected adjs).
Proof. unfold add_entry_flow, not_finalized, bind. proj. repeat step. reflexivity. Qed.

Lemma st_exit m tt name param src src_f expected :
  add_exit_flow (set_times m tt) name param src src_f expected
  = rmap (fun m' => set_times m' tt) (add_exit_flow m name param src src_f expected).
Proof. unfold add_exit_flow, not_finalized, bind. proj. repeat step. reflexivity. Qed.

Lemma st_trans m tt k name param src dst src_f dst_f expected :
  add_transition_like (set_times m tt) k name param src dst src_f dst_f expected
  = rmap (fun m' => set_times m' tt) (add_transition_like m k name param src dst src_f dst_f expected).
Proof. unfold add_transition_like, not_finalized, bind. rewrite !st_matching. proj. repeat step. reflexivity. Qed.

Lemma st_add_flow m tt fs : add_flow (set_times m tt) fs = rmap (fun m' => set_times m' tt) (add_flow m fs).
Proof.
  destruct fs as [k name param src dst src_f dst_f expected split]. unfold add_flow, bind, has_birth_flow. proj.
  destruct k; try apply st_entry; try apply st_exit; try apply st_trans.
  - step. apply st_entry.
  - step. apply st_entry.
  - destruct split; [step|]; apply st_entry.
Qed.

Lemma fold_comm {B} (op : model -> B -> result model) tt (l : list B) :
  (forall m b, op (set_times m tt) b = rmap (fun m' => set_times m' tt) (op m b)) ->
  forall r, fold_left (fun r b => do m' <- r; op m' b) l (rmap (fun m' => set_times m' tt) r)
            = rmap (fun m' => set_times m' tt) (fold_left (fun r b => do m' <- r; op m' b) l r).
Proof.
  intro H. induction l as [|b l IH]; intro r; cbn [fold_left]; [reflexivity|].
  rewrite <- IH. f_equal. destruct r as [m|w]; cbn [rmap bind]; [apply H | reflexivity].
Qed.

Lemma st_udeath m tt name param :
  add_universal_death (set_times m tt) name param = rmap (fun m' => set_times m' tt) (add_universal_death m name param).
Proof.
  unfold add_universal_death, bind. proj. step.
  apply (fold_comm (fun m' cn => add_exit_flow m' name param cn [] None) tt (m_orig m) (fun m0 b => st_exit m0 tt name param b [] None) (Ok m)).
Qed.

Lemma st_rebalance m tt sname filt props :
  adjust_population_split (set_times m tt) sname filt props = rmap (fun m' => set_times m' tt) (adjust_population_split m sname filt props).
Proof.
  unfold adjust_population_split, not_finalized, bind. proj. step.
  destruct (find _ (m_strats m)); [|reflexivity]. step. reflexivity.
Qed.

Lemma st_request m tt name r save :
  request_output (set_times m tt) name r save = rmap (fun m' => set_times m' tt) (request_output m name r save).
Proof.
  unfold request_output, not_finalized, has_request, bind. proj. step. step.
  destruct r; proj; try step; reflexivity.
Qed.

Lemma st_cv m tt name e : add_computed_value (set_times m tt) name e = rmap (fun m' => set_times m' tt) (add_computed_value m name e).
Proof. unfold add_computed_value, bind. proj. step. reflexivity. Qed.

Lemma st_finalize m tt : finalize (set_times m tt) = rmap (fun m' => set_times m' tt) (finalize m).
Proof. unfold finalize, bind. proj. step. reflexivity. Qed.

Lemma st_stratify m tt s0 : stratify_with (set_times m tt) s0 = rmap (fun m' => set_times m' tt) (stratify_with m s0).
Proof.
  unfold stratify_with, not_finalized, strat_names, strata_exist. cbn zeta.
  unfold bind at 1. unfold bind at 1. proj.
  destruct (validate_strat_object s0); [|reflexivity].
  unfold bind. proj.
  repeat step.
  repeat match goal with
         | |- context [match s_mix ?s with _ => _ end] => destruct (s_mix s) eqn:?; cbn [bind rmap]; repeat step
         | |- context [if is_strain ?k then _ else _] => destruct (is_strain k) eqn:?; cbn [bind rmap]; repeat step
         end;
  (destruct (collect _ (m_flows m)) as [fl0|]; cbn [bind rmap]; [|reflexivity]);
  (destruct (is_age _) eqn:Eage; cbn [bind rmap]; [repeat step|reflexivity]).
  all: match goal with
       | |- context [fold_left ?f ?l (Ok ?m1t)] =>
           match goal with
           | |- context [rmap ?g (match fold_left f l (Ok ?m1) with _ => _ end)] =>
               change (Ok m1t) with (rmap (fun m' => set_times m' tt) (Ok m1));
               change f with (fun (r : result model) (fs : flow_spec) => do m' <- r; add_flow m' fs);
               rewrite (fold_comm add_flow tt l (fun m0 b => st_add_flow m0 tt b) (Ok m1));
               destruct (fold_left (fun (r : result model) (fs : flow_spec) => do m' <- r; add_flow m' fs) l (Ok m1)); cbn [rmap]; reflexivity
           end
       end.
Qed.

(* ---------------------------------------------------------------- every operation, operation sequences *)
Lemma st_apply_op m tt o : apply_op (set_times m tt) o = rmap (fun m' => set_times m' tt) (apply_op m o).
Proof.
  destruct o; cbn [apply_op].
  - apply st_set_pop.
  - apply st_array_pop.
  - apply st_add_flow.
  - apply st_udeath.
  - apply st_stratify.
  - apply st_rebalance.
  - apply st_request.
  - reflexivity.
  - apply st_cv.
  - apply st_finalize.
  - reflexivity.
  - unfold add_flow_dyn, bind. destruct (fs_kind fs); try apply st_add_flow;
      (destruct (validate_flowparam v); [apply st_add_flow | reflexivity]).
  - unfold add_universal_death_dyn, bind. destruct (validate_flowparam v); [apply st_udeath | reflexivity].
Qed.

Lemma st_apply_ops tt ops : forall m k,
  apply_ops (set_times m tt) ops k = let (m', e) := apply_ops m ops k in (set_times m' tt, e).
Proof.
  induction ops as [|o ops IH]; intros m k; cbn [apply_ops]; [reflexivity|].
  rewrite st_apply_op. destruct (apply_op m o) as [m1|w]; cbn [rmap]; [apply IH | reflexivity].
Qed.

(* ---------------------------------------------------------------- the constructor *)
Lemma q_is_int_divide q : q_is_int q = true <-> (Zpos (Qden q) | Qnum q)%Z.
Proof.
  unfold q_is_int. rewrite Z.eqb_eq. apply Z.mod_divide. discriminate.
Qed.

Lemma q_is_int_Qeq q q' : (q == q')%Q -> q_is_int q = q_is_int q'.
Proof.
  assert (K : forall a a', (a == a')%Q -> q_is_int a = true -> q_is_int a' = true).
  { intros a a' E H. apply q_is_int_divide in H. apply q_is_int_divide. destruct H as [k Hk].
    exists k. unfold Qeq in E. rewrite Hk in E.
    apply (Z.mul_reg_r _ _ (Zpos (Qden a))); [discriminate|]. rewrite <- E. ring. }
  intro E. destruct (q_is_int q) eqn:A, (q_is_int q') eqn:B; try reflexivity.
  - rewrite (K q q' E A) in B. discriminate.
  - symmetry in E. rewrite (K q' q E B) in A. discriminate.
Qed.

Lemma Qle_bool_Qeq a b a' b' : (a == a')%Q -> (b == b')%Q -> Qle_bool a b = Qle_bool a' b'.
Proof.
  intros Ea Eb. destruct (Qle_bool a b) eqn:A, (Qle_bool a' b') eqn:B; try reflexivity.
  - apply Qle_bool_iff in A. rewrite Ea, Eb in A. apply Qle_bool_iff in A. congruence.
  - apply Qle_bool_iff in B. rewrite <- Ea, <- Eb in B. apply Qle_bool_iff in B. congruence.
Qed.

Lemma Qle_bool_shift a b d : Qle_bool (a + d) (b + d) = Qle_bool a b.
Proof.
  destruct (Qle_bool (a + d) (b + d)) eqn:A, (Qle_bool a b) eqn:B; try reflexivity.
  - apply Qle_bool_iff in A. apply Qplus_le_l in A. apply Qle_bool_iff in A. congruence.
  - apply Qle_bool_iff in B. apply (Qplus_le_l _ _ d) in B. apply Qle_bool_iff in B. congruence.
Qed.

Lemma st_new_model t0 t1 h d comps inf :
  new_model (t0 + d) (t1 + d) h comps inf
  = rmap (fun m => set_times m ((t0 + d)%Q, (t1 + d)%Q, h)) (new_model t0 t1 h comps inf).
Proof.
  unfold new_model, bind.
  rewrite Qle_bool_shift.
  assert (E : (1 + (t1 + d - (t0 + d)) / h == 1 + (t1 - t0) / h)%Q) by (unfold Qdiv; ring).
  rewrite (Qle_bool_Qeq 1 (1 + (t1 + d - (t0 + d)) / h) 1 (1 + (t1 - t0) / h) (Qeq_refl 1) E), (q_is_int_Qeq _ _ E).
  repeat step. reflexivity.
Qed.

(* the same build program over a time span moved by d builds the same model with its times moved by d *)
Theorem build_time_shift t0 t1 h d comps inf ops :
  build (t0 + d) (t1 + d) h comps inf ops
  = let (om, e) := build t0 t1 h comps inf ops in (option_map (fun m => shift_times m d) om, e).
Proof.
  unfold build. rewrite st_new_model.
  destruct (new_model t0 t1 h comps inf) as [m|w] eqn:E; cbn [rmap option_map]; [|reflexivity].
  rewrite st_apply_ops. destruct (apply_ops m ops 1) as [m' e] eqn:E'. cbn [option_map]. f_equal. f_equal.
  (* the operations keep the times of the constructor *)
  assert (Ht : m_times m' = (t0, t1, h)).
  { assert (H0 : m_times m = (t0, t1, h)).
    { unfold new_model, bind in E. repeat match type of E with context [guard ?b ?w] => destruct (guard b w); cbn in E; [|discriminate] end.
      injection E as <-. reflexivity. }
    clear E. revert m H0 E'. generalize 1. induction ops as [|o ops IH]; intros k m H0 E'; cbn [apply_ops] in E'.
    - injection E' as <- _. exact H0.
    - destruct (apply_op m o) as [m1|w] eqn:Eo.
      + apply (IH (S k) m1); [|exact E']. rewrite <- H0.
        pose proof (st_apply_op m (m_times m) o) as C. rewrite Eo in C. cbn [rmap] in C.
        assert (Hs : set_times m (m_times m) = m) by (destruct m; reflexivity). rewrite Hs, Eo in C.
        injection C as C. rewrite C. reflexivity.
      + injection E' as <- _. exact H0. }
  unfold shift_times. rewrite Ht. reflexivity.
Qed.
