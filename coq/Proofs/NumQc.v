(* The executable instance Qc satisfies the numeric theory assumed by the proofs. *)
From Coq Require Import QArith Qcanon Field List Bool Lia.
From S2 Require Import Base.Num.

Lemma Qc_ltb_spec x y : Qc_ltb x y = true <-> (x <= y /\ x <> y)%Qc.
Proof.
  unfold Qc_ltb. destruct (x ?= y)%Qc eqn:E.
  - apply Qceq_alt in E. subst. split; [discriminate|]. intros [_ H]. now elim H.
  - split; [intros _|reflexivity]. apply Qclt_alt in E. split.
    + now apply Qclt_le_weak.
    + intro; subst. now apply Qclt_not_eq in E.
  - split; [discriminate|]. intros [H1 H2]. apply Qcgt_alt in E.
    exfalso. apply (Qcle_not_lt _ _ H1 E).
Qed.

Lemma Q2Qc_add a b : Q2Qc (a + b) = (Q2Qc a + Q2Qc b)%Qc.
Proof. apply Qc_is_canon. unfold Qcplus, Q2Qc. cbn [this]. rewrite !Qred_correct. reflexivity. Qed.
Lemma Q2Qc_mul a b : Q2Qc (a * b) = (Q2Qc a * Q2Qc b)%Qc.
Proof. apply Qc_is_canon. unfold Qcmult, Q2Qc. cbn [this]. rewrite !Qred_correct. reflexivity. Qed.
Lemma Q2Qc_opp a : Q2Qc (- a) = (- Q2Qc a)%Qc.
Proof. apply Qc_is_canon. unfold Qcopp, Q2Qc. cbn [this]. rewrite !Qred_correct. reflexivity. Qed.
Lemma Q2Qc_inv a : Q2Qc (/ a) = (/ Q2Qc a)%Qc.
Proof. apply Qc_is_canon. unfold Qcinv, Q2Qc. cbn [this]. rewrite !Qred_correct. reflexivity. Qed.
Lemma Q2Qc_eq a b : (a == b)%Q -> Q2Qc a = Q2Qc b.
Proof. intro H. apply Qc_is_canon. unfold Q2Qc. cbn [this]. rewrite !Qred_correct. exact H. Qed.
Lemma Q2Qc_le a b : (a <= b)%Q -> (Q2Qc a <= Q2Qc b)%Qc.
Proof. intro H. unfold Qcle, Q2Qc. cbn [this]. rewrite !Qred_correct. exact H. Qed.

Lemma Qc_fle_add x y z : (x <= y)%Qc -> (x + z <= y + z)%Qc.
Proof. intro H. apply Qcplus_le_compat; [exact H | apply Qcle_refl]. Qed.

Lemma Qc_fle_mul x y : (0 <= x)%Qc -> (0 <= y)%Qc -> (0 <= x * y)%Qc.
Proof.
  intros Hx Hy. replace 0%Qc with (0 * y)%Qc by ring.
  apply Qcmult_le_compat_r; assumption.
Qed.

Lemma Qc_le_total x y : (x <= y)%Qc \/ (y <= x)%Qc.
Proof.
  destruct (Qclt_le_dec x y) as [H|H]; [left; now apply Qclt_le_weak | right; exact H].
Qed.

Definition QcTheory : NumTheory QcOps.
Proof.
  refine {| fle := Qcle : F QcOps -> F QcOps -> Prop |}; simpl.
  - exact Qcft.
  - exact Qcle_refl.
  - exact Qcle_trans.
  - exact Qcle_antisym.
  - exact Qc_le_total.
  - exact Qc_eq_dec.
  - exact Qc_fle_add.
  - exact Qc_fle_mul.
  - exact Qc_ltb_spec.
  - reflexivity.
  - reflexivity.
  - exact Q2Qc_add.
  - exact Q2Qc_mul.
  - exact Q2Qc_opp.
  - intros a _. exact (Q2Qc_inv a).
  - exact Q2Qc_eq.
  - exact Q2Qc_le.
Defined.
