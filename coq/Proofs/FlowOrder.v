(* C15, flow order, on whole models without infection flows: declaring the flows in another order leaves every
   compartment's rate of change - as computed by get_comp_rates, index arrays and all - unchanged. *)
From Coq Require Import QArith Field Ring List String Bool Arith Lia Permutation.
Import ListNotations.
From S2 Require Import Base.Num Base.Arr Model.Expr Model.Struct Model.Rates Spec.RatesSpec
     Proofs.ArrLemmas Proofs.NumLemmas Proofs.BuildProofs Proofs.RatesProofs Proofs.ConservationProofs
     Proofs.InvarianceProofs Proofs.AggregateRates Proofs.AggregateAll Proofs.RatesBridge.
Local Open Scope nat_scope.
Local Notation length := List.length.

Lemma filter_perm {A} (P : A -> bool) (l l' : list A) : Permutation l l' -> Permutation (filter P l) (filter P l').
Proof.
  induction 1 as [|x l l' _ IH|x y l|l l' l'' _ IH1 _ IH2]; cbn.
  - constructor.
  - destruct (P x); [constructor|]; exact IH.
  - destruct (P x), (P y); try apply Permutation_refl; apply perm_swap.
  - eapply Permutation_trans; eassumption.
Qed.

Section FlowOrder.
Variable O : NumOps.
Variable T : NumTheory O.
Notation F := (F O).

Variables (m : model) (fl' : list flow) (b b' : backend) (p : env O) (t : F) (x0 : list F).
Hypothesis Hperm : Permutation (m_flows m) fl'.
Hypothesis W : wf m.
Hypothesis Hnd : NoDup (m_comps m).
Hypothesis Hni : forall f, In f (m_flows m) -> is_infection (f_kind f) = false.
Hypothesis Hb : prepare_structural m = Ok b.
Hypothesis Hb' : prepare_structural (upd_flows m fl') = Ok b'.

Let m' := upd_flows m fl'.

Lemma wf_perm : wf m'.
Proof.
  destruct W as [W1 W2 W3]. split; cbn [m' upd_flows m_comps m_flows m_strats]; try assumption.
  intros f Hf. apply W3. apply (Permutation_in _ (Permutation_sym Hperm) Hf).
Qed.

Lemma deaths_perm x : total_deaths O m' p t x = total_deaths O m p t x.
Proof.
  unfold total_deaths. cbn [m' upd_flows m_flows].
  transitivity (fsum O (map (base_rate O m p t x) (filter (fun f => fkind_eqb (f_kind f) KDeath) fl'))); [reflexivity|].
  apply (fsum_perm O T). apply Permutation_map. apply filter_perm. apply Permutation_sym. exact Hperm.
Qed.

Theorem flow_order_irrelevant : get_comp_rates O m' b' p t x0 = get_comp_rates O m b p t x0.
Proof.
  apply (nth_ext _ _ (f0 O) (f0 O)).
  - rewrite !get_comp_rates_length. reflexivity.
  - intros s Hs. rewrite get_comp_rates_length in Hs. cbn [m' upd_flows m_comps] in Hs.
    set (dflt := {| c_name := EmptyString; c_strata := [] |}).
    rewrite (comp_rates_are_net_rates O T m' b' p t x0 Hb' wf_perm Hnd) with (dflt := dflt).
    2: { intros f Hf. apply Hni. apply (Permutation_in _ (Permutation_sym Hperm) Hf). }
    2: { exact Hs. }
    rewrite (comp_rates_are_net_rates O T m b p t x0 Hb W Hnd Hni s dflt Hs).
    cbn [m' upd_flows m_comps m_flows].
    transitivity (net_rate O (ni_rate O p t m (vclean O x0)) fl' (nth s (m_comps m) dflt)).
    + unfold net_rate. f_equal; f_equal; apply map_ext; intro f;
        (assert (E : ni_rate O p t m' (vclean O x0) f = ni_rate O p t m (vclean O x0) f)
           by (unfold ni_rate; rewrite deaths_perm; reflexivity); rewrite E; reflexivity).
    + symmetry. apply (net_rate_permutation O T). exact Hperm.
Qed.

End FlowOrder.
