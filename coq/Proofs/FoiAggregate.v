(* C03 for the force of infection, at the level of its definition (C05's foi_spec): the force of infection reads the
   state only through the totals of groups of compartments that share their infectiousness and their mixing category.
   groups lists, for every compartment of the coarse (unstratified) layout, the positions of its copies in the fine
   (stratified) state; the fine categories and the fine infectious index list are the unions of the groups of the coarse
   ones.  Then P_j, N_j and the force of infection of the fine state are those of the aggregated state. *)
From Coq Require Import QArith Field Ring List String Bool Arith Lia.
Import ListNotations.
From S2 Require Import Base.Num Base.Arr Model.Expr Model.Struct Model.Rates
     Proofs.ArrLemmas Proofs.NumLemmas Proofs.RatesProofs Proofs.FoiProofs Proofs.AggregateProofs.
Local Open Scope nat_scope.
Local Notation length := List.length.

Section FoiAggregate.
Variable O : NumOps.
Variable T : NumTheory O.
Notation F := (F O).
Add Field Ffa : (Fth O T).

Variable groups : list (list nat).
Definition G (c : nat) : list nat := nth c groups [].
Definition lift (l : list nat) : list nat := flat_map G l.

(* the groups are disjoint: a fine position belongs to one coarse compartment *)
Hypothesis disjoint : forall c1 c2 q, In q (G c1) -> In q (G c2) -> c1 = c2.

Variables (x' infness' infness : list F).
(* copies share the infectiousness of their compartment *)
Hypothesis same_inf : forall c q, c < length groups -> In q (G c) ->
  get_clamp (f0 O) infness' q = get_clamp (f0 O) infness c.

Lemma agg_clamp c : c < length groups -> get_clamp (f0 O) (agg O groups x') c = fsum O (gather (f0 O) x' (G c)).
Proof.
  intro Hc. unfold agg. rewrite get_clamp_lt by (rewrite map_length; exact Hc).
  rewrite (nth_indep _ (f0 O) ((fun g => fsum O (gather (f0 O) x' g)) [])) by (rewrite map_length; exact Hc).
  rewrite (map_nth (fun g => fsum O (gather (f0 O) x' g))). reflexivity.
Qed.

Lemma existsb_eqb_in q l : existsb (Nat.eqb q) l = true <-> In q l.
Proof.
  rewrite existsb_exists. split.
  - intros [y [Hy E]]. apply Nat.eqb_eq in E. subst y. exact Hy.
  - intro H. exists q. split; [exact H | apply Nat.eqb_refl].
Qed.

Lemma filter_group (inf_idx : list nat) c :
  filter (fun q => existsb (Nat.eqb q) (lift inf_idx)) (G c)
  = if existsb (Nat.eqb c) inf_idx then G c else [].
Proof.
  destruct (existsb (Nat.eqb c) inf_idx) eqn:E.
  - apply existsb_eqb_in in E.
    assert (Hy : forall q, In q (G c) -> existsb (Nat.eqb q) (lift inf_idx) = true).
    { intros q Hq. apply existsb_eqb_in. unfold lift. apply in_flat_map. exists c. split; assumption. }
    induction (G c) as [|q l IH]; [reflexivity|]. cbn [filter]. rewrite (Hy q (or_introl eq_refl)). f_equal.
    apply IH. intros q' Hq'. apply Hy. right; exact Hq'.
  - assert (Hn : forall q, In q (G c) -> existsb (Nat.eqb q) (lift inf_idx) = false).
    { intros q Hq. destruct (existsb (Nat.eqb q) (lift inf_idx)) eqn:E2; [|reflexivity].
      apply existsb_eqb_in in E2. unfold lift in E2. apply in_flat_map in E2. destruct E2 as [c2 [Hc2 Hq2]].
      rewrite (disjoint c c2 q Hq Hq2) in E. apply existsb_eqb_in in Hc2. congruence. }
    induction (G c) as [|q l IH]; [reflexivity|]. cbn [filter]. rewrite (Hn q (or_introl eq_refl)).
    apply IH. intros q' Hq'. apply Hn. right; exact Hq'.
Qed.

Lemma filter_lift (inf_idx cat : list nat) :
  filter (fun q => existsb (Nat.eqb q) (lift inf_idx)) (lift cat) = lift (filter (fun c => existsb (Nat.eqb c) inf_idx) cat).
Proof.
  unfold lift at 2 3. induction cat as [|c cat IH]; [reflexivity|]. cbn [flat_map filter].
  rewrite filter_app, IH, filter_group. destruct (existsb (Nat.eqb c) inf_idx); reflexivity.
Qed.

Theorem P_spec_aggregates (inf_idx cat : list nat) :
  (forall c, In c cat -> c < length groups) ->
  P_spec O x' infness' (lift inf_idx) (lift cat) = P_spec O (agg O groups x') infness inf_idx cat.
Proof.
  intro Hcat. unfold P_spec. rewrite filter_lift. unfold lift. rewrite (fsum_flat_map O T).
  apply (fsum_map_ext O). intros c Hc. apply filter_In in Hc. destruct Hc as [Hc _].
  pose proof (Hcat c Hc) as Hlt. rewrite (agg_clamp c Hlt). unfold gather.
  rewrite (fsum_map_ext O (fun q => fmul O (get_clamp (f0 O) x' q) (get_clamp (f0 O) infness' q))
                          (fun q => fmul O (get_clamp (f0 O) infness c) (get_clamp (f0 O) x' q)))
    by (intros q Hq; rewrite (same_inf c q Hlt Hq); ring).
  rewrite (fsum_map_scale O T). ring.
Qed.

Theorem N_spec_aggregates (cat : list nat) :
  (forall c, In c cat -> c < length groups) ->
  N_spec O x' (lift cat) = N_spec O (agg O groups x') cat.
Proof.
  intro Hcat. unfold N_spec, gather, lift. rewrite (fsum_flat_map O T).
  apply (fsum_map_ext O). intros c Hc. rewrite (agg_clamp c (Hcat c Hc)). reflexivity.
Qed.

(* the force of infection of the fine state is that of the aggregated state, for the same mixing matrix *)
Theorem foi_spec_aggregates (freq : bool) (mix : list (list F)) (cats : list (list nat)) (inf_idx : list nat) (i : nat) :
  (forall cat c, In cat cats -> In c cat -> c < length groups) ->
  foi_spec O freq mix x' infness' (map lift cats) (lift inf_idx) i
  = foi_spec O freq mix (agg O groups x') infness cats inf_idx i.
Proof.
  intro Hcats. unfold foi_spec. f_equal. rewrite map_map. apply map_ext_in. intros cat Hc.
  rewrite (P_spec_aggregates inf_idx cat (fun c => Hcats cat c Hc)), (N_spec_aggregates cat (fun c => Hcats cat c Hc)). reflexivity.
Qed.

End FoiAggregate.
