(* An accepted age stratification has exactly one stratum "0" (the Stratification object checks that the smallest age is 0,
   the strata are distinct): the side condition of the C03 theorems about births under an age stratification. *)
From Coq Require Import QArith List String Bool Arith Lia.
Import ListNotations.
From S2 Require Import Base.Num Base.Arr Model.Expr Model.Struct Proofs.BuildProofs.
Local Open Scope nat_scope.
Local Notation length := List.length.

Lemma filter_eqb_nodup (x : string) (l : list string) : NoDup l -> In x l -> filter (fun st => String.eqb st x) l = [x].
Proof.
  induction 1 as [|a l Ha Hnd IH]; intro Hin; [destruct Hin|]. cbn [filter].
  destruct (String.eqb_spec a x) as [->|Hne].
  - f_equal. clear IH Hin. induction l as [|b l IHl]; [reflexivity|]. cbn [filter].
    destruct (String.eqb_spec b x) as [->|_]; [elim Ha; left; reflexivity|].
    apply IHl; [intro H; apply Ha; right; exact H | inversion Hnd; assumption].
  - destruct Hin as [E|Hin]; [congruence|]. apply IH. exact Hin.
Qed.

Lemma age_zero_stratum m s0 m' :
  stratify_with m s0 = Ok m' -> is_age (s_kind (normalise_strat s0)) = true -> In "0"%string (s_strata (normalise_strat s0)).
Proof.
  intros H Hage. unfold stratify_with in H. cbn zeta in H. unfold bind at 1 in H.
  destruct (validate_strat_object s0) as [u|] eqn:Ev; [|discriminate]. clear H.
  assert (Hk : s_kind s0 = SAge).
  { destruct (s_kind s0) eqn:K; try reflexivity; exfalso; unfold normalise_strat in Hage; rewrite K in Hage;
      cbn in Hage; rewrite K in Hage; discriminate. }
  unfold validate_strat_object in Ev. rewrite Hk in Ev. unfold bind at 1 in Ev.
  unfold normalise_strat. rewrite Hk.
  destruct (fold_right _ (Some []) (s_strata s0)) as [ns|]; [|discriminate].
  destruct (sort_nat ns) as [|[|n0] l] eqn:Es; cbn [guard] in Ev; try discriminate.
  cbn [s_strata map]. left. reflexivity.
Qed.

Theorem age_zero_once m s0 m' :
  stratify_with m s0 = Ok m' -> NoDup (s_strata (normalise_strat s0)) ->
  is_age (s_kind (normalise_strat s0)) = true ->
  length (filter (fun st => String.eqb st "0") (s_strata (normalise_strat s0))) = 1.
Proof.
  intros H Hnd Hage. rewrite (filter_eqb_nodup "0" _ Hnd (age_zero_stratum m s0 m' H Hage)). reflexivity.
Qed.
