(* Lemmas about expressions: induction principle, static evaluation, structural equality,
   parameter substitution (C09), dependence on the environment. *)
From Coq Require Import QArith List String Bool Arith Lia.
Import ListNotations.
From S2 Require Import Base.Num Base.Arr Model.Expr.
Local Open Scope nat_scope.

Section ExprInd.
Variable P : expr -> Prop.
Hypothesis HConst : forall q, P (EConst q).
Hypothesis HParam : forall k, P (EParam k).
Hypothesis HTime : P ETime.
Hypothesis HComp : forall i, P (EComp i).
Hypothesis HAdd : forall a b, P a -> P b -> P (EAdd a b).
Hypothesis HSub : forall a b, P a -> P b -> P (ESub a b).
Hypothesis HMul : forall a b, P a -> P b -> P (EMul a b).
Hypothesis HDiv : forall a b, P a -> P b -> P (EDiv a b).
Hypothesis HPw : forall x bps vals, P x -> Forall P bps -> Forall P vals -> P (EPiecewise x bps vals).
Hypothesis HLin : forall x xs ys, P x -> Forall P xs -> Forall P ys -> P (ELinear x xs ys).

Fixpoint expr_ind2 (e : expr) : P e :=
  let fix all (l : list expr) : Forall P l :=
    match l with
    | [] => Forall_nil P
    | h :: t => Forall_cons h (expr_ind2 h) (all t)
    end in
  match e with
  | EConst q => HConst q
  | EParam k => HParam k
  | ETime => HTime
  | EComp i => HComp i
  | EAdd a b => HAdd a b (expr_ind2 a) (expr_ind2 b)
  | ESub a b => HSub a b (expr_ind2 a) (expr_ind2 b)
  | EMul a b => HMul a b (expr_ind2 a) (expr_ind2 b)
  | EDiv a b => HDiv a b (expr_ind2 a) (expr_ind2 b)
  | EPiecewise x bps vals => HPw x bps vals (expr_ind2 x) (all bps) (all vals)
  | ELinear x xs ys => HLin x xs ys (expr_ind2 x) (all xs) (all ys)
  end.
End ExprInd.

Lemma map_ext_Forall {A B} (f g : A -> B) (P : A -> Prop) l :
  Forall P l -> (forall a, P a -> f a = g a) -> map f l = map g l.
Proof. induction 1 as [|a l Ha _ IH]; intro H; cbn; [reflexivity|]. rewrite (H a Ha), IH; auto. Qed.

Section Eval.
Variable O : NumOps.
Notation F := (F O).

(* an expression that mentions neither time nor state evaluates to the same value everywhere *)
Lemma eval_static (p : env O) (e : expr) :
  mentions_mv e = false -> forall t x t' x', eval O p t x e = eval O p t' x' e.
Proof.
  induction e using expr_ind2; cbn [mentions_mv eval]; intros Hm t x t' x'; try reflexivity; try discriminate.
  1-4: apply orb_false_iff in Hm; destruct Hm as [Ha Hb];
       rewrite (IHe1 Ha t x t' x'), (IHe2 Hb t x t' x'); reflexivity.
  - apply orb_false_iff in Hm; destruct Hm as [Hm Hv]. apply orb_false_iff in Hm; destruct Hm as [Hx Hb].
    rewrite (IHe Hx t x t' x').
    assert (E1 : map (eval O p t x) bps = map (eval O p t' x') bps).
    { clear -H Hb. induction H as [|a l Ha _ IH]; cbn in *; [reflexivity|].
      apply orb_false_iff in Hb; destruct Hb as [Hb1 Hb2]. rewrite (Ha Hb1 t x t' x'), IH; auto. }
    assert (E2 : map (eval O p t x) vals = map (eval O p t' x') vals).
    { clear -H0 Hv. induction H0 as [|a l Ha _ IH]; cbn in *; [reflexivity|].
      apply orb_false_iff in Hv; destruct Hv as [Hb1 Hb2]. rewrite (Ha Hb1 t x t' x'), IH; auto. }
    rewrite E1, E2. reflexivity.
  - apply orb_false_iff in Hm; destruct Hm as [Hm Hv]. apply orb_false_iff in Hm; destruct Hm as [Hx Hb].
    rewrite (IHe Hx t x t' x').
    assert (E1 : map (eval O p t x) xs = map (eval O p t' x') xs).
    { clear -H Hb. induction H as [|a l Ha _ IH]; cbn in *; [reflexivity|].
      apply orb_false_iff in Hb; destruct Hb as [Hb1 Hb2]. rewrite (Ha Hb1 t x t' x'), IH; auto. }
    assert (E2 : map (eval O p t x) ys = map (eval O p t' x') ys).
    { clear -H0 Hv. induction H0 as [|a l Ha _ IH]; cbn in *; [reflexivity|].
      apply orb_false_iff in Hv; destruct Hv as [Hb1 Hb2]. rewrite (Ha Hb1 t x t' x'), IH; auto. }
    rewrite E1, E2. reflexivity.
Qed.

(* evaluation only reads the parameters that occur in the expression *)
Lemma eval_env_ext (p q : env O) (e : expr) t x :
  (forall k, In k (params_of e) -> p k = q k) -> eval O p t x e = eval O q t x e.
Proof.
  induction e using expr_ind2; cbn [params_of eval]; intro Hp; try reflexivity.
  - apply Hp. left; reflexivity.
  - rewrite IHe1, IHe2; auto; intros k Hk; apply Hp, in_or_app; auto.
  - rewrite IHe1, IHe2; auto; intros k Hk; apply Hp, in_or_app; auto.
  - rewrite IHe1, IHe2; auto; intros k Hk; apply Hp, in_or_app; auto.
  - rewrite IHe1, IHe2; auto; intros k Hk; apply Hp, in_or_app; auto.
  - rewrite IHe by (intros k Hk; apply Hp, in_or_app; auto).
    assert (E1 : map (eval O p t x) bps = map (eval O q t x) bps).
    { assert (Hp' : forall k, In k (flat_map params_of bps) -> p k = q k).
      { intros k Hk. apply Hp, in_or_app. right. apply in_or_app. auto. }
      clear -H Hp'. induction H as [|a l Ha _ IH]; cbn in *; [reflexivity|].
      rewrite Ha, IH; auto; intros k Hk; apply Hp', in_or_app; auto. }
    assert (E2 : map (eval O p t x) vals = map (eval O q t x) vals).
    { assert (Hp' : forall k, In k (flat_map params_of vals) -> p k = q k).
      { intros k Hk. apply Hp, in_or_app. right. apply in_or_app. auto. }
      clear -H0 Hp'. induction H0 as [|a l Ha _ IH]; cbn in *; [reflexivity|].
      rewrite Ha, IH; auto; intros k Hk; apply Hp', in_or_app; auto. }
    rewrite E1, E2. reflexivity.
  - rewrite IHe by (intros k Hk; apply Hp, in_or_app; auto).
    assert (E1 : map (eval O p t x) xs = map (eval O q t x) xs).
    { assert (Hp' : forall k, In k (flat_map params_of xs) -> p k = q k).
      { intros k Hk. apply Hp, in_or_app. right. apply in_or_app. auto. }
      clear -H Hp'. induction H as [|a l Ha _ IH]; cbn in *; [reflexivity|].
      rewrite Ha, IH; auto; intros k Hk; apply Hp', in_or_app; auto. }
    assert (E2 : map (eval O p t x) ys = map (eval O q t x) ys).
    { assert (Hp' : forall k, In k (flat_map params_of ys) -> p k = q k).
      { intros k Hk. apply Hp, in_or_app. right. apply in_or_app. auto. }
      clear -H0 Hp'. induction H0 as [|a l Ha _ IH]; cbn in *; [reflexivity|].
      rewrite Ha, IH; auto; intros k Hk; apply Hp', in_or_app; auto. }
    rewrite E1, E2. reflexivity.
Qed.

(* C09: a named parameter is interchangeable with the literal it stands for *)
Lemma eval_subst (p : env O) (k : string) (v : Q) (e : expr) t x :
  p k = of_Q O v -> eval O p t x (subst k v e) = eval O p t x e.
Proof.
  intro Hk. induction e using expr_ind2; cbn [subst eval]; try reflexivity.
  - destruct (String.eqb_spec k k0) as [<-|Hne]; cbn [eval]; [symmetry; exact Hk|reflexivity].
  - rewrite IHe1, IHe2; reflexivity.
  - rewrite IHe1, IHe2; reflexivity.
  - rewrite IHe1, IHe2; reflexivity.
  - rewrite IHe1, IHe2; reflexivity.
  - rewrite IHe, !map_map.
    rewrite (map_ext_Forall _ (eval O p t x) _ bps H (fun a Ha => Ha)).
    rewrite (map_ext_Forall _ (eval O p t x) _ vals H0 (fun a Ha => Ha)). reflexivity.
  - rewrite IHe, !map_map.
    rewrite (map_ext_Forall _ (eval O p t x) _ xs H (fun a Ha => Ha)).
    rewrite (map_ext_Forall _ (eval O p t x) _ ys H0 (fun a Ha => Ha)). reflexivity.
Qed.

End Eval.

(* ------------------------------------------------ structural equality of expressions *)
Definition list_expr_eqb := 
  fix list_eqb (l1 l2 : list expr) : bool :=
    match l1, l2 with
    | [], [] => true
    | x :: t1, y :: t2 => expr_eqb x y && list_eqb t1 t2
    | _, _ => false
    end.

Section Eqb.
Variable O : NumOps.
Variable T : NumTheory O.

Lemma list_expr_eqb_sound (P : expr -> expr -> Prop) l1 :
  Forall (fun a => forall b, expr_eqb a b = true -> P a b) l1 ->
  forall l2, list_expr_eqb l1 l2 = true -> Forall2 P l1 l2.
Proof.
  induction 1 as [|a l1 Ha _ IH]; intros [|b l2] E; cbn in E; try discriminate; constructor.
  - apply andb_true_iff in E. apply Ha, E.
  - apply andb_true_iff in E. apply IH, E.
Qed.

Lemma Forall2_impl {A B} (P Q : A -> B -> Prop) l1 l2 :
  (forall a b, P a b -> Q a b) -> Forall2 P l1 l2 -> Forall2 Q l1 l2.
Proof. intros H; induction 1; constructor; auto. Qed.

Lemma Forall2_map_eq {A B} (f g : A -> B) l1 l2 :
  Forall2 (fun a b => f a = g b) l1 l2 -> map f l1 = map g l2.
Proof. induction 1; cbn; congruence. Qed.

Lemma Forall2_existsb_eq {A} (f : A -> bool) l1 l2 :
  Forall2 (fun a b => f a = f b) l1 l2 -> existsb f l1 = existsb f l2.
Proof. induction 1; cbn; congruence. Qed.

Lemma expr_eqb_sound (a : expr) :
  forall b, expr_eqb a b = true ->
    (forall (p : env O) t x, eval O p t x a = eval O p t x b) /\ mentions_mv a = mentions_mv b.
Proof.
  induction a using expr_ind2; intros b E; destruct b; cbn in E; try discriminate.
  - split; [|reflexivity]. intros; cbn. apply (of_Q_eq O T). apply Qeq_bool_iff. exact E.
  - apply String.eqb_eq in E. subst. split; reflexivity.
  - split; reflexivity.
  - apply Nat.eqb_eq in E. subst. split; reflexivity.
  - apply andb_true_iff in E. destruct E as [E1 E2].
    destruct (IHa1 _ E1) as [A1 M1], (IHa2 _ E2) as [A2 M2].
    split; [intros; cbn; rewrite A1, A2; reflexivity | cbn; rewrite M1, M2; reflexivity].
  - apply andb_true_iff in E. destruct E as [E1 E2].
    destruct (IHa1 _ E1) as [A1 M1], (IHa2 _ E2) as [A2 M2].
    split; [intros; cbn; rewrite A1, A2; reflexivity | cbn; rewrite M1, M2; reflexivity].
  - apply andb_true_iff in E. destruct E as [E1 E2].
    destruct (IHa1 _ E1) as [A1 M1], (IHa2 _ E2) as [A2 M2].
    split; [intros; cbn; rewrite A1, A2; reflexivity | cbn; rewrite M1, M2; reflexivity].
  - apply andb_true_iff in E. destruct E as [E1 E2].
    destruct (IHa1 _ E1) as [A1 M1], (IHa2 _ E2) as [A2 M2].
    split; [intros; cbn; rewrite A1, A2; reflexivity | cbn; rewrite M1, M2; reflexivity].
  - apply andb_true_iff in E. destruct E as [E E3]. apply andb_true_iff in E. destruct E as [E1 E2].
    destruct (IHa _ E1) as [A1 M1].
    pose proof (list_expr_eqb_sound _ bps H bps0 E2) as F1.
    pose proof (list_expr_eqb_sound _ vals H0 vals0 E3) as F2.
    split.
    + intros p t x. cbn. rewrite A1.
      rewrite (Forall2_map_eq (eval O p t x) (eval O p t x) bps bps0)
        by (eapply Forall2_impl; [|exact F1]; intros a' b' [Hab _]; apply Hab).
      rewrite (Forall2_map_eq (eval O p t x) (eval O p t x) vals vals0)
        by (eapply Forall2_impl; [|exact F2]; intros a' b' [Hab _]; apply Hab).
      reflexivity.
    + cbn. rewrite M1.
      rewrite (Forall2_existsb_eq mentions_mv bps bps0)
        by (eapply Forall2_impl; [|exact F1]; intros a' b' [_ Hab]; apply Hab).
      rewrite (Forall2_existsb_eq mentions_mv vals vals0)
        by (eapply Forall2_impl; [|exact F2]; intros a' b' [_ Hab]; apply Hab).
      reflexivity.
  - apply andb_true_iff in E. destruct E as [E E3]. apply andb_true_iff in E. destruct E as [E1 E2].
    destruct (IHa _ E1) as [A1 M1].
    pose proof (list_expr_eqb_sound _ xs H xs0 E2) as F1.
    pose proof (list_expr_eqb_sound _ ys H0 ys0 E3) as F2.
    split.
    + intros p t x. cbn. rewrite A1.
      rewrite (Forall2_map_eq (eval O p t x) (eval O p t x) xs xs0)
        by (eapply Forall2_impl; [|exact F1]; intros a' b' [Hab _]; apply Hab).
      rewrite (Forall2_map_eq (eval O p t x) (eval O p t x) ys ys0)
        by (eapply Forall2_impl; [|exact F2]; intros a' b' [Hab _]; apply Hab).
      reflexivity.
    + cbn. rewrite M1.
      rewrite (Forall2_existsb_eq mentions_mv xs xs0)
        by (eapply Forall2_impl; [|exact F1]; intros a' b' [_ Hab]; apply Hab).
      rewrite (Forall2_existsb_eq mentions_mv ys ys0)
        by (eapply Forall2_impl; [|exact F2]; intros a' b' [_ Hab]; apply Hab).
      reflexivity.
Qed.

End Eqb.
