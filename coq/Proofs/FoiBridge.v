(* Index lists of a stratified layout are the unions of the copy positions of the unstratified ones (up to order):
   what connects foi_spec_aggregates (FoiAggregate.v) with the index lists find_indices computes. *)
From Coq Require Import QArith Field Ring List String Bool Arith Lia Permutation.
Import ListNotations.
From S2 Require Import Base.Num Base.Arr Model.Expr Model.Struct Model.Rates
     Proofs.ArrLemmas Proofs.NumLemmas Proofs.BuildProofs Proofs.RatesProofs Proofs.ConservationProofs Proofs.FoiProofs
     Proofs.InfectiousnessProofs Proofs.AggregateProofs Proofs.AggregateTotals Proofs.FoiAggregate.
Local Open Scope nat_scope.
Local Notation length := List.length.

Lemma NoDup_flat_map {A B} (f : A -> list B) (l : list A) :
  NoDup l -> (forall a, In a l -> NoDup (f a)) ->
  (forall a a' b, In a l -> In a' l -> In b (f a) -> In b (f a') -> a = a') ->
  NoDup (flat_map f l).
Proof.
  induction l as [|a l IH]; intros Hnd Hf Hdis; cbn [flat_map]; [constructor|].
  inversion Hnd as [|? ? Hna Hnd']; subst.
  apply NoDup_app_intro.
  - apply Hf. left; reflexivity.
  - apply IH; [exact Hnd' | intros; apply Hf; right; assumption |].
    intros a1 a2 b H1 H2. apply Hdis; right; assumption.
  - intros b Hb Hb'. apply in_flat_map in Hb'. destruct Hb' as [a' [Ha' Hb']].
    assert (a = a') by (apply (Hdis a a' b); [left; reflexivity | right; exact Ha' | exact Hb | exact Hb']).
    subst a'. contradiction.
Qed.

Section Bridge.
Variables (cs : list comp) (g : comp -> list comp).
Let cs' := flat_map g cs.
Hypothesis cs_nodup : NoDup cs.
Hypothesis cs'_nodup : NoDup cs'.
Hypothesis g_disjoint : forall a a' b, In a cs -> In a' cs -> In b (g a) -> In b (g a') -> a = a'.

Definition positions (c : comp) : list nat := map (comp_index cs') (g c).
Definition pos_groups : list (list nat) := map positions cs.

Lemma G_pos i d : i < length cs -> G pos_groups i = positions (nth i cs d).
Proof.
  intro Hi. unfold G, pos_groups. rewrite (nth_indep _ [] (positions d)) by (rewrite map_length; exact Hi).
  apply map_nth.
Qed.

Lemma in_cs' c c' : In c cs -> In c' (g c) -> In c' cs'.
Proof. intros Hc Hc'. unfold cs'. apply in_flat_map. exists c. split; assumption. Qed.

Lemma comp_index_in c' : In c' cs' -> comp_index cs' c' < length cs' /\ nth (comp_index cs' c') cs' dcomp = c'.
Proof.
  intro Hin. destruct (In_nth _ _ dcomp Hin) as [q [Hq E]]. rewrite <- E.
  rewrite (comp_index_nth cs' q dcomp cs'_nodup Hq). split; [exact Hq | reflexivity].
Qed.

Lemma comp_index_inj a b : In a cs' -> In b cs' -> comp_index cs' a = comp_index cs' b -> a = b.
Proof.
  intros Ha Hb E. destruct (comp_index_in a Ha) as [_ Ea], (comp_index_in b Hb) as [_ Eb]. rewrite <- Ea, <- Eb, E. reflexivity.
Qed.

Lemma pos_disjoint c1 c2 q : c1 < length cs -> c2 < length cs -> In q (G pos_groups c1) -> In q (G pos_groups c2) -> c1 = c2.
Proof.
  intros H1 H2. rewrite (G_pos c1 dcomp H1), (G_pos c2 dcomp H2). unfold positions. intros Q1 Q2.
  apply in_map_iff in Q1, Q2. destruct Q1 as [a [Ea Ha]], Q2 as [b [Eb Hb]].
  assert (Ia : In (nth c1 cs dcomp) cs) by (apply nth_In; exact H1).
  assert (Ib : In (nth c2 cs dcomp) cs) by (apply nth_In; exact H2).
  assert (a = b) by (apply comp_index_inj; [exact (in_cs' _ a Ia Ha) | exact (in_cs' _ b Ib Hb) | congruence]).
  subst b. pose proof (g_disjoint _ _ a Ia Ib Ha Hb) as E.
  rewrite NoDup_nth in cs_nodup. apply (cs_nodup c1 c2 H1 H2 E).
Qed.

Lemma pos_groups_length : length pos_groups = length cs.
Proof. unfold pos_groups. apply map_length. Qed.

Lemma pos_disjoint_all c1 c2 q : In q (G pos_groups c1) -> In q (G pos_groups c2) -> c1 = c2.
Proof.
  intros Q1 Q2.
  assert (L : forall c, In q (G pos_groups c) -> c < length cs).
  { intros c Hq. destruct (Nat.lt_ge_cases c (length cs)) as [Hl|Hl]; [exact Hl|].
    unfold G in Hq. rewrite nth_overflow in Hq by (rewrite pos_groups_length; exact Hl). destruct Hq. }
  apply (pos_disjoint c1 c2 q (L c1 Q1) (L c2 Q2) Q1 Q2).
Qed.

(* a predicate that copies inherit selects, in the fine layout, the copy positions of what it selects in the coarse one *)
Theorem find_indices_lift (P P' : comp -> bool) :
  (forall c c', In c cs -> In c' (g c) -> P' c' = P c) ->
  (forall c, In c cs -> NoDup (g c)) ->
  Permutation (find_indices P' cs') (lift pos_groups (find_indices P cs)).
Proof.
  intros Hinh Hgn. apply NoDup_Permutation.
  - apply find_indices_nodup.
  - unfold lift. apply NoDup_flat_map.
    + apply find_indices_nodup.
    + intros i Hi. apply find_indices_lt in Hi. rewrite (G_pos i dcomp Hi). unfold positions.
      apply NoDup_map_inj; [|apply Hgn; apply nth_In; exact Hi].
      intros a b Ha Hb E. apply comp_index_inj; [exact (in_cs' _ a (nth_In cs dcomp Hi) Ha) | exact (in_cs' _ b (nth_In cs dcomp Hi) Hb) | exact E].
    + intros i j q Hi Hj. apply find_indices_lt in Hi, Hj. apply pos_disjoint; assumption.
  - intro q. split.
    + intro Hq. apply find_indices_spec in Hq. destruct Hq as [c' [Eq Pc']].
      assert (Hq : q < length cs') by (apply nth_error_Some; congruence).
      assert (Hin : In c' cs') by (eapply nth_error_In; exact Eq).
      unfold cs' in Hin. apply in_flat_map in Hin. destruct Hin as [c [Hc Hc']].
      destruct (In_nth _ _ dcomp Hc) as [i [Hi Ei]].
      unfold lift. apply in_flat_map. exists i. split.
      * apply find_indices_spec. exists c. split; [rewrite <- Ei; apply nth_error_nth'; exact Hi|].
        rewrite <- (Hinh c c' Hc Hc'). exact Pc'.
      * rewrite (G_pos i dcomp Hi), Ei. unfold positions. apply in_map_iff. exists c'. split; [|exact Hc'].
        rewrite <- (nth_error_nth _ _ dcomp Eq). apply comp_index_nth; assumption.
    + intro Hq. unfold lift in Hq. apply in_flat_map in Hq. destruct Hq as [i [Hi Hq]].
      pose proof (find_indices_lt _ _ _ Hi) as Hlt. rewrite (G_pos i dcomp Hlt) in Hq.
      apply find_indices_spec in Hi. destruct Hi as [c [Ec Pc]].
      rewrite (nth_error_nth _ _ dcomp Ec) in Hq. unfold positions in Hq. apply in_map_iff in Hq. destruct Hq as [c' [<- Hc']].
      assert (Hc : In c cs) by (eapply nth_error_In; exact Ec).
      destruct (comp_index_in c' (in_cs' c c' Hc Hc')) as [Hl En].
      apply find_indices_spec. exists c'. split; [rewrite <- En at 2; apply nth_error_nth'; exact Hl|].
      rewrite (Hinh c c' Hc Hc'). exact Pc.
Qed.

End Bridge.
