(* C15 on the model / specification level: invariance under flow order, time origin and scale. *)
From Coq Require Import QArith Field Ring List String Bool Arith Lia Permutation.
Import ListNotations.
From S2 Require Import Base.Num Base.Arr Model.Expr Model.Struct Model.Solvers
     Proofs.ArrLemmas Proofs.NumLemmas Proofs.OrderLemmas Proofs.ExprLemmas Proofs.PositivityProofs.
Local Open Scope nat_scope.
Local Notation length := List.length.

Section Invariance.
Variable O : NumOps.
Variable T : NumTheory O.
Notation F := (F O).
Add Field Finv : (Fth O T).

(* ---------------------------------------------------------------- flow order *)
(* net rate of compartment c for any per-flow rate function: inflows minus outflows *)
Definition net_rate (rate : flow -> F) (fl : list flow) (c : comp) : F :=
  fsub O (fsum O (map (fun f => match f_dst f with Some d => if comp_eqb d c then rate f else f0 O | None => f0 O end) fl))
         (fsum O (map (fun f => match f_src f with Some s => if comp_eqb s c then rate f else f0 O | None => f0 O end) fl)).

(* reordering the flows permutes the flow rates and leaves every compartment's net rate unchanged *)
Theorem net_rate_permutation (rate : flow -> F) (fl fl' : list flow) (c : comp) :
  Permutation fl fl' -> net_rate rate fl c = net_rate rate fl' c.
Proof.
  intro Hp. unfold net_rate. f_equal; apply (fsum_perm O T); apply Permutation_map; exact Hp.
Qed.

(* ---------------------------------------------------------------- time origin *)
Fixpoint time_free (e : expr) : bool :=
  match e with
  | ETime => false
  | EConst _ | EParam _ | EComp _ => true
  | EAdd a b | ESub a b | EMul a b | EDiv a b => time_free a && time_free b
  | EPiecewise x bps vals => time_free x && forallb time_free bps && forallb time_free vals
  | ELinear x xs ys => time_free x && forallb time_free xs && forallb time_free ys
  end.

Lemma map_ext_forallb (g1 g2 : expr -> F) (P : expr -> Prop) l :
  Forall P l -> forallb time_free l = true -> (forall a, P a -> time_free a = true -> g1 a = g2 a) -> map g1 l = map g2 l.
Proof.
  induction 1 as [|a l Ha _ IH]; intros Hf H; cbn in *; [reflexivity|].
  apply andb_true_iff in Hf. destruct Hf as [H1 H2]. rewrite (H a Ha H1), IH; auto.
Qed.

(* an input with no explicit time dependence has the same value at every time *)
Theorem eval_time_free (p : env O) (e : expr) :
  time_free e = true -> forall t t' x, eval O p t x e = eval O p t' x e.
Proof.
  induction e using expr_ind2; cbn [time_free eval]; intros Hf t t' x; try reflexivity; try discriminate.
  1-4: apply andb_true_iff in Hf; destruct Hf as [Ha Hb]; rewrite (IHe1 Ha t t' x), (IHe2 Hb t t' x); reflexivity.
  - apply andb_true_iff in Hf; destruct Hf as [Hf Hv]. apply andb_true_iff in Hf; destruct Hf as [Hx Hb].
    rewrite (IHe Hx t t' x).
    rewrite (map_ext_forallb (eval O p t x) (eval O p t' x) _ bps H Hb (fun a Ha Hta => Ha Hta t t' x)).
    rewrite (map_ext_forallb (eval O p t x) (eval O p t' x) _ vals H0 Hv (fun a Ha Hta => Ha Hta t t' x)). reflexivity.
  - apply andb_true_iff in Hf; destruct Hf as [Hf Hv]. apply andb_true_iff in Hf; destruct Hf as [Hx Hb].
    rewrite (IHe Hx t t' x).
    rewrite (map_ext_forallb (eval O p t x) (eval O p t' x) _ xs H Hb (fun a Ha Hta => Ha Hta t t' x)).
    rewrite (map_ext_forallb (eval O p t x) (eval O p t' x) _ ys H0 Hv (fun a Ha Hta => Ha Hta t t' x)). reflexivity.
Qed.

(* a right-hand side without time dependence gives the same fixed-step trajectory from any start time *)
Lemma iterate_time_shift (step : F -> list F -> list F) h :
  (forall t t' y, step t y = step t' y) ->
  forall k t t' y, iterate_steps O step h t y k = iterate_steps O step h t' y k.
Proof.
  intros Hs k. induction k as [|k IH]; intros t t' y; cbn [iterate_steps]; [reflexivity|].
  rewrite (Hs t t' y). f_equal. apply IH.
Qed.

Theorem time_shift_euler (f : rhs O) h t0 t0' y0 k :
  (forall t t' y, f t y = f t' y) ->
  solve_fixed O (euler_step O) f t0 h y0 k = solve_fixed O (euler_step O) f t0' h y0 k.
Proof.
  intro Hf. unfold solve_fixed. apply iterate_time_shift. intros t t' y. unfold euler_step. rewrite (Hf t t' y). reflexivity.
Qed.

Theorem time_shift_rk4 (f : rhs O) h t0 t0' y0 k :
  (forall t t' y, f t y = f t' y) ->
  solve_fixed O (rk4_step O) f t0 h y0 k = solve_fixed O (rk4_step O) f t0' h y0 k.
Proof.
  intro Hf. unfold solve_fixed. apply iterate_time_shift. intros t t' y. unfold rk4_step.
  rewrite (Hf t t' y), (Hf (fadd O t (fdiv O h (two O))) (fadd O t' (fdiv O h (two O)))).
  rewrite (Hf (fadd O t (fdiv O h (two O))) (fadd O t' (fdiv O h (two O)))).
  rewrite (Hf (fadd O t h) (fadd O t' h)). reflexivity.
Qed.

(* ---------------------------------------------------------------- population scale *)
Notation "x <= y" := (fle O T x y).

(* negative values count as zero commutes with scaling by k > 0 *)
Theorem fclean_scale k v : fpos O T k -> fclean O (fmul O k v) = fmul O k (fclean O v).
Proof.
  intros [Hk Hk0]. unfold fclean.
  destruct (fltb O v (f0 O)) eqn:Ev.
  - (* v < 0: k v < 0 *)
    apply (fltb_true O T) in Ev. destruct Ev as [Hv Hne].
    assert (Hkv : fltb O (fmul O k v) (f0 O) = true).
    { apply (fltb_true O T). split.
      - (* k v <= 0 since 0 <= k * (-v) *)
        assert (Hnv : f0 O <= fopp O v).
        { pose proof (fle_add O T v (f0 O) (fopp O v) Hv) as H. replace (fadd O v (fopp O v)) with (f0 O) in H by ring.
          replace (fadd O (f0 O) (fopp O v)) with (fopp O v) in H by ring. exact H. }
        pose proof (fle_mul O T k (fopp O v) Hk Hnv) as H.
        pose proof (fle_add O T _ _ (fmul O k v) H) as H'.
        replace (fadd O (f0 O) (fmul O k v)) with (fmul O k v) in H' by ring.
        replace (fadd O (fmul O k (fopp O v)) (fmul O k v)) with (f0 O) in H' by ring. exact H'.
      - intro E. apply Hne.
        transitivity (fmul O (finv O k) (fmul O k v)); [field; exact Hk0 | rewrite E; ring]. }
    rewrite Hkv. ring.
  - apply (fltb_false O T) in Ev.
    assert (Hkv : fltb O (fmul O k v) (f0 O) = false).
    { apply (fltb_false O T). apply (fle_mul O T); assumption. }
    rewrite Hkv. reflexivity.
Qed.

(* frequency-dependent force of infection is scale invariant, density-dependent scales by k *)
Theorem prevalence_scale_invariant k P N : k <> f0 O -> N <> f0 O ->
  fdiv O (fmul O k P) (fmul O k N) = fdiv O P N.
Proof. intros Hk HN. field. split; assumption. Qed.

Theorem fsum_scale k (l : list F) : fsum O (map (fmul O k) l) = fmul O k (fsum O l).
Proof. rewrite (fsum_map_scale O T k (fun v => v)), map_id. reflexivity. Qed.

End Invariance.
