(* C11 on the model: the result of a run is a function of the definition, the current default
   parameters and the parameter values of that call - not of the calls made before it. *)
From Coq Require Import QArith List String Bool Arith Lia.
Import ListNotations.
From S2 Require Import Base.Num Base.Arr Model.Expr Model.Struct Model.Rates Model.InitPop
     Model.Solvers Model.Derived Model.Run Model.Program Model.Api Proofs.ParamProofs.
Local Open Scope nat_scope.
Local Notation length := List.length.

(* the definition: everything but the default parameter values and the finalisation flag *)
Definition same_definition (m m' : model) : Prop :=
  m_times m = m_times m' /\ m_comps m = m_comps m' /\ m_orig m = m_orig m' /\
  m_infectious m = m_infectious m' /\ m_flows m = m_flows m' /\ m_strats m = m_strats m' /\
  m_mixcats m = m_mixcats m' /\ m_strains m = m_strains m' /\ m_actions m = m_actions m' /\
  m_initpop m = m_initpop m' /\ m_arraypop m = m_arraypop m' /\ m_requests m = m_requests m' /\
  m_whitelist m = m_whitelist m' /\ m_cvs m = m_cvs m'.

Lemma same_definition_refl m : same_definition m m.
Proof. unfold same_definition; repeat split; reflexivity. Qed.

Lemma same_definition_trans a b c : same_definition a b -> same_definition b c -> same_definition a c.
Proof.
  unfold same_definition; intros H1 H2.
  repeat match goal with H : _ /\ _ |- _ => destruct H as [? H] end.
  repeat split; etransitivity; eassumption.
Qed.

Lemma finalize_definition m m' : finalize m = Ok m' ->
  same_definition m m' /\ m_defaults m' = m_defaults m /\ m_finalized m' = true.
Proof.
  unfold finalize, guard. destruct (m_initpop m) eqn:E; cbn; intro H; inversion H; subst; cbn.
  unfold same_definition; cbn. rewrite E. repeat split; reflexivity.
Qed.

Lemma finalize_idempotent m : m_finalized m = true -> m_initpop m <> None -> finalize m = Ok m.
Proof.
  intros Hf Hi. unfold finalize, guard. destruct (m_initpop m) eqn:E; [|congruence]. cbn.
  destruct m; cbn in *. subst. reflexivity.
Qed.

Lemma finalized_has_initpop0 m m' : finalize m = Ok m' -> m_initpop m' <> None.
Proof.
  unfold finalize, guard. destruct (m_initpop m) eqn:E; cbn; intro H; inversion H; subst; cbn;
  try rewrite E; congruence.
Qed.

Lemma finalize_twice m m' : finalize m = Ok m' -> finalize m' = Ok m'.
Proof.
  intro H. destruct (finalize_definition m m' H) as (Hd & _ & Hf).
  apply finalize_idempotent; [exact Hf|].
  eapply finalized_has_initpop0; exact H.
Qed.

(* two definitions that agree field by field (and on the defaults) finalize to the same record *)
Lemma finalize_same m1 m2 : same_definition m1 m2 -> m_defaults m1 = m_defaults m2 ->
  finalize m1 = finalize m2.
Proof.
  unfold same_definition; intros H Hd.
  repeat match goal with H : _ /\ _ |- _ => destruct H as [? H] end.
  unfold finalize. destruct m1, m2; cbn in *; subst. reflexivity.
Qed.

Lemma with_defaults_same m d : same_definition m (with_defaults_model m d).
Proof. unfold same_definition; cbn; repeat split; reflexivity. Qed.

Section ApiProofs.
Variable O : NumOps.
Notation F := (F O).

Lemma api_staged_env_is_staged_env dyn base rt : api_staged_env O dyn base rt = staged_env O dyn base rt.
Proof. reflexivity. Qed.

(* a runner with every parameter dynamic ignores the values it was built with *)
Lemma runner_run_all_dynamic (r r' : runner) p :
  r_dyn r = None -> r_dyn r' = None -> r_model r = r_model r' -> r_solver r = r_solver r' ->
  r_defaults r = r_defaults r' -> runner_run O r p = runner_run O r' p.
Proof.
  intros H1 H2 H3 H4 H5. unfold runner_run, missing, runner_env, runner_env_derived, frozen_base, runner_params.
  rewrite H1, H2, H3, H4, H5. reflexivity.
Qed.

(* the solver used by every model.run call of a history (the cached runner keeps the solver it
   was built with, so the statement is for histories that do not switch solver between cached runs) *)
Fixpoint uses_solver (s : solver) (cs : list call) : Prop :=
  match cs with
  | [] => True
  | CRun _ s' _ :: rest => s' = s /\ uses_solver s rest
  | _ :: rest => uses_solver s rest
  end.

Fixpoint current_defaults (d : params) (cs : list call) : params :=
  match cs with
  | [] => d
  | CSetDefaults d' :: rest => current_defaults d' rest
  | _ :: rest => current_defaults d rest
  end.

(* invariant of the object *)
Definition Inv (m0 : model) (s : solver) (d : params) (a : api O) : Prop :=
  same_definition m0 (a_model a) /\ m_defaults (a_model a) = d /\
  (forall r, a_runner a = Some r ->
     r_model r = a_model a /\ m_finalized (a_model a) = true /\ m_initpop (a_model a) <> None /\
     r_dyn r = None /\ r_defaults r = d /\ r_solver r = s).

Lemma get_runner_spec m p dyn s m' r : get_runner m p dyn s = Ok (m', r) ->
  finalize m = Ok m' /\ r_model r = m' /\ r_solver r = s /\ r_dyn r = dyn /\
  r_defaults r = m_defaults m' /\ r_base r = p ++ m_defaults m'.
Proof.
  unfold get_runner. destruct (finalize m) as [mm|w] eqn:E; cbn; intro H; inversion H; subst; cbn.
  repeat split; reflexivity.
Qed.

Lemma finalized_has_initpop m m' : finalize m = Ok m' -> m_initpop m' <> None.
Proof. apply finalized_has_initpop0. Qed.

Lemma solver_eqb_eq a b : solver_eqb a b = true <-> a = b.
Proof. destruct a, b; cbn; split; intro H; try reflexivity; try discriminate. Qed.

(* the runner model.run reuses: the cached one, when it was built for the solver asked for *)
Definition cached_runner (a : api O) (s : solver) (rb : bool) : option runner :=
  if rb then None else
  match a_runner a with
  | Some r => if solver_eqb (r_solver r) s then Some r else None
  | None => None
  end.

Lemma cached_runner_some a s rb r : cached_runner a s rb = Some r -> a_runner a = Some r /\ r_solver r = s.
Proof.
  unfold cached_runner. destruct rb; [discriminate|]. destruct (a_runner a) as [r0|]; [|discriminate].
  destruct (solver_eqb (r_solver r0) s) eqn:E; [|discriminate]. intro H. inversion H; subst. split; [reflexivity|].
  apply solver_eqb_eq. exact E.
Qed.

Lemma step_inv m0 s d a c : Inv m0 s d a -> uses_solver s [c] ->
  Inv m0 s (current_defaults d [c]) (fst (step O a c)).
Proof.
  intros (Hd & Hdef & Hr) Hs. destruct c as [p s' rb | p dyn s' | k p | d']; cbn [current_defaults].
  - cbn in Hs. destruct Hs as [-> _]. cbn [step].
    fold (cached_runner a s rb). destruct (cached_runner a s rb) as [r|] eqn:Ec.
    + assert (Har : a_runner a = Some r) by (apply (cached_runner_some a s rb r Ec)).
      unfold Inv; cbn [fst a_model a_runner a_handles a_last]. split; [exact Hd|]. split; [exact Hdef|]. intros r' Hr'. inversion Hr'; subst. apply Hr; exact Har.
    + destruct (get_runner (a_model a) p None s) as [[m' r]|w] eqn:Eg; unfold Inv; cbn [fst a_model a_runner a_handles a_last].
      * destruct (get_runner_spec _ _ _ _ _ _ Eg) as (Hf & Hm & Hso & Hdy & Hde & _).
        destruct (finalize_definition _ _ Hf) as (Hsd & Hdd & Hfin).
        split; [eapply same_definition_trans; eassumption|]. split; [congruence|].
        intros r' Hr'. inversion Hr'; subst r'.
        split; [exact Hm|]. split; [exact Hfin|]. split; [eapply finalized_has_initpop; exact Hf|].
        split; [exact Hdy|]. split; [congruence|exact Hso].
      * split; [exact Hd|]. split; [exact Hdef|]. intros r' Hr'. discriminate.
  - cbn [step]. destruct (get_runner (a_model a) p dyn s') as [[m' r]|w] eqn:Eg; unfold Inv; cbn [fst a_model a_runner a_handles a_last].
    + destruct (get_runner_spec _ _ _ _ _ _ Eg) as (Hf & _).
      destruct (finalize_definition _ _ Hf) as (Hsd & Hdd & Hfin).
      split; [eapply same_definition_trans; eassumption|]. split; [congruence|].
      intros r' Hr'. destruct (Hr r' Hr') as (H1 & H2 & H3 & H4 & H5 & H6).
      (* the cached runner was built on a finalized model: finalizing again returns it unchanged *)
      assert (m' = a_model a) as ->.
      { rewrite (finalize_idempotent _ H2 H3) in Hf. inversion Hf; reflexivity. }
      repeat split; assumption.
    + split; [exact Hd|]. split; [exact Hdef|]. exact Hr.
  - cbn [step]. destruct (nth_error (a_handles a) k); unfold Inv; cbn [fst a_model a_runner a_handles a_last]; (split; [exact Hd|]; split; [exact Hdef|]; exact Hr).
  - unfold Inv; cbn [step fst a_model a_runner a_handles a_last]. split; [eapply same_definition_trans; [exact Hd|apply with_defaults_same]|]. split; [reflexivity|].
    intros r' Hr'. discriminate.
Qed.

Lemma uses_solver_app s c cs : uses_solver s (c :: cs) -> uses_solver s [c] /\ uses_solver s cs.
Proof. destruct c; cbn; tauto. Qed.

Lemma current_defaults_cons d c cs : current_defaults d (c :: cs) = current_defaults (current_defaults d [c]) cs.
Proof. destruct c; reflexivity. Qed.

Lemma steps_inv m0 s cs : forall d a, Inv m0 s d a -> uses_solver s cs ->
  Inv m0 s (current_defaults d cs) (fst (steps O a cs)).
Proof.
  induction cs as [|c cs IH]; intros d a Hi Hs; cbn [steps].
  - exact Hi.
  - destruct (uses_solver_app _ _ _ Hs) as [Hc Hcs].
    pose proof (step_inv m0 s d a c Hi Hc) as Hi'.
    destruct (step O a c) as [a' o] eqn:Es. cbn [fst] in Hi'.
    specialize (IH _ a' Hi' Hcs).
    destruct (steps O a' cs) as [a'' os]. cbn [fst] in *.
    rewrite current_defaults_cons. exact IH.
Qed.

Lemma init_inv m s : Inv m s (m_defaults m) (init_api O m).
Proof.
  split; [apply same_definition_refl|]. split; [reflexivity|]. intros r Hr; discriminate.
Qed.

(* what a model.run call returns in a state satisfying the invariant *)
Lemma run_in_inv m0 s d a p rb : Inv m0 s d a ->
  snd (step O a (CRun p s rb)) = Some (pure_run O (a_model a) s p).
Proof.
  intros (Hd & Hdef & Hr). cbn [step].
  fold (cached_runner a s rb). destruct (cached_runner a s rb) as [r|] eqn:Ec.
  - assert (Har : a_runner a = Some r) by (apply (cached_runner_some a s rb r Ec)).
    destruct (Hr r Har) as (H1 & H2 & H3 & H4 & H5 & H6). cbn [snd]. f_equal.
    unfold pure_run. rewrite (finalize_idempotent _ H2 H3). cbn [bind].
    apply runner_run_all_dynamic; cbn; congruence.
  - unfold pure_run, get_runner. destruct (finalize (a_model a)) as [m'|w]; cbn; reflexivity.
Qed.

(* ----- the history theorem: after any sequence of calls, model.run(p) returns what a fresh
   object with the same definition and the current default parameters returns ----- *)
Theorem run_history_independent (m : model) (s : solver) (cs : list call) (p : params) (rb : bool) :
  uses_solver s cs ->
  let a := fst (steps O (init_api O m) cs) in
  snd (step O a (CRun p s rb)) =
    Some (pure_run O (with_defaults_model m (current_defaults (m_defaults m) cs)) s p).
Proof.
  intros Hs a.
  pose proof (steps_inv m s cs _ _ (init_inv m s) Hs) as Hi. fold a in Hi.
  rewrite (run_in_inv _ _ _ _ _ _ Hi). f_equal.
  destruct Hi as (Hd & Hdef & _). unfold pure_run.
  rewrite (finalize_same (a_model a) (with_defaults_model m (current_defaults (m_defaults m) cs))).
  - reflexivity.
  - unfold same_definition in *.
    repeat match goal with H : _ /\ _ |- _ => destruct H as [? H] end.
    cbn. repeat split; congruence.
  - cbn. exact Hdef.
Qed.

(* ---------------------------------------------------------------- histories that switch solver *)
(* the same invariant without the solver: model.run asks for a solver at every call, and reuses the cached runner only
   if it was built for that solver *)
Definition Inv2 (m0 : model) (d : params) (a : api O) : Prop :=
  same_definition m0 (a_model a) /\ m_defaults (a_model a) = d /\
  (forall r, a_runner a = Some r ->
     r_model r = a_model a /\ m_finalized (a_model a) = true /\ m_initpop (a_model a) <> None /\
     r_dyn r = None /\ r_defaults r = d).

Lemma step_inv2 m0 d a c : Inv2 m0 d a -> Inv2 m0 (current_defaults d [c]) (fst (step O a c)).
Proof.
  intros (Hd & Hdef & Hr). destruct c as [p s' rb | p dyn s' | k p | d']; cbn [current_defaults].
  - cbn [step]. fold (cached_runner a s' rb). destruct (cached_runner a s' rb) as [r|] eqn:Ec.
    + assert (Har : a_runner a = Some r) by (apply (cached_runner_some a s' rb r Ec)).
      unfold Inv2; cbn [fst a_model a_runner a_handles a_last]. split; [exact Hd|]. split; [exact Hdef|].
      intros r' Hr'. inversion Hr'; subst. apply Hr; exact Har.
    + destruct (get_runner (a_model a) p None s') as [[m' r]|w] eqn:Eg; unfold Inv2; cbn [fst a_model a_runner a_handles a_last].
      * destruct (get_runner_spec _ _ _ _ _ _ Eg) as (Hf & Hm & Hso & Hdy & Hde & _).
        destruct (finalize_definition _ _ Hf) as (Hsd & Hdd & Hfin).
        split; [eapply same_definition_trans; eassumption|]. split; [congruence|].
        intros r' Hr'. inversion Hr'; subst r'.
        split; [exact Hm|]. split; [exact Hfin|]. split; [eapply finalized_has_initpop; exact Hf|].
        split; [exact Hdy|]. congruence.
      * split; [exact Hd|]. split; [exact Hdef|]. intros r' Hr'. discriminate.
  - cbn [step]. destruct (get_runner (a_model a) p dyn s') as [[m' r]|w] eqn:Eg; unfold Inv2; cbn [fst a_model a_runner a_handles a_last].
    + destruct (get_runner_spec _ _ _ _ _ _ Eg) as (Hf & _).
      destruct (finalize_definition _ _ Hf) as (Hsd & Hdd & Hfin).
      split; [eapply same_definition_trans; eassumption|]. split; [congruence|].
      intros r' Hr'. destruct (Hr r' Hr') as (H1 & H2 & H3 & H4 & H5).
      assert (m' = a_model a) as ->.
      { rewrite (finalize_idempotent _ H2 H3) in Hf. inversion Hf; reflexivity. }
      repeat split; assumption.
    + split; [exact Hd|]. split; [exact Hdef|]. exact Hr.
  - cbn [step]. destruct (nth_error (a_handles a) k); unfold Inv2; cbn [fst a_model a_runner a_handles a_last]; (split; [exact Hd|]; split; [exact Hdef|]; exact Hr).
  - unfold Inv2; cbn [step fst a_model a_runner a_handles a_last]. split; [eapply same_definition_trans; [exact Hd|apply with_defaults_same]|]. split; [reflexivity|].
    intros r' Hr'. discriminate.
Qed.

Lemma steps_inv2 m0 cs : forall d a, Inv2 m0 d a -> Inv2 m0 (current_defaults d cs) (fst (steps O a cs)).
Proof.
  induction cs as [|c cs IH]; intros d a Hi; cbn [steps]; [exact Hi|].
  pose proof (step_inv2 m0 d a c Hi) as Hi'.
  destruct (step O a c) as [a' o] eqn:Es. cbn [fst] in Hi'.
  specialize (IH _ a' Hi').
  destruct (steps O a' cs) as [a'' os]. cbn [fst] in *.
  rewrite current_defaults_cons. exact IH.
Qed.

Lemma init_inv2 m : Inv2 m (m_defaults m) (init_api O m).
Proof. split; [apply same_definition_refl|]. split; [reflexivity|]. intros r Hr; discriminate. Qed.

Lemma run_in_inv2 m0 d a p s rb : Inv2 m0 d a ->
  snd (step O a (CRun p s rb)) = Some (pure_run O (a_model a) s p).
Proof.
  intros (Hd & Hdef & Hr). cbn [step].
  fold (cached_runner a s rb). destruct (cached_runner a s rb) as [r|] eqn:Ec.
  - destruct (cached_runner_some a s rb r Ec) as [Har Hso].
    destruct (Hr r Har) as (H1 & H2 & H3 & H4 & H5). cbn [snd]. f_equal.
    unfold pure_run. rewrite (finalize_idempotent _ H2 H3). cbn [bind].
    apply runner_run_all_dynamic; cbn; congruence.
  - unfold pure_run, get_runner. destruct (finalize (a_model a)) as [m'|w]; cbn; reflexivity.
Qed.

(* after ANY history - runs with any solvers, rebuilt or not, runners built and run, defaults replaced - model.run(p) with
   solver s returns what a fresh object with the same definition and the current default parameters returns for s *)
Theorem run_history_independent_any_solver (m : model) (cs : list call) (p : params) (s : solver) (rb : bool) :
  let a := fst (steps O (init_api O m) cs) in
  snd (step O a (CRun p s rb)) =
    Some (pure_run O (with_defaults_model m (current_defaults (m_defaults m) cs)) s p).
Proof.
  intro a.
  pose proof (steps_inv2 m cs _ _ (init_inv2 m)) as Hi. fold a in Hi.
  rewrite (run_in_inv2 _ _ _ _ _ _ Hi). f_equal.
  destruct Hi as (Hd & Hdef & _). unfold pure_run.
  rewrite (finalize_same (a_model a) (with_defaults_model m (current_defaults (m_defaults m) cs))).
  - reflexivity.
  - unfold same_definition in *.
    repeat match goal with H : _ /\ _ |- _ => destruct H as [? H] end.
    cbn. repeat split; congruence.
  - cbn. exact Hdef.
Qed.

(* two equal calls at two points of any history give the same result; rebuild makes no difference *)
Corollary repeatable (m : model) s cs1 cs2 p rb1 rb2 :
  uses_solver s (cs1 ++ cs2) ->
  current_defaults (m_defaults m) cs1 = current_defaults (m_defaults m) (cs1 ++ cs2) ->
  snd (step O (fst (steps O (init_api O m) cs1)) (CRun p s rb1)) =
  snd (step O (fst (steps O (init_api O m) (cs1 ++ cs2))) (CRun p s rb2)).
Proof.
  intros Hs Hd.
  assert (Hs1 : uses_solver s cs1).
  { clear Hd. induction cs1 as [|c cs1 IH]; [exact I|]. destruct c; cbn in *; try tauto. }
  pose proof (run_history_independent m s cs1 p rb1 Hs1) as H1.
  pose proof (run_history_independent m s (cs1 ++ cs2) p rb2 Hs) as H2.
  cbn zeta in H1, H2. rewrite H1, H2, Hd. reflexivity.
Qed.

(* the definition is never altered by running or by building runners *)
Theorem definition_preserved (m : model) s cs :
  uses_solver s cs -> same_definition m (a_model (fst (steps O (init_api O m) cs))).
Proof.
  intro Hs. destruct (steps_inv m s cs _ _ (init_inv m s) Hs) as (Hd & _). exact Hd.
Qed.

(* the same two statements for histories that switch solver *)
Corollary repeatable_any_solver (m : model) s cs1 cs2 p rb1 rb2 :
  current_defaults (m_defaults m) cs1 = current_defaults (m_defaults m) (cs1 ++ cs2) ->
  snd (step O (fst (steps O (init_api O m) cs1)) (CRun p s rb1)) =
  snd (step O (fst (steps O (init_api O m) (cs1 ++ cs2))) (CRun p s rb2)).
Proof.
  intro Hd.
  pose proof (run_history_independent_any_solver m cs1 p s rb1) as H1.
  pose proof (run_history_independent_any_solver m (cs1 ++ cs2) p s rb2) as H2.
  cbn zeta in H1, H2. rewrite H1, H2, Hd. reflexivity.
Qed.

Theorem definition_preserved_any_solver (m : model) cs :
  same_definition m (a_model (fst (steps O (init_api O m) cs))).
Proof. destruct (steps_inv2 m cs _ _ (init_inv2 m)) as (Hd & _). exact Hd. Qed.

(* handles are append-only: a runner given out is never modified by later calls *)
Lemma step_handles a c k r : nth_error (a_handles a) k = Some r ->
  nth_error (a_handles (fst (step O a c))) k = Some r.
Proof.
  intro H. destruct c as [p s' rb | p dyn s' | k' p | d']; cbn [step].
  - fold (cached_runner a s' rb). destruct (cached_runner a s' rb); [exact H|].
    destruct (get_runner (a_model a) p None s') as [[m' r']|w]; exact H.
  - destruct (get_runner (a_model a) p dyn s') as [[m' r']|w]; cbn; [|exact H].
    rewrite nth_error_app1; [exact H|]. apply nth_error_Some. congruence.
  - destruct (nth_error (a_handles a) k'); exact H.
  - exact H.
Qed.

Lemma steps_handles cs : forall a k r, nth_error (a_handles a) k = Some r ->
  nth_error (a_handles (fst (steps O a cs))) k = Some r.
Proof.
  induction cs as [|c cs IH]; intros a k r H; cbn [steps]; [exact H|].
  pose proof (step_handles a c k r H) as H'. destruct (step O a c) as [a' o]. cbn [fst] in H'.
  specialize (IH a' k r H'). destruct (steps O a' cs) as [a'' os]. exact IH.
Qed.

(* hence a runner's results depend only on the runner and the parameters of the call *)
Theorem runner_history_independent a cs k r p :
  nth_error (a_handles a) k = Some r ->
  snd (step O (fst (steps O a cs)) (CRunnerRun k p)) = Some (runner_run O r p).
Proof.
  intro H. pose proof (steps_handles cs a k r H) as H'. cbn [step]. rewrite H'. reflexivity.
Qed.

(* what a runner built with a partition of the parameters computes: the run of the definition with
   the frozen parameters at their build-time values and the dynamic ones at their run-time values *)
Theorem runner_run_meaning m p0 dyn s m' r p :
  get_runner m p0 (Some dyn) s = Ok (m', r) -> missing r p = [] ->
  runner_run O r p =
    run_model_gen O m' s
      (staged_env O dyn (fun k => assoc k (p0 ++ m_defaults m')) (env_of O (p ++ m_defaults m')))
      (env_of O (filter (fun kv => negb (mem_str (fst kv) dyn)) (p0 ++ m_defaults m') ++ (p ++ m_defaults m'))).
Proof.
  intros Hg Hm. destruct (get_runner_spec _ _ _ _ _ _ Hg) as (Hf & H1 & H2 & H3 & H4 & H5).
  unfold runner_run. rewrite Hm. cbn [guard bind]. unfold runner_env, runner_env_derived, frozen_base, runner_params.
  rewrite H1, H2, H3, H4, H5. reflexivity.
Qed.

Lemma assoc_app {A} k (l1 l2 : list (string * A)) :
  assoc k (l1 ++ l2) = match assoc k l1 with Some v => Some v | None => assoc k l2 end.
Proof.
  induction l1 as [|[k0 v0] l1 IH]; cbn [app assoc]; [reflexivity|].
  destruct (String.eqb k k0); [reflexivity | exact IH].
Qed.

Lemma assoc_filter_key {A} (q : string -> bool) k (l : list (string * A)) :
  assoc k (filter (fun kv => q (fst kv)) l) = if q k then assoc k l else None.
Proof.
  induction l as [|[k0 v0] l IH]; cbn [filter assoc fst]; [destruct (q k); reflexivity|].
  destruct (q k0) eqn:Q0; cbn [assoc].
  - destruct (String.eqb_spec k k0) as [->|Hne]; [rewrite Q0; reflexivity | exact IH].
  - destruct (String.eqb_spec k k0) as [->|Hne]; [rewrite Q0 in IH |- *; exact IH | exact IH].
Qed.

(* the derived-output functions of a run see every parameter at the value the rates see: what was fixed when the
   runner was built is fixed for the whole run, whatever the call or the default parameters supply *)
Theorem derived_env_consistent (r : runner) (p : params) (k : string) :
  runner_env_derived O r p k = runner_env O r p k.
Proof.
  unfold runner_env_derived, runner_env, frozen_base, env_of. destruct (r_dyn r) as [dyn|]; [|reflexivity].
  unfold api_staged_env, env_of. rewrite assoc_app.
  rewrite (assoc_filter_key (fun k0 => negb (mem_str k0 dyn)) k (r_base r)).
  destruct (mem_str k dyn); cbn [negb]; [reflexivity|].
  destruct (assoc k (r_base r)); reflexivity.
Qed.

End ApiProofs.
