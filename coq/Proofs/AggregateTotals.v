(* C03: the total population and the total death rate of the stratified model at a state are those of the unstratified
   model at the aggregated state; hence crude and replacement births aggregate too. *)
From Coq Require Import QArith Field Ring List String Bool Arith Lia.
Import ListNotations.
From S2 Require Import Base.Num Base.Arr Model.Expr Model.Struct Model.Rates Model.Program Spec.RatesSpec
     Proofs.ArrLemmas Proofs.NumLemmas Proofs.BuildProofs Proofs.RatesProofs Proofs.ConservationProofs Proofs.CopiesProofs Proofs.AggregateProofs
     Proofs.InvarianceProofs Proofs.TimeShift Proofs.Scaling Proofs.Assembly Proofs.AggregateRates.
Local Open Scope nat_scope.
Local Notation length := List.length.

Lemma index_of_from_nth (l : list comp) : NoDup l -> forall base i d, i < length l ->
  index_of_from (comp_eqb (nth i l d)) l base = Some (base + i).
Proof.
  induction 1 as [|a l Ha Hnd IH]; intros base i d Hi; cbn in Hi; [lia|].
  cbn [index_of_from]. destruct i as [|i]; cbn [nth].
  - assert (E : comp_eqb a a = true) by (apply comp_eqb_spec; reflexivity). rewrite E. f_equal. lia.
  - destruct (comp_eqb (nth i l d) a) eqn:E.
    + apply comp_eqb_spec in E. exfalso. apply Ha. rewrite <- E. apply nth_In. lia.
    + rewrite (IH (S base) i d) by lia. f_equal. lia.
Qed.

Lemma comp_index_nth (l : list comp) i d : NoDup l -> i < length l -> comp_index l (nth i l d) = i.
Proof. intros Hnd Hi. unfold comp_index, index_of. rewrite (index_of_from_nth l Hnd 0 i d Hi). reflexivity. Qed.

Section Totals.
Variable O : NumOps.
Variable T : NumTheory O.
Notation F := (F O).
Add Field Fto : (Fth O T).

Variables (s : strat) (cs : list comp) (x' : list F).
Hypothesis Hnd' : NoDup (stratify_comps s cs).
Hypothesis Hlen : length x' = length (stratify_comps s cs).

Lemma pops_are_state : map (pop' O s cs x') (stratify_comps s cs) = x'.
Proof.
  apply (nth_ext _ _ (f0 O) (f0 O)); [rewrite map_length; symmetry; exact Hlen|].
  intros i Hi. rewrite map_length in Hi.
  destruct (stratify_comps s cs) as [|c0 l0] eqn:E; [cbn in Hi; lia|]. rewrite <- E in *.
  rewrite (nth_indep _ (f0 O) (pop' O s cs x' c0)) by (rewrite map_length; exact Hi).
  rewrite (map_nth (pop' O s cs x')). unfold pop'. rewrite (comp_index_nth _ i c0 Hnd' Hi).
  apply get_clamp_lt. rewrite Hlen. exact Hi.
Qed.

Theorem total_aggregates : fsum O (aggx O s cs x') = fsum O x'.
Proof.
  unfold aggx. rewrite <- (fsum_flat_map O T (pop' O s cs x') (group s) cs).
  rewrite <- stratify_comps_groups, pops_are_state. reflexivity.
Qed.

End Totals.

(* ---------------------------------------------------------------- births: the copies' weights add up to the weight *)
Section BirthWeights.
Variable O : NumOps.
Variable T : NumTheory O.
Notation F := (F O).
Add Field Fbw : (Fth O T).

Variables (p : env O) (t : F) (s : strat) (x' x : list F) (f : flow).
Hypothesis Hkind : f_kind f = KCrude \/ f_kind f = KRepl.
Hypothesis Hsf : forallb state_free (flow_exprs f) = true.
Hypothesis Hnoadj : get_flow_adjustment s f = Ok None.
Hypothesis Hstrata_nonempty : length (s_strata s) <> Datatypes.O.
(* an age stratification has exactly one stratum "0" (validated by the Stratification object: first age is 0, distinct) *)
Hypothesis Hage0 : is_age (s_kind s) = true -> length (filter (fun st => String.eqb st "0") (s_strata s)) = 1.

Theorem birth_copies_weight_sum fl :
  stratify_flow s f = Ok fl ->
  fsum O (map (weight_spec O p t x') fl) = weight_spec O p t x f.
Proof.
  intro H. pose proof (copies_exact s f fl H) as Ex.
  set (w := weight_spec O p t x f).
  assert (Hwx : weight_spec O p t x' f = w) by (apply (weight_state_free O p t x' x f Hsf)).
  assert (Hentry : is_entry (f_kind f) = true) by (destruct Hkind as [-> | ->]; reflexivity).
  assert (Hbirth : is_birth (f_kind f) = true) by (destruct Hkind as [-> | ->]; reflexivity).
  destruct (affected s f) eqn:Ea.
  - pose proof (default_weights O s f fl p t x' H Hnoadj Ea) as Hw.
    assert (Er : forall (v : F) (l : list flow), map (fun _ => v) l = repeat v (length l))
      by (intros v l; induction l as [|a l IH]; cbn; [reflexivity | rewrite IH; reflexivity]).
    assert (Hlen : length fl = length (copy_strata s f)).
    { transitivity (length (map flow_sig fl)); [rewrite map_length; reflexivity|]. rewrite Ex, map_length. reflexivity. }
    destruct (is_age (s_kind s)) eqn:Eage.
    + (* births go to the age-0 stratum only, with the full weight *)
      assert (Hdf : default_factor s f = None) by (unfold default_factor; rewrite Hentry, Hbirth, Eage; reflexivity).
      rewrite Hdf in Hw.
      unfold copy_strata in Hlen. rewrite Hentry, Hbirth, Eage in Hlen. cbn [andb] in Hlen. rewrite (Hage0 eq_refl) in Hlen.
      destruct fl as [|g [|g' fl]]; cbn in Hlen; try discriminate.
      cbn [map]. rewrite (fsum_cons O), (fsum_nil O), (Hw g (or_introl eq_refl)), Hwx. ring.
    + assert (Hdf : default_factor s f = Some (length (s_strata s))) by (unfold default_factor; rewrite Hentry, Hbirth, Eage; reflexivity).
      rewrite Hdf in Hw.
      unfold copy_strata in Hlen. rewrite Hentry, Hbirth, Eage in Hlen. cbn [andb] in Hlen.
      rewrite (fsum_map_ext O _ (fun _ => fmul O (fmul O w (of_Q O (1 # Pos.of_nat (length (s_strata s))))) (f1 O)))
        by (intros g Hg; rewrite (Hw g Hg), Hwx; ring).
      rewrite Er, Hlen, (divided_copies_sum O T w (f1 O) (length (s_strata s)) Hstrata_nonempty). ring.
  - subst fl. cbn [map]. rewrite (fsum_cons O), (fsum_nil O), Hwx. ring.
Qed.

End BirthWeights.
