(* C03 for models of population-proportional flows: for every model the build API produces whose flows are transition
   and death flows with state-free rates, and every unadjusted ordinary, partial or age stratification, the net rates
   (weight x source population, inflow minus outflow) of the copies of each compartment, at ANY state of the stratified
   model, add up to the net rate of that compartment at the aggregated state. *)
From Coq Require Import QArith Field Ring List String Bool Arith Lia.
Import ListNotations.
From S2 Require Import Base.Num Base.Arr Model.Expr Model.Struct Model.Rates Model.Program Spec.RatesSpec
     Proofs.ArrLemmas Proofs.NumLemmas Proofs.BuildProofs Proofs.ConservationProofs Proofs.CopiesProofs
     Proofs.InvarianceProofs Proofs.TimeShift Proofs.Scaling Proofs.Assembly Proofs.SameKeys Proofs.AgeAssembly Proofs.AggregateRates.
Local Open Scope nat_scope.
Local Notation length := List.length.

Lemma collect_all_ok {A B} (g : A -> result (list B)) l r : collect g l = Ok r -> forall a, In a l -> exists x, g a = Ok x.
Proof.
  revert r; induction l as [|a0 l IH]; intros r E a Ha; [destruct Ha|]. cbn in E. unfold bind in E.
  destruct (g a0) as [ra|] eqn:Ea; [|discriminate]. destruct (collect g l) as [rl|] eqn:El; [|discriminate].
  destruct Ha as [<-|Ha]; [eexists; exact Ea | apply (IH rl eq_refl a Ha)].
Qed.

Lemma no_adjustments s f : s_fadj s = [] -> get_flow_adjustment s f = Ok None.
Proof. intro H. unfold get_flow_adjustment, declared_for. rewrite H. reflexivity. Qed.

Section Fractional.
Variable O : NumOps.
Variable T : NumTheory O.

Theorem fractional_model_aggregates t0 t1 h comps inf ops (m : model) (s0 : strat) (m' : model) (p : env O) (t : F O) (x' : list (F O)) :
  build_ok t0 t1 h comps inf ops = Some m ->
  stratify_with m s0 = Ok m' ->
  let s := normalise_strat s0 in
  NoDup (s_strata s) -> s_strata s <> [] -> is_strain (s_kind s) = false -> s_fadj s = [] ->
  (forall f, In f (m_flows m) -> (f_kind f = KTrans \/ f_kind f = KDeath)
                                 /\ (exists c, f_src f = Some c) /\ forallb state_free (flow_exprs f) = true) ->
  forall c, In c (m_comps m) ->
    fsum O (map (fun c' => net_rate O (frac_rate O p t (stratify_comps s (m_comps m)) x') (m_flows m') c') (group s c))
    = net_rate O (frac_rate O p t (m_comps m) (aggx O s (m_comps m) x')) (m_flows m) c.
Proof.
  intros Hb H s Hst Hne Hns Hna Hfl c Hc.
  pose proof (wf_build _ _ _ _ _ _ _ Hb) as W.
  apply (stratified_net_rates_built O T t0 t1 h comps inf ops m s0 m' _ _ Hb Hst H); [|exact Hc].
  intros f Hf. destruct (Hfl f Hf) as (Hk & [c0 Ec0] & Hsf).
  (* the stratification produced copies of f *)
  destruct (stratify_with_flows _ _ _ H) as (fl0 & extra & Ecol & _ & _). fold s in Ecol.
  destruct (collect_all_ok _ _ _ Ecol f Hf) as [fl Efl].
  unfold copies_of. fold s. rewrite Efl.
  assert (Hcs : m_comps m <> []) by (intro E; rewrite E in Hc; destruct Hc).
  apply (frac_copies_rate_sum O T p t s (m_comps m) x' Hcs f Hk); try assumption.
  - exists c0. split; [exact Ec0|]. apply (proj1 (wf_flows m W f Hf)). left; exact Ec0.
  - apply no_adjustments. exact Hna.
  - intro E. apply Hne. destruct (s_strata s); [reflexivity|discriminate].
Qed.

End Fractional.

(* ---------------------------------------------------------------- transition, death, importation and absolute flows *)
Lemma copies_kind s f fl g : stratify_flow s f = Ok fl -> In g fl -> f_kind g = f_kind f.
Proof.
  intros H Hg. pose proof (copies_exact s f fl H) as Ex. destruct (affected s f).
  - assert (Hin : In (flow_sig g) (map (copy_ends s f) (copy_strata s f))) by (rewrite <- Ex; apply in_map; exact Hg).
    apply in_map_iff in Hin. destruct Hin as [st [E _]]. unfold copy_ends, flow_sig in E. injection E as _ Ek _ _ _. symmetry. exact Ek.
  - subst fl. destruct Hg as [<-|[]]. reflexivity.
Qed.

Section Linear.
Variable O : NumOps.
Variable T : NumTheory O.

(* the rate of a flow whose law does not read other compartments: weight x source for transition and death flows, the
   weight itself for importation and absolute flows *)
Definition lin_rate (p : env O) (t : F O) (comps : list comp) (x : list (F O)) (f : flow) : F O :=
  match f_kind f with
  | KTrans | KDeath => frac_rate O p t comps x f
  | _ => weight_spec O p t x f
  end.

Definition lin_flow (f : flow) : Prop :=
  ((f_kind f = KTrans \/ f_kind f = KDeath) /\ exists c, f_src f = Some c) \/ (f_kind f = KImport \/ f_kind f = KAbs).

Theorem linear_model_aggregates t0 t1 h comps inf ops (m : model) (s0 : strat) (m' : model) (p : env O) (t : F O) (x' : list (F O)) :
  build_ok t0 t1 h comps inf ops = Some m ->
  stratify_with m s0 = Ok m' ->
  let s := normalise_strat s0 in
  NoDup (s_strata s) -> s_strata s <> [] -> is_strain (s_kind s) = false -> s_fadj s = [] ->
  (forall f, In f (m_flows m) -> lin_flow f /\ forallb state_free (flow_exprs f) = true) ->
  forall c, In c (m_comps m) ->
    fsum O (map (fun c' => net_rate O (lin_rate p t (stratify_comps s (m_comps m)) x') (m_flows m') c') (group s c))
    = net_rate O (lin_rate p t (m_comps m) (aggx O s (m_comps m) x')) (m_flows m) c.
Proof.
  intros Hb H s Hst Hne Hns Hna Hfl c Hc.
  pose proof (wf_build _ _ _ _ _ _ _ Hb) as W.
  apply (stratified_net_rates_built O T t0 t1 h comps inf ops m s0 m' _ _ Hb Hst H); [|exact Hc].
  intros f Hf. destruct (Hfl f Hf) as (Hlin & Hsf).
  destruct (stratify_with_flows _ _ _ H) as (fl0 & extra & Ecol & _ & _). fold s in Ecol.
  destruct (collect_all_ok _ _ _ Ecol f Hf) as [fl Efl].
  unfold copies_of. fold s. rewrite Efl.
  assert (Hcs : m_comps m <> []) by (intro E; rewrite E in Hc; destruct Hc).
  assert (Hn0 : List.length (s_strata s) <> 0) by (intro E; apply Hne; destruct (s_strata s); [reflexivity|discriminate]).
  rewrite (fsum_map_ext O _ (fun g => match f_kind f with KTrans | KDeath => frac_rate O p t (stratify_comps s (m_comps m)) x' g
                                                        | _ => weight_spec O p t x' g end))
    by (intros g Hg; unfold lin_rate; rewrite (copies_kind s f fl g Efl Hg); reflexivity).
  unfold lin_rate. destruct Hlin as [[Hk [c0 Ec0]] | Hk].
  - assert (Hsrc : exists c1, f_src f = Some c1 /\ In c1 (m_comps m))
      by (exists c0; split; [exact Ec0 | apply (proj1 (wf_flows m W f Hf)); left; exact Ec0]).
    pose proof (frac_copies_rate_sum O T p t s (m_comps m) x' Hcs f Hk Hsrc Hsf Hns (no_adjustments s f Hna) Hn0 fl Efl) as R.
    destruct Hk as [Hk|Hk]; rewrite Hk; exact R.
  - pose proof (abs_copies_rate_sum O T p t s x' (aggx O s (m_comps m) x') f Hk Hsf (no_adjustments s f Hna) Hn0 fl Efl) as R.
    destruct Hk as [Hk|Hk]; rewrite Hk; exact R.
Qed.

End Linear.
