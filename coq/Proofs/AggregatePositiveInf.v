(* C03 along Euler runs of models with infection flows, without the premise "the rows stay non-negative": the conditions
   of C18's trajectory theorem for the stratified model provide it. *)
From Coq Require Import QArith List String Bool Arith Lia.
Import ListNotations.
From S2 Require Import Base.Num Base.Arr Model.Expr Model.Struct Model.Rates Model.Solvers Model.Program Spec.RatesSpec
     Proofs.ArrLemmas Proofs.NumLemmas Proofs.BuildProofs Proofs.RatesProofs Proofs.ConservationProofs Proofs.AggregateProofs
     Proofs.InvarianceProofs Proofs.Assembly Proofs.AggregateRates Proofs.AggregateModel Proofs.AggregateTotals Proofs.AggregateAll
     Proofs.RatesBridge Proofs.AggregateFinal Proofs.AggregateTraj Proofs.RunExt Proofs.Scaling Proofs.TimeShift
     Proofs.AggregateInf Proofs.RatesBridgeInf Proofs.AggregateFinalInf Proofs.AggregateTrajInf
     Proofs.PositivityProofs Proofs.PositivityTraj.
Local Open Scope nat_scope.
Local Notation length := List.length.

Section AggregatePositiveInf.
Variable O : NumOps.
Variable T : NumTheory O.
Notation F := (F O).

Variables (t0 t1 h : Q) (comps inf : list string) (ops : list op) (m : model) (s0 : strat) (m' : model) (b b' : backend).
Hypothesis Hb : build_ok t0 t1 h comps inf ops = Some m.
Hypothesis Hcs_nd : NoDup (m_comps m).
Hypothesis H : stratify_with m s0 = Ok m'.
Hypothesis Hpb : prepare_structural m = Ok b.
Hypothesis Hpb' : prepare_structural m' = Ok b'.
Let s := normalise_strat s0.
Hypothesis Hst : NoDup (s_strata s).
Hypothesis Hne : s_strata s <> [].
Hypothesis Hns : is_strain (s_kind s) = false.
Hypothesis Hna : s_fadj s = [].
Hypothesis Hmix : s_mix s = None.
Hypothesis Hia : s_iadj s = [].
Hypothesis Hfl : forall f, In f (m_flows m) -> all_flow f.
Hypothesis Hmx : forallb state_free (mix_exprs m) = true.
Variables (p : env O) (hs : F).
Hypothesis Hdom : forall t y, foi_domain O m p t y.
Hypothesis Hdom' : forall t y, foi_domain O m' p t y.
Hypothesis shapes' : forall f, In f (m_flows m') -> flow_shape f.
Hypothesis no_abs_out' : forall f c, In f (m_flows m') -> f_src f = Some c -> fkind_eqb (f_kind f) KAbs = false.
Hypothesis Hhs : fle O T (f0 O) hs.
Hypothesis weights_nonneg' : forall t y f, length y = length (m_comps m') -> nonneg O T y -> In f (m_flows m') ->
                                           fle O T (f0 O) (weight_spec O p t (vclean O y) f).
Hypothesis muls_nonneg' : forall t y k, length y = length (m_comps m') -> nonneg O T y ->
                                        fle O T (f0 O) (nth k (muls_of O m' b' p t y) (f0 O)).
Hypothesis step_small' : forall t y c, length y = length (m_comps m') -> nonneg O T y -> c < length (m_comps m') ->
                                       fle O T (fmul O hs (exit_coeff O m' b' p t y c)) (f1 O).

Theorem stratified_euler_rows_aggregate_all_positive (tstart : F) (y0' : list F) (k : nat) :
  length y0' = length (m_comps m') -> nonneg O T y0' ->
  map (agg O (copy_positions m s0 m')) (solve_fixed O (euler_step O) (fun t y => get_comp_rates O m' b' p t y) tstart hs y0' k)
  = solve_fixed O (euler_step O) (fun t y => get_comp_rates O m b p t y) tstart hs (agg O (copy_positions m s0 m') y0') k.
Proof.
  intros Hlen Hy0.
  apply (stratified_euler_rows_aggregate_all O T t0 t1 h comps inf ops m s0 m' b b' Hb Hcs_nd H Hpb Hpb' Hst Hne Hns Hna Hmix Hia
           Hfl Hmx p Hdom Hdom' hs tstart y0' k Hlen).
  exact (euler_trajectory_nonneg O T m' b' p hs Hpb' shapes' no_abs_out' Hhs weights_nonneg' muls_nonneg' step_small' k tstart y0' Hlen Hy0).
Qed.

End AggregatePositiveInf.
