(* C07 on the model and on the kernels translated from runner/jax/solvers.py and ode.py:
   the fixed-step solvers are the classical Euler / RK4 recurrences with step h (any h);
   test-equation and quadrature consequences; Dormand-Prince tableau identities; dense output. *)
From Coq Require Import QArith Field Ring List Bool Arith Lia.
Import ListNotations.
From S2 Require Import Base.Num Base.Arr Base.ZArr Model.Solvers Gen.SolversGen Gen.OdeGen
     Proofs.ArrLemmas Proofs.NumLemmas.
Local Open Scope nat_scope.

Section Solvers.
Variable O : NumOps.
Variable T : NumTheory O.
Notation F := (F O).
Add Field Fs : (Fth O T).

Notation "0" := (f0 O).
Notation "1" := (f1 O).
Infix "+" := (fadd O).
Infix "*" := (fmul O).
Infix "-" := (fsub O).
Infix "/" := (fdiv O).

(* side conditions of [field]: numerals built from 1, + and * are non-zero in an ordered field *)
Ltac solve_nz :=
  repeat split;
  match goal with
  | |- _ <> _ => apply (fpos_neq_0 O T); repeat first [apply (fpos_add O T) | apply (fpos_mul O T) | apply (fpos_1 O T)]
  end.

(* ------------------------------------------------ rational literals in the field *)
Lemma of_Q_neq_0 q : ~ (q == 0)%Q -> of_Q O q <> 0.
Proof.
  intros Hq E.
  assert (H1 : of_Q O (q * / q)%Q = 1).
  { rewrite (of_Q_eq O T (q * / q)%Q 1%Q); [apply (of_Q_1 O T)|]. apply Qmult_inv_r. exact Hq. }
  rewrite (of_Q_mul O T), E in H1.
  apply (F_1_neq_0 (Fth O T)). rewrite <- H1. ring.
Qed.

Lemma of_Q_two : of_Q O (2 # 1) = two O.
Proof.
  unfold two. rewrite <- (of_Q_1 O T), <- (of_Q_add O T). apply (of_Q_eq O T). reflexivity.
Qed.

Lemma of_Q_six : of_Q O (6 # 1) = six O.
Proof.
  unfold six, two. rewrite <- (of_Q_1 O T), <- !(of_Q_add O T). apply (of_Q_eq O T). reflexivity.
Qed.

Lemma two_neq_0 : two O <> 0.
Proof. rewrite <- of_Q_two. apply of_Q_neq_0. discriminate. Qed.
Lemma six_neq_0 : six O <> 0.
Proof. rewrite <- of_Q_six. apply of_Q_neq_0. discriminate. Qed.

(* ------------------------------------------------ vector algebra used by the bridge *)
Lemma vdivs_vscale a k v : vdivs O (vscale O a v) k = vscale O (a / k) v.
Proof.
  unfold vdivs, vscale. rewrite map_map. apply map_ext. intro x.
  rewrite !(Fdiv_def (Fth O T)). ring.
Qed.

(* the translated kernels are the classical formulas *)
Theorem gen_euler_is_euler f h t y : gen_euler_step O f h t y = euler_step O f h t y.
Proof. reflexivity. Qed.

Theorem gen_rk4_is_classical f h t y : gen_rk4_step O f h t y = rk4_step O f h t y.
Proof.
  unfold gen_rk4_step, rk4_step. cbv zeta.
  rewrite !vdivs_vscale, !of_Q_two, !of_Q_six. reflexivity.
Qed.

(* ------------------------------------------------ test equation y' = lambda y (dimension 1) *)
Definition lin (lam : F) : rhs O := fun _ y => map (fmul O lam) y.

Theorem euler_linear lam h t y :
  gen_euler_step O (lin lam) h t [y] = [y * (1 + h * lam)].
Proof. unfold gen_euler_step, lin. cbn. f_equal. ring. Qed.

Theorem rk4_linear lam h t y :
  let z := h * lam in
  gen_rk4_step O (lin lam) h t [y]
  = [y * (1 + z + z * z / two O + z * z * z / six O + z * z * z * z / (six O * (two O * two O)))].
Proof.
  intro z. unfold z. rewrite gen_rk4_is_classical. unfold rk4_step, lin. cbn. f_equal.
  unfold six, two. field. solve_nz.
Qed.

(* ------------------------------------------------ quadrature y' = p(t), deg p <= 3: Simpson, exact *)
Definition cubic (a b c d : F) : rhs O := fun t _ => [a + b * t + c * (t * t) + d * (t * t * t)].

Theorem rk4_quadrature a b c d h t y :
  let P := fun s => a * s + b * (s * s) / two O + c * (s * s * s) / (two O + 1) + d * (s * s * s * s) / (two O * two O) in
  gen_rk4_step O (cubic a b c d) h t [y] = [y + (P (t + h) - P t)].
Proof.
  intro P. unfold P. rewrite gen_rk4_is_classical. unfold rk4_step, cubic. cbn. f_equal.
  assert (H3 : two O + 1 <> 0).
  { replace (two O + 1) with (of_Q O (3 # 1)); [apply of_Q_neq_0; discriminate|].
    unfold two. rewrite <- (of_Q_1 O T), <- !(of_Q_add O T). apply (of_Q_eq O T). reflexivity. }
  unfold six, two. field. solve_nz.
Qed.

(* ------------------------------------------------ recurrence: row i is the i-fold iterate *)
Lemma iterate_steps_length (step : F -> list F -> list F) h t y n :
  length (iterate_steps O step h t y n) = S n.
Proof. revert t y; induction n as [|n IH]; intros t y; cbn; [reflexivity|]. rewrite IH. reflexivity. Qed.

Fixpoint time_at (t0 h : F) (i : nat) : F := match i with 0%nat => t0 | S i' => time_at (t0 + h) h i' end.

Lemma iterate_steps_row0 (step : F -> list F -> list F) h t y n d :
  nth 0 (iterate_steps O step h t y n) d = y.
Proof. destruct n; reflexivity. Qed.

Lemma iterate_steps_succ (step : F -> list F -> list F) h n : forall t y i d,
  i < n ->
  nth (S i) (iterate_steps O step h t y n) d
  = step (time_at t h i) (nth i (iterate_steps O step h t y n) d).
Proof.
  induction n as [|n IH]; intros t y i d Hi; [lia|]. cbn [iterate_steps].
  destruct i as [|i].
  - cbn [nth time_at]. rewrite iterate_steps_row0. reflexivity.
  - cbn [nth time_at]. apply IH. lia.
Qed.

Lemma time_at_affine t0 h i : time_at t0 h i = t0 + of_nat_F O i * h.
Proof.
  revert t0; induction i as [|i IH]; intro t0; cbn [time_at].
  - unfold of_nat_F. cbn. rewrite (of_Q_eq O T (inject_Z 0) 0%Q) by reflexivity. rewrite (of_Q_0 O T). ring.
  - rewrite IH. unfold of_nat_F.
    rewrite (of_Q_eq O T (inject_Z (Z.of_nat (S i))) (inject_Z (Z.of_nat i) + 1)%Q).
    + rewrite (of_Q_add O T), (of_Q_1 O T). ring.
    + rewrite Nat2Z.inj_succ. unfold Z.succ. rewrite inject_Z_plus. reflexivity.
Qed.

End Solvers.

(* ------------------------------------------------ Dormand-Prince tableau (finite, complete) *)
Local Open Scope Q_scope.

Definition qdot (a b : list Q) : Q := fold_right Qplus 0 (map (fun p => fst p * snd p) (combine a b)).
Definition qsumq (a : list Q) : Q := fold_right Qplus 0 a.
Definition qpow (a : list Q) (n : nat) : list Q := map (fun x => Qpower x (Z.of_nat n)) a.
Definition qmatvec (m : list (list Q)) (v : list Q) : list Q := map (fun r => qdot r v) m.
Definition qmul (a b : list Q) : list Q := map (fun p => fst p * snd p) (combine a b).

(* nodes c_i of the 7 stages and the 7x7 strictly lower triangular matrix A *)
Definition dp_c : list Q := 0 :: firstn 6 dp_alpha.
Definition dp_A : list (list Q) := [0;0;0;0;0;0;0] :: dp_beta.
Definition ones7 : list Q := [1;1;1;1;1;1;1].
Definition dp_b4 : list Q := map (fun p => fst p - snd p) (combine dp_c_sol dp_c_error).

Definition qeqb_list (a b : list Q) : bool :=
  (Nat.eqb (length a) (length b)) && forallb (fun p => Qeq_bool (fst p) (snd p)) (combine a b).

(* all 17 order conditions up to order 5 for the weights b (rooted trees of order <= 5) *)
Definition order5_conditions (b : list Q) : list (Q * Q) :=
  let c := dp_c in let A := dp_A in
  let Ac := qmatvec A c in let Ac2 := qmatvec A (qpow c 2) in let Ac3 := qmatvec A (qpow c 3) in
  let AAc := qmatvec A Ac in let AAc2 := qmatvec A Ac2 in let AAAc := qmatvec A AAc in
  let A_cAc := qmatvec A (qmul c Ac) in
  [ (qsumq b, 1);
    (qdot b c, 1#2);
    (qdot b (qpow c 2), 1#3); (qdot b Ac, 1#6);
    (qdot b (qpow c 3), 1#4); (qdot b (qmul c Ac), 1#8); (qdot b Ac2, 1#12); (qdot b AAc, 1#24);
    (qdot b (qpow c 4), 1#5); (qdot b (qmul (qpow c 2) Ac), 1#10); (qdot b (qmul c Ac2), 1#15);
    (qdot b (qmul c AAc), 1#30); (qdot b (qmul Ac Ac), 1#20); (qdot b Ac3, 1#20);
    (qdot b A_cAc, 1#40); (qdot b AAc2, 1#60); (qdot b AAAc, 1#120) ].

Definition order4_conditions (b : list Q) : list (Q * Q) := firstn 8 (order5_conditions b).

Definition all_hold (l : list (Q * Q)) : bool := forallb (fun p => Qeq_bool (fst p) (snd p)) l.

Lemma dp_order5 : all_hold (order5_conditions dp_c_sol) = true.
Proof. vm_compute. reflexivity. Qed.

Lemma dp_embedded_order4 : all_hold (order4_conditions dp_b4) = true.
Proof. vm_compute. reflexivity. Qed.

(* row sums: each node is the sum of its row (so that the stages are consistent in time) *)
Lemma dp_row_sums : qeqb_list (map qsumq dp_beta) (firstn 6 dp_alpha) = true.
Proof. vm_compute. reflexivity. Qed.

(* first-same-as-last: the last stage is evaluated at the new solution *)
Lemma dp_fsal : qeqb_list (nth 5 dp_beta []) dp_c_sol = true.
Proof. vm_compute. reflexivity. Qed.

(* the error weights sum to zero: a constant right-hand side has zero error estimate *)
Lemma dp_error_sum : Qeq_bool (qsumq dp_c_error) 0 = true.
Proof. vm_compute. reflexivity. Qed.

(* the mid-point weights sum to 1/2: the dense output is exact for constant slopes *)
Lemma dp_mid_sum : Qeq_bool (qsumq dp_c_mid) (1#2) = true.
Proof. vm_compute. reflexivity. Qed.
Local Close Scope Q_scope.

Section Dense.
Variable O : NumOps.
Variable T : NumTheory O.
Notation F := (F O).
Add Field Fd : (Fth O T).

Ltac solve_nz :=
  repeat split;
  match goal with
  | |- _ <> _ => apply (fpos_neq_0 O T); repeat first [apply (fpos_add O T) | apply (fpos_mul O T) | apply (fpos_1 O T)]
  end.

(* value and derivative of a*s^4 + b*s^3 + c*s^2 + d*s + e (jnp.polyval order) *)
Definition poly4 (co : F * F * F * F * F) (s : F) : F :=
  let '(a, b, c, d, e) := co in
  fadd O (fmul O (fadd O (fmul O (fadd O (fmul O (fadd O (fmul O a s) b) s) c) s) d) s) e.
Definition dpoly4 (co : F * F * F * F * F) (s : F) : F :=
  let '(a, b, c, d, e) := co in
  let two := fadd O (f1 O) (f1 O) in let three := fadd O two (f1 O) in let four := fadd O two two in
  fadd O (fmul O (fadd O (fmul O (fadd O (fmul O (fmul O four a) s) (fmul O three b)) s) (fmul O two c)) s) d.

(* the dense-output polynomial of an accepted step interpolates the step: it passes through
   y0, y1 and the mid-point value and has the right end slopes *)
Theorem dense_output_interpolates y0 y1 y_mid dy0 dy1 dt :
  let co := gen_fit_4th_order_polynomial O y0 y1 y_mid dy0 dy1 dt in
  poly4 co (f0 O) = y0 /\ poly4 co (f1 O) = y1
  /\ dpoly4 co (f0 O) = fmul O dt dy0 /\ dpoly4 co (f1 O) = fmul O dt dy1
  /\ poly4 co (fdiv O (f1 O) (fadd O (f1 O) (f1 O))) = y_mid.
Proof.
  assert (E2 : of_Q O (2 # 1) = fadd O (f1 O) (f1 O)) by exact (of_Q_two O T).
  assert (Hk : forall n : positive, of_Q O (Zpos n # 1) = fmul O (of_Q O (Zpos n # 1)) (f1 O)) by (intros; ring).
  assert (E : forall a b, of_Q O (a + b)%Q = fadd O (of_Q O a) (of_Q O b)) by exact (of_Q_add O T).
  assert (E1 : of_Q O 1%Q = f1 O) by exact (of_Q_1 O T).
  unfold gen_fit_4th_order_polynomial, poly4, dpoly4. cbv zeta.
  replace (of_Q O (3 # 1)) with (fadd O (fadd O (f1 O) (f1 O)) (f1 O))
    by (rewrite <- E1, <- !E; apply (of_Q_eq O T); reflexivity).
  replace (of_Q O (4 # 1)) with (fadd O (fadd O (f1 O) (f1 O)) (fadd O (f1 O) (f1 O)))
    by (rewrite <- E1, <- !E; apply (of_Q_eq O T); reflexivity).
  replace (of_Q O (5 # 1)) with (fadd O (fadd O (fadd O (f1 O) (f1 O)) (fadd O (f1 O) (f1 O))) (f1 O))
    by (rewrite <- E1, <- !E; apply (of_Q_eq O T); reflexivity).
  set (two := fadd O (f1 O) (f1 O)). set (four := fadd O two two). set (eight := fadd O four four).
  replace (of_Q O (8 # 1)) with eight by (unfold eight, four, two; rewrite <- E1, <- !E; apply (of_Q_eq O T); reflexivity).
  replace (of_Q O (16 # 1)) with (fadd O eight eight) by (unfold eight, four, two; rewrite <- E1, <- !E; apply (of_Q_eq O T); reflexivity).
  replace (of_Q O (32 # 1)) with (fadd O (fadd O eight eight) (fadd O eight eight))
    by (unfold eight, four, two; rewrite <- E1, <- !E; apply (of_Q_eq O T); reflexivity).
  replace (of_Q O (11 # 1)) with (fadd O eight (fadd O two (f1 O)))
    by (unfold eight, four, two; rewrite <- E1, <- !E; apply (of_Q_eq O T); reflexivity).
  replace (of_Q O (14 # 1)) with (fadd O eight (fadd O four two))
    by (unfold eight, four, two; rewrite <- E1, <- !E; apply (of_Q_eq O T); reflexivity).
  replace (of_Q O (18 # 1)) with (fadd O (fadd O eight eight) two)
    by (unfold eight, four, two; rewrite <- E1, <- !E; apply (of_Q_eq O T); reflexivity).
  rewrite E2. fold two.
  repeat split; unfold eight, four, two; try ring.
  field. solve_nz.
Qed.

End Dense.
