(* C05 on the model: the gather / mask / reshape bookkeeping of model_runner.py and
   get_force_of_infection compute  sum_j M[i,j] P_j(s) (/ N_j)  with P_j(s) the
   infectiousness-weighted infectious population of category j for strain s. *)
From Coq Require Import QArith Field Ring List String Bool Arith Lia.
Import ListNotations.
From S2 Require Import Base.Num Base.Arr Model.Expr Model.Struct Model.Rates
     Proofs.ArrLemmas Proofs.NumLemmas.
Local Open Scope nat_scope.
Local Notation length := List.length.

(* ---------------------------------------------------------------- list plumbing *)
Lemma filter_concat {A} (p : A -> bool) (rows : list (list A)) :
  filter p (List.concat rows) = List.concat (map (filter p) rows).
Proof. induction rows as [|r rows IH]; cbn; [reflexivity|]. rewrite filter_app, IH. reflexivity. Qed.

Lemma map_concat {A B} (g : A -> B) (rows : list (list A)) :
  map g (List.concat rows) = List.concat (map (map g) rows).
Proof. induction rows as [|r rows IH]; cbn; [reflexivity|]. rewrite map_app, IH. reflexivity. Qed.

Lemma concat_length_uniform {A} k (rows : list (list A)) :
  (forall r, In r rows -> length r = k) -> length (List.concat rows) = length rows * k.
Proof.
  induction rows as [|r rows IH]; intro H; cbn; [reflexivity|].
  rewrite app_length, (H r (or_introl eq_refl)), IH; [lia|]. intros r' Hr'. apply H. right; exact Hr'.
Qed.

Lemma chunk_fuel_concat {A} k (rows : list (list A)) fuel :
  0 < k -> (forall r, In r rows -> length r = k) -> length rows <= fuel ->
  chunk_fuel fuel k (List.concat rows) = rows.
Proof.
  intros Hk. revert fuel. induction rows as [|r rows IH]; intros fuel H Hf.
  - cbn. destruct fuel; reflexivity.
  - destruct fuel as [|fuel]; [cbn in Hf; lia|].
    assert (Hr : length r = k) by (apply H; left; reflexivity).
    assert (IH' : chunk_fuel fuel k (List.concat rows) = rows).
    { apply IH; [|cbn in Hf; lia]. intros r' Hr'. apply H. right; exact Hr'. }
    cbn [List.concat chunk_fuel]. destruct (r ++ List.concat rows) as [|a l] eqn:E.
    + destruct r; [cbn in Hr; lia|discriminate].
    + rewrite <- E.
      assert (E1 : firstn k (r ++ List.concat rows) = r).
      { rewrite firstn_app, Hr, Nat.sub_diag, firstn_O, app_nil_r. rewrite <- Hr. apply firstn_all. }
      assert (E2 : skipn k (r ++ List.concat rows) = List.concat rows).
      { rewrite skipn_app, Hr, Nat.sub_diag, skipn_O. rewrite <- Hr, skipn_all. reflexivity. }
      rewrite E1, E2, IH'. reflexivity.
Qed.

(* reshape((ncats, k)) of the flattened rows gives the rows back *)
Lemma chunk_concat {A} k (rows : list (list A)) :
  0 < k -> (forall r, In r rows -> length r = k) -> chunk k (List.concat rows) = rows.
Proof.
  intros Hk H. unfold chunk. apply chunk_fuel_concat; auto.
  rewrite (concat_length_uniform k rows H). nia.
Qed.

Lemma index_in_nth (idx : list nat) c :
  In c idx -> index_in idx c < length idx /\ nth (index_in idx c) idx 0 = c.
Proof.
  unfold index_in, index_of. intro Hin.
  assert (G : forall k, exists i, index_of_from (Nat.eqb c) idx k = Some (k + i) /\ i < length idx /\ nth i idx 0 = c).
  { induction idx as [|a idx IH]; [destruct Hin|]. intro k. cbn.
    destruct (Nat.eqb_spec c a) as [->|Hne].
    - exists 0. rewrite Nat.add_0_r. repeat split; cbn; lia.
    - destruct Hin as [->|Hin]; [congruence|].
      destruct (IH Hin (S k)) as [i [Ei [Hi Hn]]]. exists (S i). rewrite Ei.
      repeat split; [f_equal; lia | cbn; lia | exact Hn]. }
  destruct (G 0) as [i [Ei [Hi Hn]]]. rewrite Ei. cbn. auto.
Qed.

Section Foi.
Variable O : NumOps.
Variable T : NumTheory O.
Notation F := (F O).
Add Field Ffoi : (Fth O T).

(* looking a compartment up through the strain's infectious index and back *)
Lemma gather_local (x : list F) (idx : list nat) c :
  In c idx -> get_clamp (f0 O) (gather (f0 O) x idx) (index_in idx c) = get_clamp (f0 O) x c.
Proof.
  intro Hin. destruct (index_in_nth idx c Hin) as [Hlt Hn].
  rewrite get_clamp_lt by (rewrite gather_length; exact Hlt).
  rewrite nth_gather by exact Hlt. rewrite Hn. reflexivity.
Qed.

Lemma vmul_local (x w : list F) (idx : list nat) c :
  In c idx ->
  get_clamp (f0 O) (vmul O (gather (f0 O) x idx) (gather (f0 O) w idx)) (index_in idx c)
  = fmul O (get_clamp (f0 O) x c) (get_clamp (f0 O) w c).
Proof.
  intro Hin. destruct (index_in_nth idx c Hin) as [Hlt Hn].
  assert (L : length (vmul O (gather (f0 O) x idx) (gather (f0 O) w idx)) = length idx).
  { unfold vmul. rewrite zip_with_length, !gather_length. apply Nat.min_id. }
  rewrite get_clamp_lt by (rewrite L; exact Hlt).
  unfold vmul. rewrite (nth_zip_with (fmul O) _ _ _ (f0 O) (f0 O) (f0 O)) by (rewrite gather_length; exact Hlt).
  rewrite !nth_gather by exact Hlt. rewrite Hn. reflexivity.
Qed.

(* infectiousness-weighted infectious population of one category for one strain *)
Definition P_spec (x infness : list F) (inf_idx : list nat) (cat : list nat) : F :=
  fsum O (map (fun c => fmul O (get_clamp (f0 O) x c) (get_clamp (f0 O) infness c))
              (filter (fun c => existsb (Nat.eqb c) inf_idx) cat)).

Definition N_spec (x : list F) (cat : list nat) : F := fsum O (gather (f0 O) x cat).

(* the specification: sum_j M[i,j] P_j(s)  or  sum_j M[i,j] P_j(s)/N_j *)
Definition foi_spec (freq : bool) (mix : list (list F)) (x infness : list F) (cats : list (list nat)) (inf_idx : list nat) (i : nat) : F :=
  dot O (nth i mix []) (map (fun cat => if freq then fdiv O (P_spec x infness inf_idx cat) (N_spec x cat)
                                        else P_spec x infness inf_idx cat) cats).

(* the strain's category indexer (mask, localise, reshape) selects, for category j, exactly the
   strain's infectious compartments of category j: legal when every category holds the same
   number k >= 1 of them (what numpy's stack / reshape need) *)
Lemma strain_rows (cats : list (list nat)) (inf_idx : list nat) k :
  0 < k -> cats <> [] ->
  (forall cat, In cat cats -> length (filter (fun c => existsb (Nat.eqb c) inf_idx) cat) = k) ->
  let local := map (index_in inf_idx) (filter (fun j => existsb (Nat.eqb j) inf_idx) (List.concat cats)) in
  chunk (length local / length cats) local
  = map (fun cat => map (index_in inf_idx) (filter (fun c => existsb (Nat.eqb c) inf_idx) cat)) cats.
Proof.
  intros Hk Hne Hrows local. unfold local.
  rewrite filter_concat, map_concat, map_map.
  set (rows := map (fun cat => map (index_in inf_idx) (filter (fun c => existsb (Nat.eqb c) inf_idx) cat)) cats).
  assert (Hr : forall r, In r rows -> length r = k).
  { intros r Hin. unfold rows in Hin. apply in_map_iff in Hin. destruct Hin as [cat [<- Hc]].
    rewrite map_length. apply Hrows. exact Hc. }
  rewrite (concat_length_uniform k rows Hr).
  assert (Hl : length rows = length cats) by (unfold rows; apply map_length).
  rewrite Hl. rewrite (Nat.mul_comm (length cats) k), Nat.div_mul by (destruct cats; [congruence|cbn; lia]).
  apply chunk_concat; assumption.
Qed.

Lemma per_category_P (x infness : list F) (inf_idx cat : list nat) :
  fsum O (gather (f0 O) (vmul O (gather (f0 O) x inf_idx) (gather (f0 O) infness inf_idx))
                 (map (index_in inf_idx) (filter (fun c => existsb (Nat.eqb c) inf_idx) cat)))
  = P_spec x infness inf_idx cat.
Proof.
  unfold P_spec, gather. rewrite map_map. f_equal. apply map_ext_in. intros c Hc.
  apply filter_In in Hc. destruct Hc as [_ Hc]. apply existsb_exists in Hc. destruct Hc as [c' [Hin E]].
  apply Nat.eqb_eq in E. subst c'. apply vmul_local. exact Hin.
Qed.

(* get_force_of_infection with the indexers of the backend = the specification, per category *)
Theorem force_of_infection_spec freq (x infness : list F) (cats : list (list nat)) (inf_idx : list nat) (mix : list (list F)) k :
  0 < k -> cats <> [] ->
  (forall cat, In cat cats -> length (filter (fun c => existsb (Nat.eqb c) inf_idx) cat) = k) ->
  let local := map (index_in inf_idx) (filter (fun j => existsb (Nat.eqb j) inf_idx) (List.concat cats)) in
  force_of_infection O freq (gather (f0 O) x inf_idx) (gather (f0 O) infness inf_idx)
                     (chunk (length local / length cats) local) mix
                     (map (fun row => fsum O (gather (f0 O) x row)) cats)
  = map (fun i => foi_spec freq mix x infness cats inf_idx i) (seq 0 (length mix)).
Proof.
  intros Hk Hne Hrows local. unfold force_of_infection. subst local. rewrite (strain_rows cats inf_idx k Hk Hne Hrows).
  rewrite map_map.
  assert (EP : map (fun cat => fsum O (gather (f0 O) (vmul O (gather (f0 O) x inf_idx) (gather (f0 O) infness inf_idx))
                                     (map (index_in inf_idx) (filter (fun c => existsb (Nat.eqb c) inf_idx) cat)))) cats
               = map (P_spec x infness inf_idx) cats).
  { apply map_ext. intro cat. apply per_category_P. }
  rewrite EP.
  assert (Emat : forall v, matvec O mix v = map (fun i => dot O (nth i mix []) v) (seq 0 (length mix))).
  { intro v. unfold matvec. clear. induction mix as [|r mix IH]; [reflexivity|].
    cbn [map length seq nth]. f_equal. rewrite IH, <- seq_shift, map_map. reflexivity. }
  destruct freq; rewrite Emat; apply map_ext; intro i; unfold foi_spec; f_equal.
  - unfold vdiv, N_spec. clear. induction cats as [|c cats IH]; [reflexivity|]. cbn [map zip_with]. f_equal. exact IH.
Qed.

End Foi.

(* ---------------------------------------------------------------- on the backend of a model *)
Definition cat_members (m : model) (cat : strata) : list nat :=
  find_indices (fun c => forallb (fun kv => has_stratum c (fst kv) (snd kv)) cat) (m_comps m).

Lemma prepare_structural_foi_fields m b :
  prepare_structural m = Ok b ->
  b_pop_cat_indexer b = map (cat_members m) (m_mixcats m)
  /\ b_strain_infectious_idx b = map (strain_infectious_comps m) (m_strains m)
  /\ b_strain_category_idx b
     = map (fun inf_idx =>
              let local := map (index_in inf_idx) (filter (fun j => existsb (Nat.eqb j) inf_idx)
                                                          (List.concat (map (cat_members m) (m_mixcats m)))) in
              chunk (length local / length (m_mixcats m)) local)
           (map (strain_infectious_comps m) (m_strains m))
  /\ b_infect_cat_lookup b
     = map (fun i => match nth_error (m_flows m) i with
                     | Some f => match f_src f with Some s => category_of m s | None => 0 end
                     | None => 0 end) (kind_indices is_infection (m_flows m)).
Proof.
  unfold prepare_structural. intro H.
  repeat match type of H with
         | context [guard ?c _] => destruct c eqn:?; cbn [guard bind] in H; [|discriminate]
         end.
  unfold bind at 1 in H.
  match type of H with context [collect ?f ?l] => destruct (collect f l) as [sl|] eqn:Ecol; [|discriminate] end.
  repeat match type of H with
         | context [guard ?c _] => destruct c eqn:?; cbn [guard bind] in H; [|discriminate]
         end.
  injection H as <-. cbn. repeat split; try reflexivity.
  rewrite map_map. reflexivity.
Qed.

Section FoiModel.
Variable O : NumOps.
Variable T : NumTheory O.
Notation F := (F O).

(* C05: the multiplier of the r-th infection flow is the force of infection acting on the mixing
   category of its source for the strain of its destination *)
Theorem infectious_multiplier_spec (m : model) (b : backend) freq (p : env O) (t : F) (x : list F) r sk ck k :
  prepare_structural m = Ok b ->
  nth_error (b_infect_strain_lookup b) r = Some sk -> nth_error (b_infect_cat_lookup b) r = Some ck ->
  sk < length (m_strains m) -> ck < length (mixing_matrix O m p t x) ->
  0 < k -> m_mixcats m <> [] ->
  (forall cat, In cat (m_mixcats m) ->
     length (filter (fun c => existsb (Nat.eqb c) (strain_infectious_comps m (nth sk (m_strains m) EmptyString)))
                    (cat_members m cat)) = k) ->
  nth r (infectious_multipliers O m b freq p t x) (f0 O)
  = foi_spec O freq (mixing_matrix O m p t x) x (compartment_infectiousness O m p)
             (map (cat_members m) (m_mixcats m))
             (strain_infectious_comps m (nth sk (m_strains m) EmptyString)) ck.
Proof.
  intros Hb Hsk Hck Hsklt Hcklt Hk Hne Huni.
  destruct (prepare_structural_foi_fields m b Hb) as [E1 [E2 [E3 E4]]].
  unfold infectious_multipliers.
  assert (Hr1 : r < length (b_infect_strain_lookup b)) by (apply nth_error_Some; congruence).
  assert (Hr2 : r < length (b_infect_cat_lookup b)) by (apply nth_error_Some; congruence).
  rewrite (nth_zip_with _ _ _ r 0 0 (f0 O) Hr1 Hr2).
  rewrite (nth_error_nth _ _ 0 Hsk), (nth_error_nth _ _ 0 Hck).
  set (inf_idx := strain_infectious_comps m (nth sk (m_strains m) EmptyString)).
  (* the per-strain vector at position sk *)
  match goal with |- context [nth sk (map ?g0 (seq 0 (length (m_strains m)))) []] => set (gps := g0) end.
  rewrite (nth_indep _ [] (gps 0)) by (rewrite map_length, seq_length; exact Hsklt).
  rewrite (map_nth gps), seq_nth by exact Hsklt. cbn [Nat.add]. unfold gps. clear gps.
  assert (Einf : nth sk (b_strain_infectious_idx b) [] = inf_idx).
  { rewrite E2. unfold inf_idx.
    rewrite (nth_indep _ [] (strain_infectious_comps m EmptyString)) by (rewrite map_length; exact Hsklt).
    apply map_nth. }
  assert (Ecat : nth sk (b_strain_category_idx b) []
                 = let local := map (index_in inf_idx) (filter (fun j => existsb (Nat.eqb j) inf_idx)
                                                               (List.concat (map (cat_members m) (m_mixcats m)))) in
                   chunk (length local / length (map (cat_members m) (m_mixcats m))) local).
  { rewrite E3.
    set (g := fun inf_idx0 : list nat =>
                let local := map (index_in inf_idx0) (filter (fun j => existsb (Nat.eqb j) inf_idx0)
                                                             (List.concat (map (cat_members m) (m_mixcats m)))) in
                chunk (length local / length (m_mixcats m)) local).
    rewrite (nth_indep _ [] (g (strain_infectious_comps m EmptyString))) by (rewrite !map_length; exact Hsklt).
    rewrite (map_nth g), (map_nth (strain_infectious_comps m)). unfold g. fold inf_idx.
    rewrite (map_length (cat_members m) (m_mixcats m)). reflexivity. }
  rewrite Einf, Ecat, E1. cbv zeta.
  rewrite (force_of_infection_spec O freq x (compartment_infectiousness O m p)
             (map (cat_members m) (m_mixcats m)) inf_idx (mixing_matrix O m p t x) k Hk).
  - rewrite get_clamp_lt by (rewrite map_length, seq_length; exact Hcklt).
    match goal with |- context [nth ck (map ?g0 (seq 0 _)) (f0 O)] => set (gf := g0) end.
    rewrite (nth_indep _ (f0 O) (gf 0)) by (rewrite map_length, seq_length; exact Hcklt).
    rewrite (map_nth gf), seq_nth by exact Hcklt. reflexivity.
  - destruct (m_mixcats m); [congruence|discriminate].
  - intros cat Hin. apply in_map_iff in Hin. destruct Hin as [c0 [<- Hc0]]. apply Huni. exact Hc0.
Qed.

End FoiModel.

(* ---------------------------------------------------------------- Kronecker product and category order *)
Lemma nth_flat_map_uniform {A B} (g : A -> list B) (l : list A) k i1 i2 da d :
  (forall a, In a l -> length (g a) = k) -> i1 < length l -> i2 < k ->
  nth (i1 * k + i2) (flat_map g l) d = nth i2 (g (nth i1 l da)) d.
Proof.
  revert i1. induction l as [|a l IH]; intros i1 H H1 H2; [cbn in H1; lia|].
  cbn [flat_map]. destruct i1 as [|i1].
  - cbn [Nat.mul Nat.add nth]. rewrite app_nth1 by (rewrite (H a (or_introl eq_refl)); exact H2). reflexivity.
  - rewrite app_nth2 by (rewrite (H a (or_introl eq_refl)); cbn; lia).
    rewrite (H a (or_introl eq_refl)). replace (S i1 * k + i2 - k) with (i1 * k + i2) by (cbn; lia).
    cbn [nth]. apply IH; [intros a' Ha'; apply H; right; exact Ha' | cbn in H1; lia | exact H2].
Qed.

Section Kron.
Variable O : NumOps.
Notation F := (F O).

(* numpy.kron(a, b)[i1*rows(b) + i2][j1*cols(b) + j2] = a[i1][j1] * b[i2][j2] *)
Theorem kron_entry (a b : list (list F)) cb i1 i2 j1 j2 :
  (forall rb, In rb b -> length rb = cb) ->
  i1 < length a -> i2 < length b -> j1 < length (nth i1 a []) -> j2 < cb ->
  nth (j1 * cb + j2) (nth (i1 * length b + i2) (kron O a b) []) (f0 O)
  = fmul O (nth j1 (nth i1 a []) (f0 O)) (nth j2 (nth i2 b []) (f0 O)).
Proof.
  intros Hb H1 H2 H3 H4. unfold kron.
  rewrite (nth_flat_map_uniform _ a (length b) i1 i2 [] []); [|intros; apply map_length|exact H1|exact H2].
  set (ra := nth i1 a []) in *.
  rewrite (nth_indep _ [] ((fun rb => flat_map (fun x => map (fmul O x) rb) ra) [])) by (rewrite map_length; exact H2).
  rewrite (map_nth (fun rb => flat_map (fun x => map (fmul O x) rb) ra)).
  set (rb := nth i2 b []).
  assert (Lrb : length rb = cb) by (apply Hb; apply nth_In; exact H2).
  rewrite (nth_flat_map_uniform _ ra cb j1 j2 (f0 O) (f0 O)); [|intros; rewrite map_length; exact Lrb|exact H3|exact H4].
  rewrite (nth_indep _ (f0 O) (fmul O (nth j1 ra (f0 O)) (f0 O))) by (rewrite map_length, Lrb; exact H4).
  rewrite (map_nth (fmul O (nth j1 ra (f0 O)))). reflexivity.
Qed.

End Kron.

(* the mixing categories after one more stratification with a mixing matrix: category
   i_old * n + i_stratum is the old category extended by that stratum - the same mixed-radix order
   as the rows of the Kronecker product *)
Theorem mixcats_order (old : list strata) (sname : string) (strata_ : list string) i1 i2 :
  i1 < length old -> i2 < length strata_ ->
  nth (i1 * length strata_ + i2) (flat_map (fun mc => map (fun st => mc ++ [(sname, st)]) strata_) old) []
  = nth i1 old [] ++ [(sname, nth i2 strata_ EmptyString)].
Proof.
  intros H1 H2.
  rewrite (nth_flat_map_uniform _ old (length strata_) i1 i2 [] []); [|intros; apply map_length|exact H1|exact H2].
  rewrite (nth_indep _ [] ((fun st => nth i1 old [] ++ [(sname, st)]) EmptyString)) by (rewrite map_length; exact H2).
  rewrite (map_nth (fun st => nth i1 old [] ++ [(sname, st)])). reflexivity.
Qed.
