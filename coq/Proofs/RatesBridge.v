(* The index arithmetic of get_comp_rates, for a model without infection flows, is "inflow minus outflow" of the
   documented laws (ni_rate) over compartment identities: the bridge between C01 and the statements of C03. *)
From Coq Require Import QArith Field Ring List String Bool Arith Lia.
Import ListNotations.
From S2 Require Import Base.Num Base.Arr Model.Expr Model.Struct Model.Rates Model.Program Spec.RatesSpec
     Proofs.ArrLemmas Proofs.NumLemmas Proofs.BuildProofs Proofs.WeightProofs Proofs.RatesProofs Proofs.ConservationProofs
     Proofs.InvarianceProofs Proofs.AggregateRates Proofs.AggregateTotals Proofs.AggregateAll.
Local Open Scope nat_scope.
Local Notation length := List.length.

Lemma map_enumerate {A B} (h : nat * A -> B) (h' : A -> B) (l : list A) (d : A) :
  (forall j, j < length l -> h (j, nth j l d) = h' (nth j l d)) -> map h (enumerate l) = map h' l.
Proof.
  intro H. destruct l as [|a0 l0] eqn:El; [reflexivity|]. rewrite <- El in *.
  apply (nth_ext _ _ (h (0, d)) (h' d)).
  - rewrite !map_length. unfold enumerate. apply enumerate_from_length.
  - intros j Hj. rewrite map_length in Hj. unfold enumerate in *. rewrite enumerate_from_length in Hj.
    rewrite (map_nth h), (map_nth h'), (nth_enumerate_from 0 l j d Hj). cbn [Nat.add]. apply H. exact Hj.
Qed.

Lemma comp_index_eqb cs d s dflt : NoDup cs -> In d cs -> s < length cs ->
  Nat.eqb (comp_index cs d) s = comp_eqb d (nth s cs dflt).
Proof.
  intros Hnd Hd Hs. destruct (Nat.eqb (comp_index cs d) s) eqn:E.
  - apply Nat.eqb_eq in E. subst s. symmetry. apply comp_eqb_spec. symmetry. apply comp_index_correct. exact Hd.
  - destruct (comp_eqb d (nth s cs dflt)) eqn:E2; [|reflexivity].
    apply comp_eqb_spec in E2. subst d. rewrite (comp_index_nth cs s dflt Hnd Hs) in E. rewrite Nat.eqb_refl in E. discriminate.
Qed.

Section Bridge.
Variable O : NumOps.
Variable T : NumTheory O.
Notation F := (F O).
Add Field Fbr : (Fth O T).

Variables (M : model) (b : backend) (p : env O) (t : F) (x0 : list F).
Hypothesis Hb : prepare_structural M = Ok b.
Hypothesis W : wf M.
Hypothesis Hnd : NoDup (m_comps M).
Hypothesis Hni : forall f, In f (m_flows M) -> is_infection (f_kind f) = false.

Lemma ni_rate_is_law muls j f : is_infection (f_kind f) = false ->
  flow_rate_spec O M p t (vclean O x0) muls j f = ni_rate O p t M (vclean O x0) f.
Proof.
  intro H. unfold flow_rate_spec, ni_rate, frac_rate, flow_law. destruct (f_kind f); cbn in H; try discriminate; reflexivity.
Qed.

Theorem comp_rates_are_net_rates s dflt : s < length (m_comps M) ->
  nth s (get_comp_rates O M b p t x0) (f0 O)
  = net_rate O (ni_rate O p t M (vclean O x0)) (m_flows M) (nth s (m_comps M) dflt).
Proof.
  intro Hs. unfold get_comp_rates.
  rewrite (comp_rates_spec O T M b _ Hb (get_flow_rates_length O M b p t x0 Hb)).
  rewrite (nth_indep _ (f0 O) (comp_rate_spec O M (get_flow_rates O M b p t x0) 0)) by (rewrite map_length, seq_length; exact Hs).
  rewrite (map_nth (comp_rate_spec O M (get_flow_rates O M b p t x0))), seq_nth by exact Hs. cbn [Nat.add].
  unfold comp_rate_spec, net_rate.
  assert (Hrate : forall j, j < length (m_flows M) ->
             nth j (get_flow_rates O M b p t x0) (f0 O) = ni_rate O p t M (vclean O x0) (nth j (m_flows M) dflow)).
  { intros j Hj. rewrite (flow_rate_nth O T M b p t x0 Hb j Hj). apply ni_rate_is_law. apply Hni. apply nth_In. exact Hj. }
  f_equal; f_equal; apply (map_enumerate _ _ _ dflow); intros j Hj; cbn [fst snd].
  - destruct (f_dst (nth j (m_flows M) dflow)) as [d|] eqn:Ed; [|reflexivity].
    rewrite (comp_index_eqb (m_comps M) d s dflt Hnd) by
      (try exact Hs; apply (proj1 (wf_flows M W (nth j (m_flows M) dflow) (nth_In _ _ Hj))); right; exact Ed).
    rewrite (Hrate j Hj). reflexivity.
  - destruct (f_src (nth j (m_flows M) dflow)) as [d|] eqn:Ed; [|reflexivity].
    rewrite (comp_index_eqb (m_comps M) d s dflt Hnd) by
      (try exact Hs; apply (proj1 (wf_flows M W (nth j (m_flows M) dflow) (nth_In _ _ Hj))); left; exact Ed).
    rewrite (Hrate j Hj). reflexivity.
Qed.

End Bridge.
